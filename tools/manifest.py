#!/usr/bin/env python3
"""regenerate MANIFEST.json from the table below (claimed properties) + properties.jsonl"""
import json, subprocess
CLAIMS = {
 "C08": dict(
   text="Refinement proof (Lean 4, unbounded): every transaction program in every mode over every snapshot produces exactly the outputs of the overlay-stack specification (C08_program_refines), plus read-your-writes, savepoint restore, rollback, mode table and commit order/effect theorems; the model is a literal port of the write-set machine and is run against the real Transaction API on thousands of generated programs per check.",
   note="Trusted: Lean kernel + axioms propext/Classical.choice/Quot.sound; the hand transcription of src/transaction.rs into Skv/Model/Txn.lean, validated only by differential runs; Snapshot::get and the commit pipeline verdict are parameters (C01/C04).",
   technique="Lean 4 refinement proof + differential correspondence (model/spec/implementation)", ref="DESIGN.md §6 C08"),
 "C12": dict(
   text="Proof (Lean 4, every block size, checksum function and record list): the reader inverts the writer (C12_roundtrip), also across any close/reopen split (C12_resume), repair is idempotent, keeps exactly the readable prefix and appends after it read back (C12_repair_*, C12_append_after_repair). The byte-exact model is tied to the real Wal/Reader/repair by file-hash equality and by reading every generated truncation / bit-flip / byte-overwrite / recovery flow with both. Truncation- and damage-prefix behaviour is validated by that sweep, not yet proved (partial).",
   note="Trusted: Lean kernel + standard axioms; transcription of src/wal/{writer,reader,manager,recovery}.rs; CRC-32 detects the applied damage (evaluated per input); LZ4 opaque and not exercised; constants BLOCK_SIZE/HEADER_SIZE/record types regenerated from src/wal/mod.rs on every run.",
   technique="Lean 4 proof (round trip, resume, repair) + byte-exact differential sweep of truncation/damage", ref="DESIGN.md §6 C12"),
 "C04": dict(
   text="Invariant proof (Lean 4) over the oracle transition system for every GC interval and every sequence of commits and failed commits: an accepted conflict check never overlooks a live batch stamped after the checker began (C04_check_sound), two live batches sharing a key never overlap in time (C04_first_committer_wins), rollback of a failed batch preserves this (C04_rollback_preserves), GC never prunes the window of a registered transaction (C04_gc_safe). No-false-abort is proved for traces without failed commits (_partial); the remaining false-abort after two failed in-flight commits on one key is a recorded known finding with a kernel-checked witness. The model is run against the real CommitOracle on thousands of pipeline-shaped op strings incl. GC bursts.",
   note="Trusted: Lean kernel + standard axioms; transcription of src/oracle.rs; atomicity of check+allocate+publish under write_mutex is an assumption of the oracle model (the pipeline's schedule-level behaviour belongs to C05); fingerprint collisions only add conflicts.",
   technique="Lean 4 invariant proof over a transition system + differential correspondence with the real CommitOracle", ref="DESIGN.md §6 C04"),
 "C05": dict(
   text="Invariant proof (Lean 4) over the commit-pipeline transition system whose steps are the code's statements between yield points, for every number of threads, batch sizes and every interleaving: the horizon is monotone (C05_visible_mono), publication is FIFO and only of applied batches (C05_publish_fifo), the horizon is never strictly inside a batch (C05_horizon_on_batch_boundary), queued batches are invisible (C05_queued_invisible), every non-failed batch at or below the horizon is completely applied (C05_atomic_partial), a commit reports ok only once the horizon covers it (C05_ok_implies_visible). Failed batches are the excluded family: their applied prefix becomes visible (kernel-checked witness, known finding shared with C15). The model is replayed against the real CommitPipeline under controlled schedules at the verif_yield! points.",
   note="Trusted: Lean kernel + standard axioms; transcription of src/commit.rs; atomicity of one step between yield points; tokio primitives by documented semantics; the schedule controller. Partial: real-thread races finer than the yield granularity are not exhibited.",
   technique="Lean 4 invariant proof over an interleaving transition system + schedule-controlled differential correspondence", ref="DESIGN.md §6 C05"),
 "C17": dict(
   text="Invariant proof (Lean 4, every thread count and interleaving, all failure branches): with the permit owned by the batch object the commit ring never overflows and the overflow panic is unreachable (C17_queue_never_overflows, via the permit-ownership invariant PermInv), for any permit count not above the ring size (constants regenerated). The schedule that overflowed before the fix is replayed in the kernel and on the real pipeline. Liveness (every call returns, close returns) is checked per explored schedule by a deterministic drain with a watchdog, not proved: partial.",
   note="Trusted: Lean kernel + standard axioms; transcription of src/commit.rs; tokio Semaphore/oneshot semantics; schedule controller. Not modelled yet: write-stall controller, TaskManager, close(); real-runtime starvation cannot be exhibited by the model.",
   technique="Lean 4 invariant proof (permit ownership) + schedule-controlled differential correspondence with hang/panic watchdog", ref="DESIGN.md §6 C17"),
 "C15": dict(
   text="Proof (Lean 4) at the pipeline level: a commit refused by the conflict check changes nothing observable (C15_refused_commit_leaves_no_trace); after any failure (conflict, WAL error, apply error at any entry, in any interleaving) all pipeline invariants still hold, so later commits keep the C05/C17 guarantees (C15_pipeline_survives); the first completion of a batch wins, so a failed batch is never reported committed. The statement 'no write of a failed commit becomes visible' is false of the code for apply failures after a prefix: kernel-checked witness, known finding. Store-level faults are not yet covered: partial.",
   note="Trusted: Lean kernel + standard axioms; transcription of the failure branches of src/commit.rs; mock environment in the correspondence run. Not covered yet: WAL writer state after a failed append, sticky background errors, arena poisoning.",
   technique="Lean 4 invariant proof over failure branches + schedule-controlled fault-injection correspondence", ref="DESIGN.md §6 C15"),
 "C01": dict(
   text="Proof (Lean 4, every version list, snapshot set, level and configuration): per-key compaction never changes what a registered snapshot reads (C01_compaction_stable, from compactKey_reads_ok), later commits are invisible to a reader, the counted snapshot tracker keeps every live reader's horizon registered however many readers share it (C01_tracker_covers_live_readers), the component search returns the newest visible version for newest-first components. The per-key rule is a literal port and is compared exhaustively (<=3/4 versions, all snapshot subsets) with the real CompactionIterator; whole histories with shared-start readers and rotation/flush/compaction/reopen placements run on a real Tree against the map specification. Three genuine defects found by this check were repaired (fix: commits).",
   note="Trusted: Lean kernel + standard axioms; transcription of process_accumulated_versions and of the tracker; the k-way merge and table selection are covered by the differential runs only; the begin-vs-compaction-capture race and thread interleavings inside one step are not explored (partial).",
   technique="Lean 4 proof of the per-key compaction rule + exhaustive function-level and store-level differential correspondence", ref="DESIGN.md §6 C01"),
 "C06": dict(
   text="Proof (Lean 4): compaction preserves the answer of every later reader at every level and configuration (C06_compaction_tip: a dropped tombstone at the last level never lets an older value reappear), keeps the newest version above the last level (C06_nonbottom_keeps_newest), invents nothing (sublist); rearrangements that move whole components (rotation, flush, reopen) leave the flattened version list and hence every answer unchanged. Tied to the code by the exhaustive per-key correspondence and by store-level histories whose physical placements vary while answers are judged against the placement-free specification.",
   note="Trusted: Lean kernel + standard axioms; transcription of the per-key rule; compaction table selection, range-skip predicates and cache transparency are validated by the store stream, not proved (partial).",
   technique="Lean 4 proof of placement-independence per key + metamorphic/store-level differential correspondence", ref="DESIGN.md §6 C06"),
 "C02": dict(
   text="Invariant proof (Lean 4, every run of commits, rotations, flushes and WAL clean-ups): under H_noStraddle every acknowledged batch is in what recovery rebuilds from a process-crash image (C02_acked_survive_process_crash_partial), via the pairing invariant between WAL segments, memtables and the manifest log_number; record-level framing, repair and append-after-reopen come from the C12 theorems. The excluded family (rotation between a batch's WAL append and the end of its apply) is a genuine defect: kernel-checked witness, deterministic replay on the real store, known finding. Crash images at every yield point inside commit / rotation / flush / manifest replacement / compaction are reopened with the real TreeBuilder.",
   note="Trusted: Lean kernel + standard axioms; record-level transcription of the flush / WAL clean-up / replay protocol; process-crash model only — power loss (fsync facts) is neither modelled nor explored yet: partial.",
   technique="Lean 4 invariant proof over a durable-state machine + crash-image enumeration at yield points", ref="DESIGN.md §6 C02"),
 "C03": dict(
   text="Proof (Lean 4): under H_noStraddle what recovery rebuilds is exactly the set of batches whose WAL record was written — a prefix of the commit order containing every acknowledged batch and at most the one in flight (C03_recovered_is_prefix_partial, C03_unacked_at_most_one_partial); a batch is one WAL record, read back whole or not at all (C12). Crash images inside commit, flush, manifest replacement and compaction (between output write, manifest switch and input unlink) must scan to the state before or after the interrupted transaction.",
   note="Trusted: as C02. Compaction's effect on contents is C01/C06's theorem; its crash-atomicity (single manifest switch) is validated by the images, not proved. Power loss not covered: partial.",
   technique="Lean 4 invariant proof (prefix consistency of the durable-state machine) + crash-image enumeration", ref="DESIGN.md §6 C03"),
 "C07": dict(
   text="Proof (Lean 4, record level): everything recovered lies below the next sequence/batch number, so commits after reopening are ordered after everything recovered (C07_recovered_below_next_partial); clean-up after recovery does not change what a second recovery rebuilds (C07_recover_after_cleanup). Reopen itself is exercised: every crash image and every clean close at level shapes produced by flush/compaction is opened, written to, closed and opened again with the real TreeBuilder; two genuine load-time defects (bogus manifest validations) found this way were repaired.",
   note="Trusted: as C02; the manifest validations are exercised, not modelled; reopening with a different option set and crashes inside recovery itself are not explored yet: partial.",
   technique="Lean 4 invariant proof (sequence floor, idempotent recovery) + reopen of crash/clean images on the real store", ref="DESIGN.md §6 C07"),
 "C09": dict(
   text="Proof (Lean 4, all sorted key lists and tombstone patterns): the forward positioning loop of the transaction range cursor lands on exactly the least live key >= the frontier of the write-set-over-snapshot overlay, in a state satisfying the forward invariant (C09_position_to_min), hence seek_first and seek(target) are exact (C09_seek_first, C09_seek). next / prev / seek_last and the direction-change prologue are validated, not proved: every generated cursor program (direction reversals at every position, bounds present/absent/empty/inverted, keys spread over write set, memtables and tables on several levels) is compared call by call with the executable model and with the list-cursor specification on the real stack. Four genuine defects found by this check were repaired.",
   note="Trusted: Lean kernel + standard axioms; transcription of TransactionRangeIterator; the snapshot-side stack (SnapshotIterator, KMergeIterator, table and memtable cursors) is assumed to be a list cursor in the model and only exercised by the correspondence: partial.",
   technique="Lean 4 refinement proof of the merge positioning loop + call-by-call differential correspondence of cursor programs", ref="DESIGN.md §6 C09"),
 "C19": dict(
   text="Invariant proof (Lean 4) over the interleaved micro-steps (begin, tryLock, touch, finishOpen, beginClose, release, crash) of any number of openers in any order: at most one opener is ever live — recovering, open or still closing (C19_at_most_one_live); every mutation of the directory in any run was made by the lock owner of that moment (C19_touch_only_by_owner); an attempt made while another opener is live fails and changes neither data, LOCK content nor ownership (C19_refused_open_pure), and an open is refused only by a live store (C19_refused_only_by_live); after the owner's close or death the next attempt succeeds (C19_reopen_after_close / _crash). Tied to the code by pausing the real build()/close() at yield points while other threads and child processes try to open, with byte identity of the directory checked after every refused attempt and the acquire/touch/release trace of every call compared with the model. One genuine defect (refused open truncated LOCK) was repaired.",
   note="Trusted: Lean kernel + standard axioms; flock(2) semantics; the hand-written step order of open/close (checked by trace comparison on every run, not derived); same Options for all openers; races finer than the yield points inside LockFile::acquire (open-then-lock) are covered by the OS lock, not by the model.",
   technique="Lean 4 invariant proof over an interleaving transition system + pause-point differential correspondence across threads and processes", ref="DESIGN.md §6 C19"),
}
props = [json.loads(l) for l in open('/verif/properties.jsonl')]
hooks = subprocess.run(["git", "-C", "/repo", "log", "--format=%h %s"], capture_output=True, text=True).stdout.splitlines()
hook_commits = [l.split()[0] for l in hooks if l.split(" ", 1)[1].startswith("verif-hooks")]
m = {
 "version": 1,
 "setup_cmd": "cd /verif/lean && lake build && cd /verif/harness && (cp -n /repo/Cargo.lock Cargo.lock; CARGO_NET_OFFLINE=true cargo build --release --offline)",
 "hooks": {"guard": "verif-hooks (cargo feature)",
           "enable": "the harness crate depends on surrealkv (path /repo) with features=[\"verif-hooks\"]; equivalent to cargo build --features verif-hooks",
           "baseline_off_cmd": "cd /repo && (cargo nextest run --workspace --no-fail-fast --tool-config-file pb:/w/lib/nextest.toml --profile pb --test-threads 8 --offline || cargo test --workspace --no-fail-fast --offline)",
           "source_commits": hook_commits, "add_only": True},
 "engines": [{"name": "skv-lean", "path": "lean", "serves_properties": sorted(CLAIMS), "kind_free_text": "Lean 4 models, specifications, theorems; compiled line-protocol driver skvdrv"},
             {"name": "skv-harness", "path": "harness", "serves_properties": sorted(CLAIMS), "kind_free_text": "Rust differential harness driving the real crate in-process (feature verif-hooks)"}],
 "checks": [],
 "notes": "Technique: machine-checked proof in Lean 4 over hand-written executable models, tied to /repo by a constants translator and a differential correspondence run on every check (DESIGN.md). Known findings and fixed defects: known_findings.txt.",
 "not_applicable": [],
}
for p in props:
    pid = p['id']
    if pid in CLAIMS:
        c = CLAIMS[pid]
        m["checks"].append({
            "property_id": pid, "quick_cmd": f"./check {pid} --tier quick", "thorough_cmd": f"./check {pid} --tier thorough",
            "evidence_file": f"evidence/{pid}.json", "replay_cmd_template": f"./check {pid} --replay {{path}}", "engine": "skv-lean",
            "level_claimed": {"category": "proof", "text": c["text"], "design_ref": c["ref"]},
            "level_note": c["note"], "technique": c["technique"]})
    else:
        m["not_applicable"].append({"property_id": pid, "reason": "not yet claimed: model/theorems under construction (DESIGN.md §8 construction order); the technique applies"})
json.dump(m, open('/verif/MANIFEST.json', 'w'), indent=1)
print("claimed:", sorted(CLAIMS))
