#!/bin/bash
# apply seeded/<ID>/patch.diff to /repo (3-way if needed), run the given checks (default: <ID>), undo.
ID=$1; shift; CHECKS=${@:-$ID}
cd /repo || exit 1
if [ -n "$(git status --porcelain)" ]; then echo "/repo not clean"; exit 2; fi
P=/verif/seeded/$ID/patch.diff; [ -f /verif/seeded/$ID/patch.rebased.diff ] && P=/verif/seeded/$ID/patch.rebased.diff
if ! git apply $P 2>/dev/null; then
  git apply --3way $P >/dev/null 2>&1 || { echo "patch $ID does not apply"; git checkout -- .; git reset -q; exit 3; }
  git reset -q
  # keep a rebased copy for later runs
  git diff > /verif/seeded/$ID/patch.rebased.diff
fi
cd /verif
for c in $CHECKS; do ./check $c 2>&1 | grep -E "VIOLATION|KNOWN|^check "; done
cd /repo && git checkout -- . && git reset -q
[ -z "$(git status --porcelain)" ] && echo "repo restored"
