"""Per-property configuration of ./check."""


def _c08_nontrivial(lines):
    # a program with a pending write, a savepoint and a partial rollback after it
    sp = False
    wrote = False
    for l in lines:
        w = l.split(" ")[0]
        if w in ("set", "del", "sdel", "rep"):
            wrote = True
        elif w == "sp":
            sp = True
        elif w == "rbsp" and sp and wrote:
            return True
    return False


def pattern_judge(op, impl, spec):
    """spec is a pattern: `name=value` exact, `name=*` wildcard, `k>=m` lower bound"""
    if impl == spec:
        return True
    iv = dict(t.split("=", 1) for t in impl.split() if "=" in t)
    for tok in spec.split():
        if ">=" in tok:
            n, v = tok.split(">=")
            if n not in iv or not iv[n].isdigit() or int(iv[n]) < int(v):
                return False
        elif "=" in tok:
            n, v = tok.split("=", 1)
            if v == "*":
                if n not in iv:
                    return False
            elif iv.get(n) != v:
                return False
        else:
            return False
    return True


def _c13_judge(op, impl, spec):
    if impl.startswith(("err", "PANIC")) or impl == "bad-op":
        return False
    if spec == "*":
        return True
    if "=" in spec and " " in spec or spec.startswith("mc="):
        return pattern_judge(op, impl, spec)
    return impl == spec


def _c16_judge(op, impl, spec):
    if spec in ("*", "-"):
        return not impl.startswith(("PANIC", "err:", "bad-op"))
    if impl.endswith(" H=manifest") and not impl.startswith(("PANIC", "bad-op")):
        # the manifest is not among the files the property names (table, commit-log, value-log files): an altered
        # manifest is executed and counted (outside_H_manifest), its outcome - also different data - is not judged
        return True
    return impl.split(" H=")[0] in ("same", "err-open", "err-read", "skip")


def _c12_nontrivial(lines):
    # a case with a multi-block (fragmented) record or several sessions, and damage/truncation ops
    sess = [l for l in lines if l.startswith("session")]
    big = any(int(t.split(":")[0]) > 32000 for l in sess for t in l.split()[1:])
    return (big or len(sess) > 1) and any(l.split(" ")[0] in ("trunc", "flip", "setb", "recover") for l in lines)


def c05_judge(op, impl, spec):
    """pipeline observations: `atomic` (per-batch all-or-nothing below the horizon, failed commits invisible, horizon
    never inside a batch), `vis>=N` (horizon monotone), `nohang`, `nopanic`; `*` accepts anything"""
    if "HANG" in impl or "PANIC" in impl or impl.startswith("err") or impl == "bad-op":
        return False
    if spec in ("*",):
        return True
    if spec == "-":
        return impl == "-"
    iv = dict(t.split("=", 1) for t in impl.split() if "=" in t)
    for tok in spec.split():
        if tok == "atomic":
            if "vis" not in iv or "parts" not in iv:
                return False
            v = int(iv["vis"])
            if iv["parts"] != "-":
                for part in iv["parts"].split(";"):
                    rng, kc, status = part.split(":")
                    f, l = (int(x) for x in rng.split("-"))
                    k, c = (int(x) for x in kc.split("/"))
                    if l <= v:
                        if status == "failed":
                            if k != 0:
                                return False
                        elif k != c:
                            return False
                    elif f <= v:
                        return False
        elif tok.startswith("vis>="):
            if "vis" not in iv or int(iv["vis"]) < int(tok[5:]):
                return False
        elif tok in ("nohang", "nopanic"):
            pass
        elif tok == "fcw":
            # first committer wins over the commit log start/keys/first/result
            if "log" not in iv:
                return False
            recs = []
            if iv["log"] != "-":
                for r in iv["log"].split(";"):
                    st, ks, f, res = r.split("/")
                    recs.append((int(st), set(ks.split(".")), None if f == "-" else int(f), len(ks.split(".")), res))
            oks = [r for r in recs if r[4] == "ok" and r[2] is not None]
            for a in oks:
                for b in oks:
                    if a[2] < b[2] and (a[1] & b[1]):
                        # b committed after a on a shared key: b must have begun at/after a's last seq
                        if b[0] < a[2] + a[3] - 1:
                            return False
            # no false abort (without injected failures in the log): a conflict needs a successful later-stamped writer
            if not any(r[4].startswith("err") for r in recs):
                for r in recs:
                    if r[4] == "conflict" and not any((o[1] & r[1]) and o[2] + o[3] - 1 > r[0] for o in oks):
                        return False
        else:
            return False
    return True


def _c05_nontrivial(lines):
    # at least two commits in flight and at least one probe
    return sum(l.startswith("begin") for l in lines) >= 2 and any(l.startswith("probe") for l in lines)


def _ckey_judge(field):
    # spec column = verdict of the Lean specification on the implementation's own output
    def j(op, impl, spec):
        if spec == "-":
            return impl == "-"
        return (field + "=ok") in spec.split()
    return j


def _store_nontrivial(lines):
    # an overwrite/delete of a key while a reader is open, and a compaction
    opened = False
    wrote = set()
    over = False
    comp = False
    for l in lines:
        w = l.split(" ")
        if w[0] == "begin":
            opened = True
        elif w[0] == "txn":
            for x in w[1:]:
                k = x.split("=")[0]
                if k in wrote and opened:
                    over = True
                wrote.add(k)
        elif w[0] == "compact":
            comp = True
    return over and comp


_LOCKORDER_STREAM = {"name": "lockorder", "harness": "locks", "driver": "locks", "quick_cases": 70, "thorough_cases": 2000,
                     "nontrivial": lambda lines: any(l.startswith("pair") and l.split()[1] != l.split()[2] for l in lines),
                     "judge": pattern_judge, "timeout": 3000}
_CKEY_STREAM = {"name": "ckey", "harness": "ckey", "driver": "ckey", "judge_driver": "ckey-judge",
                "quick_cases": 100000, "thorough_cases": 100000, "nontrivial": lambda lines: len(lines) > 16}
_STORE_STREAM = {"name": "store", "harness": "store", "driver": "store", "quick_cases": 150, "thorough_cases": 3000,
                 "nontrivial": _store_nontrivial, "timeout": 3000}

class _CrashJudge:
    """judge of crash images.  Stateful per case (rows are fed in order from the `case` line): it keeps the write
    transactions seen so far, so that an image taken after a batch straddled a memtable rotation (`H=straddle`, the
    known finding) is still judged: it must be the expected state with, at most, a suffix of THAT batch's writes
    missing — losing anything else is a violation like any other."""

    def __init__(self, strict):
        self.strict = strict
        self.reset()

    def reset(self):
        self.txns = []          # list of write lists [(key_hex, value_hex or None)]
        self.straddles = []     # indices into self.txns

    @staticmethod
    def _render(m):
        if not m:
            return "-"
        return ",".join(f"{k}={v}" for k, v in sorted(m.items(), key=lambda kv: bytes.fromhex(kv[0])))

    def _allowed(self):
        """states reachable when the single straddling batch lost a suffix of its writes; the newest transaction may
        also be absent (image taken inside its commit)"""
        out = set()
        k = self.straddles[0]
        n = len(self.txns[k])
        for last in (len(self.txns), len(self.txns) - 1):
            for j in range(n + 1):
                m = {}
                for i, ws in enumerate(self.txns[:max(last, 0)]):
                    for (key, val) in (ws[:j] if i == k else ws):
                        if val is None:
                            m.pop(key, None)
                        else:
                            m[key] = val
                out.add(self._render(m))
        return out

    def __call__(self, op, impl, spec):
        w = op.split()
        base = w[0].split("@")[0] if w else ""
        if base == "case":
            self.reset()
        if "PANIC" in impl:
            return False
        straddled_now = " S=straddle" in impl
        impl = impl.replace(" S=straddle", "")
        if base == "txn":
            ws = []
            for t in w[1:]:
                key, val = t.split("=", 1)
                ws.append((key, None if val in ("DEL", "SDEL") else val))
            self.txns.append(ws)
            if straddled_now:
                self.straddles.append(len(self.txns) - 1)
        if base in ("reopen", "crashtear"):
            if base == "crashtear" and self.txns:
                self.txns.pop()     # the torn transaction is gone
            # a clean close (or the recovery after the tear) flushes/replays everything: earlier straddles are settled
            self.straddles = [] if base == "reopen" else [k for k in self.straddles if k < len(self.txns)]
        if "H=nothing-to-tear" in impl:
            return True              # the tear found an already flushed log: the rest of the case is not comparable
        outside = " H=" in impl
        body = impl.split(" H=")[0]
        if body == spec or body == "img=none":
            return True
        if spec.startswith("img="):
            iv = dict(t.split("=", 1) for t in body.split() if "=" in t)
            sv = dict(t.split("=", 1) for t in spec.split() if "=" in t)
            if iv.get("img") in sv["img"].split("|") and iv.get("re") == "ok":
                return True
            if outside and not self.strict:
                # known-finding family: only (a suffix of) the straddling batch may be missing
                if len(self.straddles) != 1:
                    return True      # several straddles in one case: not analysed (counted as outside H)
                return iv.get("re") == "ok" and iv.get("img") in self._allowed()
        return False


def _crash_judge(strict):
    return _CrashJudge(strict)


_CRASH_STREAM = {"name": "crash", "harness": "crash", "driver": "store", "quick_cases": 80, "thorough_cases": 1500,
                 "judge": _crash_judge(False), "finding_judge": _crash_judge(True), "model_is_spec": True,
                 "nontrivial": lambda lines: sum("@" in l.split(" ")[0] or l == "crash" for l in lines) >= 3,
                 "timeout": 3000}
_CRASH_RULE = ("workloads of write transactions (1-8 writes, values up to 900 bytes, deletes) on a real Tree with 1-3 levels, "
               "memtables of 16 KiB - 1 MiB (write-heavy cases fill the memtable so that rotation happens inside a commit), "
               "value log on/off; the directory is copied (process-crash image) at operation boundaries and at the n-th yield point "
               "INSIDE commit, rotation, flush, manifest replacement and compaction (yield points at every file-system boundary "
               "of those operations); every image is opened with the real TreeBuilder, scanned (must equal the state before or "
               "after the interrupted transaction, all acknowledged commits included), written to, closed cleanly, opened again "
               "and scanned again; the process may also die with the last commit's record half written (torn tail: crashtear), after "
               "which the store is reopened (repair) and the workload continues; images taken after a batch straddled a memtable "
               "rotation (fixed: 3449869) are judged like any other; non-trivial = at least 3 crash images; distinct = distinct op lists")
_CRASH_ASSUME = ["process-crash model only: every completed write is kept; power loss (unsynced data lost, namespace operations "
                 "undone) is not explored by this check and not modelled by the theorems (partial)",
                 "crash instants are the yield points (file-system boundaries of the engine operations), not arbitrary byte "
                 "positions inside one write; torn records are covered by C12's sweep"]

PROPS = {
    "C08": {
        "lean": ["Skv.Props.C08"],
        "audit": "Skv/Audit/C08.lean",
        "streams": [
            {"name": "txnprog", "harness": "c08", "driver": "c08", "quick_cases": 4000, "thorough_cases": 80000,
             "nontrivial": _c08_nontrivial},
        ],
        "rule": "random transaction programs (1-40 ops quick, 1-60 thorough) over 1-4 keys from a pool with prefix-related, "
                "0x00/0xff and empty keys, all three modes, nested savepoints, explicit timestamps, conflicting commits of "
                "other transactions, commit/rollback, then a fresh reader; non-trivial = contains a pending write, a "
                "set_savepoint and a later rollback_to_savepoint; distinct = distinct op sequences",
        "assumptions": [
            "Snapshot::get is a parameter of the C08 model (decided by C01); the commit pipeline's verdict is an input (C04)",
            "the harness drives the public Tree/Transaction API single-threaded",
        ],
        "trusted_base": ["modelled, not verified: every Rust function body of src/transaction.rs (write, get_with_options, "
                         "set_savepoint, rollback_to_savepoint, rollback, commit's batch construction)"],
    },
    "C12": {
        "lean": ["Skv.Props.C12"],
        "audit": "Skv/Audit/C12.lean",
        "streams": [
            {"name": "framing", "harness": "c12", "driver": "c12", "quick_cases": 60, "thorough_cases": 600,
             "nontrivial": _c12_nontrivial, "judge": pattern_judge},
        ],
        "rule": "segments written by the real Wal in 1-3 sessions of 1-4 records (lengths aimed at the block arithmetic: "
                "0..8 bytes left before a 32 KiB boundary, exactly one block, 1-1.5 blocks, small), then 120 (quick) / 400 "
                "(thorough) reads of the file cut at / damaged at offsets concentrated on record ends, fragment headers "
                "(type byte: every bit, 0x00, 0xff, 0x09) and block boundaries, and recovery flows (cut, read, repair on "
                "corruption, reopen, append, read); file bytes compared by length+hash with the model's encoding; "
                "non-trivial = multi-block record or several sessions, with damage ops; distinct = distinct op lists",
        "assumptions": [
            "CRC-32 detects the single-byte damage applied (evaluated on every damaged input: a miss shows up as impl != spec)",
            "LZ4 is not exercised (compression None); the model keeps it as an opaque parameter",
        ],
        "trusted_base": ["modelled, not verified: Writer::add_record/emit_physical_record, Reader::next/read, "
                         "Wal::create_writer (block_offset = len % BLOCK_SIZE), repair_corrupted_wal_segment",
                         "proved for every block size 7 < B <= 65542 and every checksum function; truncation / damage "
                         "prefix behaviour is validated by the sweep, not yet a theorem"],
    },
    "C04": {
        "lean": ["Skv.Props.C04"],
        "audit": "Skv/Audit/C04.lean",
        "streams": [
            {"name": "oracle", "harness": "c04", "driver": "c04", "quick_cases": 3000, "thorough_cases": 60000,
             "nontrivial": lambda lines: any(l.startswith("fail") for l in lines) and sum(l.startswith("commit") for l in lines) >= 2},
            # the real CommitPipeline under schedules (shared harness with C05), judged on first-committer-wins only
            {"name": "pipeline", "harness": "c05", "driver": "c05", "quick_cases": 300, "thorough_cases": 4000,
             "nontrivial": _c05_nontrivial,
             "judge": lambda op, impl, spec: (c05_judge(op, impl, "fcw") if "fcw" in spec.split()
                                              else not ("PANIC" in impl or "HANG" in impl or impl == "bad-op"))},
        ],
        "rule": "pipeline-shaped operation strings on the real CommitOracle: commits (check + seq allocation + publish) over 1-3 keys "
                "with starts aimed at stamps of earlier commits, rollbacks of live batches, pure probes, bursts of 1000-1100 filler "
                "commits crossing the GC interval with watermarks chosen to pin/unpin the window, restore resets; every verdict "
                "compared with the model and with the first-committer-wins specification over the list of live batches; "
                "non-trivial = at least two commits and one rollback; distinct = distinct op lists",
        "assumptions": [
            "check + sequence allocation + publish form one atomic step of the oracle model (they run under write_mutex in "
            "CommitPipeline::commit); the real pipeline's adherence to that is checked by the `pipeline` stream: schedules of "
            "begin / commit steps at the verif_yield! points with conflicting keys, judged on first-committer-wins",
            "xxh3 fingerprints of the test keys do not collide (a collision could only add conflicts)",
        ],
        "trusted_base": ["modelled, not verified: CommitOracle::{check,publish,rollback,reset_for_restore}; GC interval regenerated from src/oracle.rs"],
    },
    "C05": {
        "lean": ["Skv.Props.C05"],
        "audit": "Skv/Audit/C05.lean",
        "streams": [
            {"name": "pipeline", "harness": "c05", "driver": "c05", "quick_cases": 400, "thorough_cases": 6000,
             "nontrivial": _c05_nontrivial, "judge": c05_judge},
            # store level: a committer inside the real apply (batch added to the active memtable under its read lock) against
            # rotation + flush of the pending memtables, every interleaving of the stops after the nested lock acquisitions;
            # the committed keys must all be readable afterwards
            _LOCKORDER_STREAM,
        ],
        "rule": "(lockorder) as C17: pairs of real store operations incl. commit vs rotate+flush under every interleaving, with a read-back of "
                "the committed keys before and after a full flush. (pipeline) the real CommitPipeline over a mock environment, 2-4 (thorough 2-6) committer threads held at the crate's "
                "verif_yield! points and at per-entry gates inside apply; random schedules of begin/step/probe (10-60 ops, "
                "<= 7 commits, 1-3 entries on 3 keys, injected WAL failures and apply failures after a prefix) followed by a "
                "deterministic drain; after every step the yield point reached and the horizon are compared with the model, "
                "every probe (horizon + per-batch applied counts + failure flags) is judged against atomic visibility; "
                "non-trivial = at least two commits and one probe; distinct = distinct op lists",
        "assumptions": [
            "steps between two yield points are atomic in the model; races inside one step (e.g. inside the ring-buffer CAS loop) are not explored",
            "memtable apply is represented by the mock environment's per-entry record (the real MemTable::add is covered by C01/C06)",
        ],
        "trusted_base": ["modelled, not verified: CommitPipeline::{commit,publish}, CommitQueue, CommitBatch; tokio Semaphore / oneshot by their documented semantics",
                         "the schedule controller (harness/src/sched.rs)"],
    },
    "C17": {
        "lean": ["Skv.Props.C17"],
        "audit": "Skv/Audit/C17.lean",
        "streams": [
            {"name": "overflow", "harness": "c05", "driver": "c05", "quick_cases": 300, "thorough_cases": 5000,
             "gen_args": ["--mode", "overflow"], "nontrivial": _c05_nontrivial,
             "judge": lambda op, impl, spec: not ("PANIC" in impl or "HANG" in impl or impl == "bad-op")},
            # store level: two real operations (iterator state, flush of one immutable memtable, memtable rotation, compaction
            # manifest update) stopped after every nested lock acquisition, under every interleaving of those stops
            _LOCKORDER_STREAM,
            # write-stall wait: committers inside the real WriteStallController::check advanced from pause point to pause point
            # against stall / clear / signal / shutdown; "blocked" is observed exactly (hand-polled future, waker not called)
            {"name": "stallwait", "harness": "stall", "driver": "stall", "quick_cases": 1500, "thorough_cases": 60000,
             "nontrivial": lambda lines: any(l.startswith("await") for l in lines) and any(l in ("clear", "signal", "shutdown") for l in lines)},
            # store level, default stall thresholds: commits interleaved with checkpoints (foreground flushes); every call returns
            {"name": "bgwork", "harness": "bgwork", "driver": "bgwork", "quick_cases": 40, "thorough_cases": 600,
             "nontrivial": lambda lines: sum(l == "ckpt" for l in lines) >= 3, "timeout": 3000},
        ],
        "rule": "(bgwork) a real Tree with the default stall thresholds (L0: 12 tables, compaction trigger 4) and a 16/64 KiB memtable: "
                "30-160 (thorough 40-400) commits of 1-60 keys interleaved with create_checkpoint (after every 2nd to 9th commit), point reads "
                "and reopen; every call must return within 20 s and answer like the map. (stallwait) 3 committers in WriteStallController::check, 8-30 (thorough 8-60) steps per case over register / read / "
                "await of a committer and stall / clear / signal / shutdown of the environment, half of them the natural next step "
                "of a random committer, 8% possibly inapplicable; every step's outcome (reg, wait/ok/err, woken/blocked, noop) "
                "compared with the model, and `blocked` with the specification (only while a signal is owed or the condition "
                "holds). (overflow) the real CommitPipeline over a mock environment under controlled schedules (as C05) with up to 14 commits per "
                "case and a high rate of injected WAL/apply failures, so that failed batches pile up behind unapplied ones and "
                "permits run out; every step is compared with the model, a thread that would block on the semaphore is observed "
                "through available_permits; a panic or a call that does not return within 5 s is a violation; the drain at the "
                "end of each case must return every call; non-trivial = at least two commits and a probe",
        "assumptions": [
            "liveness of the commit pipeline is proved for the model (progress, bounded work, every call returns under a scheduler "
            "that keeps choosing an enabled thread) and observed on the real pipeline as 'the deterministic drain returns every call' "
            "per explored schedule; fairness of the tokio scheduler and real-time starvation are not modelled (partial)",
            "the write-stall wait is modelled at the level of the controller (generation reading of tokio's Notify: a Notified future "
            "created before a notify_waiters call is woken by it — trusted); that the flush / compaction / close paths call "
            "signal_work_done / signal_shutdown after every change is observed by the store-level streams of C01/C06/C15, not proved",
            "TaskManager wake-ups are not in the model: their hang-freedom is not claimed by the theorems",
        ],
        "trusted_base": ["modelled, not verified: CommitPipeline (incl. the permit-with-batch flow control), tokio Semaphore semantics",
                         "the schedule controller (harness/src/sched.rs)"],
    },
    "C19": {
        "lean": ["Skv.Props.C19"],
        "audit": "Skv/Audit/C19.lean",
        "streams": [
            {"name": "openers", "harness": "c19", "driver": "c19", "quick_cases": 250, "thorough_cases": 4000,
             "nontrivial": lambda lines: any(l.startswith(("open", "spawn")) for l in lines[2:]) and
                                          any("@" in l or l.startswith(("kill", "pexit", "drop")) for l in lines),
             "judge": pattern_judge, "timeout": 1800},
        ],
        "rule": "up to four openers of one directory — threads of the harness process whose real TreeBuilder::build / Tree::close "
                "calls are paused at the yield points inside open (after the lock, after manifest load, after recovery) and inside "
                "close (after WAL close, after WAL clean-up, after directory sync, i.e. just before the release) while the others "
                "try to open, and child processes that close cleanly, exit without closing or are SIGKILLed; every refused attempt "
                "is checked for byte identity of the whole directory tree (names and contents, LOCK included); every call's trace of "
                "lock-acquire / data-touch / lock-release events seen on its thread is compared with the model's program order; "
                "puts and gets through the current owner check the data survives the hand-overs; non-trivial = a case with a "
                "second opener attempt and a paused call or an abnormal end",
        "assumptions": [
            "flock(2) semantics are trusted (one exclusive holder per file; dropped on close of the description and on process death)",
            "all openers of a case use the same Options (an opener with other options creates its missing sub-directories before the "
            "lock is tried; not judged)",
            "a dropped handle closes asynchronously: 'can be opened again' is judged after the spawned close() has finished",
        ],
        "trusted_base": ["modelled, not verified: the step order inside CoreInner::new / Core::new / Core::close (hand-written programs "
                         "openProg / closeProg, compared with the yield-point trace of every call), LockFile::acquire/release",
                         "the OS advisory lock"],
    },
    "C13": {
        "lean": ["Skv.Props.C13"],
        "audit": "Skv/Audit/C13.lean",
        "streams": [
            {"name": "tables", "harness": "c13", "driver": "c13", "quick_cases": 150, "thorough_cases": 3000,
             "nontrivial": lambda lines: any(l.startswith("layout") and (";" in l or "/" in l) for l in lines) and
                                          any(l.startswith("cur") and l.split()[1:] != ["-", "-"] for l in lines),
             "judge": _c13_judge, "timeout": 1800},
        ],
        "rule": "entry sets (1-24 user keys from a pool with 0x00/0xff-terminated keys, prefix chains and 8-60-byte shared prefixes; "
                "1-14 versions per key incl. seq 0 and MAX_SEQ; empty, short, 60-400-byte and pointer-shaped values) written by the real "
                "TableWriter under block size {32..4096} x restart interval {1,2,3,4,16} x index partition size {20,64,256,16384} x "
                "{none, snappy} x filter on/off; the physical layout read back through the real index and block readers is checked "
                "well-formed and its separators are recomputed by the model; every Table::get for stored and absent keys at, just above "
                "and just below every stored seq, every step of bounded cursor programs (all nine bound-kind pairs, complete forward and "
                "backward passes, random first/last/next/prev/seek), every filter probe and key-range shortcut is compared with the model "
                "run over that layout and with the flat-list specification; non-trivial = more than one block and a bounded cursor",
        "assumptions": [
            "seek(target) is exercised with targets inside the lower bound (a seek below the lower bound is outside the cursor contract)",
            "byte encodings (prefix compression, varints, trailer, footer), Snappy and the bloom hash are exercised end to end but not modelled",
        ],
        "trusted_base": ["modelled, not verified: TableIterator / Table::get / IndexIterator / BlockIterator::seek_internal control flow, "
                         "comparator separator/successor, key-range predicates (hand transcription into Skv/Model/Sst.lean, SstSep.lean)",
                         "the layout dump hook (src/verif.rs sstable::Tbl::layout) reads through the same block readers it describes"],
    },
    "C16": {
        "lean": ["Skv.Props.C16", "Skv.Props.C12"],
        "audit": "Skv/Audit/C16.lean",
        "streams": [
            {"name": "tablefile", "harness": "c16", "driver": "c16", "quick_cases": 25, "thorough_cases": 120,
             "nontrivial": lambda lines: sum(1 for l in lines if l.startswith("flip")) > 300,
             "judge": _c16_judge, "timeout": 3000},
            {"name": "storedir", "harness": "c16s", "driver": "c16s", "quick_cases": 12, "thorough_cases": 18,
             "nontrivial": lambda lines: sum(1 for l in lines if l.startswith("alter")) > 50,
             "judge": _c16_judge, "model_is_spec": True, "timeout": 3000},
            # commit-log segments: the byte-exact WAL model of C12 (cuts, bit flips and byte overwrites concentrated on
            # record headers and block boundaries; the reader must return a correct prefix and an error, never other records)
            {"name": "walsegment", "harness": "c12", "driver": "c12", "quick_cases": 40, "thorough_cases": 400,
             "nontrivial": _c12_nontrivial, "judge": pattern_judge},
        ],
        "rule": "(tablefile) table files written by the real TableWriter (block size {64..4096} x restart interval x partition size x "
                "{none, snappy} x filter on/off): one bit of every byte (quick; every bit of every byte in the thorough tier), byte "
                "overwrites with 0x00/0xff/0x80/0x01 and 12 truncations per file; the altered file is opened from disk with the real "
                "reader and every stored key (newest snapshot), two absent keys, a complete forward and a complete backward scan are "
                "compared with the pristine answers; outcome classes same / err-open / err-read / DIFFERENT / PANIC; the model predicts "
                "the class from the byte region (dumped from the real file and checked to tile it); (storedir) database directories "
                "built by generated workloads (flushes, live commit log, value log on/off) copied while open; one bit or byte of one "
                "table / commit-log segment / value-log file / manifest altered per run, the image opened with TreeBuilder "
                "(AbsoluteConsistency, value-log verification Full), every key read by get twice in the same open store (the second pass meets the caches the first one filled; a failed read does not end the pass) and then scanned: every read that succeeds must give the pristine answer; non-trivial = a case with "
                "hundreds (table) / dozens (store) of alterations",
        "assumptions": [
            "CRC-32 detects the generated alterations (single bit, single byte): assumed in C16_block_guard, observed for every generated input",
            "manifest alterations are executed and counted (outside_H_manifest) but not judged: the property names table, commit-log and value-log files",
            "commit-log damage is judged in AbsoluteConsistency mode (the default mode repairs by cutting the log: covered by C12)",
            "hangs are bounded by scan step limits; a blocking call would stall the run until the stream timeout",
        ],
        "trusted_base": ["modelled, not verified: the block container format (payload, type byte, masked CRC) and which blocks are read at open "
                         "versus on demand; footer handles, block contents, value-log and manifest formats are swept, not modelled"],
    },
    "C18": {
        "lean": ["Skv.Props.C18"],
        "audit": "Skv/Audit/C18.lean",
        "streams": [
            {"name": "bptree", "harness": "c18", "driver": "c18", "quick_cases": 80, "thorough_cases": 1500,
             "nontrivial": lambda lines: sum(1 for l in lines if l.startswith("del")) >= 5 and
                                          sum(1 for l in lines if l.startswith("reopen")) >= 2 and
                                          any(l.startswith("ins") and int(l.split()[1].split(":")[1]) > 500 for l in lines),
             "timeout": 3000},
        ],
        "rule": "operation sequences (30-260 quick, up to 600 thorough: insert / overwrite / delete / get / bounded range / full forward "
                "and backward iterator scan) over 8-220 skewed keys of 2, 4-44 and 600-4200 bytes with values of 0, 1-200 and 3000-12000 "
                "bytes, under the bytewise and the version (timestamp) key order, on the real disk B+tree; the tree is closed and reopened "
                "at arbitrary points and audited by a walk over the whole file (total pages = header + nodes + overflow pages + trunk "
                "pages + free pages, no page owned twice, free-page count, leaf chain = leaves in tree order, key order and separator "
                "bounds in every node); every answer is compared with the Lean model tree (splits under its own policy) and with the "
                "ordered-map specification; non-trivial = deletes, reopens and multi-page keys in one case",
        "assumptions": [
            "keys of one id have one length per case (two byte strings of the same id never coexist); in version order the sequence/kind "
            "bytes of the encoded key are constant (keys that compare equal are byte-identical)",
        ],
        "trusted_base": ["modelled, not verified: the node-level algorithm (routing, insertion with splits, leaf deletion, leaf rebalancing, "
                         "overflow slots); byte-size split/merge decisions, internal-node rebalancing, page codecs and the free-list "
                         "allocator are exercised and audited, not modelled",
                         "the audit walk hook (src/bplustree/tree.rs verif_audit) reads through the same node readers it checks"],
    },
    "C10": {
        "lean": ["Skv.Props.C10"],
        "audit": "Skv/Audit/C10.lean",
        "streams": [
            dict(_CKEY_STREAM, judge=_ckey_judge("hist"), gen_args=["--versioning", "1"]),
            {"name": "history", "harness": "c10", "driver": "c10", "quick_cases": 400, "thorough_cases": 8000,
             "judge": lambda op, impl, spec: (" H=" in impl and not impl.startswith(("err", "PANIC"))) or impl == spec,
             "nontrivial": lambda lines: sum(1 for l in lines if l.startswith("hist")) >= 3 and
                                          any(l.startswith(("del", "repl")) for l in lines) and
                                          any(l.startswith(("flush", "reopen")) for l in lines),
             "timeout": 3000},
        ],
        "rule": "(ckey) EXHAUSTIVE per-key compaction with versioning: every version list of one key with up to 3 (quick) / 4 (thorough) "
                "versions over {set, hard delete, soft delete, replace}, every subset of snapshot horizons, last level or not, retention "
                "unlimited and finite under a fixed clock, fed to the real CompactionIterator; its output is judged by the Lean "
                "specification (every non-expired retained version of every observer survives, nothing erased returns, the newest barrier "
                "stays above the last level); (history) timestamped sets / soft deletes / hard deletes / replaces (timestamps strictly "
                "increasing per key, replace stamped by a settable store clock) on a real Tree with versioning, B+tree version index on or "
                "off; get_at at arbitrary timestamps and history over key ranges with tombstones on/off, timestamp ranges, limits, "
                "complete forward and backward traversals, before and after flush and reopen; every answer compared with the model of "
                "the iterator loop and with the property; cases with automatic compaction enabled are executed and counted but not judged "
                "after their first flush (the compaction family is the first stream's)",
        "assumptions": [
            "timestamps strictly increase per key (equal timestamps make get_at and the two back-ends disagree: a further family, not exercised)",
            "crash images at the flush boundaries of the version index and finite retention at store level are not exercised yet (partial)",
        ],
        "trusted_base": ["modelled, not verified: HistoryIterator::skip_to_valid_forward, Snapshot::get_at, process_accumulated_versions "
                         "(versioning branches); backward traversal is compared with the reverse of the forward model; the B+tree "
                         "back-end is exercised, its map refinement is C18's"],
    },
    "C14": {
        "lean": ["Skv.Props.C14"],
        "audit": "Skv/Audit/C14.lean",
        "streams": [
            {"name": "restore", "harness": "c14", "driver": "c14", "quick_cases": 200, "thorough_cases": 3000,
             "nontrivial": lambda lines: any(l.startswith("restore") for l in lines) and
                                          any(l.startswith(("flush", "compact")) for l in lines) and
                                          any(l.startswith(("race", "snapread", "reopen", "crashscan")) for l in lines),
             "model_is_spec": True, "timeout": 3000},
        ],
        "rule": "histories on a real Tree (3 levels, L0 limit 1, 256-byte blocks, value log on/off with a 64-byte threshold and 2 KiB "
                "value-log files): write transactions (1-3 writes, values of 1-30 and 200-900 bytes, deletes), flushes and compaction "
                "rounds before the checkpoint, between checkpoint and restore (new tables and value-log files under higher ids) and after "
                "the restore (table and value-log ids are reused); after every restore: scans and gets, two overlapping read-modify-write "
                "transactions (the second must be refused), a reader spanning a commit, further commits, flush, compaction, clean reopen; "
                "the checkpoint directory opened standalone; in a third of the cases the asynchronous WAL clean-up of a flush made just "
                "before the restore is held back until after a post-restore commit, and a process-crash image is then opened; every "
                "answer compared with the key-value specification (restore = the remembered state); non-trivial = a restore with "
                "table-creating operations and a post-restore guarantee probe",
        "assumptions": [
            "the checkpoint is taken while no commit is in flight (as the property states); versioning / version index on are not exercised here",
        ],
        "trusted_base": ["modelled, not verified: the id-keyed block cache and the id counter rewind of restore (Skv/Model/Restore.lean); "
                         "the value-log reload, sequence / oracle reset and manifest reload are exercised by the stream only"],
    },
    "C11": {
        "lean": ["Skv.Props.C11"],
        "audit": "Skv/Audit/C11.lean",
        "streams": [
            dict(_STORE_STREAM, name="values", gen_args=["--mode", "c11"], quick_cases=200, thorough_cases=3000),
            dict(_CRASH_STREAM, gen_args=["--vlog", "1"]),
        ],
        "rule": "(values) store-level histories with the value log on: separation threshold 0 or 64, value-log files of 256 / 512 / 4096 bytes "
                "(rotation inside one flush), values of length 0, t-1, t, t+1, 2000-5000 and 1-300 bytes, overwrites and deletes that make "
                "files obsolete, readers opened back to back and kept open across memtable rotation, flush, compaction rounds (each followed "
                "by the value-log clean-up) and reopen, every read compared byte for byte with the placement-free specification; after every "
                "compaction and at the end a walk over all live tables checks that every value pointer leads to an existing file at or "
                "above the table's recorded oldest id and the manifest minimum; (crash) the crash-image stream of C02 restricted to cases "
                "with the value log on (images inside flush at the value-log file-creation yield points included)",
        "assumptions": [
            "power loss (value-log data not yet synced when the table that points to it is installed) is not modelled nor explored: partial",
            "encoding of pointers / entries and their damage detection are C16's streams",
        ],
        "trusted_base": ["modelled, not verified: the oldest-file bookkeeping of TableWriter, LevelManifest::min_oldest_vlog_file_id and "
                         "VLog::cleanup_obsolete_files (Skv/Model/VlogGc.lean); separation, rotation and value resolution are exercised "
                         "by the stream only",
                         "the pointer walk hook (src/verif.rs store::vlog_audit)"],
    },
    "C15": {
        "lean": ["Skv.Props.C15"],
        "audit": "Skv/Audit/C15.lean",
        "streams": [
            {"name": "faults", "harness": "c05", "driver": "c05", "quick_cases": 300, "thorough_cases": 5000,
             "nontrivial": lambda lines: any(l.startswith("begin") and (l.split()[3] == "1" or l.split()[4] != "-") for l in lines)
                                          and any(l.startswith("probe") for l in lines),
             "judge": c05_judge},
            # the admission check of a batch (can_hold), the certain-fit arena size and a real insertion into an empty memtable
            {"name": "arena", "harness": "arena", "driver": "arena", "quick_cases": 4000, "thorough_cases": 60000,
             "judge": pattern_judge, "model_is_spec": True,
             "nontrivial": lambda lines: any(l.startswith("probe") and len(l.split()) > 3 for l in lines)},
            # store level: transactions at and beyond the memtable capacity among ordinary ones, crash images, reopen
            _CRASH_STREAM,
        ],
        "rule": "(faults) the real CommitPipeline under controlled schedules with injected WAL failures and apply failures after a prefix "
                "(mock environment), probes after every few steps: a failed commit must leave none of its entries visible and "
                "later commits must behave as the model says; non-trivial = case with at least one injected failure and a probe. "
                "(arena) batches of 1-12 (thorough 1-40) sets, keys 8-40 bytes, values 0-60 or 200-3000 bytes, against an empty memtable whose "
                "capacity sits below the all-shortest-towers limit, at it, between the limits, exactly at / one below the all-full-towers "
                "limit, or above: MemTable::can_hold and MemTable::arena_size_for must equal the model's fitsEmpty / arenaSizeFor (node sizes "
                "read from the code), a refused batch must fail its real insertion, a batch given its certain-fit size must succeed. "
                "(crash) see C02: includes transactions larger than the memtable (refused with BatchTooLarge before the WAL), "
                "transactions at the capacity limit and many-entry transactions at the limit; a refused commit must be invisible, "
                "later commits accepted, every crash image must reopen with all acknowledged commits",
        "assumptions": [
            "file-level faults (short write, ENOSPC, EIO, fsync error) inside the WAL writer are not injected by this check (partial); "
            "the failure branches are driven through the mock environment of the pipeline stream",
        ],
        "trusted_base": ["modelled, not verified: CommitPipeline failure branches; the mock environment stands for WAL and memtable",
                         "arena accounting: node sizes are read from the code through the hook, the bump-allocator arithmetic is transcribed"],
    },
    "C01": {
        "lean": ["Skv.Props.C01"],
        "audit": "Skv/Audit/C01.lean",
        "streams": [dict(_CKEY_STREAM, judge=_ckey_judge("reads")), _STORE_STREAM],
        "rule": "(ckey) EXHAUSTIVE: every version list of one key with up to 3 (quick) / 4 (thorough) versions over kinds "
                "{set, hard delete, soft delete, replace}, every subset of snapshot horizons interleaved with the versions, "
                "bottom / non-bottom, fed to the real CompactionIterator (versions spread over two in-memory tables) and to "
                "compactKey; outputs compared entry for entry and judged by the Lean specification readsOK; "
                "(store) random histories on a real Tree: write transactions over 2-6 keys (prefix-related, 0x00/0xff), up to 4 "
                "concurrent readers incl. readers sharing a start point, gets and forward/backward scans, with memtable rotation, "
                "flush, compaction rounds and reopen placed between any two operations, 1-4 levels (max_bytes_for_level=1 so that "
                "data is pushed to the last level), value log on/off; every answer compared with the map specification; "
                "non-trivial = overwrite/delete while a reader is open plus a compaction; distinct = distinct op lists",
        "assumptions": [
            "k-way merge order and grouping by user key are exercised by the correspondence only (two sources per key)",
            "the begin (load horizon, then register) vs. compaction snapshot-capture race is not explored by this check",
        ],
        "trusted_base": ["modelled, not verified: CompactionIterator::process_accumulated_versions, SnapshotTracker, Snapshot::get's component order"],
    },
    "C06": {
        "lean": ["Skv.Props.C06"],
        "audit": "Skv/Audit/C06.lean",
        "streams": [dict(_CKEY_STREAM, judge=_ckey_judge("reads")), _STORE_STREAM],
        "rule": "same two streams as C01: exhaustive per-key compaction inputs judged by readsOK (which includes the observer "
                "'every later reader'), and store-level histories whose placements of rotation / flush / compaction / reopen vary "
                "with the seed while the logical history is judged against the placement-free map specification",
        "assumptions": [
            "table selection for compaction (select_tables_for_compaction, overlapping ranges) and range-skip predicates are "
            "covered by the store stream only, not by a theorem yet",
            "block-cache transparency is exercised (cache on) but not varied or proved here (see C14 for id reuse)",
        ],
        "trusted_base": ["modelled, not verified: CompactionIterator::process_accumulated_versions; components as value lists"],
    },
    "C02": {
        "lean": ["Skv.Props.C02"], "audit": "Skv/Audit/C02.lean", "streams": [_CRASH_STREAM],
        "rule": _CRASH_RULE, "assumptions": _CRASH_ASSUME,
        "trusted_base": ["modelled, not verified: WAL append / rotate_memtable / flush_immutable_to_sst / cleanup_old_segments / "
                         "Core::new replay, at record granularity (Skv/Model/Durable.lean); byte-level framing is C12's model"],
    },
    "C03": {
        "lean": ["Skv.Props.C02"], "audit": "Skv/Audit/C02.lean", "streams": [_CRASH_STREAM],
        "rule": _CRASH_RULE, "assumptions": _CRASH_ASSUME,
        "trusted_base": ["modelled, not verified: the durable-state machine of Skv/Model/Durable.lean; compaction's manifest switch "
                         "is covered by the crash images only"],
    },
    "C07": {
        "lean": ["Skv.Props.C02"], "audit": "Skv/Audit/C02.lean",
        "streams": [_CRASH_STREAM, dict(_STORE_STREAM, name="store")],
        "rule": _CRASH_RULE + "; plus the store-level histories of C01/C06 whose `reopen` operations close and reopen the store "
                "at level shapes produced by flush and compaction (levels emptied by tombstone compaction, several tables per level)",
        "assumptions": _CRASH_ASSUME + ["AbsoluteConsistency mode refusing a torn tail is the documented contract (C12), not a C07 violation",
                                        "a commit larger than the memtable arena is outside this check (it fails and poisons the arena: see C15)"],
        "trusted_base": ["modelled, not verified: recovery at record granularity; LevelManifest::load_from_file validations are exercised, not modelled"],
    },
    "C09": {
        "lean": ["Skv.Props.C09"], "audit": "Skv/Audit/C09.lean",
        "streams": [{"name": "cursor", "harness": "c09", "driver": "c09", "quick_cases": 600, "thorough_cases": 12000,
                     "nontrivial": lambda lines: any(l.startswith("ws") for l in lines) and
                                    any(a.split(" ")[0] in ("last", "prev") and b.split(" ")[0] == "next" or
                                        a.split(" ")[0] in ("first", "seek", "next") and b.split(" ")[0] == "prev"
                                        for a, b in zip(lines, lines[1:]))}],
        "rule": "layouts of 3-12 keys (prefix-related, 0x00/0xff bytes) with 1-4 versions and tombstones per key spread over the "
                "write set, the active memtable, immutable memtables and tables on 1-3 levels (block size 64-4096, index partitions "
                "of 64 bytes), commits after the transaction began; cursors with both bounds, either bound absent, empty and inverted "
                "ranges; programs of 2-14 (thorough 2-40) calls over seek(target inside the bounds)/seek_first/seek_last/next/prev "
                "respecting the precondition (next/prev only on a valid cursor); every call's valid/key/value compared with the model "
                "and the list-cursor specification; non-trivial = non-empty write set and a direction reversal; distinct = distinct op lists",
        "assumptions": ["the snapshot side (SnapshotIterator over KMergeIterator over memtable and table cursors) is modelled as a "
                        "cursor over the live keys of the snapshot; its own refinement proof is not done — the real stack runs "
                        "underneath the correspondence"],
        "trusted_base": ["modelled, not verified: TransactionRangeIterator::{position_to_min,position_to_max,seek*,next,prev} "
                         "(all five calls and both positioning loops are proved against the specification for every call sequence: "
                         "C09_cursor_trace)"],
    },
}
