"""Per-property configuration of ./check."""


def _c08_nontrivial(lines):
    # a program with a pending write, a savepoint and a partial rollback after it
    sp = False
    wrote = False
    for l in lines:
        w = l.split(" ")[0]
        if w in ("set", "del", "sdel", "rep"):
            wrote = True
        elif w == "sp":
            sp = True
        elif w == "rbsp" and sp and wrote:
            return True
    return False


PROPS = {
    "C08": {
        "lean": ["Skv.Props.C08"],
        "audit": "Skv/Audit/C08.lean",
        "streams": [
            {"name": "txnprog", "harness": "c08", "driver": "c08", "quick_cases": 4000, "thorough_cases": 80000,
             "nontrivial": _c08_nontrivial},
        ],
        "rule": "random transaction programs (1-40 ops quick, 1-60 thorough) over 1-4 keys from a pool with prefix-related, "
                "0x00/0xff and empty keys, all three modes, nested savepoints, explicit timestamps, conflicting commits of "
                "other transactions, commit/rollback, then a fresh reader; non-trivial = contains a pending write, a "
                "set_savepoint and a later rollback_to_savepoint; distinct = distinct op sequences",
        "assumptions": [
            "Snapshot::get is a parameter of the C08 model (decided by C01); the commit pipeline's verdict is an input (C04)",
            "the harness drives the public Tree/Transaction API single-threaded",
        ],
        "trusted_base": ["modelled, not verified: every Rust function body of src/transaction.rs (write, get_with_options, "
                         "set_savepoint, rollback_to_savepoint, rollback, commit's batch construction)"],
    },
}
