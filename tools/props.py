"""Per-property configuration of ./check."""


def _c08_nontrivial(lines):
    # a program with a pending write, a savepoint and a partial rollback after it
    sp = False
    wrote = False
    for l in lines:
        w = l.split(" ")[0]
        if w in ("set", "del", "sdel", "rep"):
            wrote = True
        elif w == "sp":
            sp = True
        elif w == "rbsp" and sp and wrote:
            return True
    return False


def pattern_judge(op, impl, spec):
    """spec is a pattern: `name=value` exact, `name=*` wildcard, `k>=m` lower bound"""
    if impl == spec:
        return True
    iv = dict(t.split("=", 1) for t in impl.split() if "=" in t)
    for tok in spec.split():
        if ">=" in tok:
            n, v = tok.split(">=")
            if n not in iv or not iv[n].isdigit() or int(iv[n]) < int(v):
                return False
        elif "=" in tok:
            n, v = tok.split("=", 1)
            if v == "*":
                if n not in iv:
                    return False
            elif iv.get(n) != v:
                return False
        else:
            return False
    return True


def _c12_nontrivial(lines):
    # a case with a multi-block (fragmented) record or several sessions, and damage/truncation ops
    sess = [l for l in lines if l.startswith("session")]
    big = any(int(t.split(":")[0]) > 32000 for l in sess for t in l.split()[1:])
    return (big or len(sess) > 1) and any(l.split(" ")[0] in ("trunc", "flip", "setb", "recover") for l in lines)


PROPS = {
    "C08": {
        "lean": ["Skv.Props.C08"],
        "audit": "Skv/Audit/C08.lean",
        "streams": [
            {"name": "txnprog", "harness": "c08", "driver": "c08", "quick_cases": 4000, "thorough_cases": 80000,
             "nontrivial": _c08_nontrivial},
        ],
        "rule": "random transaction programs (1-40 ops quick, 1-60 thorough) over 1-4 keys from a pool with prefix-related, "
                "0x00/0xff and empty keys, all three modes, nested savepoints, explicit timestamps, conflicting commits of "
                "other transactions, commit/rollback, then a fresh reader; non-trivial = contains a pending write, a "
                "set_savepoint and a later rollback_to_savepoint; distinct = distinct op sequences",
        "assumptions": [
            "Snapshot::get is a parameter of the C08 model (decided by C01); the commit pipeline's verdict is an input (C04)",
            "the harness drives the public Tree/Transaction API single-threaded",
        ],
        "trusted_base": ["modelled, not verified: every Rust function body of src/transaction.rs (write, get_with_options, "
                         "set_savepoint, rollback_to_savepoint, rollback, commit's batch construction)"],
    },
    "C12": {
        "lean": ["Skv.Props.C12"],
        "audit": "Skv/Audit/C12.lean",
        "streams": [
            {"name": "framing", "harness": "c12", "driver": "c12", "quick_cases": 60, "thorough_cases": 600,
             "nontrivial": _c12_nontrivial, "judge": pattern_judge},
        ],
        "rule": "segments written by the real Wal in 1-3 sessions of 1-4 records (lengths aimed at the block arithmetic: "
                "0..8 bytes left before a 32 KiB boundary, exactly one block, 1-1.5 blocks, small), then 120 (quick) / 400 "
                "(thorough) reads of the file cut at / damaged at offsets concentrated on record ends, fragment headers "
                "(type byte: every bit, 0x00, 0xff, 0x09) and block boundaries, and recovery flows (cut, read, repair on "
                "corruption, reopen, append, read); file bytes compared by length+hash with the model's encoding; "
                "non-trivial = multi-block record or several sessions, with damage ops; distinct = distinct op lists",
        "assumptions": [
            "CRC-32 detects the single-byte damage applied (evaluated on every damaged input: a miss shows up as impl != spec)",
            "LZ4 is not exercised (compression None); the model keeps it as an opaque parameter",
        ],
        "trusted_base": ["modelled, not verified: Writer::add_record/emit_physical_record, Reader::next/read, "
                         "Wal::create_writer (block_offset = len % BLOCK_SIZE), repair_corrupted_wal_segment",
                         "proved for every block size 7 < B <= 65542 and every checksum function; truncation / damage "
                         "prefix behaviour is validated by the sweep, not yet a theorem"],
    },
    "C04": {
        "lean": ["Skv.Props.C04"],
        "audit": "Skv/Audit/C04.lean",
        "streams": [
            {"name": "oracle", "harness": "c04", "driver": "c04", "quick_cases": 3000, "thorough_cases": 60000,
             "nontrivial": lambda lines: any(l.startswith("fail") for l in lines) and sum(l.startswith("commit") for l in lines) >= 2},
        ],
        "rule": "pipeline-shaped operation strings on the real CommitOracle: commits (check + seq allocation + publish) over 1-3 keys "
                "with starts aimed at stamps of earlier commits, rollbacks of live batches, pure probes, bursts of 1000-1100 filler "
                "commits crossing the GC interval with watermarks chosen to pin/unpin the window, restore resets; every verdict "
                "compared with the model and with the first-committer-wins specification over the list of live batches; "
                "non-trivial = at least two commits and one rollback; distinct = distinct op lists",
        "assumptions": [
            "check + sequence allocation + publish form one atomic step (they run under write_mutex in CommitPipeline::commit); "
            "the real pipeline's adherence to that is covered by the schedule stream of C05",
            "xxh3 fingerprints of the test keys do not collide (a collision could only add conflicts)",
        ],
        "trusted_base": ["modelled, not verified: CommitOracle::{check,publish,rollback,reset_for_restore}; GC interval regenerated from src/oracle.rs"],
    },
}
