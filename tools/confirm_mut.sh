#!/bin/bash
# confirm a seeded change in its scratch worktree /tmp/mut/<ID>: demo fails with it, passes without,
# full existing suite passes with it; copy artefacts to /verif/seeded/<ID>; remove the worktree.
ID=$1; lc=$(echo $ID | tr A-Z a-z); W=/tmp/mut/$ID; OUT=/verif/seeded/$ID
mkdir -p $OUT; cd $W || exit 1
export CARGO_TARGET_DIR=$W/target CARGO_NET_OFFLINE=true
cp patch.diff demo.diff meta.json $OUT/ 2>/dev/null
{
echo "== demo WITH change"; timeout 1800 cargo test --offline --lib -j 6 mut_demo_$lc 2>&1 | grep -E "^test |test result|panicked" | head -20
git apply -R patch.diff || echo "REVERSE APPLY FAILED"
echo "== demo WITHOUT change"; timeout 1800 cargo test --offline --lib -j 6 mut_demo_$lc 2>&1 | grep -E "^test |test result" | head -20
git apply patch.diff
echo "== full suite WITH change (excluding demo)"; timeout 3000 cargo test --offline --lib -j 6 -- --test-threads 6 --skip mut_demo_ 2>&1 | grep -E "test result|FAILED|failed" | head -20
} > $OUT/confirm.txt 2>&1
cd /; git -C /repo worktree remove --force $W
echo done >> $OUT/confirm.txt
