import Skv.Props.C18
#print axioms C18_get
#print axioms C18_insert
#print axioms C18_delete
#print axioms C18_scan_sorted
#print axioms C18_refines_map
#print axioms C18_empty_wf
#print axioms C18_merge_leaves
#print axioms C18_redistribute
#print axioms C18_redistribute_content
#print axioms C18_overflow_roundtrip
#print axioms C18_replace_separator

#print axioms C18_chain_ownership
#print axioms rotRightBad_breaks
#print axioms C18_scan_complete
#print axioms fixed_scan_stopped_at_empty_leaf
