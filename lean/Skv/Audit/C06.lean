import Skv.Props.C06
#print axioms C06_compaction_tip
#print axioms C06_compaction_sublist
#print axioms C06_nonbottom_keeps_newest
#print axioms C06_rearrangement_invisible
#print axioms C06_compaction_in_place
#print axioms compactKey_reads_ok
