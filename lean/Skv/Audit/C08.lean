import Skv.Props.C08
/-! Audit for C08: axioms of every property theorem; non-vacuity; driver samples. -/
#print axioms C08_program_refines
#print axioms C08_reach_sim
#print axioms C08_reach_wswf
#print axioms C08_ryow
#print axioms C08_savepoint_restore_spec
#print axioms C08_savepoint_restore
#print axioms C08_rollback_discards
#print axioms C08_modes
#print axioms C08_commit_order
#print axioms C08_commit_effect

/-- non-vacuity: a concrete non-trivial program reaches an open read-write state with a nested
savepoint and two pending versions of one key (the hypotheses of `C08_ryow` /
`C08_savepoint_restore` are satisfiable). -/
example :
    let t := runState (Txn.step (fun _ => none)) (Txn.start .readWrite)
      [.write [1] (some [10]) .set 0, .setSp, .write [1] (some [11]) .set 0, .write [2] none .delete 0]
    t.mode = .readWrite ∧ t.closed = false ∧ t.savepoints = 1 ∧ t.batch.length = 3 := by decide

/-- the same program on both machines (a test, not the theorem) -/
example :
    runProg (Txn.step (fun _ => some [7])) (Txn.start .readWrite)
      [.write [1] (some [10]) .set 0, .setSp, .write [1] none .delete 0, .get [1], .rbSp, .get [1], .get [3]]
    = [.ok, .ok, .ok, .val none, .ok, .val (some [10]), .val (some [7])] := by decide
