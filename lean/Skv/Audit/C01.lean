import Skv.Props.C01
#print axioms C01_compaction_stable
#print axioms C01_later_commits_invisible
#print axioms map_erase_perm
#print axioms tracker_perm_live
#print axioms C01_tracker_covers_live_readers
#print axioms physGet_eq_flatten
#print axioms C01_component_search_newest
#print axioms compactKey_reads_ok

/-- non-vacuity: put(1), delete(2), put(3) with readers at 1 and 2, last level: the reader at 1 keeps
its value, the tombstone stays because of it, the reader at 2 and later readers see what they saw -/
example :
    let vs : List Ver := [⟨3, .set, 3⟩, ⟨2, .delete, 2⟩, ⟨1, .set, 1⟩]
    let out := compactKey ⟨true, false, 0, 9⟩ [1, 2] vs
    out = vs ∧ readAt 1 out = some ⟨1, .set, 1⟩ ∧ readAt 2 out = none := by decide
/-- the pre-fix defect (P5): delete newest at the last level with a reader below it — now kept -/
example :
    compactKey ⟨true, false, 0, 9⟩ [1] [⟨2, .delete, 2⟩, ⟨1, .set, 1⟩] = [⟨2, .delete, 2⟩, ⟨1, .set, 1⟩] := by decide
example : compactKey ⟨true, false, 0, 9⟩ [5] [⟨2, .delete, 2⟩, ⟨1, .set, 1⟩] = [] := by decide
#print axioms C01_begin_atomic_with_capture
#print axioms fixed_begin_raced_with_compaction_capture
