import Skv.Props.C05
#print axioms pinv_initWith
#print axioms C05_invariant
#print axioms C05_visible_mono
#print axioms C05_visible_mono_run
#print axioms C05_publish_fifo
#print axioms C05_horizon_on_batch_boundary
#print axioms C05_queued_invisible
#print axioms C05_atomic_partial
#print axioms C05_ok_implies_visible
#print axioms C05_begin_loads_horizon
#print axioms finding_failed_commit_visible
#print axioms C05_consts_ok

/-- non-vacuity: two committers whose applies finish in the opposite order of their WAL order; the
later one is published only together with the earlier one -/
example :
    let s := (PState.initWith 2 1024 7 8).run
      [.begin 0 { keys := [0, 1] }, .begin 1 { keys := [2] }, .step 0, .step 1, .step 0, .step 1,
       .step 1, .step 1, .step 1, .step 1]
    s.visible = 0 ∧ s.mem = [3] ∧ s.queue.length = 2 := by decide
