import Skv.Props.C02
#print axioms dinv_run
#print axioms recover_of_safe
#print axioms acklt_run
#print axioms C02_acked_survive_process_crash_partial
#print axioms C03_recovered_is_prefix_partial
#print axioms C03_unacked_at_most_one_partial
#print axioms C07_recovered_below_next_partial
#print axioms C07_recover_after_cleanup
#print axioms finding_straddle
/-- non-vacuity: a run inside the hypothesis with two rotations, a flush and a clean-up; batch 0 now
lives in a table, batches 1-2 in segments, all three are recovered -/
example :
    let ops : List DOp := [.walAppend, .applyAck, .rotate, .walAppend, .applyAck, .flushOldest, .cleanupWal,
                           .rotate, .walAppend]
    noStraddle false ops = true ∧ (DState.run {} ops).recover = [0, 1, 2] ∧ (DState.run {} ops).acked = [0, 1] := by
  decide

#print axioms C02_acked_survive_process_crash
#print axioms C02_acked_survive_reopen
#print axioms C03_recovered_only_written
#print axioms fixed_recovery_retired_a_split_segment
#print axioms C07_reopen_same_contents
#print axioms C07_recovered_below_next
