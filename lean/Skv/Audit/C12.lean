import Skv.Props.C12
#print axioms C12_roundtrip
#print axioms C12_resume
#print axioms C12_resume_twice
#print axioms C12_repair_clean
#print axioms C12_repair_idempotent
#print axioms C12_repair_reads_back
#print axioms C12_append_after_repair
#print axioms C12_consts_ok

/-- a valid parameter set exists (non-vacuity of the `Params` hypotheses) and a fragmenting write
happens in it: block size 16, a 20-byte record is split into three fragments -/
def auditParams : Params where
  B := 16
  crc := fun ty d => [ty, UInt8.ofNat d.length, 0, 0]
  crc_len := by intro t d; rfl
  hB := by decide
  hB16 := by decide

example : readAll auditParams (writeAll auditParams 0 [List.replicate 20 1, [], [2, 3]]).1
    = ([List.replicate 20 1, [], [2, 3]], .eof) := by decide
#print axioms C12_truncation_prefix
#print axioms C12_truncation_repair
#print axioms C12_records_before_damage
#print axioms C12_damage_after_prefix
