import Skv.Props.C04
#print axioms C04_invariant
#print axioms C04_check_sound
#print axioms C04_first_committer_wins
#print axioms C04_rollback_preserves
#print axioms C04_gc_safe
#print axioms C04_keptSince_mono
#print axioms exact_commit
#print axioms C04_no_false_abort_partial
#print axioms finding_ghost_stamp
#print axioms C04_consts_ok

/-- non-vacuity: a reachable state with two live batches on one key, one rolled back, GC having run
(interval 2) — the hypotheses of the theorems are met by real traces -/
example :
    let s := OState.init.run 2 [.commit [0] 0 0, .commit [0, 1] 1 1, .commit [1] 3 3, .fail 4, .commit [0] 3 3]
    s.live.length = 3 ∧ s.o.keptSince = 3 ∧ isConflict (s.o.check [0] 3) = true := by
  decide
