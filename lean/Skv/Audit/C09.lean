import Skv.Props.C09
#print axioms FSplit_first
#print axioms FSplit_seekGo
#print axioms C09_seek_first
#print axioms C09_seek
#print axioms C09_position_to_min
/-- non-vacuity and the pre-fix defect (P1): snapshot {3}, write set {2}: seek_last, prev, next must
return to 3 -/
example : ((TI.start [3] [(2, false)]).seekLast.prev.next).key = some 3 := by decide
example : ((TI.start [1, 3, 5] [(2, false), (3, true), (6, false)]).seekFirst.next.next).key = some 5 := by decide
