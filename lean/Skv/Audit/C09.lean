import Skv.Props.C09
#print axioms FSplit_first
#print axioms FSplit_seekGo
#print axioms C09_seek_first
#print axioms C09_seek
#print axioms C09_position_to_min
#print axioms Positioned.key
#print axioms C09_next
#print axioms C09_prev
#print axioms C09_seek_last
#print axioms le_bound
#print axioms GreatestLT_top
#print axioms posMin_xs
#print axioms posMax_xs
#print axioms eqCheck_xs
#print axioms turnFwd_xs
#print axioms turnBwd_xs
#print axioms stepFwd_xs
#print axioms stepBwd_xs
#print axioms apply_xs
#print axioms C09_seek_first_any
#print axioms key_of_cur_none
#print axioms C09_cursor_trace
#print axioms C09_cursor_trace_fresh
/-- non-vacuity and the pre-fix defect (P1): snapshot {3}, write set {2}: seek_last, prev, next must
return to 3 -/
example : ((TI.start [3] [(2, false)]).seekLast.prev.next).key = some 3 := by decide
example : ((TI.start [1, 3, 5] [(2, false), (3, true), (6, false)]).seekFirst.next.next).key = some 5 := by decide
