import Skv.Props.C13
#print axioms C13_seek
#print axioms C13_get
#print axioms C13_block_seek
#print axioms C13_index_seek
#print axioms C13_cursor_step
#print axioms C13_cursor_program
#print axioms C13_seek_first
#print axioms C13_seek_last
#print axioms C13_separator
#print axioms C13_successor
#print axioms C13_writer_layout_wf
#print axioms C13_bloom_no_false_negative
#print axioms C13_range_shortcuts_sound
