import Skv.Props.C14
#print axioms C14_cache_coherent
#print axioms C14_read_after_restore
#print axioms C14_checkpoint_wellformed
#print axioms C14_cleanup_keeps_needed
#print axioms C14_witness_stale_block
#print axioms C14_witness_late_cleanup
#print axioms C14_history_after_restore
#print axioms C14_checkpoint_dir_history
#print axioms fixed_restore_kept_the_discarded_index
