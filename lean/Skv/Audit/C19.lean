import Skv.Props.C19
#print axioms linv_init
#print axioms linv_step
#print axioms linv_run
#print axioms C19_at_most_one_live
#print axioms C19_touch_only_by_owner
#print axioms C19_refused_open_pure
#print axioms C19_refused_cannot_touch
#print axioms C19_reopen_after_close
#print axioms C19_reopen_after_crash
#print axioms C19_refused_only_by_live
#print axioms C19_reopen_after_failed_open
#print axioms C19_background_task_exits
#print axioms notify_waiters_misses_unparked_task
