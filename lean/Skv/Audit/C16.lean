import Skv.Props.C16
#print axioms C16_block_frame
#print axioms C16_block_guard
#print axioms C16_checksum_bytes_guard
#print axioms C16_no_unguarded_byte
