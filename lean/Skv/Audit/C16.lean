import Skv.Props.C16
#print axioms C16_block_frame
#print axioms C16_block_guard
#print axioms C16_checksum_bytes_guard
#print axioms C16_no_unguarded_byte
#print axioms C12_roundtrip
#print axioms C12_resume
#print axioms C12_resume_twice
#print axioms C12_repair_clean
#print axioms C12_repair_idempotent
#print axioms C12_repair_reads_back
#print axioms C12_append_after_repair
#print axioms C12_consts_ok
#print axioms C16_cached_reads_are_verified
#print axioms cache_before_verify_serves_damage
#print axioms C12_truncation_prefix
#print axioms C12_truncation_repair
