import Skv.Props.C17
#print axioms perm_initWith
#print axioms perm_begin
#print axioms begin_panicked
#print axioms step_cap
#print axioms C17_invariant
#print axioms C17_queue_never_overflows
#print axioms C17_consts_ok
#print axioms C17_fixed_overflow_schedule
