import Skv.Props.C17
#print axioms perm_initWith
#print axioms perm_begin
#print axioms begin_panicked
#print axioms step_cap
#print axioms C17_invariant
#print axioms C17_queue_never_overflows
#print axioms C17_consts_ok
#print axioms C17_fixed_overflow_schedule
#print axioms C17_no_circular_wait
#print axioms C17_lock_progress
#print axioms C17_ops_disciplined
#print axioms C17_old_reader_order_deadlocks

#print axioms C17_no_lost_wakeup
#print axioms C17_signal_releases
#print axioms C17_released_committer_returns
#print axioms C17_late_registration_loses_wakeup
#print axioms C17_liveness_invariant
#print axioms C17_pipeline_progress
#print axioms PState.run_append
#print axioms C17_effective_steps_bounded
#print axioms C17_all_calls_return
#print axioms C17_stall_has_work_scheduled
#print axioms C17_checkpoints_without_wake_stall_for_good
#print axioms C17_apply_excludes_rotation
#print axioms C17_close_stops_background_tasks
