import Skv.Props.C15
#print axioms C15_refused_commit_leaves_no_trace
#print axioms C15_pipeline_survives
#print axioms C15_first_completion_wins
#print axioms finding_failed_commit_visible
