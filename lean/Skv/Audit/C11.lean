import Skv.Props.C11
#print axioms C11_pointers_resolve
#print axioms C11_init
#print axioms C11_active_kept
#print axioms C11_oldest_is_min
#print axioms C11_witness_first_pointer
#print axioms C11_pointers_resolve_during_compaction
#print axioms hidden_inputs_must_be_counted
