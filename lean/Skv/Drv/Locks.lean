import Skv.Drv.Common
import Skv.Model.LockOrder
/-!
lock-order driver (C17, store level).  Lines:
  case <n>
  pair <opA> <opB> <schedule>     ops ∈ iter | flush | rotate | compact; schedule ∈ {0,1}*: which thread is
                                  advanced from one yield point after a lock acquisition to the next
Model column: the lock names each thread passed (gated acquisitions) and whether the pair ran to
completion when drained after the schedule: `trA=.. trB=.. end=ok|DEADLOCK`.  Spec: `end=ok`.
-/

def lockName (l : Nat) : String := if l == 0 then "active" else if l == 1 then "manifest" else "immutable"

/-- advance thread `i` to its next gate: returns the state, the gated lock passed (if any), and
whether it moved at all -/
def advanceTo (s : LSys) (i : Nat) : Nat → LSys × Option Nat × Bool
  | 0 => (s, none, false)
  | fuel + 1 =>
    match s[i]? with
    | none => (s, none, false)
    | some t =>
      if t.done || blocked s i then (s, none, false)
      else
        let s' := s.step i
        match t.prog[t.pc]? with
        | some (.acq r true) => (s', some r.lock, true)
        | _ =>
          let (s'', g, _) := advanceTo s' i fuel
          (s'', g, true)

structure LkRun where
  s : LSys
  trA : List String := []
  trB : List String := []

def LkRun.adv (r : LkRun) (i : Nat) : LkRun × Bool :=
  let (s', g, moved) := advanceTo r.s i 16
  let r' := { r with s := s' }
  let r' := match g with
    | some l => if i == 0 then { r' with trA := r'.trA ++ [lockName l] } else { r' with trB := r'.trB ++ [lockName l] }
    | none => r'
  (r', moved)

def allDone (s : LSys) : Bool := s.all (·.done)

def drain : Nat → LkRun → LkRun × Bool
  | 0, r => (r, allDone r.s)
  | fuel + 1, r =>
    if allDone r.s then (r, true) else
    let (r1, m1) := r.adv 0
    let (r2, m2) := r1.adv 1
    if !m1 && !m2 then (r2, allDone r2.s) else drain fuel r2

def showTr (l : List String) : String := if l.isEmpty then "-" else ".".intercalate l

def locksStep (_ : Unit) (ws : List String) : Unit × String × String :=
  match ws with
  | "case" :: _ => ((), "-", "-")
  | ["pair", a, b, sched] =>
    match opByName a, opByName b with
    | some pa, some pb =>
      if !(disciplined pa && disciplined pb) then ((), "UNDISCIPLINED", "end=ok") else
      let r0 : LkRun := { s := [{ prog := pa }, { prog := pb }] }
      let r1 := sched.toList.foldl (fun (r : LkRun) c => (r.adv (if c == '0' then 0 else 1)).1) r0
      let (r2, ok) := drain 32 r1
      -- `data=ok`: the keys written by a `commit` operation are all readable afterwards, also after a flush
      ((), s!"trA={showTr r2.trA} trB={showTr r2.trB} end={if ok then "ok" else "DEADLOCK"} data=ok", "end=ok data=ok")
    | _, _ => ((), "bad-op", "bad-op")
  | _ => ((), "bad-op", "bad-op")

def locksDriver : LineDriver := { σ := Unit, init := (), step := locksStep }
