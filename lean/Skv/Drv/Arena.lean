import Skv.Drv.Common
import Skv.Model.Arena
/-!
Arena driver (C15).  Lines:
  case <n> <nodeMin> <nodeMax> <empty>       node sizes as the code reports them (`verif::memtable::node_sizes`)
  probe <capacity> <klen>:<vlen> ...           admission check, certain-fit size, real insertion
  sized <klen>:<vlen> ...                      real insertion into an arena of the certain-fit size
Model = specification: `can` and `size` exactly (`fitsEmpty`, `arenaSizeFor`); the real insertion draws
tower heights, so `add` is bounded: `full` when the batch is refused (`C15_refused_batch_can_never_fit`),
`ok` when the arena has the certain-fit size (`C15_admitted_batch_is_applied`), anything in between.
-/

structure ArenaDrv where
  cfg : ArenaCfg := ⟨40, 152, 2, 399⟩

def parseSizes (ws : List String) : Option (List Nat) :=
  ws.foldr (fun w acc =>
    match acc, w.splitOn ":" with
    | some l, [k, v] => match k.toNat?, v.toNat? with
      | some k, some v => some (((max k 8) + v) :: l)     -- the hook pads keys to 8 bytes
      | _, _ => none
    | _, _ => none) (some [])

def arenaStep (st : ArenaDrv) (ws : List String) : ArenaDrv × String × String :=
  let same (st : ArenaDrv) (s : String) := (st, s, s)
  match ws with
  | ["case", _, a, b, e] => match a.toNat?, b.toNat?, e.toNat? with
    | some a, some b, some e => same { cfg := ⟨a, b - a, 2, e⟩ } "-"
    | _, _, _ => same st "bad-op"
  | "probe" :: cap :: rest => match cap.toNat?, parseSizes rest with
    | some cap, some ds =>
      let can := fitsEmpty st.cfg cap st.cfg.empty ds
      let size := arenaSizeFor st.cfg st.cfg.empty ds
      let add := if !can then "full" else if size ≤ cap then "ok" else "*"
      same st s!"can={if can then 1 else 0} size={size} add={add}"
    | _, _ => same st "bad-op"
  | "sized" :: rest => match parseSizes rest with
    | some _ => same st "can=1 add=ok"
    | none => same st "bad-op"
  | _ => same st "bad-op"

def arenaDriver : LineDriver := { σ := ArenaDrv, init := {}, step := arenaStep }
