import Skv.Drv.Common
import Skv.Model.Pipeline
import Skv.Model.Consts
/-!
C05 / C15 / C17 driver (commit pipeline under schedules).  Lines:
  case <n> <nthreads>
  begin <i> <k,k,..> <failWal 0|1> <failApplyAt|->   thread i loads the horizon and will commit these keys
  step <i>                                           thread i runs to its next yield point
  probe                                              horizon + per-batch applied counts
  drain                                              lowest-index thread at a yield point first, until all calls returned
-/

/-- one `commit()` call as the driver sees it -/
structure CallRec where
  thread : Nat
  start : Nat
  keys : List Nat
  first : Option Nat := none

structure C05State where
  s : PState := {}
  n : Nat := 0
  calls : List CallRec := []       -- in begin order

def sortParts (l : List (Nat × Nat × Bool)) : List (Nat × Nat × Bool) :=
  l.foldr (fun x acc =>
    let rec ins (x : Nat × Nat × Bool) : List (Nat × Nat × Bool) → List (Nat × Nat × Bool)
      | [] => [x]
      | y :: ys => if x.1 < y.1 then x :: y :: ys else y :: ins x ys
    ins x acc) []

/-- the probe observation and whether it satisfies C05/C15 (atomic, failed commits invisible) -/
def probeObs (s : PState) : String × Bool :=
  let parts := sortParts s.batches
  let strs := parts.map (fun (f, c, failed) =>
    let l := f + c - 1
    let k := (s.mem.filter (fun q => f ≤ q && q ≤ l)).length
    s!"{f}-{l}:{k}/{c}:{if failed then "failed" else "ok"}")
  let ok := parts.all (fun (f, c, failed) =>
    let l := f + c - 1
    let k := (s.mem.filter (fun q => f ≤ q && q ≤ l)).length
    if l ≤ s.visible then (if failed then k == 0 else k == c)
    else if f ≤ s.visible then false
    else true)
  (s!"vis={s.visible} parts={if strs.isEmpty then "-" else ";".intercalate strs}", ok)

def isAtGate : Pc → Bool
  | .ready => false | .waiting _ => false | _ => true

def resultsStr (s : PState) : String :=
  ";".intercalate ((List.range s.threads.length).map (fun i =>
    match s.threads[i]? with
    | some t => s!"{i}:{",".intercalate (t.results.reverse.map CRes.toStr)}"
    | none => s!"{i}:"))

/-- the last call of thread `i` without a first sequence number gets `f` -/
def setFirst (calls : List CallRec) (i f : Nat) : List CallRec :=
  let idx := (List.range calls.length).reverse.find? (fun j =>
    match calls[j]? with | some c => c.thread == i && c.first.isNone | none => false)
  match idx with
  | some j => calls.modify j (fun c => { c with first := some f })
  | none => calls

partial def drainLoop (st : C05State) (fuel : Nat) : C05State :=
  if fuel == 0 || st.s.panicked then st else
  match (List.range st.s.threads.length).find? (fun i =>
      match st.s.threads[i]? with | some t => isAtGate t.pc | none => false) with
  | some i =>
    let s' := (st.s.stepThread i).wakeAll
    let st := if s'.logSeq > st.s.logSeq then { st with calls := setFirst st.calls i st.s.logSeq } else st
    drainLoop { st with s := s' } (fuel - 1)
  | none => st

/-- commit log in begin order: start/keys/first/result -/
def logStr (st : C05State) : String :=
  let perThread (i : Nat) : List CRes := match st.s.threads[i]? with | some t => t.results.reverse | none => []
  let rec go (calls : List CallRec) (seen : List (Nat × Nat)) (acc : List String) : List String :=
    match calls with
    | [] => acc.reverse
    | c :: rest =>
      let k := ((seen.find? (fun p => p.1 == c.thread)).map (·.2)).getD 0
      let res := match (perThread c.thread)[k]? with | some r => r.toStr | none => "-"
      let f := match c.first with | some f => toString f | none => "-"
      let line := s!"{c.start}/{".".intercalate (c.keys.map toString)}/{f}/{res}"
      go rest ((c.thread, k + 1) :: seen.filter (fun p => p.1 != c.thread)) (line :: acc)
  let ls := go st.calls [] []
  if ls.isEmpty then "-" else ";".intercalate ls

def c05Step (st : C05State) (ws : List String) : C05State × String × String :=
  match ws with
  | ["case", _, n] =>
    match n.toNat? with
    | some n => ({ s := { PState.init n with gc := Consts.gcInterval, permits := Consts.commitPermits,
                                             cap := Consts.maxConcurrentCommits }, n := n }, "-", "-")
    | none => (st, "bad-op", "bad-op")
  | ["begin", i, ks, fw, fa] =>
    match i.toNat?, (ks.splitOn ",").mapM String.toNat? with
    | some i, some keys =>
      match st.s.threads[i]? with
      | some t =>
        if t.pc == .ready && !st.s.panicked then
          let req : CommitReq := { keys := keys, failWal := fw == "1", failApplyAt := fa.toNat? }
          let s' := st.s.begin i req
          ({ st with s := s', calls := st.calls ++ [{ thread := i, start := st.s.visible, keys := keys }] },
            s!"start={st.s.visible}", "*")
        else (st, "busy", "*")
      | none => (st, "bad-op", "bad-op")
    | _, _ => (st, "bad-op", "bad-op")
  | ["step", i] =>
    match i.toNat? with
    | some i =>
      match st.s.threads[i]? with
      | some t0 =>
        let s' := (st.s.stepThread i).wakeAll
        if s'.panicked then ({ st with s := s' }, "at=idle vis=" ++ toString s'.visible ++ " res=PANIC", "nopanic\tqueue-overflow-after-failed-commits")
        else
        let st := if s'.logSeq > st.s.logSeq then { st with calls := setFirst st.calls i st.s.logSeq } else st
        let t1 := (s'.threads[i]?).getD t0
        -- a result is reported with the step only when the call returned without reaching the
        -- completion wait (conflict / retry / WAL error / apply error); others are reported by `drain`
        let viaWait := match t0.pc with | .afterPublish _ f => f == .none | .waiting _ => true | _ => false
        let fin := t1.pc == .ready && t0.pc != .ready && !viaWait
        let res := if fin then (match t1.results.head? with | some r => " res=" ++ r.toStr | none => "") else ""
        -- spec: the horizon never moves backwards; a call that returns ok is visible
        let spec := s!"vis>={st.s.visible}"
        ({ st with s := s' }, s!"at={t1.pc.gate} vis={s'.visible}{res}", spec)
      | none => (st, "bad-op", "bad-op")
    | none => (st, "bad-op", "bad-op")
  | ["probe"] =>
    let (obs, ok) := probeObs st.s
    (st, obs, "atomic" ++ (if ok then "" else "\tfailed-commit-partially-visible"))
  | ["drain"] =>
    let st' := drainLoop st 10000
    let s' := st'.s
    if s'.panicked then (st', "PANIC", "nopanic\tqueue-overflow-after-failed-commits")
    else
    let stuck := s'.threads.any (fun t => t.pc != .ready)
    let out := (if stuck then "HANG " else "") ++ s!"vis={s'.visible} res={resultsStr s'} log={logStr st'}"
    (st', out, s!"vis>={st.s.visible} nohang fcw")
  | _ => (st, "bad-op", "bad-op")

def c05Driver : LineDriver := { σ := C05State, init := {}, step := c05Step }
