import Skv.Model.Basic
/-! line-protocol plumbing shared by the per-property drivers -/

def splitWords (line : String) : List String :=
  (line.trimAscii.toString.splitOn " ").filter (fun s => !s.isEmpty)

/-- a driver is a fold over lines: state, line ↦ state, (model output, spec output) -/
structure LineDriver where
  σ : Type
  init : σ
  step : σ → List String → σ × String × String

partial def runDriver (d : LineDriver) (h : IO.FS.Stream) (out : IO.FS.Stream) : IO Unit := do
  let rec loop (s : d.σ) : IO Unit := do
    let line ← h.getLine
    if line.isEmpty then return ()
    let ws := splitWords line
    let (s', m, sp) := d.step s ws
    out.putStrLn (m ++ "\t" ++ sp)
    loop s'
  loop d.init
  out.flush
