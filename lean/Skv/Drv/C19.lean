import Skv.Drv.Common
import Skv.Model.Lock
/-!
C19 driver.  Openers are numbered; each `open` / `close` call is a program of micro-steps labelled
with the yield point that ends them.  Lines:
  case <n>
  open X [@P]      P ∈ open.locked | open.manifest_loaded | open.recovered : run until P (inclusive)
  close X [@P]     P ∈ close.wal_closed | close.wal_cleaned | close.dirs_synced
  resume X         finish the paused call
  damage / repair  flip a byte of the commit log (only while nobody is live) / restore it: while damaged,
                   recovery fails after the lock was taken
  drop X           drop the handle without close (the store closes itself asynchronously); waited for
  spawn X          open in a child process;  pclose X / pexit X / kill X : clean close / exit without close / SIGKILL
  put X k v        commit in store X;   get X k
Model column: `r=ok tr=<trace>` with the trace of A(cquire) T(ouch) R(elease) events of the call segment
(consecutive repeats collapsed, `-` when empty); refused open: `r=locked pure=1`.
Spec column (the property): an open succeeds iff no other opener is live — from its lock
acquisition to the end of its close, its drop-close or its death; a refused open changes nothing.
-/

structure MStep where
  op : Nat → LOp
  letter : String     -- "" for none
  label : String

def openProg : List MStep := [
  ⟨.begin, "", ""⟩, ⟨.tryLock, "A", "lock.acquired"⟩, ⟨.touch, "", "open.locked"⟩,
  ⟨.touch, "T", "open.manifest_loaded"⟩, ⟨.touch, "T", "open.recovered"⟩, ⟨.finishOpen, "", ""⟩ ]

def closeProg : List MStep := [
  ⟨.beginClose, "", ""⟩, ⟨.touch, "T", "close.wal_closed"⟩, ⟨.touch, "T", "close.wal_cleaned"⟩,
  ⟨.touch, "T", "close.dirs_synced"⟩, ⟨.release, "R", "lock.released"⟩ ]

structure C19State where
  s : LState := {}
  pending : List (Nat × List MStep) := []
  kv : List (Nat × Nat) := []
  specOwner : Option Nat := none
  child : List Nat := []          -- openers that are child processes
  hasData : Bool := false         -- a commit was made: the commit log is not empty
  damaged : Bool := false         -- the commit log is damaged: recovery fails

def collapse : List String → List String
  | [] => []
  | [a] => [a]
  | a :: b :: rest => if a == b then collapse (b :: rest) else a :: collapse (b :: rest)

def traceStr (ls : List String) : String :=
  let c := collapse (ls.filter (· ≠ ""))
  if c.isEmpty then "-" else ".".intercalate c

/-- run `prog` for opener `i` until after the step labelled `upto` (or to the end);
stops when the opener was refused.  Returns state, letters, remaining steps, refused? -/
def runLProg (s : LState) (i : Nat) (upto : String) : List MStep → List String → LState × List String × List MStep × Bool
  | [], acc => (s, acc, [], false)
  | m :: rest, acc =>
    let s' := s.step (m.op i)
    if s'.phase i == .refused then (s', acc, [], true)
    else if m.label == upto && upto ≠ "" then (s', acc ++ [m.letter], rest, false)
    else runLProg s' i upto rest (acc ++ [m.letter])

def pureStr (a b : LState) : String :=
  if a.dataVer == b.dataVer && a.lockTxt == b.lockTxt && a.holder == b.holder then "pure=1" else "pure=0"

def lookupKV (kv : List (Nat × Nat)) (k : Nat) : String :=
  match kv.find? (·.1 == k) with
  | some (_, v) => s!"v={v}"
  | none => "v=none"

def c19Open (st : C19State) (x : Nat) (upto : String) : C19State × String × String :=
  let sp := match st.specOwner with
    | none => if upto == "" then "r=ok" else "r=paused"
    | some _ => "r=locked pure=1"
  -- with a damaged commit log the open fails after the manifest was loaded: the program stops there
  let failing := st.damaged && st.specOwner.isNone
  let prog := if failing then openProg.take 4 ++ [⟨.failOpen, "", "open.failed"⟩] else openProg
  let upto := if failing && upto == "open.recovered" then "" else upto
  let (s', tr, rest, refused) := runLProg st.s x upto prog []
  if failing && rest.isEmpty && !refused then
    ({ st with s := s' }, "r=failed free=1", "r=failed free=1")
  else
  if refused then
    ({ st with s := s' }, s!"r=locked {pureStr st.s s'}", sp)
  else
    let st' := { st with s := s', specOwner := (if st.specOwner.isNone then some x else st.specOwner),
                          pending := if rest.isEmpty then st.pending else (x, rest) :: st.pending }
    let word := if rest.isEmpty then "ok" else "paused"
    (st', s!"r={word} tr={traceStr tr}", sp)

def c19Close (st : C19State) (x : Nat) (upto : String) : C19State × String × String :=
  if st.s.phase x != .opened then (st, "bad-op", "bad-op") else
  let (s', tr, rest, _) := runLProg st.s x upto closeProg []
  let done := rest.isEmpty
  let st' := { st with s := s', specOwner := (if done && st.specOwner == some x then none else st.specOwner),
                        pending := if done then st.pending else (x, rest) :: st.pending }
  let word := if done then "ok" else "paused"
  (st', s!"r={word} tr={traceStr tr}", s!"r={word}")

def c19Resume (st : C19State) (x : Nat) : C19State × String × String :=
  match st.pending.find? (·.1 == x) with
  | none => (st, "bad-op", "bad-op")
  | some (_, rest) =>
    let (s', tr, _, _) := runLProg st.s x "" rest []
    let closed := s'.phase x == .closed
    if rest.any (·.label == "open.failed") then
      ({ st with s := s', pending := st.pending.filter (·.1 != x),
                 specOwner := if st.specOwner == some x then none else st.specOwner }, "r=failed free=1", "r=failed free=1")
    else
    ({ st with s := s', pending := st.pending.filter (·.1 != x),
               specOwner := if closed && st.specOwner == some x then none else st.specOwner },
     s!"r=ok tr={traceStr tr}", "r=ok")

/-- end of life without the yield trace: drop (asynchronous close), child close / exit / kill -/
def c19End (st : C19State) (x : Nat) (crash : Bool) : C19State × String × String :=
  if !(st.s.phase x).live then (st, "bad-op", "bad-op") else
  let s' := if crash then st.s.step (.crash x)
    else (runLProg st.s x "" closeProg []).1
  ({ st with s := s', specOwner := if st.specOwner == some x then none else st.specOwner,
             pending := st.pending.filter (·.1 != x) }, "r=ok", "r=ok")

def c19Step (st : C19State) (ws : List String) : C19State × String × String :=
  match ws with
  | "case" :: _ => ({}, "-", "-")
  | ["open", x] => match x.toNat? with
    | some x => c19Open st x ""
    | none => (st, "bad-op", "bad-op")
  | ["open", x, p] => match x.toNat? with
    | some x => if p.startsWith "@open." then c19Open st x (p.drop 1).toString else (st, "bad-op", "bad-op")
    | none => (st, "bad-op", "bad-op")
  | ["spawn", x] => match x.toNat? with
    | some x =>
      let (st', m, sp) := c19Open st x ""
      -- no yield trace from a child process
      ({ st' with child := x :: st'.child }, (if m.startsWith "r=ok" then "r=ok" else m), sp)
    | none => (st, "bad-op", "bad-op")
  | ["close", x] => match x.toNat? with
    | some x => c19Close st x ""
    | none => (st, "bad-op", "bad-op")
  | ["close", x, p] => match x.toNat? with
    | some x => if p.startsWith "@close." then c19Close st x (p.drop 1).toString else (st, "bad-op", "bad-op")
    | none => (st, "bad-op", "bad-op")
  | ["resume", x] => match x.toNat? with
    | some x => c19Resume st x
    | none => (st, "bad-op", "bad-op")
  | ["drop", x] => match x.toNat? with
    | some x =>
      let (st', m, sp) := c19Close st x ""
      (st', m, sp)
    | none => (st, "bad-op", "bad-op")
  | ["pclose", x] => match x.toNat? with
    | some x => c19End st x false
    | none => (st, "bad-op", "bad-op")
  | ["kill", x] | ["pexit", x] => match x.toNat? with
    | some x => c19End st x true
    | none => (st, "bad-op", "bad-op")
  | ["put", x, k, v] => match x.toNat?, k.toNat?, v.toNat? with
    | some x, some k, some v =>
      if st.s.phase x != .opened then (st, "bad-op", "bad-op") else
      ({ st with s := st.s.step (.touch x), kv := (k, v) :: st.kv.filter (·.1 != k), hasData := true }, "r=ok", "r=ok")
    | _, _, _ => (st, "bad-op", "bad-op")
  | ["get", x, k] => match x.toNat?, k.toNat? with
    | some x, some k =>
      if st.s.phase x != .opened then (st, "bad-op", "bad-op") else
      (st, lookupKV st.kv k, lookupKV st.kv k)
    | _, _ => (st, "bad-op", "bad-op")
  | ["damage"] =>
    if st.hasData && st.specOwner.isNone then ({ st with damaged := true }, "r=ok", "r=ok") else (st, "r=skip", "r=skip")
  | ["repair"] => ({ st with damaged := false }, "r=ok", "r=ok")
  | _ => (st, "bad-op", "bad-op")

def c19Driver : LineDriver := { σ := C19State, init := {}, step := c19Step }
