import Skv.Drv.Common
import Skv.Model.Wal
import Skv.Model.Crc32
import Skv.Model.Consts
/-!
C12 driver.  Lines:
  case <n>
  session <len>:<fill> ...     one writer session (open, append each record, close); record byte j = (fill + j) mod 256
  trunc <off>                  read the segment cut at <off>
  flip <off> <bit> | setb <off> <byte>     read the segment with one bit flipped / one byte overwritten
  recover <off> <len>:<fill>   cut at <off>; store recovery flow (read; repair on corruption; reopen); append; read back
Output columns: model (the byte-exact model), spec (what C12 demands, as a pattern), tag (finding family when the
faithful model itself does not meet the spec).
-/

/-- the real parameters: block size from `src/wal/mod.rs` (regenerated), CRC-32 over type ‖ payload -/
def walParams : Params where
  B := Consts.walBlockSize
  crc := fun ty d => be32 (crc32 (ty :: d))
  crc_len := by intro t d; simp [be32]
  hB := by decide
  hB16 := by decide

structure C12State where
  recs : List Bytes := []
  file : Bytes := []
  ends : List Nat := []

def genRec (len fill : Nat) : Bytes := (List.range len).map (fun j => UInt8.ofNat ((fill + j) % 256))

def parseRec (s : String) : Option Bytes :=
  match s.splitOn ":" with
  | [l, f] => do let l ← l.toNat?; let f ← f.toNat?; pure (genRec l f)
  | _ => none

def fileHash (bs : Bytes) : Nat := bs.foldl (fun h b => (h * 31 + b.toNat) % 4294967291) 7

/-- number of leading records of `out` that equal the corresponding records of `recs` -/
def isPrefixOf (out recs : List Bytes) : Bool :=
  match out, recs with
  | [], _ => true
  | _ :: _, [] => false
  | a :: as, b :: bs => a == b && isPrefixOf as bs

def endStr : Ending → String | .eof => "eof" | .corrupt => "corrupt"

def readReport (recs : List Bytes) (file : Bytes) : Nat × Bool × Ending :=
  let r := readAll walParams file
  (r.1.length, isPrefixOf r.1 recs, r.2)

def fmtRead (r : Nat × Bool × Ending) : String :=
  s!"k={r.1} prefix={if r.2.1 then "yes" else "no"} end={endStr r.2.2}"

/-- end offsets of the records in the written file -/
def recordEnds (recs : List Bytes) : List Nat :=
  (List.range recs.length).map (fun i => (writeAll walParams 0 (recs.take (i + 1))).1.length)

def wholeBefore (ends : List Nat) (off : Nat) : Nat := (ends.filter (· ≤ off)).length

def setAt (bs : Bytes) (i : Nat) (f : UInt8 → UInt8) : Bytes :=
  match bs, i with
  | [], _ => []
  | b :: rest, 0 => f b :: rest
  | b :: rest, i + 1 => b :: setAt rest i f

def c12Step (st : C12State) (ws : List String) : C12State × String × String :=
  match ws with
  | ["case", _] => ({}, "-", "-")
  | "session" :: rs =>
    match rs.mapM parseRec with
    | none => (st, "bad-op", "bad-op")
    | some recs =>
      let file := appendSession walParams st.file recs
      let out := s!"len={file.length} h={fileHash file}"
      ({ recs := st.recs ++ recs, file := file, ends := recordEnds (st.recs ++ recs) }, out, out)
  | ["trunc", off] =>
    match off.toNat? with
    | none => (st, "bad-op", "bad-op")
    | some off =>
      let m := wholeBefore st.ends off
      let r := readReport st.recs (st.file.take off)
      let ok := r.1 == m && r.2.1
      (st, fmtRead r, s!"k={m} prefix=yes end=*" ++ (if ok then "" else "\ttrunc-not-prefix"))
  | [op, off, x] =>
    if op == "flip" || op == "setb" then
      match off.toNat?, x.toNat? with
      | some off, some x =>
        let f : UInt8 → UInt8 := if op == "flip" then (fun b => b ^^^ (UInt8.ofNat (1 <<< x))) else (fun _ => UInt8.ofNat x)
        let m := wholeBefore st.ends off
        let r := readReport st.recs (setAt st.file off f)
        let ok := r.1 ≥ m && r.2.1
        (st, fmtRead r, s!"k>={m} prefix=yes end=*" ++ (if ok then "" else "\tdamage-compression-record-unchecked"))
      | _, _ => (st, "bad-op", "bad-op")
    else if op == "recover" then
      match off.toNat?, parseRec x with
      | some off, some newRec =>
        let m := wholeBefore st.ends off
        let file' := recoverAndAppend walParams (st.file.take off) [newRec]
        let r := readAll walParams file'
        let expect := st.recs.take m ++ [newRec]
        let good := r.1 == expect
        let out := s!"k={r.1.length} exact={if good then "yes" else "no"}"
        (st, out, s!"k={m + 1} exact=yes" ++ (if good then "" else "\ttorn-tail-clean-eof"))
      | _, _ => (st, "bad-op", "bad-op")
    else (st, "bad-op", "bad-op")
  | _ => (st, "bad-op", "bad-op")

def c12Driver : LineDriver := { σ := C12State, init := {}, step := fun st ws =>
  let (s, m, sp) := c12Step st ws; (s, m, sp) }
