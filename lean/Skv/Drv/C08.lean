import Skv.Drv.Common
import Skv.Model.TxnProg
/-!
C08 driver.  Lines:
  case <n> <rw|ro|wo>         start a transaction in the given mode (fresh snapshot table)
  snap <k> <v>                 the committed store holds k ↦ v when the transaction begins
  set <k> <v> <ts> | del <k> <ts> | sdel <k> <ts> | rep <k> <v>
  get <k> | sp | rbsp | rollback | commit
  conflict <k> <v>             another transaction commits k ↦ v now (after this one began)
  final <k>                    what a fresh reader sees after the transaction is over
The verdict of the commit pipeline is an input of the C08 machines (C04 decides it); the driver
computes it as "no key of the write set was committed by somebody else since the begin".
Outputs: model column from `Txn.step`, spec column from `STxn.step`.
-/

structure C08State where
  snap : List (Key × Val) := []
  t : Txn := Txn.start .readWrite
  s : STxn := STxn.start .readWrite
  later : List Key := []                      -- keys committed by other transactions after the begin
  storeM : List (Key × Option Val) := []      -- model: committed writes, newest first
  storeS : List (Key × Option Val) := []      -- spec: committed writes, newest first

def snapFn (snap : List (Key × Val)) (k : Key) : Option Val :=
  (snap.find? (fun p => p.1 == k)).map (·.2)

def storeGet (st : List (Key × Option Val)) (k : Key) : Option Val :=
  ((st.find? (fun p => p.1 == k)).map (·.2)).getD none

def entryKV (e : Entry) : Key × Option Val := (e.key, if e.kind.isTomb then none else e.value)
def wKV (w : W) : Key × Option Val := (w.key, if w.kind.isTomb then none else w.value)

def c08Op (ws : List String) : Option TOp :=
  match ws with
  | ["set", k, v, ts] => do
    let k ← bytesOfHex? k; let v ← bytesOfHex? v; let ts ← ts.toNat?
    pure (.write k (some v) .set ts)
  | ["del", k, ts] => do
    let k ← bytesOfHex? k; let ts ← ts.toNat?
    pure (.write k none .delete ts)
  | ["sdel", k, ts] => do
    let k ← bytesOfHex? k; let ts ← ts.toNat?
    pure (.write k none .softDelete ts)
  | ["rep", k, v] => do
    let k ← bytesOfHex? k; let v ← bytesOfHex? v
    pure (.write k (some v) .replace 0)
  | ["get", k] => do let k ← bytesOfHex? k; pure (.get k)
  | ["sp"] => some .setSp
  | ["rbsp"] => some .rbSp
  | ["rollback"] => some .rollback
  | _ => none

def c08Step (st : C08State) (ws : List String) : C08State × String × String :=
  match ws with
  | ["case", _, m] =>
    let mode := match m with | "ro" => Mode.readOnly | "wo" => Mode.writeOnly | _ => Mode.readWrite
    ({ snap := [], t := Txn.start mode, s := STxn.start mode }, "-", "-")
  | ["snap", k, v] =>
    match bytesOfHex? k, bytesOfHex? v with
    | some k, some v =>
      ({ st with snap := (k, v) :: st.snap, storeM := (k, some v) :: st.storeM,
                 storeS := (k, some v) :: st.storeS }, "-", "-")
    | _, _ => (st, "bad-op", "bad-op")
  | ["conflict", k, v] =>
    match bytesOfHex? k, bytesOfHex? v with
    | some k, some v =>
      ({ st with later := k :: st.later, storeM := (k, some v) :: st.storeM,
                 storeS := (k, some v) :: st.storeS }, "-", "-")
    | _, _ => (st, "bad-op", "bad-op")
  | ["final", k] =>
    match bytesOfHex? k with
    | none => (st, "bad-op", "bad-op")
    | some k => (st, optHex (storeGet st.storeM k), optHex (storeGet st.storeS k))
  | _ =>
    let okp := !(st.t.ws.any (fun p => st.later.any (fun q => q == p.1)))
    match (if ws == ["commit"] then some (TOp.commit okp) else c08Op ws) with
    | none => (st, "bad-op", "bad-op")
    | some op =>
      let snap := snapFn st.snap
      let rm := st.t.step snap op
      let rs := st.s.step snap op
      -- a successful commit applies the batch (model) / the surviving log (spec) in issue order
      let (sm, ss) :=
        match op with
        | .commit true =>
          if rm.2 == .ok && !st.t.closed then
            (st.t.batch.reverse.map entryKV ++ st.storeM, st.s.spec.log.map wKV ++ st.storeS)
          else (st.storeM, st.storeS)
        | _ => (st.storeM, st.storeS)
      ({ st with t := rm.1, s := rs.1, storeM := sm, storeS := ss }, rm.2.toStr, rs.2.toStr)

def c08Driver : LineDriver := { σ := C08State, init := {}, step := c08Step }
