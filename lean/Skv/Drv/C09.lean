import Skv.Drv.Common
import Skv.Model.TxnIter
/-!
C09 driver.  Keys are small numbers (the harness maps them to byte strings in the same order).
  case <n> ...
  put <k> <v> | del <k>            committed by other transactions
  flush | rotate | compact         physical placement (no effect on the model)
  begin                            the cursor's transaction begins (snapshot = committed state now)
  ws <k> <v> | wsdel <k>           pending writes of that transaction
  cursor <lo|-> <hi|->             open a range cursor over [lo, hi)
  first | last | seek <k> | next | prev     → `inv` | `<k>=<v>`
Model column: `TI` (merge of snapshot-side and write-set-side cursors).  Spec column: a cursor over
the sorted list of live keys of the overlay.
-/

structure C09State where
  committed : List (Nat × Nat) := []          -- live committed keys, ascending
  snapshot : List (Nat × Nat) := []
  ws : List (Nat × Option Nat) := []          -- ascending by key; none = tombstone
  ti : TI := TI.start [] []
  live : List (Nat × Nat) := []               -- spec: overlay within bounds
  pos : Option Nat := none                    -- spec: index into `live`

def insAsc {β : Type} (k : Nat) (v : β) : List (Nat × β) → List (Nat × β)
  | [] => [(k, v)]
  | p :: r => if k < p.1 then (k, v) :: p :: r else if k == p.1 then (k, v) :: r else p :: insAsc k v r

def inBounds (lo hi : Option Nat) (k : Nat) : Bool :=
  (match lo with | some l => l ≤ k | none => true) && (match hi with | some h => k < h | none => true)

def overlay (snap : List (Nat × Nat)) (ws : List (Nat × Option Nat)) : List (Nat × Nat) :=
  let base := snap.filter (fun p => !ws.any (fun w => w.1 == p.1))
  ws.foldl (fun acc w => match w.2 with | some v => insAsc w.1 v acc | none => acc) base

def valueOf (st : C09State) (k : Nat) : Nat :=
  match st.ws.find? (fun w => w.1 == k) with
  | some (_, some v) => v
  | _ => ((st.snapshot.find? (fun p => p.1 == k)).map (·.2)).getD 0

def outModel (st : C09State) : String :=
  match st.ti.key with
  | some k => s!"{k}={valueOf st k}"
  | none => "inv"

def outSpec (st : C09State) : String :=
  match st.pos.bind (fun i => st.live[i]?) with
  | some (k, v) => s!"{k}={v}"
  | none => "inv"

def optNat (s : String) : Option (Option Nat) := if s == "-" then some none else s.toNat?.map some

def c09Step (st : C09State) (ws : List String) : C09State × String × String :=
  let fin (st : C09State) := (st, outModel st, outSpec st)
  match ws with
  | "case" :: _ => ({}, "-", "-")
  | ["put", k, v] =>
    match k.toNat?, v.toNat? with
    | some k, some v => ({ st with committed := insAsc k v st.committed }, "ok", "ok")
    | _, _ => (st, "bad-op", "bad-op")
  | ["del", k] =>
    match k.toNat? with
    | some k => ({ st with committed := st.committed.filter (fun p => p.1 != k) }, "ok", "ok")
    | none => (st, "bad-op", "bad-op")
  | ["flush"] => (st, "ok", "ok")
  | ["rotate"] => (st, "ok", "ok")
  | ["compact"] => (st, "ok", "ok")
  | ["begin"] => ({ st with snapshot := st.committed, ws := [] }, "ok", "ok")
  | ["ws", k, v] =>
    match k.toNat?, v.toNat? with
    | some k, some v => ({ st with ws := insAsc k (some v) st.ws }, "ok", "ok")
    | _, _ => (st, "bad-op", "bad-op")
  | ["wsdel", k] =>
    match k.toNat? with
    | some k => ({ st with ws := insAsc k none st.ws }, "ok", "ok")
    | none => (st, "bad-op", "bad-op")
  | ["cursor", lo, hi] =>
    match optNat lo, optNat hi with
    | some lo, some hi =>
      let S := (st.snapshot.filter (fun p => inBounds lo hi p.1)).map (·.1)
      let W := (st.ws.filter (fun w => inBounds lo hi w.1)).map (fun w => (w.1, w.2.isNone))
      let live := (overlay st.snapshot st.ws).filter (fun p => inBounds lo hi p.1)
      ({ st with ti := TI.start S W, live := live, pos := none }, "ok", "ok")
    | _, _ => (st, "bad-op", "bad-op")
  | ["first"] => fin { st with ti := st.ti.seekFirst, pos := if st.live.isEmpty then none else some 0 }
  | ["last"] => fin { st with ti := st.ti.seekLast, pos := if st.live.isEmpty then none else some (st.live.length - 1) }
  | ["seek", k] =>
    match k.toNat? with
    | some k =>
      let i := (st.live.takeWhile (fun p => p.1 < k)).length
      fin { st with ti := st.ti.seek k, pos := if i < st.live.length then some i else none }
    | none => (st, "bad-op", "bad-op")
  | ["next"] =>
    fin { st with ti := st.ti.next,
                  pos := match st.pos with | some i => if i + 1 < st.live.length then some (i + 1) else none | none => none }
  | ["prev"] =>
    fin { st with ti := st.ti.prev,
                  pos := match st.pos with | some i => if i > 0 then some (i - 1) else none | none => none }
  | _ => (st, "bad-op", "bad-op")

def c09Driver : LineDriver := { σ := C09State, init := {}, step := c09Step }
