import Skv.Drv.Common
import Skv.Spec.CompactSpec
/-!
Per-key compaction driver.  Lines:
  case <n>
  compact <bottom> <versioning> <retention> <now> <s1,s2,..|-> <seq:kind:ts,...>     versions newest first, kinds as bytes
Judge pass (`ckey-judge`): the same line followed by `=> <seq,seq,..|->` (the implementation's output);
prints `reads=<ok|bad> hist=<ok|bad>`.
-/

def parseList (s : String) : Option (List Nat) :=
  if s == "-" then some [] else (s.splitOn ",").mapM String.toNat?

def parseVers (s : String) : Option (List Ver) :=
  if s == "-" then some [] else
  (s.splitOn ",").mapM (fun t =>
    match t.splitOn ":" with
    | [a, k, ts] => do
      let a ← a.toNat?; let k ← k.toNat?; let ts ← ts.toNat?; let kind ← VKind.ofByte? k
      pure (⟨a, kind, ts⟩ : Ver)
    | _ => none)

def seqsStr (l : List Ver) : String :=
  if l.isEmpty then "-" else ",".intercalate (l.map (fun v => toString v.seq))

structure CompactLine where
  c : CCfg
  snaps : List Nat
  vs : List Ver

def parseCompact (ws : List String) : Option CompactLine :=
  match ws with
  | [b, v, r, now, sn, vers] => do
    let r ← r.toNat?; let now ← now.toNat?; let sn ← parseList sn; let vs ← parseVers vers
    pure ⟨⟨b == "1", v == "1", r, now⟩, sn, vs⟩
  | _ => none

def ckeyStep (_ : Unit) (ws : List String) : Unit × String × String :=
  match ws with
  | ["case", _] => ((), "-", "-")
  | "compact" :: rest =>
    match parseCompact rest with
    | some l =>
      let out := compactKey l.c l.snaps l.vs
      let tag := if specOK l.c l.snaps l.vs out then ""
        else if readsOK l.c l.snaps l.vs out then "\tversioned-history-lost-in-compaction"
        else "\treads-changed-by-compaction"
      ((), seqsStr out, "spec" ++ tag)
    | none => ((), "bad-op", "bad-op")
  | _ => ((), "bad-op", "bad-op")

def ckeyDriver : LineDriver := { σ := Unit, init := (), step := ckeyStep }

/-- judge pass: `compact ... => out` -/
def ckeyJudgeStep (_ : Unit) (ws : List String) : Unit × String × String :=
  match ws with
  | "compact" :: rest =>
    match rest.takeWhile (· != "=>"), rest.dropWhile (· != "=>") with
    | args, [_, outS] =>
      match parseCompact args, parseList outS with
      | some l, some seqs =>
        let out := l.vs.filter (fun v => seqs.contains v.seq)
        -- the implementation must emit a subsequence in order
        let inOrder := out.map (·.seq) == seqs
        let r := inOrder && readsOK l.c l.snaps l.vs out
        let h := inOrder && specOK l.c l.snaps l.vs out
        ((), s!"reads={if r then "ok" else "bad"} hist={if h then "ok" else "bad"}", "-")
      | _, _ => ((), "bad-op", "-")
    | _, _ => ((), "bad-op", "-")
  | _ => ((), "-", "-")

def ckeyJudgeDriver : LineDriver := { σ := Unit, init := (), step := ckeyJudgeStep }
