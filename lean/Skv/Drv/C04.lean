import Skv.Drv.Common
import Skv.Model.Oracle
import Skv.Model.Consts
/-!
C04 driver (oracle level).  Lines:
  case <n>
  commit <start> <oa> <k>...   check; on ok allocate seqs and publish (one step, as under write_mutex)
  fail <stamp>                 the batch with this stamp failed after publish: rollback
  check <start> <k>...         probe only
  burst <n> <oa>               n single-key commits of fresh filler keys (to cross the GC interval)
  reset <maxseq>               restore_from_checkpoint: oracle reset, seq counter rewound
Spec column: first-committer-wins over the list of live batches: `retry` below the kept window,
`conflict` iff a live batch with a stamp above `start` wrote one of the keys, else `ok`.
-/

structure C04State where
  s : OState := OState.init
  filler : Nat := 1000000

def specCheck (s : OState) (keys : List Nat) (start : Nat) : String :=
  if start < s.o.keptSince then "retry"
  else if s.live.any (fun b => b.stamp > start && keys.any (fun k => b.keys.contains k)) then "conflict"
  else "ok"

def errStr : Option CErr → String
  | none => "ok" | some .retry => "retry" | some .conflict => "conflict"

def c04Commit (st : C04State) (keys : List Nat) (start oa : Nat) : C04State × String × String :=
  let sp := specCheck st.s keys start
  let r := st.s.step Consts.gcInterval (.commit keys start oa)
  let m := match r.2 with
    | none => s!"ok:{st.s.next + keys.length - 1}"
    | some e => errStr (some e)
  let spOut := if sp == "ok" then s!"ok:{st.s.next + keys.length - 1}" else sp
  let tag := if m == spOut then "" else "\tghost-stamp-after-double-rollback"
  ({ st with s := r.1 }, m, spOut ++ tag)

def c04Step (st : C04State) (ws : List String) : C04State × String × String :=
  match ws with
  | ["case", _] => ({}, "-", "-")
  | "commit" :: start :: oa :: ks =>
    match start.toNat?, oa.toNat?, ks.mapM String.toNat? with
    | some start, some oa, some keys =>
      if keys.isEmpty then (st, "bad-op", "bad-op") else c04Commit st keys start oa
    | _, _, _ => (st, "bad-op", "bad-op")
  | ["fail", stamp] =>
    match stamp.toNat? with
    | some stamp => ({ st with s := (st.s.step Consts.gcInterval (.fail stamp)).1 }, "-", "-")
    | none => (st, "bad-op", "bad-op")
  | "check" :: start :: ks =>
    match start.toNat?, ks.mapM String.toNat? with
    | some start, some keys =>
      let m := match st.s.o.check keys start with | .ok _ => "ok" | .error e => errStr (some e)
      let sp := specCheck st.s keys start
      (st, m, sp ++ (if m == sp then "" else "\tghost-stamp-after-double-rollback"))
    | _, _ => (st, "bad-op", "bad-op")
  | ["burst", n, oa] =>
    match n.toNat?, oa.toNat? with
    | some n, some oa =>
      let st' := (List.range n).foldl (fun (acc : C04State) _ =>
        let r := acc.s.step Consts.gcInterval (.commit [acc.filler] (acc.s.next - 1) oa)
        { s := r.1, filler := acc.filler + 1 }) st
      (st', s!"next={st'.s.next}", s!"next={st'.s.next}")
    | _, _ => (st, "bad-op", "bad-op")
  | ["reset", m] =>
    match m.toNat? with
    | some m => ({ st with s := { o := st.s.o.resetForRestore m, next := m + 1, live := [] } }, "-", "-")
    | none => (st, "bad-op", "bad-op")
  | _ => (st, "bad-op", "bad-op")

def c04Driver : LineDriver := { σ := C04State, init := {}, step := c04Step }
