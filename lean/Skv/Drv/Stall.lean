import Skv.Drv.Common
import Skv.Model.Stall
/-!
write-stall wait driver (C17).  Lines:
  case <n>
  register <i> | read <i> | await <i>      committer `i` advances to its next pause point inside `check()`
  stall | clear | signal | shutdown          the environment (`shutdown` = `signal_shutdown`: flag store + notify)
Model column: what the committer did (`reg`, `wait`/`ok`/`err`, `woken`/`blocked`, `noop`).  Spec column: the same,
except that a committer may only be `blocked` while a signal is owed or the stall condition holds with no
shutdown (C17_no_lost_wakeup) — otherwise the spec says `woken`.
-/

def stallStep (s : SState) (ws : List String) : SState × String × String :=
  let same (s : SState) (o : String) : SState × String × String := (s, o, o)
  match ws with
  | "case" :: _ => same {} "-"
  | ["register", i] =>
    match i.toNat? with
    | none => same s "bad-op"
    | some i =>
      -- a committer that has returned starts a new call
      let s := match s.phase i with
        | .returned _ => s.setPhase i .idle
        | _ => s
      match s.phase i with
      | .idle => same (s.step (.register i)) "reg"
      | _ => same s "noop"
  | ["read", i] =>
    match i.toNat? with
    | none => same s "bad-op"
    | some i =>
      match s.phase i with
      | .registered _ =>
        let s' := s.step (.read i)
        same s' (match s'.phase i with
          | .returned true => "ok"
          | .returned false => "err"
          | _ => "wait")
      | _ => same s "noop"
  | ["await", i] =>
    match i.toNat? with
    | none => same s "bad-op"
    | some i =>
      match s.phase i with
      | .decided _ =>
        let s' := s.step (.await i)
        if s'.blocked i then
          let legit := decide (0 < s'.owed) || (s'.stalled && !s'.shutdown)
          (s', "blocked", if legit then "blocked" else "woken")
        else same s' "woken"
      | _ => same s "noop"
  | ["stall"] => same (s.step .stall) "ok"
  | ["clear"] => same (s.step .clear) "ok"
  | ["signal"] => same (s.step .signal) "ok"
  | ["shutdown"] => same ((s.step .shutdown).step .signal) "ok"
  | _ => same s "bad-op"

def stallDriver : LineDriver := { σ := SState, init := {}, step := stallStep }
