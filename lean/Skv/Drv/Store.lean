import Skv.Drv.Common
/-!
Store-level specification driver (C01 / C06): the committed history as a map, readers as copies
of the map at their begin.  Physical-arrangement operations are no-ops of the specification.
Lines:
  case <n> ...                      (options are for the implementation only)
  txn <k>=<v|DEL|SDEL> ...          one committed write transaction (keys/values hex)
  begin <r> | end <r>               reader r opens / finishes
  get <r> <k>                       point read in reader r        → some:<v> | none
  scan <r> fwd|bwd                  full range scan in reader r   → k=v,k=v,.. | -
  fresh <k>                         point read in a new transaction
  rotate | flush | compact | reopen physical placement (spec: nothing changes)
-/

structure StoreState where
  cur : List (Key × Val) := []                      -- live keys, sorted ascending
  readers : List (Nat × List (Key × Val)) := []
  prev : List (Key × Val) := []                     -- live keys before the last transaction
  lastTxn : Bool := false                           -- the previous operation was a plain transaction

def mapErase (m : List (Key × Val)) (k : Key) : List (Key × Val) := m.filter (fun p => p.1 != k)

def mapInsert (m : List (Key × Val)) (k : Key) (v : Val) : List (Key × Val) :=
  let rec ins : List (Key × Val) → List (Key × Val)
    | [] => [(k, v)]
    | p :: r => if keyLt k p.1 then (k, v) :: p :: r else p :: ins r
  ins (mapErase m k)

def mapGet (m : List (Key × Val)) (k : Key) : Option Val := (m.find? (fun p => p.1 == k)).map (·.2)

/-- long values are written `Z<len>.<hex of the leading tag>` in the operation files (the tag followed by
filler bytes `z`) and rendered `L<len>.<hex of the first 16 bytes>` by both sides -/
def valOfTok? (v : String) : Option Val :=
  if v.startsWith "Z" then
    match (v.drop 1).toString.splitOn "." with
    | [n, tag] =>
      match n.toNat?, bytesOfHex? tag with
      | some n, some t => some (t ++ List.replicate (n - t.length) 0x7a)
      | _, _ => none
    | _ => none
  else bytesOfHex? v

def renderVal (v : Val) : String :=
  if v.length ≤ 1200 then hexOfBytes v else s!"L{v.length}.{hexOfBytes (v.take 16)}"

def scanStr (m : List (Key × Val)) : String :=
  if m.isEmpty then "-" else ",".intercalate (m.map (fun p => hexOfBytes p.1 ++ "=" ++ renderVal p.2))

def storeStep (st : StoreState) (ws : List String) : StoreState × String × String :=
  let same (st : StoreState) (s : String) := (st, s, s)
  match ws with
  | "case" :: _ => same {} "-"
  | "txn" :: writes =>
    let apply := writes.foldl (fun (acc : Option (List (Key × Val))) w =>
      match acc, w.splitOn "=" with
      | some m, [k, v] =>
        match bytesOfHex? k with
        | some k =>
          if v == "DEL" || v == "SDEL" then some (mapErase m k)
          else (valOfTok? v).map (fun v => mapInsert m k v)
        | none => none
      | _, _ => none) (some st.cur)
    match apply with
    | some m => same { st with cur := m, prev := st.cur, lastTxn := true } "ok"
    | none => same st "bad-op"
  -- a transaction too large for any memtable: refused before anything is logged (fix d15184a), no effect
  | "txnbig" :: _ => same st "err:toolarge"
  -- the process dies while the last commit's record is half written (torn tail of the commit log);
  -- the store is reopened (the tail is cut by repair): that last transaction is gone, everything else stays
  | ["crashtear", _] =>
    -- (only meaningful right after a transaction: its record is the tail of the commit log)
    if st.lastTxn then same { st with cur := st.prev, readers := [], lastTxn := false } "ok"
    else same { st with readers := [] } "ok"
  | ["begin", r] =>
    match r.toNat? with
    | some r => same { st with readers := (r, st.cur) :: st.readers.filter (fun p => p.1 != r) } "ok"
    | none => same st "bad-op"
  | ["end", r] =>
    match r.toNat? with
    | some r => same { st with readers := st.readers.filter (fun p => p.1 != r) } "ok"
    | none => same st "bad-op"
  | ["get", r, k] =>
    match r.toNat?, bytesOfHex? k with
    | some r, some k =>
      match st.readers.find? (fun p => p.1 == r) with
      | some p => same st (optHex (mapGet p.2 k))
      | none => same st "no-reader"
    | _, _ => same st "bad-op"
  | ["scan", r, dir] =>
    match r.toNat? with
    | some r =>
      match st.readers.find? (fun p => p.1 == r) with
      | some p => same st (scanStr (if dir == "bwd" then p.2.reverse else p.2))
      | none => same st "no-reader"
    | none => same st "bad-op"
  | ["fresh", k] =>
    match bytesOfHex? k with
    | some k => same st (optHex (mapGet st.cur k))
    | none => same st "bad-op"
  | ["vcheck"] => same st "ok"
  | ["rotate"] => same st "ok"
  | ["flush"] => same st "ok"
  | ["flushimm"] => same st "ok"
  | ["compact"] => same st "ok"
  | ["compactflush"] => same st "ok"   -- a flush while a compaction round is between hiding its inputs and the manifest switch
  | ["reopen"] => same { st with readers := [] } "ok"
  | ["scanall"] => same st (scanStr st.cur)
  | ["crash"] => same st s!"img={scanStr st.cur} re=ok"
  | op :: writes =>
    -- `<op>@<i>`: the operation runs to completion; a crash image is taken at its i-th yield point
    match op.splitOn "@" with
    | ["txn", _] =>
      let apply := writes.foldl (fun (acc : Option (List (Key × Val))) w =>
        match acc, w.splitOn "=" with
        | some m, [k, v] =>
          match bytesOfHex? k with
          | some k =>
            if v == "DEL" || v == "SDEL" then some (mapErase m k)
            else (valOfTok? v).map (fun v => mapInsert m k v)
          | none => none
        | _, _ => none) (some st.cur)
      match apply with
      | some m =>
        -- all-or-nothing: the image holds the state before or after this transaction
        let out := s!"img={scanStr st.cur}|{scanStr m} re=ok"
        ({ st with cur := m }, out, out)
      | none => same st "bad-op"
    | [o, _] =>
      if o == "flush" || o == "compact" || o == "rotate" then same st s!"img={scanStr st.cur} re=ok"
      else same st "bad-op"
    | _ => same st "bad-op"
  | [] => same st "bad-op"

def storeStep' (st : StoreState) (ws : List String) : StoreState × String × String :=
  -- `txnrot`: a transaction during which (between its WAL append and its apply) the memtable is rotated and the
  -- rotated one flushed by someone else: for the specification an ordinary committed transaction
  let ws := match ws with | "txnrot" :: r => "txn" :: r | _ => ws
  -- `beginover r point writes`: reader `r` begins (its begin is held at a yield point), then the transaction commits
  -- and everything is flushed and compacted: for the specification `begin r` followed by `txn writes`
  match ws with
  | "beginover" :: r :: _ :: writes =>
    let (st1, _, _) := storeStep st ["begin", r]
    let (st2, m, sp) := storeStep st1 ("txn" :: writes)
    ({ st2 with lastTxn := false }, m, sp)
  | _ =>
  let (st', m, sp) := storeStep st ws
  -- `lastTxn` survives only the transaction that set it
  let keep := match ws with | "txn" :: _ => true | _ => false
  ((if keep then st' else { st' with lastTxn := false }), m, sp)

def storeDriver : LineDriver := { σ := StoreState, init := {}, step := storeStep' }
