import Skv.Drv.Common
import Skv.Model.Guard
/-!
C16 driver (table files).  Lines:
  case ... / ent ...                      (ignored here: the entry set only matters to the implementation side)
  regions <filesize> kind:off:len,...     byte regions of the real file
  flip <off> <bit> | setb <off> <val> <orig> | trunc <len>
Model column: the outcome class predicted from the region the altered byte lies in — blocks read
at open (top-level index, meta index, filter) fail the open, blocks read on demand (data blocks,
index partitions) fail the read, footer magic / format / checksum-type bytes fail the open, footer
padding is never interpreted (`same`), the two varint block handles in the footer are guarded only
indirectly (`*`: no exact prediction).  Spec column: `ok` = original answers or an error.
-/

structure C16State where
  n : Nat := 0
  rs : List Region := []
  ok : Bool := false

def varintLen (x : Nat) : Nat := if x < 128 then 1 else 1 + varintLen (x / 128)
decreasing_by omega

def parseRegion (s : String) : Option Region :=
  match s.splitOn ":" with
  | [k, o, l] => do
    let o ← o.toNat?; let l ← l.toNat?
    pure { kind := k, off := o, len := l }
  | _ => none

def predictOff (st : C16State) (off : Nat) : String :=
  match regionOf st.rs off with
  | none => "NO-REGION"
  | some r =>
    if r.kind == "data" || r.kind == "partition" then "err-read"
    else if r.kind == "topindex" || r.kind == "metaindex" || r.kind == "filter" then "err-open"
    else if r.kind == "footer" then
      let rel := off - r.off
      let hlen := (st.rs.filter (fun x => x.kind == "metaindex" || x.kind == "topindex")).foldl
        (fun acc x => acc + varintLen x.off + varintLen (x.len - 5)) 0
      if rel < 2 then "err-open"
      else if rel < 2 + hlen then "*"
      else if rel < 42 then "same"
      else "err-open"
    else "UNKNOWN-KIND"

def c16Step (st : C16State) (ws : List String) : C16State × String × String :=
  match ws with
  | "case" :: _ => ({}, "-", "-")
  | "ent" :: _ => (st, "-", "-")
  | ["regions", n, l] =>
    match n.toNat?, (l.splitOn ",").mapM parseRegion with
    | some n, some rs =>
      let ok := regionsCover rs 0 n && rs.all (fun r => guardedKinds.contains r.kind)
      ({ n := n, rs := rs, ok := ok }, (if ok then s!"{n} {l}" else "UNGUARDED-BYTES"), "*")
    | _, _ => (st, "bad-regions", "*")
  | ["flip", off, _bit] =>
    match off.toNat? with
    | some off => (st, predictOff st off, "ok")
    | none => (st, "bad-op", "bad-op")
  | ["setb", off, v, orig] =>
    match off.toNat? with
    | some off => (st, (if v == orig then "same" else predictOff st off), "ok")
    | none => (st, "bad-op", "bad-op")
  | ["trunc", _] => (st, "err-open", "ok")
  | _ => (st, "bad-op", "bad-op")

def c16Driver : LineDriver := { σ := C16State, init := {}, step := c16Step }

/-- store-level sweep: no model beyond the property itself (original answers or an error) -/
def c16sDriver : LineDriver :=
  { σ := Unit, init := (),
    step := fun _ ws => match ws with
      | "alter" :: _ => ((), "ok", "ok")
      | _ => ((), "*", "*") }
