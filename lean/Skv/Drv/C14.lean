import Skv.Drv.Common
/-!
C14 driver: the specification of checkpoint / restore over a key-value map.  Lines:
  case <n> <vlog>
  txn k=<id>:<len>|DEL ...   get k   scan   flush   compact   reopen
  checkpoint                 remember the committed state
  restore [k]                the state becomes the remembered one (k: the k-th checkpoint of the case)
  openckpt                   the checkpoint directory opened standalone lists the remembered state
  hist k | ckhist k          (versioned cases) the retained versions of k, newest first, in the store / in the
                             checkpoint directory opened standalone
  race k                     two overlapping writers of k: the second to commit is refused (first value stays)
  snapread k                 a reader spanning a commit keeps its view (the commit is applied)
-/

structure C14State where
  cur : List (Nat × (Nat × Nat)) := []     -- key ↦ (value id, length), keys ascending
  saved : List (Nat × (Nat × Nat)) := []   -- the latest checkpoint
  all : List (List (Nat × (Nat × Nat)) × List (Nat × List (Nat × Nat))) := []   -- every checkpoint of the case, oldest first
  hist : List (Nat × List (Nat × Nat)) := []      -- key ↦ retained versions, newest first (versioned cases)
  savedHist : List (Nat × List (Nat × Nat)) := []

def h14Get (h : List (Nat × List (Nat × Nat))) (k : Nat) : List (Nat × Nat) :=
  match h.find? (·.1 == k) with | some p => p.2 | none => []
def h14Put (h : List (Nat × List (Nat × Nat))) (k : Nat) (vs : List (Nat × Nat)) : List (Nat × List (Nat × Nat)) :=
  (k, vs) :: h.filter (·.1 != k)
/-- a set adds a version; a (hard) delete erases the key's history for good -/
def h14Set (h : List (Nat × List (Nat × Nat))) (k : Nat) (v : Nat × Nat) := h14Put h k (v :: h14Get h k)
def h14Del (h : List (Nat × List (Nat × Nat))) (k : Nat) := h14Put h k []

def m14Set (m : List (Nat × (Nat × Nat))) (k : Nat) (v : Nat × Nat) : List (Nat × (Nat × Nat)) :=
  match m with
  | [] => [(k, v)]
  | (k', v') :: rest => if k == k' then (k, v) :: rest else if k < k' then (k, v) :: (k', v') :: rest else (k', v') :: m14Set rest k v

def show14 (v : Nat × Nat) : String := s!"{v.1}:{max v.2 (s!"v{v.1}-".length)}"
def scan14 (m : List (Nat × (Nat × Nat))) : String :=
  if m.isEmpty then "-" else ",".intercalate (m.map (fun p => s!"{p.1}={show14 p.2}"))

def hist14 (vs : List (Nat × Nat)) : String :=
  if vs.isEmpty then "-" else ",".intercalate (vs.map show14)

def c14Step (st : C14State) (ws : List String) : C14State × String × String :=
  let same (st : C14State) (s : String) := (st, s, s)
  match ws with
  | "case" :: _ => same {} "-"
  | "txn" :: writes =>
    let m := writes.foldl (fun (acc : Option (List (Nat × (Nat × Nat)))) w =>
      match acc, w.splitOn "=" with
      | some m, [k, v] =>
        match k.toNat? with
        | some k =>
          if v == "DEL" then some (m.filter (·.1 != k))
          else match v.splitOn ":" with
            | [a, b] => match a.toNat?, b.toNat? with
              | some a, some b => some (m14Set m k (a, b))
              | _, _ => none
            | _ => none
        | none => none
      | _, _ => none) (some st.cur)
    let h := writes.foldl (fun (acc : List (Nat × List (Nat × Nat))) w =>
      match w.splitOn "=" with
      | [k, v] =>
        match k.toNat? with
        | some k =>
          if v == "DEL" then h14Del acc k
          else match v.splitOn ":" with
            | [a, b] => match a.toNat?, b.toNat? with
              | some a, some b => h14Set acc k (a, b)
              | _, _ => acc
            | _ => acc
        | none => acc
      | _ => acc) st.hist
    match m with
    | some m => same { st with cur := m, hist := h } "ok"
    | none => same st "bad-op"
  | ["get", k] => match k.toNat? with
    | some k => same st (match st.cur.find? (·.1 == k) with | some p => show14 p.2 | none => "none")
    | none => same st "bad-op"
  | ["scan"] => same st (scan14 st.cur)
  | ["crashscan"] => same st (scan14 st.cur)
  | ["flush"] => same st "ok"
  | ["hold"] => same st "ok"
  | ["release"] => same st "ok"
  | ["compact"] => same st "ok"
  | ["reopen"] => same st "ok"
  | ["checkpoint"] => same { st with saved := st.cur, savedHist := st.hist, all := st.all ++ [(st.cur, st.hist)] } "ok"
  | ["restore"] => same { st with cur := st.saved, hist := st.savedHist } "ok"
  | ["restore", k] => match k.toNat? with
    | some k => match st.all[k - 1]? with
      | some (c, h) => if k == 0 then same st "bad-op" else same { st with cur := c, hist := h } "ok"
      | none => same st "bad-op"
    | none => same st "bad-op"
  | ["openckpt"] => same st (scan14 st.saved)
  | ["hist", k] => match k.toNat? with
    | some k => same st (hist14 (h14Get st.hist k))
    | none => same st "bad-op"
  | ["ckhist", k] => match k.toNat? with
    | some k => same st (hist14 (h14Get st.savedHist k))
    | none => same st "bad-op"
  | ["race", k] => match k.toNat? with
    | some k => same { st with cur := m14Set st.cur k (900001, 5), hist := h14Set st.hist k (900001, 5) } "second=refused"
    | none => same st "bad-op"
  | ["snapread", k] => match k.toNat? with
    | some k => same { st with cur := m14Set st.cur k (900003, 7), hist := h14Set st.hist k (900003, 7) } "stable"
    | none => same st "bad-op"
  | _ => same st "bad-op"

def c14Driver : LineDriver := { σ := C14State, init := {}, step := c14Step }
