import Skv.Drv.Common
import Skv.Model.Sst
import Skv.Model.SstSep
/-!
C13 driver.  Lines:
  case <n> <block_size> <restart_interval> <partition_size> <snappy> <filter>
  ent <ukhex> <seq> <kind> <valhex>        entries of the table, strictly ascending
  layout P/P/..                            the physical layout the real writer produced:
                                           P = B;B;..   B = <sepukhex>:<sepseq>:<count>:<r0.r1..>
  get <ukhex> <seq>
  cur <lo> <hi>                            bound = - | i:<ukhex> | e:<ukhex>
  first | last | next | prev | seek <ukhex> <seq>
  mc <ukhex>                               bloom filter probe
  range <lo> <hi>                          key-range shortcuts (before / after / overlaps)
Model column: the literal two-level algorithms over the given layout (after checking it is
well-formed).  Spec column: the flat sorted entry list.
-/

def maxSeq : Nat := 72057594037927935

def hexVal (c : Char) : Option Nat :=
  if '0' ≤ c ∧ c ≤ '9' then some (c.toNat - '0'.toNat)
  else if 'a' ≤ c ∧ c ≤ 'f' then some (c.toNat - 'a'.toNat + 10) else none

def unhexBytes (s : String) : Option (List Nat) :=
  if s == "-" then some [] else
  let rec go : List Char → Option (List Nat)
    | [] => some []
    | [_] => none
    | a :: b :: rest => do
      let x ← hexVal a; let y ← hexVal b; let r ← go rest
      pure ((x * 16 + y) :: r)
  go s.toList

structure C13State where
  ents : List Ent := []
  strs : List String := []          -- printable form of entry i
  L : Layout := []
  wf : Bool := false
  lo : Bnd := .unb
  hi : Bnd := .unb
  mcur : TCur := {}
  scur : TCur := {}

def parseBnd (s : String) : Option Bnd :=
  if s == "-" then some .unb
  else if s.startsWith "i:" then (unhexBytes (s.drop 2).toString).map .incl
  else if s.startsWith "e:" then (unhexBytes (s.drop 2).toString).map .excl
  else none

def parseBlock (s : String) (start : Nat) (all : List Ent) : Option PBlock :=
  match s.splitOn ":" with
  | [uk, sq, cnt, rs] => do
    let uk ← unhexBytes uk
    let sq ← sq.toNat?
    let cnt ← cnt.toNat?
    let rs ← (rs.splitOn ".").mapM String.toNat?
    pure { sep := ⟨uk, sq⟩, ents := (all.drop start).take cnt, restarts := rs }
  | _ => none

def parsePart (s : String) (start : Nat) (all : List Ent) : Option (Part × Nat) :=
  (s.splitOn ";").foldlM (fun (acc : Part × Nat) b => do
    let pb ← parseBlock b acc.2 all
    pure (acc.1 ++ [pb], acc.2 + pb.ents.length)) ([], start)

def parseLayout (s : String) (all : List Ent) : Option Layout :=
  ((s.splitOn "/").foldlM (fun (acc : Layout × Nat) p => do
    let (pp, n) ← parsePart p acc.2 all
    pure (acc.1 ++ [pp], n)) ([], 0)).bind (fun r => if r.2 == all.length then some r.1 else none)

def showCur (st : C13State) (c : TCur) (flat : List Ent) : String :=
  match c.pos with
  | none => "invalid"
  | some p => match flat[p]? with
    | some e => st.strs[e.v]?.getD "?"
    | none => "invalid"

def showEnt (st : C13State) : Option Ent → String
  | none => "none"
  | some e => "some " ++ (st.strs[e.v]?.getD "?")

def c13Cursor (st : C13State) (f : TblCtx → TCur → TCur) (g : List Ent → TCur → TCur) : C13State × String × String :=
  let ctx : TblCtx := { L := st.L, lo := st.lo, hi := st.hi, maxSeq := maxSeq }
  let m := f ctx st.mcur
  let s := g st.ents st.scur
  ({ st with mcur := m, scur := s }, showCur st m ctx.flat, showCur st s st.ents)

def c13Step (st : C13State) (ws : List String) : C13State × String × String :=
  match ws with
  | "case" :: _ => ({}, "-", "-")
  | ["ent", uk, sq, _kind, val] =>
    match unhexBytes uk, sq.toNat? with
    | some k, some s =>
      let e : Ent := { k := ⟨k, s⟩, v := st.ents.length }
      ({ st with ents := st.ents ++ [e], strs := st.strs ++ [s!"{uk} {sq} {val}"] }, "-", "-")
    | _, _ => (st, "bad-op", "bad-op")
  | ["layout", l] =>
    match parseLayout l st.ents with
    | some L =>
      let wf := layoutWF L && sortedEnts st.ents
      let sm := sepsMatch maxSeq (blocksOf L)
      ({ st with L := L, wf := wf }, (if !wf then "NOT-WF" else if !sm then "SEPARATORS-DIFFER" else l), "*")
    | none => (st, "bad-layout", "*")
  | ["get", uk, sq] =>
    match unhexBytes uk, sq.toNat? with
    | some k, some s => (st, showEnt st (tblGet st.L k s), showEnt st (specGet st.ents k s))
    | _, _ => (st, "bad-op", "bad-op")
  | ["cur", lo, hi] =>
    match parseBnd lo, parseBnd hi with
    | some lo, some hi => ({ st with lo := lo, hi := hi, mcur := {}, scur := {} }, "ok", "ok")
    | _, _ => (st, "bad-op", "bad-op")
  | ["first"] => c13Cursor st (fun c _ => c.seekFirst) (fun es _ => specSeekFirst es st.lo st.hi)
  | ["last"] => c13Cursor st (fun c _ => c.seekLast) (fun es _ => specSeekLast es st.lo st.hi)
  | ["next"] => c13Cursor st (fun c s => c.next s) (fun es s => specNext es st.lo st.hi s)
  | ["prev"] => c13Cursor st (fun c s => c.prev s) (fun es s => specPrev es st.lo st.hi s)
  | ["seek", uk, sq] =>
    match unhexBytes uk, sq.toNat? with
    | some k, some s => c13Cursor st (fun c _ => c.seek ⟨k, s⟩) (fun es _ => specSeek es st.hi ⟨k, s⟩)
    | _, _ => (st, "bad-op", "bad-op")
  | ["mc", uk] =>
    match unhexBytes uk with
    | some k =>
      let present := st.ents.any (fun e => e.k.uk == k)
      let o := if present then "mc=1" else "*"
      (st, o, o)
    | none => (st, "bad-op", "bad-op")
  | ["range", lo, hi] =>
    match parseBnd lo, parseBnd hi with
    | some lo, some hi =>
      let any := st.ents.any (inRange lo hi)
      let sp := if any then "before=0 after=0 overlaps=1" else "*"
      let b2s (b : Bool) : String := if b then "1" else "0"
      let m := match st.ents.head?, st.ents.getLast? with
        | some f, some l => s!"before={b2s (isBeforeRange l.k.uk lo)} after={b2s (isAfterRange f.k.uk hi)} overlaps={b2s (overlapsRange f.k.uk l.k.uk lo hi)}"
        | _, _ => "before=0 after=0 overlaps=1"
      (st, m, sp)
    | _, _ => (st, "bad-op", "bad-op")
  | _ => (st, "bad-op", "bad-op")

def c13Driver : LineDriver := { σ := C13State, init := {}, step := c13Step }
