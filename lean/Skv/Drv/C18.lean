import Skv.Drv.Common
import Skv.Model.BTree
/-!
C18 driver: the ordered-map specification of the B+tree index.  Lines:
  case <n> bw|ts
  ins <kid>:<klen>:<ts> <vid>:<vlen>     del K   get K
  range <K|-> <K|-> <incl_lo> <incl_hi>  scan fwd|bwd   reopen   audit
Keys order by id (bytewise mode) or by id ascending then timestamp descending (version order).
-/

structure K18 where
  kid : Nat
  klen : Nat
  ts : Nat
  deriving DecidableEq, Repr

structure C18State where
  tsmode : Bool := false
  m : List (K18 × (Nat × Nat)) := []     -- sorted by the key order (specification)
  t : BT := .leaf []                      -- the model tree over key ranks
  keys : List K18 := []                   -- rank ↦ key description (to print the model's answers)

def k18Lt (tsmode : Bool) (a b : K18) : Bool :=
  a.kid < b.kid || (a.kid == b.kid && tsmode && b.ts < a.ts)
def k18Eq (tsmode : Bool) (a b : K18) : Bool := a.kid == b.kid && (!tsmode || a.ts == b.ts)

def parseK18 (s : String) : Option K18 :=
  match s.splitOn ":" with
  | [a, b, c] => do pure ⟨← a.toNat?, ← b.toNat?, ← c.toNat?⟩
  | _ => none

def m18Insert (ts : Bool) (m : List (K18 × (Nat × Nat))) (k : K18) (v : Nat × Nat) : List (K18 × (Nat × Nat)) :=
  match m with
  | [] => [(k, v)]
  | (k', v') :: rest =>
    if k18Eq ts k k' then (k, v) :: rest
    else if k18Lt ts k k' then (k, v) :: (k', v') :: rest
    else (k', v') :: m18Insert ts rest k v

def showV (v : Nat × Nat) : String := if v.2 ≥ 8 then s!"{v.1}:{v.2}" else s!"?:{v.2}"
def showK (ts : Bool) (k : K18) : String := s!"{k.kid}:{max k.klen 2}:{if ts then k.ts else 0}"
def showKV (ts : Bool) (p : K18 × (Nat × Nat)) : String := showK ts p.1 ++ "=" ++ showV p.2
def showList (ts : Bool) (l : List (K18 × (Nat × Nat))) : String :=
  if l.isEmpty then "-" else ",".intercalate (l.map (showKV ts))

/-- order-preserving rank of a key: id, then (in version order) newer timestamps first -/
def rankOf (ts : Bool) (k : K18) : Nat := if ts then k.kid * 8 + (7 - min 7 (k.ts / 10)) else k.kid
def encV (v : Nat × Nat) : Nat := v.1 * 100000 + v.2
def decV (n : Nat) : Nat × Nat := (n / 100000, n % 100000)

/-- the model's split policy: small nodes, so that a few dozen keys already give three levels -/
def drvPolicy : Policy :=
  { leaf := fun es => if es.length > 4 then some (es.length / 2) else none,
    node := fun n => if n > 3 then some (n / 2) else none }

def C18State.keyOfRank (st : C18State) (r : Nat) : Option K18 := st.keys.find? (fun k => rankOf st.tsmode k == r)

def showModelList (st : C18State) (l : List (Nat × Nat)) : String :=
  if l.isEmpty then "-" else ",".intercalate (l.map (fun p =>
    match st.keyOfRank p.1 with
    | some k => showK st.tsmode k ++ "=" ++ showV (decV p.2)
    | none => "?"))

def c18StepSpec (st : C18State) (ws : List String) : C18State × String × String :=
  let same (st : C18State) (s : String) := (st, s, s)
  match ws with
  | ["case", _, mode] => same { tsmode := mode == "ts" } "-"
  | ["ins", k, v] =>
    match parseK18 k, v.splitOn ":" with
    | some k, [a, b] =>
      match a.toNat?, b.toNat? with
      | some a, some b => same { st with m := m18Insert st.tsmode st.m k (a, b) } "ok"
      | _, _ => same st "bad-op"
    | _, _ => same st "bad-op"
  | ["del", k] =>
    match parseK18 k with
    | some k =>
      match st.m.find? (fun p => k18Eq st.tsmode k p.1) with
      | some p => same { st with m := st.m.filter (fun q => !k18Eq st.tsmode k q.1) } ("some " ++ showV p.2)
      | none => same st "none"
    | none => same st "bad-op"
  | ["get", k] =>
    match parseK18 k with
    | some k =>
      match st.m.find? (fun p => k18Eq st.tsmode k p.1) with
      | some p => same st ("some " ++ showV p.2)
      | none => same st "none"
    | none => same st "bad-op"
  | ["range", lo, hi, il, ih] =>
    let lo? := if lo == "-" then none else parseK18 lo
    let hi? := if hi == "-" then none else parseK18 hi
    if (lo != "-" && lo?.isNone) || (hi != "-" && hi?.isNone) then same st "bad-op" else
    let okLo (k : K18) : Bool := match lo? with
      | none => true
      | some l => k18Lt st.tsmode l k || (il == "1" && k18Eq st.tsmode l k)
    let okHi (k : K18) : Bool := match hi? with
      | none => true
      | some h => k18Lt st.tsmode k h || (ih == "1" && k18Eq st.tsmode h k)
    same st (showList st.tsmode (st.m.filter (fun p => okLo p.1 && okHi p.1)))
  | ["scan", d] => same st (showList st.tsmode (if d == "bwd" then st.m.reverse else st.m))
  | ["reopen"] => same st "ok"
  | ["audit"] => same st s!"ok keys={st.m.length}"
  | _ => same st "bad-op"

/-- model column: the same operation on the model tree -/
def c18Step (st : C18State) (ws : List String) : C18State × String × String :=
  let (st1, _, sp) := c18StepSpec st ws
  let ts := st.tsmode
  match ws with
  | ["case", _, _] => (st1, "-", sp)
  | ["ins", k, v] =>
    match parseK18 k, v.splitOn ":" with
    | some k, [a, b] =>
      match a.toNat?, b.toNat? with
      | some a, some b =>
        let keys := if st.keys.any (fun x => rankOf ts x == rankOf ts k) then st.keys else k :: st.keys
        ({ st1 with t := st.t.insert drvPolicy (rankOf ts k) (encV (a, b)), keys := keys }, "ok", sp)
      | _, _ => (st1, "bad-op", sp)
    | _, _ => (st1, "bad-op", sp)
  | ["del", k] =>
    match parseK18 k with
    | some k =>
      let r := rankOf ts k
      let out := match st.t.get r with | some v => "some " ++ showV (decV v) | none => "none"
      ({ st1 with t := st.t.del r, keys := st.keys }, out, sp)
    | none => (st1, "bad-op", sp)
  | ["get", k] =>
    match parseK18 k with
    | some k => ({ st1 with t := st.t, keys := st.keys },
        (match st.t.get (rankOf ts k) with | some v => "some " ++ showV (decV v) | none => "none"), sp)
    | none => (st1, "bad-op", sp)
  | ["range", lo, hi, il, ih] =>
    let lo? := if lo == "-" then none else parseK18 lo
    let hi? := if hi == "-" then none else parseK18 hi
    let okLo (r : Nat) : Bool := match lo? with
      | none => true
      | some l => rankOf ts l < r || (il == "1" && rankOf ts l == r)
    let okHi (r : Nat) : Bool := match hi? with
      | none => true
      | some h => r < rankOf ts h || (ih == "1" && rankOf ts h == r)
    ({ st1 with t := st.t, keys := st.keys }, showModelList st (st.t.range okLo okHi), sp)
  | ["scan", d] =>
    ({ st1 with t := st.t, keys := st.keys },
      showModelList st (if d == "bwd" then st.t.toList.reverse else st.t.toList), sp)
  | ["audit"] => ({ st1 with t := st.t, keys := st.keys }, s!"ok keys={st.t.toList.length}", sp)
  | _ => ({ st1 with t := st.t, keys := st.keys }, sp, sp)

def c18Driver : LineDriver := { σ := C18State, init := {}, step := c18Step }
