import Skv.Drv.Common
/-!
background-work driver (C17, store level).  Lines: see harness/src/bgwork.rs.  Every `txn` / `ckpt` /
`reopen` must return `ok` (it returns at all: the harness reports `HANG` after 20 s), `get` tells
whether the key's transaction was committed.
-/

structure BgDrv where
  done : List (Nat × Nat) := []      -- (transaction id, number of keys)

def bgStep (s : BgDrv) (ws : List String) : BgDrv × String × String :=
  let same (s : BgDrv) (o : String) : BgDrv × String × String := (s, o, o)
  match ws with
  | "case" :: _ => same {} "-"
  | ["txn", id, nk, _] =>
    match id.toNat?, nk.toNat? with
    | some id, some nk => same { s with done := (id, nk) :: s.done } "ok"
    | _, _ => same s "bad-op"
  | ["ckpt"] => same s "ok"
  | ["reopen"] => same s "ok"
  | ["get", id, i] =>
    match id.toNat?, i.toNat? with
    | some id, some i =>
      same s (if s.done.any (fun p => p.1 == id && decide (i < p.2)) then "some" else "none")
    | _, _ => same s "bad-op"
  | _ => same s "bad-op"

def bgworkDriver : LineDriver := { σ := BgDrv, init := {}, step := bgStep }
