import Skv.Drv.Common
import Skv.Model.History
/-!
C10 driver (store level).  Lines:
  case <n> <index> <retention>
  put k ts v | del k ts | sdel k ts | repl k ts v        one committed transaction each
  getat k ts
  hist lo hi tombs ra rb limit fwd|bwd                     key range [lo, hi), options (`-` = absent)
  flush | crashflush <point> | compact | reopen             placements and crash images: nothing changes
Model column: the forward history loop / get_at of the code run on the version lists; backward =
the reverse of forward.  Spec column: the property (retained versions, option filters).
-/

structure C10State where
  keys : List (Nat × List HVer) := []      -- key id ↦ versions newest first (commit order); keys ascending
  seq : Nat := 0

def c10Add (st : C10State) (k : Nat) (kind : VKind) (ts val : Nat) : C10State :=
  let seq := st.seq + 1
  let v : HVer := ⟨seq, kind, ts, val⟩
  let rec ins : List (Nat × List HVer) → List (Nat × List HVer)
    | [] => [(k, [v])]
    | (k', vs) :: rest => if k == k' then (k', v :: vs) :: rest else if k < k' then (k, [v]) :: (k', vs) :: rest else (k', vs) :: ins rest
  { keys := ins st.keys, seq := seq }

def showH (p : Nat × HVer) : String :=
  let kind := match p.2.kind with | .set => "S" | .replace => "R" | .softDelete => "T" | .delete => "D"
  let val := if p.2.kind.isTomb then "-" else s!"v{p.2.val}"
  s!"k{p.1}@{p.2.ts}:{kind}={val}"

def showHL (l : List (Nat × HVer)) : String := if l.isEmpty then "-" else ",".intercalate (l.map showH)

def optNat10 (s : String) : Option (Option Nat) := if s == "-" then some none else s.toNat?.map some

def c10Step (st : C10State) (ws : List String) : C10State × String × String :=
  match ws with
  | "case" :: _ => ({}, "-", "-")
  | ["put", k, ts, v] => match k.toNat?, ts.toNat?, v.toNat? with
    | some k, some ts, some v => (c10Add st k .set ts v, "ok", "ok")
    | _, _, _ => (st, "bad-op", "bad-op")
  | ["repl", k, ts, v] => match k.toNat?, ts.toNat?, v.toNat? with
    | some k, some ts, some v => (c10Add st k .replace ts v, "ok", "ok")
    | _, _, _ => (st, "bad-op", "bad-op")
  | ["del", k, ts] => match k.toNat?, ts.toNat? with
    | some k, some ts => (c10Add st k .delete ts 0, "ok", "ok")
    | _, _ => (st, "bad-op", "bad-op")
  | ["sdel", k, ts] => match k.toNat?, ts.toNat? with
    | some k, some ts => (c10Add st k .softDelete ts 0, "ok", "ok")
    | _, _ => (st, "bad-op", "bad-op")
  | ["getat", k, t] => match k.toNat?, t.toNat? with
    | some k, some t =>
      let vs := ((st.keys.find? (·.1 == k)).map (·.2)).getD []
      let sh (o : Option Nat) : String := match o with | some v => s!"v{v}" | none => "none"
      (st, sh (getAt st.seq t vs), sh (specGetAt st.seq t (sortTs vs)))
    | _, _ => (st, "bad-op", "bad-op")
  | ["hist", lo, hi, tombs, ra, rb, limit, dir] =>
    match lo.toNat?, hi.toNat?, optNat10 ra, optNat10 rb, optNat10 limit with
    | some lo, some hi, some ra, some rb, some limit =>
      let range := match ra, rb with | some a, some b => some (a, b) | _, _ => none
      let o : HOpts := { tombs := tombs == "1", range := range, limit := limit }
      let ks := st.keys.filter (fun kv => lo ≤ kv.1 && kv.1 < hi)
      -- backward: the literal model of `collect_one_user_key_backward`; its specification is the unlimited
      -- forward listing read from the other end, then cut at the limit
      let m := if dir == "bwd" then histBwd o st.seq ks else histFwd o st.seq ks
      -- the property orders a key's versions by timestamp (with back-filled timestamps that is not the commit order)
      let kst := ks.map (fun kv => (kv.1, sortTs kv.2))
      let sp := if dir == "bwd" then applyLimit o (specHistory { o with limit := none } st.seq kst).reverse
                else specHistory o st.seq kst
      let tag := if m == sp then "" else "\thistory-commit-order-until-flush"
      (st, showHL m, showHL sp ++ tag)
    | _, _, _, _, _ => (st, "bad-op", "bad-op")
  | ["flush"] => (st, "ok", "ok")
  | ["crashflush", _] => (st, "ok", "ok")   -- the crash image at any boundary of a flush holds the same versions
  | ["compact"] => (st, "ok", "ok")
  | ["reopen"] => (st, "ok", "ok")
  | _ => (st, "bad-op", "bad-op")

def c10Driver : LineDriver := { σ := C10State, init := {}, step := c10Step }
