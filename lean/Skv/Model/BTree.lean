/-!
# B+tree index (src/bplustree/tree.rs) — node-level algorithm

Keys are abstract (`Nat` with `<` standing for the configured comparator order), values opaque.
A node is a first child followed by (separator, child) pairs; child `i` holds the keys `k` with
`sep_i ≤ k < sep_{i+1}` (`InternalNode::find_child_index`: an equal key goes right).  The split
policy (when and where a leaf or an internal node is cut) is a parameter: the code decides by
byte sizes, the theorems hold for every policy.
-/

mutual
inductive BT where
  | leaf (es : List (Nat × Nat))
  | node (c : BT) (rest : Kids)
inductive Kids where
  | nil
  | cons (sep : Nat) (c : BT) (rest : Kids)
end

mutual
def BT.toList : BT → List (Nat × Nat)
  | .leaf es => es
  | .node c rest => c.toList ++ rest.toList
def Kids.toList : Kids → List (Nat × Nat)
  | .nil => []
  | .cons _ c rest => c.toList ++ rest.toList
end

def lookup (l : List (Nat × Nat)) (k : Nat) : Option Nat := (l.find? (fun p => p.1 == k)).map (·.2)

/-- ordered-map insert on a sorted association list (replace when present) -/
def listInsert : List (Nat × Nat) → Nat → Nat → List (Nat × Nat)
  | [], k, v => [(k, v)]
  | (k', v') :: rest, k, v =>
    if k = k' then (k, v) :: rest
    else if k < k' then (k, v) :: (k', v') :: rest
    else (k', v') :: listInsert rest k v

def listDelete (l : List (Nat × Nat)) (k : Nat) : List (Nat × Nat) := l.filter (fun p => p.1 != k)

mutual
def BT.get : BT → Nat → Option Nat
  | .leaf es, k => lookup es k
  | .node c rest, k => match rest.route k with
    | none => c.get k
    | some r => r
/-- `none`: the key is below the first separator (it belongs to the child on the left) -/
def Kids.route : Kids → Nat → Option (Option Nat)
  | .nil, _ => none
  | .cons sep c rest, k =>
    if k < sep then none
    else match rest.route k with
      | none => some (c.get k)
      | some r => some r
end

def Kids.firstSepOr : Kids → Option Nat → Option Nat
  | .nil, hi => hi
  | .cons sep _ _, _ => some sep

def inB (lo hi : Option Nat) (k : Nat) : Prop := (∀ l, lo = some l → l ≤ k) ∧ (∀ h, hi = some h → k < h)
/-- strict on both sides: what a separator satisfies with respect to the bounds of its node -/
def inBs (lo hi : Option Nat) (k : Nat) : Prop := (∀ l, lo = some l → l < k) ∧ (∀ h, hi = some h → k < h)

mutual
def BT.wf : BT → Option Nat → Option Nat → Prop
  | .leaf es, lo, hi => es.Pairwise (fun a b => a.1 < b.1) ∧ ∀ e ∈ es, inB lo hi e.1
  | .node c rest, lo, hi => c.wf lo (rest.firstSepOr hi) ∧ rest.wf lo hi
def Kids.wf : Kids → Option Nat → Option Nat → Prop
  | .nil, _, _ => True
  | .cons sep c rest, lo, hi =>
    inBs lo hi sep ∧ c.wf (some sep) (rest.firstSepOr hi) ∧ rest.wf (some sep) hi ∧
      (∀ s', rest.firstSepOr none = some s' → sep < s')      -- separators strictly increase
end

/-! ## insertion with splits -/

/-- when and where to cut: `none` = keep, `some n` = cut before position `n` (only honoured when
`0 < n < length`) -/
structure Policy where
  leaf : List (Nat × Nat) → Option Nat
  node : Nat → Option Nat          -- by number of separators

inductive Ins where
  | one (t : BT)
  | two (l : BT) (sep : Nat) (r : BT)

def Ins.toList : Ins → List (Nat × Nat)
  | .one t => t.toList
  | .two l _ r => l.toList ++ r.toList

def Ins.wf : Ins → Option Nat → Option Nat → Prop
  | .one t, lo, hi => t.wf lo hi
  | .two l s r, lo, hi => inBs lo hi s ∧ l.wf lo (some s) ∧ r.wf (some s) hi

/-- leaf after insertion, cut when the policy says so: the first key of the right part goes up -/
def splitLeaf (p : Policy) (es : List (Nat × Nat)) : Ins :=
  match p.leaf es with
  | none => .one (.leaf es)
  | some n =>
    match es.drop n with
    | [] => .one (.leaf es)
    | (s, v) :: right => if n = 0 then .one (.leaf es) else .two (.leaf (es.take n)) s (.leaf ((s, v) :: right))

def Kids.length : Kids → Nat
  | .nil => 0
  | .cons _ _ rest => rest.length + 1

/-- the first `n` (separator, child) pairs -/
def Kids.take : Kids → Nat → Kids
  | .nil, _ => .nil
  | .cons _ _ _, 0 => .nil
  | .cons s c rest, n + 1 => .cons s c (rest.take n)
def Kids.drop : Kids → Nat → Kids
  | .nil, _ => .nil
  | .cons s c rest, 0 => .cons s c rest
  | .cons _ _ rest, n + 1 => rest.drop n

/-- internal node after an insertion below it, cut when the policy says so: separator `n` goes up -/
def splitNode (p : Policy) (c : BT) (rest : Kids) : Ins :=
  match p.node rest.length with
  | none => .one (.node c rest)
  | some n =>
    match rest.drop n with
    | .nil => .one (.node c rest)
    | .cons s c' right => .two (.node c (rest.take n)) s (.node c' right)

mutual
def BT.ins (p : Policy) : BT → Nat → Nat → Ins
  | .leaf es, k, v => splitLeaf p (listInsert es k v)
  | .node c rest, k, v =>
    match rest.ins p k v with
    | some rest' => splitNode p c rest'
    | none =>
      match c.ins p k v with
      | .one c' => splitNode p c' rest
      | .two l s r => splitNode p l (.cons s r rest)
/-- `none`: the key is below the first separator -/
def Kids.ins (p : Policy) : Kids → Nat → Nat → Option Kids
  | .nil, _, _ => none
  | .cons sep c rest, k, v =>
    if k < sep then none
    else match rest.ins p k v with
      | some rest' => some (.cons sep c rest')
      | none =>
        match c.ins p k v with
        | .one c' => some (.cons sep c' rest)
        | .two l s r => some (.cons sep l (.cons s r rest))
end

/-- `BPlusTree::insert` at the root: a split of the root grows the tree by one level -/
def BT.insert (p : Policy) (t : BT) (k v : Nat) : BT :=
  match t.ins p k v with
  | .one t' => t'
  | .two l s r => .node l (.cons s r .nil)

/-! ## range scan: the leaves in order -/

def BT.range (t : BT) (okLo okHi : Nat → Bool) : List (Nat × Nat) :=
  t.toList.filter (fun p => okLo p.1 && okHi p.1)

/-! ## rebalancing steps of `delete` at the leaf level: two sibling leaves and the separator between them -/

/-- `merge_leaf_nodes` -/
def mergeLeaves (l r : List (Nat × Nat)) : List (Nat × Nat) := l ++ r

/-- `redistribute_leaf_from_left`: the last `n` entries of the left leaf move right; the new separator
is the first key of the new right leaf -/
def redistFromLeft (l r : List (Nat × Nat)) (n : Nat) : List (Nat × Nat) × Option Nat × List (Nat × Nat) :=
  let l' := l.take (l.length - n)
  let r' := l.drop (l.length - n) ++ r
  (l', r'.head?.map (·.1), r')

/-- `redistribute_leaf_from_right`: the first `n` entries of the right leaf move left -/
def redistFromRight (l r : List (Nat × Nat)) (n : Nat) : List (Nat × Nat) × Option Nat × List (Nat × Nat) :=
  let l' := l ++ r.take n
  let r' := r.drop n
  (l', r'.head?.map (·.1), r')

/-! ## deletion at the leaf (the rebalancing that may follow is modelled by the steps above) -/

mutual
def BT.del : BT → Nat → BT
  | .leaf es, k => .leaf (listDelete es k)
  | .node c rest, k => match rest.del k with
    | none => .node (c.del k) rest
    | some rest' => .node c rest'
/-- `none`: the key is below the first separator -/
def Kids.del : Kids → Nat → Option Kids
  | .nil, _ => none
  | .cons sep c rest, k =>
    if k < sep then none
    else match rest.del k with
      | some rest' => some (.cons sep c rest')
      | none => some (.cons sep (c.del k) rest)
end
