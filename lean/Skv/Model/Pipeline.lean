import Skv.Model.Oracle
/-!
Model of `CommitPipeline::commit` / `publish` (src/commit.rs) as a transition system (C05, C15, C17).
One step = what one committer thread does between two consecutive yield points of the code
(`verif_yield!` names in brackets).  The critical section under `write_mutex` (oracle check,
sequence allocation, oracle publish, enqueue, WAL write) is one step.  Memtable apply proceeds one
entry per step.  Failure branches (conflict, WAL error, apply error after a prefix) are steps too.
-/

structure QB where
  first : Nat
  count : Nat
  applied : Bool
deriving Repr, DecidableEq

def QB.last (b : QB) : Nat := b.first + b.count - 1

/-- what one `commit()` call is asked to do -/
structure CommitReq where
  keys : List Nat := []
  failWal : Bool := false
  failApplyAt : Option Nat := none      -- entry index at which `apply` errors
deriving Repr, DecidableEq

inductive CRes | ok | conflict | retry | errWal | errApply
deriving Repr, DecidableEq

def CRes.toStr : CRes → String
  | .ok => "ok" | .conflict => "conflict" | .retry => "retry" | .errWal => "err:wal" | .errApply => "err:apply"

inductive FK | none | apply | wal
deriving Repr, DecidableEq

inductive Pc
  | ready                                              -- between calls
  | begun (start : Nat)                                -- transaction began (horizon loaded)
  | havePermit (start : Nat)                           -- [commit.have_permit]
  | applying (first count j : Nat)                     -- inside env.apply, before entry j
  | afterApply (first count : Nat) (failed : Bool)     -- [commit.after_apply]
  | afterMark (first : Nat) (failed : FK)              -- [commit.after_mark]
  | walFailed (first : Nat)                            -- [commit.wal_failed]
  | pubDequeued (b : QB) (first : Nat) (failed : FK)   -- [publish.dequeued]
  | pubVisible (b : QB) (first : Nat) (failed : FK)    -- [publish.visible_set]
  | afterPublish (first : Nat) (failed : FK)           -- [commit.after_publish]
  | waiting (first : Nat)                              -- awaiting complete_rx
deriving Repr, DecidableEq

def Pc.gate : Pc → String
  | .ready => "idle" | .begun _ => "begun" | .havePermit _ => "have_permit"
  | .applying _ _ j => s!"apply_entry:{j}" | .afterApply .. => "after_apply" | .afterMark .. => "after_mark"
  | .walFailed _ => "wal_failed" | .pubDequeued .. => "dequeued" | .pubVisible .. => "visible_set"
  | .afterPublish .. => "after_publish" | .waiting _ => "idle"

/-- who currently owns a flow-control permit: a committer between `acquire` and the end of its
critical section, or a batch object (ghost state for the proofs; behaviour only uses `permits`) -/
inductive Own | thr (i : Nat) | bat (f : Nat)
deriving Repr, DecidableEq

structure Thread where
  pc : Pc := .ready
  req : CommitReq := {}
  results : List CRes := []        -- results of finished calls, newest first
deriving Repr

structure PState where
  gc : Nat := 1024
  logSeq : Nat := 1
  visible : Nat := 0
  queue : List QB := []
  permits : Nat := 7
  cap : Nat := 8
  oracle : Oracle := Oracle.empty
  mem : List Nat := []                       -- seqs applied to the memtable
  completed : List (Nat × CRes) := []        -- batch first ↦ result sent on its oneshot (first send wins)
  batches : List (Nat × Nat × Bool) := []    -- (first, count, failed) of every allocated batch, newest first
  owners : List Own := []                    -- ghost: current permit owners
  returned : List Nat := []                  -- batches whose `commit()` call has returned
  dropped : List Nat := []                   -- batches the publisher has dequeued, completed and dropped
  threads : List Thread := []
  panicked : Bool := false
deriving Repr

namespace PState

def setThread (s : PState) (i : Nat) (t : Thread) : PState := { s with threads := s.threads.set i t }

def complete (s : PState) (first : Nat) (r : CRes) : PState :=
  if s.completed.any (fun p => p.1 == first) then s else { s with completed := (first, r) :: s.completed }

def completedRes (s : PState) (first : Nat) : Option CRes :=
  (s.completed.find? (fun p => p.1 == first)).map (·.2)

def markApplied (s : PState) (first : Nat) : PState :=
  { s with queue := s.queue.map (fun b => if b.first == first then { b with applied := true } else b) }

def markFailed (s : PState) (first : Nat) : PState :=
  { s with batches := s.batches.map (fun b => if b.1 == first then (b.1, b.2.1, true) else b) }

/-- a call returns: record the result.  The permit is owned by the batch object (the `fix:` commit):
it is released when the call has returned *and* the publisher has dropped the dequeued batch;
a call that never enqueued a batch (`first = none`) releases it at once. -/
def release (s : PState) (o : Own) : PState :=
  if s.owners.contains o then { s with permits := s.permits + 1, owners := s.owners.erase o } else s

def finish (s : PState) (i : Nat) (t : Thread) (r : CRes) (first : Option Nat := none) : PState :=
  let s := s.setThread i { t with pc := .ready, results := r :: t.results }
  match first with
  | none => s.release (.thr i)
  | some f =>
    if s.dropped.contains f then s.release (.bat f)
    else { s with returned := f :: s.returned }

/-- the publisher drops its reference to a dequeued batch (after `complete(Ok)`) -/
def dropBatch (s : PState) (f : Nat) : PState :=
  if s.returned.contains f then s.release (.bat f)
  else { s with dropped := f :: s.dropped }

/-- the publish loop, from its top: dequeue the head if applied, else leave the loop -/
def publishTop (s : PState) (i : Nat) (t : Thread) (first : Nat) (failed : FK) : PState :=
  let leave (s : PState) : PState :=
    -- the WAL-failure path returns right after `publish()`; the main path reaches [commit.after_publish]
    if failed == .wal then s.finish i t .errWal (some first) else s.setThread i { t with pc := .afterPublish first failed }
  match s.queue with
  | b :: rest =>
    if b.applied then { (s.setThread i { t with pc := .pubDequeued b first failed }) with queue := rest }
    else leave s
  | [] => leave s

/-- thread `i` runs from its current yield point to the next one -/
def stepThread (s : PState) (i : Nat) : PState :=
  if s.panicked then s else
  match s.threads[i]? with
  | none => s
  | some t =>
    match t.pc with
    | .ready => s
    | .begun start =>
      -- `if batch.is_empty() { return Ok(()) }` comes before the permit
      if t.req.keys.isEmpty then s.setThread i { t with pc := .ready, results := .ok :: t.results }
      else if s.permits > 0 then
        { (s.setThread i { t with pc := .havePermit start }) with permits := s.permits - 1,
                                                                    owners := .thr i :: s.owners }
      else s
    | .havePermit start =>
      -- critical section under write_mutex
      match s.oracle.check t.req.keys start with
      | .error .conflict => s.finish i t .conflict
      | .error .retry => s.finish i t .retry
      | .ok _ =>
        let count := t.req.keys.length
        let first := s.logSeq
        let o := s.oracle.publish s.gc t.req.keys first count 0
        if s.queue.length ≥ s.cap then { s with panicked := true }
        else
          let s := { s with logSeq := s.logSeq + count, oracle := o,
                            queue := s.queue ++ [(⟨first, count, false⟩ : QB)],
                            batches := (first, count, false) :: s.batches,
                            owners := .bat first :: s.owners.erase (.thr i) }
          if t.req.failWal then
            let s := { s with oracle := s.oracle.rollback t.req.keys (first + count - 1) }
            let s := (s.complete first .errWal).markApplied first |>.markFailed first
            s.setThread i { t with pc := .walFailed first }
          else s.setThread i { t with pc := .applying first count 0 }
    | .applying first count j =>
      if t.req.failApplyAt == some j then (s.markFailed first).setThread i { t with pc := .afterApply first count true }
      else
        let s := { s with mem := (first + j) :: s.mem }
        if j + 1 < count then s.setThread i { t with pc := .applying first count (j + 1) }
        else s.setThread i { t with pc := .afterApply first count false }
    | .afterApply first count failed =>
      let s := if failed then
          let s := { s with oracle := s.oracle.rollback t.req.keys (first + count - 1) }
          s.complete first .errApply
        else s
      (s.markApplied first).setThread i { t with pc := .afterMark first (if failed then .apply else .none) }
    | .afterMark first failed => s.publishTop i t first failed
    | .walFailed first => s.publishTop i t first .wal
    | .pubDequeued b first failed =>
      { (s.setThread i { t with pc := .pubVisible b first failed }) with visible := max s.visible b.last }
    | .pubVisible b first failed =>
      let s := (s.complete b.first .ok).dropBatch b.first
      s.publishTop i t first failed
    | .afterPublish first failed =>
      if failed != .none then s.finish i t .errApply (some first)
      else
        match s.completedRes first with
        | some r => s.finish i t r (some first)
        | none => s.setThread i { t with pc := .waiting first }
    | .waiting first =>
      -- the oneshot has fired: the call returns (the runtime wakes the task whenever it pleases)
      match s.completedRes first with
      | some r => s.finish i t r (some first)
      | none => s

/-- thread `i` begins a transaction (loads the horizon) for its next commit -/
def begin (s : PState) (i : Nat) (req : CommitReq) : PState :=
  match s.threads[i]? with
  | some t => if t.pc == .ready then s.setThread i { t with pc := .begun s.visible, req := req } else s
  | none => s

/-- wake every waiter whose batch has been completed (driver only: the real runtime wakes promptly) -/
def wakeAll (s : PState) : PState :=
  (List.range s.threads.length).foldl (fun s i =>
    match s.threads[i]? with
    | some t => (match t.pc with | .waiting _ => s.stepThread i | _ => s)
    | none => s) s

def init (nthreads : Nat) : PState := { threads := List.replicate nthreads {} }

end PState
