/-!
# Directory ownership: `LOCK` file + OS advisory lock (src/lockfile.rs, src/lsm.rs)

One *opener* is one `TreeBuilder::build` … `close` / drop / process-death life on the directory.
The model is a transition system over the interleaved micro-steps of any number of openers
(threads of one process or separate processes — the OS lock does not distinguish them):

* `begin`       `Tree::new`: `create_directory_structure` on an existing directory (no data change)
* `tryLock`     `LockFile::acquire`: open `LOCK` (no truncation), `try_lock_exclusive`; on success
                the holder's pid is written; on `WouldBlock` the open fails
* `touch`       any step that reads-and-repairs or writes the directory: manifest load, WAL open /
                repair / replay, orphan clean-up, commits, flush, WAL close, WAL clean-up, dir sync
* `finishOpen`  `build()` returns the store
* `beginClose`  `close()` starts (explicitly, or spawned by `Drop for Tree`)
* `release`     `LockFile::release` — last step of `close()`
* `crash`       the opener's process dies; the OS drops its lock
* `failOpen`    `build()` returns an error after the lock was taken (recovery failed): everything the
                half-built store owns, the lock included, is dropped

Which steps of the real `open` / `close` are touches and where `acquire` / `release` sit among
them is what the correspondence stream checks (trace of yield points per call).
-/

inductive LPhase
  | idle | starting | refused | recovering | opened | closing | closed | dead
  deriving DecidableEq, Repr

def LPhase.live : LPhase → Bool
  | .recovering | .opened | .closing => true
  | _ => false

structure LState where
  holder  : Option Nat := none        -- owner of the OS lock
  phase   : Nat → LPhase := fun _ => .idle
  dataVer : Nat := 0                  -- number of data mutations so far
  lockTxt : Option Nat := none        -- content of LOCK (pid of the last successful acquirer)
  touches : List (Nat × Option Nat) := []   -- ghost log: (who touched, lock owner at that moment)

inductive LOp
  | begin (i : Nat) | tryLock (i : Nat) | touch (i : Nat) | finishOpen (i : Nat)
  | beginClose (i : Nat) | release (i : Nat) | crash (i : Nat) | failOpen (i : Nat)
  deriving DecidableEq, Repr

def LState.setPhase (s : LState) (i : Nat) (p : LPhase) : LState :=
  { s with phase := fun j => if j = i then p else s.phase j }

def LState.dropLock (s : LState) (i : Nat) : LState :=
  { s with holder := if s.holder = some i then none else s.holder }

def LState.step (s : LState) : LOp → LState
  | .begin i =>
    match s.phase i with
    | .idle | .closed | .refused | .dead => s.setPhase i .starting   -- `dead`: a new process under the same number
    | _ => s
  | .tryLock i =>
    match s.phase i with
    | .starting =>
      match s.holder with
      | none => { (s.setPhase i .recovering) with holder := some i, lockTxt := some i }
      | some _ => s.setPhase i .refused
    | _ => s
  | .touch i =>
    if (s.phase i).live then
      { s with dataVer := s.dataVer + 1, touches := s.touches ++ [(i, s.holder)] }
    else s
  | .finishOpen i =>
    match s.phase i with
    | .recovering => s.setPhase i .opened
    | _ => s
  | .beginClose i =>
    match s.phase i with
    | .opened => s.setPhase i .closing
    | _ => s
  | .release i =>
    match s.phase i with
    | .closing => (s.dropLock i).setPhase i .closed
    | _ => s
  | .crash i => (s.dropLock i).setPhase i .dead
  | .failOpen i =>
    match s.phase i with
    | .recovering => (s.dropLock i).setPhase i .closed
    | _ => s

def LState.run (s : LState) (ops : List LOp) : LState := ops.foldl LState.step s
