/-!
Arena accounting of the memtable skiplist (src/memtable/arena.rs `alloc`, src/memtable/skiplist.rs
`new_raw_node`, `fits_empty_arena`, `arena_size_for`).

A node with a tower of height `h` (1 ≤ h ≤ maxH) takes `nodeMin + (h-1)·link` bytes; an entry with
`data` bytes of key and value takes that plus `data + 7` (alignment slack) from the bump allocator, and
the allocator insists that a FULL tower would still fit (`overflow` bytes past the node must be inside
the arena).  A failed allocation has already moved the bump pointer (the arena stays full).
`nodeMax = nodeMin + (maxH-1)·link`; `empty` = bytes used by the two sentinels.
-/

structure ArenaCfg where
  nodeMin : Nat
  link : Nat
  maxH : Nat        -- ≥ 1
  empty : Nat

def ArenaCfg.nodeMax (c : ArenaCfg) : Nat := c.nodeMin + (c.maxH - 1) * c.link
def ArenaCfg.node (c : ArenaCfg) (h : Nat) : Nat := c.nodeMin + (h - 1) * c.link

/-- add entries (data sizes) with the given tower heights to an arena of `cap` bytes whose bump pointer
is at `n`; `none` = ArenaFull -/
def addAll (c : ArenaCfg) (cap : Nat) : Nat → List (Nat × Nat) → Option Nat
  | n, [] => some n
  | n, (data, h) :: rest =>
    if n + c.nodeMax + data + 7 ≤ cap then addAll c cap (n + c.node h + data + 7) rest else none

/-- `fits_empty_arena`: the admission check of `write` (nodes with the shortest towers) -/
def fitsEmpty (c : ArenaCfg) (cap : Nat) : Nat → List Nat → Bool
  | _, [] => true
  | used, data :: rest =>
    decide (used + c.nodeMax + data + 7 ≤ cap) && fitsEmpty c cap (used + c.nodeMin + data + 7) rest

/-- `arena_size_for`: room for the batch whatever heights are drawn -/
def arenaSizeFor (c : ArenaCfg) : Nat → List Nat → Nat
  | used, [] => used
  | used, data :: rest => arenaSizeFor c (used + c.nodeMax + data + 7) rest
