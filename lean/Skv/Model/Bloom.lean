/-!
# Bloom filter (src/sstable/bloom.rs), generic in the probe sequence

`create_filter` sets, for every key, the bits at the key's probe positions (double hashing in the
code: `h, h+δ, h+2δ, …` modulo the bit count); `may_contain` reports a key when all its probe bits
are set.  The theorem does not depend on which probe positions the hash yields.
-/

def setBits (bits : List Bool) (ps : List Nat) : List Bool :=
  ps.foldl (fun b p => b.set (p % b.length) true) bits

def buildFilter {α : Type} (nbits : Nat) (probes : α → List Nat) (keys : List α) : List Bool :=
  keys.foldl (fun b k => setBits b (probes k)) (List.replicate nbits false)

def mayContain {α : Type} (bits : List Bool) (probes : α → List Nat) (k : α) : Bool :=
  (probes k).all (fun p => bits[p % bits.length]?.getD false)
