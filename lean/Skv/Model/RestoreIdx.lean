/-!
# Checkpoint / restore with the B+tree version index (src/checkpoint.rs `copy_versioned_index`,
`restore_versioned_index`; src/lsm.rs `Tree::restore_from_checkpoint`)

With versioning and the version index a history query walks the index; an index entry is
(key, sequence number, pointer into the value log) and the value is read through the pointer.  A
checkpoint copies the value log, the sequence counter and — since the `fix:` commit — the index file;
a restore puts all three back and reopens the B+tree.  `withIndex = false` is the code before the
repair: the checkpoint had no index and the restore kept the one of the discarded timeline.
The memtable part of a history (versions not yet flushed) is not in this model: a checkpoint flushes
everything first, and a restore empties the memtables.
-/

structure IEnt where
  key : Nat
  seq : Nat
  pos : Nat
  deriving DecidableEq, Repr

structure VCk where
  vlog : List Nat
  index : Option (List IEnt)     -- `none`: a checkpoint without the index file
  seq : Nat
  deriving Repr

structure VStore where
  vlog : List Nat := []          -- the value log: position ↦ value
  index : List IEnt := []        -- newest first
  seq : Nat := 0
  saved : Option VCk := none
  deriving Repr

inductive VAct where
  | put (k v : Nat)
  | checkpoint
  | restore
  deriving Repr

def VStore.act (withIndex : Bool) (s : VStore) : VAct → VStore
  | .put k v =>
    { s with vlog := s.vlog ++ [v], index := ⟨k, s.seq + 1, s.vlog.length⟩ :: s.index, seq := s.seq + 1 }
  | .checkpoint =>
    { s with saved := some { vlog := s.vlog, index := if withIndex then some s.index else none, seq := s.seq } }
  | .restore =>
    match s.saved with
    | none => s                                    -- nothing to restore from: the call fails
    | some c =>
      { s with vlog := c.vlog, seq := c.seq,
               index := match c.index with
                 | some ix => ix                   -- the checkpoint's index, B+tree reopened on it
                 | none => s.index }               -- before the repair: the open index stays

/-- `history`: the index entries of the key visible at the current sequence number, each resolved through
the value log; `none` = "Failed to resolve value from VLog" -/
def VStore.history (s : VStore) (k : Nat) : List (Option Nat) :=
  (s.index.filter (fun e => e.key == k && decide (e.seq ≤ s.seq))).map (fun e => s.vlog[e.pos]?)

/-- the same for the checkpoint directory opened as a database of its own (a missing index file is created
empty) -/
def VCk.history (c : VCk) (k : Nat) : List (Option Nat) :=
  (((c.index.getD []).filter (fun e => e.key == k && decide (e.seq ≤ c.seq)))).map (fun e => c.vlog[e.pos]?)

/-! ## the specification: a log of versions, a remembered log -/

structure ASpec where
  log : List (Nat × Nat) := []          -- (key, value), newest first
  saved : Option (List (Nat × Nat)) := none

def ASpec.act (a : ASpec) : VAct → ASpec
  | .put k v => { a with log := (k, v) :: a.log }
  | .checkpoint => { a with saved := some a.log }
  | .restore => match a.saved with | none => a | some l => { a with log := l }

def specHist (l : List (Nat × Nat)) (k : Nat) : List (Option Nat) :=
  (l.filter (fun p => p.1 == k)).map (fun p => some p.2)
