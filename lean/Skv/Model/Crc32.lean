/-! CRC-32 (IEEE, as `crc32fast`), table driven.  Only the driver uses it: the WAL theorems are
generic in the checksum function. -/

def crcTableEntry (n : Nat) : UInt32 := Id.run do
  let mut c : UInt32 := UInt32.ofNat n
  for _ in [0:8] do
    c := if c &&& 1 == 1 then (c >>> 1) ^^^ 0xEDB88320 else c >>> 1
  return c

def crcTable : Array UInt32 := (Array.range 256).map crcTableEntry

def crc32Update (c : UInt32) (b : UInt8) : UInt32 :=
  (crcTable.getD ((c ^^^ b.toUInt32) &&& 0xFF).toNat 0) ^^^ (c >>> 8)

def crc32 (bs : List UInt8) : UInt32 := (bs.foldl crc32Update 0xFFFFFFFF) ^^^ 0xFFFFFFFF

def be32 (x : UInt32) : List UInt8 :=
  [(x >>> 24).toUInt8, (x >>> 16).toUInt8, (x >>> 8).toUInt8, x.toUInt8]
