/-!
# Overflow chains of B+tree keys (src/bplustree/tree.rs `prepare_internal_node_overflow`,
`redistribute_leaf_from_left/right`, `replace_separator`)

A key longer than the local limit keeps `loc` bytes on the page and the rest in a chain of overflow
pages; the slot records the chain (`ovf`).  Writing a node creates a chain only when the slot has
none; a slot that already has one is written as is (the code does not look into the chain).  Chains
live in a store indexed by id; `live` is the set of allocated chain ids (page accounting).
-/

structure Slot where
  key : List Nat
  ovf : Option Nat
  deriving DecidableEq, Repr

structure ChainStore where
  chains : List (Nat × List Nat) := []   -- id ↦ bytes
  next : Nat := 0
  deriving Repr

def ChainStore.get (st : ChainStore) (c : Nat) : Option (List Nat) :=
  (st.chains.find? (fun p => p.1 == c)).map (·.2)
def ChainStore.alloc (st : ChainStore) (bytes : List Nat) : ChainStore × Nat :=
  ({ chains := (st.next, bytes) :: st.chains, next := st.next + 1 }, st.next)
def ChainStore.free (st : ChainStore) (c : Nat) : ChainStore :=
  { st with chains := st.chains.filter (fun p => p.1 != c) }

def needsOvf (loc : Nat) (k : List Nat) : Bool := decide (loc < k.length)

/-- `prepare_internal_node_overflow` for one slot -/
def prepareSlot (loc : Nat) (st : ChainStore) (s : Slot) : ChainStore × Slot :=
  if needsOvf loc s.key then
    match s.ovf with
    | some _ => (st, s)                                   -- existing chain reused unseen
    | none => let (st', c) := st.alloc (s.key.drop loc); (st', { s with ovf := some c })
  else (st, { s with ovf := none })                        -- pointer dropped (not freed here)

/-- what a reload of the page reconstructs for the slot -/
def decodeSlot (loc : Nat) (st : ChainStore) (s : Slot) : Option (List Nat) :=
  if needsOvf loc s.key then
    match s.ovf with
    | some c => (st.get c).map (fun tail => s.key.take loc ++ tail)
    | none => none
  else some s.key

/-- the invariant every write relies on: a recorded chain holds the tail of the CURRENT key -/
def slotConsistent (loc : Nat) (st : ChainStore) (s : Slot) : Prop :=
  match s.ovf with
  | none => True
  | some c => needsOvf loc s.key = true ∧ st.get c = some (s.key.drop loc)

/-- the repaired `replace_separator`: free the old chain, clear the pointer, set the key -/
def replaceSeparator (st : ChainStore) (s : Slot) (newKey : List Nat) : ChainStore × Slot :=
  match s.ovf with
  | some c => (st.free c, { key := newKey, ovf := none })
  | none => (st, { key := newKey, ovf := none })

/-- the code before the repair: only the key is replaced -/
def replaceSeparatorOld (st : ChainStore) (s : Slot) (newKey : List Nat) : ChainStore × Slot :=
  (st, { s with key := newKey })
