/-!
# Overflow chains of B+tree keys (src/bplustree/tree.rs `prepare_internal_node_overflow`,
`redistribute_leaf_from_left/right`, `replace_separator`)

A key longer than the local limit keeps `loc` bytes on the page and the rest in a chain of overflow
pages; the slot records the chain (`ovf`).  Writing a node creates a chain only when the slot has
none; a slot that already has one is written as is (the code does not look into the chain).  Chains
live in a store indexed by id; `live` is the set of allocated chain ids (page accounting).
-/

structure Slot where
  key : List Nat
  ovf : Option Nat
  deriving DecidableEq, Repr

structure ChainStore where
  chains : List (Nat × List Nat) := []   -- id ↦ bytes
  next : Nat := 0
  deriving Repr

def ChainStore.get (st : ChainStore) (c : Nat) : Option (List Nat) :=
  (st.chains.find? (fun p => p.1 == c)).map (·.2)
def ChainStore.alloc (st : ChainStore) (bytes : List Nat) : ChainStore × Nat :=
  ({ chains := (st.next, bytes) :: st.chains, next := st.next + 1 }, st.next)
def ChainStore.free (st : ChainStore) (c : Nat) : ChainStore :=
  { st with chains := st.chains.filter (fun p => p.1 != c) }

def needsOvf (loc : Nat) (k : List Nat) : Bool := decide (loc < k.length)

/-- `prepare_internal_node_overflow` for one slot -/
def prepareSlot (loc : Nat) (st : ChainStore) (s : Slot) : ChainStore × Slot :=
  if needsOvf loc s.key then
    match s.ovf with
    | some _ => (st, s)                                   -- existing chain reused unseen
    | none => let (st', c) := st.alloc (s.key.drop loc); (st', { s with ovf := some c })
  else (st, { s with ovf := none })                        -- pointer dropped (not freed here)

/-- what a reload of the page reconstructs for the slot -/
def decodeSlot (loc : Nat) (st : ChainStore) (s : Slot) : Option (List Nat) :=
  if needsOvf loc s.key then
    match s.ovf with
    | some c => (st.get c).map (fun tail => s.key.take loc ++ tail)
    | none => none
  else some s.key

/-- the invariant every write relies on: a recorded chain holds the tail of the CURRENT key -/
def slotConsistent (loc : Nat) (st : ChainStore) (s : Slot) : Prop :=
  match s.ovf with
  | none => True
  | some c => needsOvf loc s.key = true ∧ st.get c = some (s.key.drop loc)

/-- the repaired `replace_separator`: free the old chain, clear the pointer, set the key -/
def replaceSeparator (st : ChainStore) (s : Slot) (newKey : List Nat) : ChainStore × Slot :=
  match s.ovf with
  | some c => (st.free c, { key := newKey, ovf := none })
  | none => (st, { key := newKey, ovf := none })

/-- the code before the repair: only the key is replaced -/
def replaceSeparatorOld (st : ChainStore) (s : Slot) (newKey : List Nat) : ChainStore × Slot :=
  (st, { s with key := newKey })

/-! ## who owns a chain: rebalancing of internal nodes

`redistribute_internal_from_left/right` rotate one key through the parent (`redistribute_to_right`,
`take_from_right`): the parent's separator goes down into the child *together with its chain*, the
child's boundary key goes up together with its own.  `merge_internal_nodes` moves the separator down
the same way.  Nothing is allocated or freed.  Only when two *leaves* merge does the separator
disappear, and then its chain is freed (`merge_leaf_nodes`). -/

/-- key slots of the left child, the separator in the parent, key slots of the right child -/
abbrev Trio := List Slot × Slot × List Slot

def Trio.slots (t : Trio) : List Slot := t.1 ++ t.2.1 :: t.2.2

/-- `redistribute_internal_from_left` -/
def rotRight (t : Trio) : Option Trio :=
  match t.1.getLast? with
  | none => none
  | some l => some (t.1.dropLast, l, t.2.1 :: t.2.2)

/-- `redistribute_internal_from_right` -/
def rotLeft (t : Trio) : Option Trio :=
  match t.2.2 with
  | [] => none
  | r :: rs => some (t.1 ++ [t.2.1], r, rs)

/-- `merge_internal_nodes`: the merged node's slots -/
def mergeInternal (t : Trio) : List Slot := t.slots

/-- `merge_leaf_nodes`: the separator goes away and its chain is freed -/
def dropSeparator (st : ChainStore) (sep : Slot) : ChainStore :=
  match sep.ovf with
  | some c => st.free c
  | none => st

/-- the rotation of the seeded change: the parent slot is rewritten through `replace_separator`, which
frees the chain that has just moved down with the old separator and forgets the chain that came up -/
def rotRightBad (st : ChainStore) (t : Trio) : Option (ChainStore × Trio) :=
  match t.1.getLast? with
  | none => none
  | some l =>
    let (st', p') := replaceSeparator st t.2.1 l.key
    some (st', (t.1.dropLast, p', t.2.1 :: t.2.2))

/-- ownership: every recorded chain holds the tail of its slot's key, no chain has two owners, and
every allocated chain has an owner -/
structure Owned (loc : Nat) (st : ChainStore) (slots : List Slot) : Prop where
  cons : ∀ s ∈ slots, slotConsistent loc st s
  nodup : (slots.filterMap (·.ovf)).Nodup
  noLeak : ∀ p ∈ st.chains, p.1 ∈ slots.filterMap (·.ovf)
