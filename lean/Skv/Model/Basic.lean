/-!
Shared vocabulary of the surrealkv model (DESIGN §4.1). Import-free, executable.
Bytes are modelled as `Nat` (< 256 by construction in the driver); keys and values are
byte strings.  The bytewise order on keys is the lexicographic order on `List Nat`.
-/

abbrev Key := List Nat
abbrev Val := List Nat

/-- `InternalKeyKind` restricted to the kinds a transaction can issue. Byte values are in
`Skv.Model.Consts` (regenerated from `src/lib.rs`). -/
inductive Kind | delete | softDelete | set | replace
deriving DecidableEq, Repr, Inhabited

def Kind.isTomb : Kind → Bool
  | .delete | .softDelete => true
  | _ => false

def Kind.isHardDelete : Kind → Bool
  | .delete => true
  | _ => false

def Kind.toStr : Kind → String
  | .delete => "del" | .softDelete => "sdel" | .set => "set" | .replace => "rep"

def Kind.ofStr? : String → Option Kind
  | "del" => some .delete | "sdel" => some .softDelete | "set" => some .set
  | "rep" => some .replace | _ => none

/-- lexicographic comparison of byte strings (the `BytewiseComparator`) -/
def keyLt : Key → Key → Bool
  | [], [] => false
  | [], _ :: _ => true
  | _ :: _, [] => false
  | a :: as, b :: bs => if a < b then true else if b < a then false else keyLt as bs

def keyLe (a b : Key) : Bool := !keyLt b a

/-! ### hex / line-protocol helpers (driver side only) -/

def hexDigit (n : Nat) : Char :=
  if n < 10 then Char.ofNat (48 + n) else Char.ofNat (87 + n)

def hexOfBytes (bs : List Nat) : String :=
  if bs.isEmpty then "-" else
  String.ofList (bs.flatMap (fun b => [hexDigit (b / 16), hexDigit (b % 16)]))

def hexVal? (c : Char) : Option Nat :=
  if '0' ≤ c ∧ c ≤ '9' then some (c.toNat - 48)
  else if 'a' ≤ c ∧ c ≤ 'f' then some (c.toNat - 87)
  else none

def bytesOfHexChars : List Char → Option (List Nat)
  | [] => some []
  | [_] => none
  | a :: b :: rest => do
    let x ← hexVal? a
    let y ← hexVal? b
    let r ← bytesOfHexChars rest
    pure ((x * 16 + y) :: r)

/-- `-` is the empty string; otherwise lower-case hex -/
def bytesOfHex? (s : String) : Option (List Nat) :=
  if s == "-" then some [] else bytesOfHexChars s.toList

def optHex : Option (List Nat) → String
  | none => "none"
  | some v => "some:" ++ hexOfBytes v
