/-!
# Restore from a checkpoint and the process-lifetime state keyed by ids (src/lsm.rs
`Tree::restore_from_checkpoint`, src/cache.rs, `flush_oldest_immutable_to_sst`'s detached WAL clean-up)

Tables are immutable files named by an id handed out by a counter; the block cache maps
(table id, block offset) to block contents and is never invalidated when a table is deleted (ids
are not reused while the counter only grows).  A restore replaces the files and REWINDS the counter
to the checkpoint's value.  `clear = true` is the repaired restore (cache emptied).
-/

structure RStore where
  files : List (Nat × List Nat) := []        -- table id ↦ blocks
  nextId : Nat := 1
  cache : List ((Nat × Nat) × Nat) := []     -- (table id, block offset) ↦ block
  deriving Repr

structure Ckpt where
  files : List (Nat × List Nat)
  nextId : Nat
  deriving Repr

def RStore.file (s : RStore) (id : Nat) : Option (List Nat) := (s.files.find? (·.1 == id)).map (·.2)
def RStore.cached (s : RStore) (id off : Nat) : Option Nat := (s.cache.find? (·.1 == (id, off))).map (·.2)

/-- a flush or compaction writes a new table under the next id -/
def RStore.writeTable (s : RStore) (blocks : List Nat) : RStore :=
  { s with files := (s.nextId, blocks) :: s.files, nextId := s.nextId + 1 }

/-- compaction removes an input table (cache untouched) -/
def RStore.deleteTable (s : RStore) (id : Nat) : RStore :=
  { s with files := s.files.filter (·.1 != id) }

/-- `Table::read_block`: cache first, file on a miss (and the block is cached) -/
def RStore.readBlock (s : RStore) (id off : Nat) : RStore × Option Nat :=
  match s.cached id off with
  | some b => (s, some b)
  | none =>
    match (s.file id).bind (fun bl => bl[off]?) with
    | some b => ({ s with cache := ((id, off), b) :: s.cache }, some b)
    | none => (s, none)

def RStore.checkpoint (s : RStore) : Ckpt := { files := s.files, nextId := s.nextId }

def RStore.restore (s : RStore) (c : Ckpt) (clear : Bool) : RStore :=
  { files := c.files, nextId := c.nextId, cache := if clear then [] else s.cache }

/-- what a read must return: the block of the file that is there now -/
def RStore.truth (s : RStore) (id off : Nat) : Option Nat := (s.file id).bind (fun bl => bl[off]?)

/-- every cached block of an existing table is that table's block, cached and existing ids are below the counter -/
def RStore.coherent (s : RStore) : Prop :=
  (∀ e ∈ s.cache, e.1.1 < s.nextId ∧ ∀ bl, s.file e.1.1 = some bl → bl[e.1.2]? = some e.2) ∧
  (∀ f ∈ s.files, f.1 < s.nextId)

/-! ### detached WAL clean-up -/

/-- segments below `keep` are removed -/
def cleanupSegments (segs : List Nat) (keep : Nat) : List Nat := segs.filter (fun s => decide (keep ≤ s))
