/-!
Model of `TransactionRangeIterator` (src/transaction.rs, C09): a merge of two cursors — the
snapshot side (a cursor over the keys live at the snapshot; `SnapshotIterator` is assumed to behave
as one, which the correspondence run checks) and the write-set side (keys with a tombstone flag).
Cursors are zippers over their fixed sorted lists.  `next`/`prev` carry the direction-change
prologue of the `fix:` commit (each exhausted source re-enters from its first / last key).
-/

/-- a cursor over a fixed list: `none` = invalid, `some (l, x, r)` = at `x` with `l` (reversed) before and `r` after -/
structure Cur (α : Type) where
  xs : List α
  pos : Option (List α × α × List α)

namespace Cur
variable {α : Type}
def valid (c : Cur α) : Bool := c.pos.isSome
def cur? (c : Cur α) : Option α := c.pos.map (·.2.1)
def first (c : Cur α) : Cur α := { c with pos := match c.xs with | [] => none | x :: r => some ([], x, r) }
def lastGo : List α → α → List α → List α × α × List α
  | l, x, [] => (l, x, [])
  | l, x, y :: r => lastGo (x :: l) y r
def last (c : Cur α) : Cur α := { c with pos := match c.xs with | [] => none | x :: r => some (lastGo [] x r) }
def next (c : Cur α) : Cur α :=
  match c.pos with
  | none => c
  | some (l, x, y :: r) => { c with pos := some (x :: l, y, r) }
  | some (_, _, []) => { c with pos := none }
def prev (c : Cur α) : Cur α :=
  match c.pos with
  | none => c
  | some (y :: l, x, r) => { c with pos := some (l, y, x :: r) }
  | some ([], _, _) => { c with pos := none }
/-- seek to the first element for which `p` is false (p = "strictly before the target") -/
def seekGo (p : α → Bool) : List α → List α → Option (List α × α × List α)
  | _, [] => none
  | l, x :: r => if p x then seekGo p (x :: l) r else some (l, x, r)
def seek (c : Cur α) (p : α → Bool) : Cur α := { c with pos := seekGo p [] c.xs }
end Cur

inductive Src | snap | ws | none
deriving DecidableEq, Repr
inductive Dir | fwd | bwd
deriving DecidableEq, Repr

structure TI where
  snap : Cur Nat
  ws : Cur (Nat × Bool)
  eq : Bool
  cur : Src
  dir : Dir

namespace TI
def wsKey (t : TI) : Nat := (t.ws.cur?.map (·.1)).getD 0
def wsTomb (t : TI) : Bool := (t.ws.cur?.map (·.2)).getD false
def snapKey (t : TI) : Nat := t.snap.cur?.getD 0

def advWs (t : TI) : TI := { t with ws := match t.dir with | .fwd => t.ws.next | .bwd => t.ws.prev }

def posMin : Nat → TI → TI
  | 0, t => { t with cur := .none, eq := false }
  | f+1, t =>
    match t.snap.valid, t.ws.valid with
    | false, false => { t with cur := .none, eq := false }
    | true, false => { t with cur := .snap, eq := false }
    | false, true => if t.wsTomb then posMin f { t with ws := t.ws.next } else { t with cur := .ws, eq := false }
    | true, true =>
      if t.snapKey < t.wsKey then { t with cur := .snap, eq := false }
      else if t.snapKey > t.wsKey then
        if t.wsTomb then posMin f { t with ws := t.ws.next } else { t with cur := .ws, eq := false }
      else if t.wsTomb then posMin f { t with snap := t.snap.next, ws := t.ws.next }
      else { t with cur := .ws, eq := true }

def posMax : Nat → TI → TI
  | 0, t => { t with cur := .none, eq := false }
  | f+1, t =>
    match t.snap.valid, t.ws.valid with
    | false, false => { t with cur := .none, eq := false }
    | true, false => { t with cur := .snap, eq := false }
    | false, true => if t.wsTomb then posMax f { t with ws := t.ws.prev } else { t with cur := .ws, eq := false }
    | true, true =>
      if t.snapKey > t.wsKey then { t with cur := .snap, eq := false }
      else if t.snapKey < t.wsKey then
        if t.wsTomb then posMax f { t with ws := t.ws.prev } else { t with cur := .ws, eq := false }
      else if t.wsTomb then posMax f { t with snap := t.snap.prev, ws := t.ws.prev }
      else { t with cur := .ws, eq := true }

def fuel (t : TI) : Nat := t.ws.xs.length + 1

def seek (t : TI) (k : Nat) : TI :=
  posMin t.fuel { t with dir := .fwd, eq := false, snap := t.snap.seek (· < k), ws := t.ws.seek (fun e => e.1 < k) }
def seekFirst (t : TI) : TI := posMin t.fuel { t with dir := .fwd, eq := false, snap := t.snap.first, ws := t.ws.first }
def seekLast (t : TI) : TI := posMax t.fuel { t with dir := .bwd, eq := false, snap := t.snap.last, ws := t.ws.last }

/-- after a direction change both sources may sit on the same key: the flag must say so -/
def eqCheck (t : TI) : TI :=
  if t.snap.valid && t.ws.valid && t.snapKey == t.wsKey then { t with eq := true } else t

/-- direction-change prologue of `next` (the `fix:` commit): each exhausted source re-enters from its
first key; when both were valid, the one that is *not* current is moved past the current key -/
def turnFwd (t : TI) : TI :=
  let sv := t.snap.valid
  let wv := t.ws.valid
  let t := { t with dir := .fwd, eq := false }
  let t := if !sv then { t with snap := t.snap.first } else t
  let t := if !wv then { t with ws := t.ws.first } else t
  let t :=
    if sv && wv then
      if t.cur == .snap then { t with ws := t.ws.next } else { t with snap := t.snap.next }
    else t
  t.eqCheck

def stepFwd (t : TI) : TI :=
  if t.eq then posMin t.fuel { t with snap := t.snap.next, ws := t.ws.next, eq := false }
  else match t.cur with
    | .snap => posMin t.fuel { t with snap := t.snap.next }
    | .ws => posMin t.fuel { t with ws := t.ws.next }
    | .none => t

/-- `next` -/
def next (t : TI) : TI := stepFwd (if t.dir != .fwd then t.turnFwd else t)

def turnBwd (t : TI) : TI :=
  let sv := t.snap.valid
  let wv := t.ws.valid
  let t := { t with dir := .bwd, eq := false }
  let t := if !sv then { t with snap := t.snap.last } else t
  let t := if !wv then { t with ws := t.ws.last } else t
  let t :=
    if sv && wv then
      if t.cur == .snap then { t with ws := t.ws.prev } else { t with snap := t.snap.prev }
    else t
  t.eqCheck

def stepBwd (t : TI) : TI :=
  if t.eq then posMax t.fuel { t with snap := t.snap.prev, ws := t.ws.prev, eq := false }
  else match t.cur with
    | .snap => posMax t.fuel { t with snap := t.snap.prev }
    | .ws => posMax t.fuel { t with ws := t.ws.prev }
    | .none => t

/-- `prev` -/
def prev (t : TI) : TI := stepBwd (if t.dir != .bwd then t.turnBwd else t)

def key (t : TI) : Option Nat :=
  match t.cur with
  | .snap => t.snap.cur?
  | .ws => t.ws.cur?.map (·.1)
  | .none => none
end TI

namespace TI
def start (snapKeys : List Nat) (ws : List (Nat × Bool)) : TI :=
  { snap := ⟨snapKeys, none⟩, ws := ⟨ws, none⟩, eq := false, cur := .none, dir := .fwd }
end TI
