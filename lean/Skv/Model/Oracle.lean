/-!
Model of `CommitOracle` (src/oracle.rs, C04), literal: `check`, `publish` (stamping with the
highest seq of the batch, GC under the two gates), `rollback` (restores what the publish
overwrote — the `fix:` commit), `reset_for_restore`.  Keys are fingerprints (`Nat`); `fp` is
applied by the caller.  The GC interval is a parameter (the code's value is in `Consts`).
-/

inductive Prev | absent | stamp (p : Nat) | unknown
deriving Repr, DecidableEq

structure OEntry where
  seq : Nat
  prev : Prev
deriving Repr, DecidableEq

structure Oracle where
  recent : List (Nat × OEntry)     -- fingerprint ↦ entry (association list, first match wins)
  keptSince : Nat
  sinceGc : Nat
deriving Repr, DecidableEq

inductive CErr | retry | conflict
deriving Repr, DecidableEq

namespace Oracle
def lookup (m : List (Nat × OEntry)) (k : Nat) : Option OEntry := (m.find? (fun p => p.1 == k)).map (·.2)
def insert (m : List (Nat × OEntry)) (k : Nat) (v : OEntry) : List (Nat × OEntry) :=
  (k, v) :: m.filter (fun p => p.1 != k)
def erase (m : List (Nat × OEntry)) (k : Nat) : List (Nat × OEntry) := m.filter (fun p => p.1 != k)

def check (o : Oracle) (keys : List Nat) (start : Nat) : Except CErr Unit :=
  if start < o.keptSince then .error .retry
  else if keys.any (fun k => match lookup o.recent k with | some c => c.seq > start | none => false)
  then .error .conflict
  else .ok ()

/-- one key of `publish` -/
def stampKey (stamp : Nat) (m : List (Nat × OEntry)) (k : Nat) : List (Nat × OEntry) :=
  match lookup m k with
  | some cur => if cur.seq != stamp then insert m k ⟨stamp, .stamp cur.seq⟩ else m
  | none => insert m k ⟨stamp, .absent⟩

def publish (gcInterval : Nat) (o : Oracle) (keys : List Nat) (seq count oldestActive : Nat) : Oracle :=
  let stamp := seq + count - 1
  let recent := keys.foldl (stampKey stamp) o.recent
  let since := o.sinceGc + 1
  if since ≥ gcInterval && oldestActive > o.keptSince then
    { recent := recent.filter (fun p => p.2.seq ≥ oldestActive), keptSince := oldestActive, sinceGc := 0 }
  else { o with recent := recent, sinceGc := since }

/-- one key of `rollback` -/
def unstampKey (mySeq : Nat) (m : List (Nat × OEntry)) (k : Nat) : List (Nat × OEntry) :=
  match lookup m k with
  | some v =>
    if v.seq == mySeq then
      match v.prev with
      | .absent => erase m k
      | .stamp p => insert m k ⟨p, .unknown⟩
      | .unknown => m
    else m
  | none => m

def rollback (o : Oracle) (keys : List Nat) (mySeq : Nat) : Oracle :=
  { o with recent := keys.foldl (unstampKey mySeq) o.recent }

def resetForRestore (_o : Oracle) (maxSeq : Nat) : Oracle := ⟨[], maxSeq, 0⟩

def empty : Oracle := ⟨[], 0, 0⟩
end Oracle

/-! ### the oracle as used by the commit pipeline (check + seq allocation + publish are one step
under `write_mutex`; a WAL / apply failure rolls the batch back later) -/

structure OBatch where
  keys : List Nat
  stamp : Nat
  start : Nat
deriving Repr, DecidableEq

structure OState where
  o : Oracle
  next : Nat                 -- `log_seq_num`
  live : List OBatch         -- published and not rolled back, in publish order
deriving Repr

inductive OEv
  | commit (keys : List Nat) (start oldestActive : Nat)
  | fail (stamp : Nat)
deriving Repr

def OState.init : OState := ⟨Oracle.empty, 1, []⟩

def OState.step (gc : Nat) (s : OState) : OEv → OState × Option CErr
  | .commit keys start oa =>
    if keys.isEmpty then (s, none)
    else match s.o.check keys start with
      | .error e => (s, some e)
      | .ok _ =>
        let count := keys.length
        let stamp := s.next + count - 1
        ({ o := s.o.publish gc keys s.next count (min oa start), next := s.next + count,
           live := s.live ++ [⟨keys, stamp, start⟩] }, none)
  | .fail stamp =>
    match s.live.find? (fun b => b.stamp == stamp) with
    | none => (s, none)
    | some b => ({ s with o := s.o.rollback b.keys stamp, live := s.live.filter (fun b => b.stamp != stamp) }, none)
