/-!
# A reader's begin against a compaction's capture of the snapshot list (src/transaction.rs
`Transaction::new`, src/snapshot.rs `SnapshotTracker::register_current` / `get_all_snapshots`,
src/compaction/compactor.rs `write_merged_table`)

A compaction captures the registered snapshot sequence numbers when it starts and keeps, per key, the newest
version and what the captured snapshots read.  A reader is safe against that compaction when it is in the
captured list or its sequence number is not older than the visible sequence number at the capture (it then
reads the newest versions the compaction kept).  `load` / `register` are the two steps of a begin before the
`fix:` commit; `beginAtomic` is the begin after it (both steps under the tracker's lock, which the capture
takes too).
-/

structure BR where
  visible : Nat := 0
  registered : List Nat := []          -- sequence numbers of registered readers
  loaded : Option Nat := none          -- a reader between its two steps (old protocol)
  captured : Option (List Nat × Nat) := none   -- the running compaction's list and the visible number at its capture
  lateReaders : List Nat := []         -- readers registered after the capture
deriving Repr

inductive BOp
  | commit          -- the visible sequence number advances
  | load            -- old begin, step 1
  | register        -- old begin, step 2
  | beginAtomic     -- new begin
  | capture         -- a compaction starts
deriving Repr, DecidableEq

def BR.reg (s : BR) (q : Nat) : BR :=
  { s with registered := q :: s.registered,
           lateReaders := if s.captured.isSome then q :: s.lateReaders else s.lateReaders }

def BR.step (s : BR) : BOp → BR
  | .commit => { s with visible := s.visible + 1 }
  | .load => { s with loaded := some s.visible }
  | .register => match s.loaded with
    | some q => { s.reg q with loaded := none }
    | none => s
  | .beginAtomic => s.reg s.visible
  | .capture => { s with captured := some (s.registered, s.visible), lateReaders := [] }

def BR.run (s : BR) (ops : List BOp) : BR := ops.foldl BR.step s

/-- every reader registered after the capture is not older than the capture (readers registered before it are
in the captured list by construction) -/
def BR.safe (s : BR) : Prop :=
  match s.captured with
  | none => True
  | some (_, v) => ∀ q ∈ s.lateReaders, v ≤ q

def atomicOp : BOp → Bool
  | .load | .register => false
  | _ => true
