/-!
# Checksummed blocks inside a file (src/sstable/table.rs `write_block_at_offset` / `read_table_block`,
and after the fix `read_filter_block`)

A block occupies `size` payload bytes, one compression-type byte and four checksum bytes; the
checksum covers payload and type byte.  `crc` is a parameter (masked CRC-32 in the code).  A read
that leaves the file is an error (the code reads a zero-filled short buffer, which then fails the
checksum comparison; the 2⁻³² coincidence is not modelled).
-/

structure Handle where
  off : Nat
  size : Nat
  deriving DecidableEq, Repr

def slice (f : List Nat) (off len : Nat) : List Nat := (f.drop off).take len

def Handle.span (h : Handle) : Nat := h.size + 5

def readBlock (crc : List Nat → List Nat) (f : List Nat) (h : Handle) : Option (List Nat) :=
  let body := slice f h.off (h.size + 1)
  let stored := slice f (h.off + h.size + 1) 4
  if body.length = h.size + 1 ∧ stored.length = 4 ∧ crc body = stored then some (body.take h.size) else none

/-- byte regions of a table file: kind, offset, length -/
structure Region where
  kind : String
  off : Nat
  len : Nat
  deriving Repr

/-- regions tile `[start, n)` without gap or overlap -/
def regionsCover : List Region → Nat → Nat → Bool
  | [], start, n => start == n
  | r :: rs, start, n => r.off == start && decide (0 < r.len) && regionsCover rs (start + r.len) n

def guardedKinds : List String := ["data", "filter", "partition", "topindex", "metaindex", "footer"]

def regionOf (rs : List Region) (off : Nat) : Option Region :=
  rs.find? (fun r => decide (r.off ≤ off) && decide (off < r.off + r.len))
