/-!
Model of the commit-log framing (src/wal/writer.rs, src/wal/reader.rs, C12), byte level, exact.
Reader state = (unread stream, bytes left in the current block): equivalent to the code's block
buffer, no div/mod.  The block size `B`, the checksum and LZ4 decompression are parameters.
-/

abbrev Bytes := List UInt8

/-- checksum is a parameter of the development -/
structure Params where
  B : Nat
  crc : UInt8 → Bytes → Bytes      -- 4 bytes
  crc_len : ∀ t d, (crc t d).length = 4
  hB : 7 < B
  hB16 : B ≤ 65535 + 7             -- fragment length fits the 2-byte field
  lz4 : Bytes → Option Bytes := fun _ => none   -- `decompress_size_prepended` (opaque)

def be16 (n : Nat) : Bytes := [UInt8.ofNat (n / 256), UInt8.ofNat (n % 256)]
def de16 (b : Bytes) : Nat := (b.getD 0 0).toNat * 256 + (b.getD 1 0).toNat

def tyFull : UInt8 := 1
def tyFirst : UInt8 := 2
def tyMiddle : UInt8 := 3
def tyLast : UInt8 := 4
def tySetCompression : UInt8 := 9

def phys (P : Params) (ty : UInt8) (d : Bytes) : Bytes := P.crc ty d ++ be16 d.length ++ [ty] ++ d

def fragTy (begin isEnd : Bool) : UInt8 :=
  if begin && isEnd then tyFull else if begin then tyFirst else if isEnd then tyLast else tyMiddle

def padLen (P : Params) (off : Nat) : Nat := if P.B - off < 7 then P.B - off else 0
def normOff (P : Params) (off : Nat) : Nat := if P.B - off < 7 then 0 else off
def fragLen (P : Params) (off : Nat) (d : Bytes) : Nat := min d.length (P.B - normOff P off - 7)

/-- writer: fragments of `d` from block offset `off` (invariant off ≤ B) -/
def addGo (P : Params) : Nat → Nat → Bool → Bytes → Bytes × Nat
  | 0, off, _, _ => ([], off)
  | fuel+1, off, begin, d =>
    if fragLen P off d == d.length then
      (List.replicate (padLen P off) (0 : UInt8) ++ phys P (fragTy begin true) d,
       normOff P off + 7 + d.length)
    else
      let r := addGo P fuel (normOff P off + 7 + fragLen P off d) false (d.drop (fragLen P off d))
      (List.replicate (padLen P off) (0 : UInt8) ++ phys P (fragTy begin false) (d.take (fragLen P off d)) ++ r.1, r.2)

def addRecord (P : Params) (off : Nat) (d : Bytes) : Bytes × Nat := addGo P (d.length + 2) off true d

def writeAll (P : Params) (off : Nat) : List Bytes → Bytes × Nat
  | [] => ([], off)
  | r :: rs =>
    let a := addRecord P off r
    let b := writeAll P a.2 rs
    (a.1 ++ b.1, b.2)

inductive Ending | eof | corrupt
deriving Repr, DecidableEq

/-- reader: `s` unread stream, `k` bytes of the current block not yet consumed, `idx` fragment
index, `acc` fragments accumulated so far, `cmp` = LZ4 mode (set by a SetCompressionType record,
which — as in the code — is accepted anywhere; its checksum is verified since the `fix:` commit). -/
def readGo (P : Params) : Nat → Bytes → Nat → Nat → Bytes → Bool → List Bytes × Ending
  | 0, _, _, _, _, _ => ([], .corrupt)
  | fuel+1, s, k, idx, acc, cmp =>
    let rem := min k s.length
    if rem < 7 then
      if s.length ≤ k then
        -- end of file: a partial header or an unfinished fragment chain is a torn write
        (if s.length > 0 || idx > 0 then ([], .corrupt) else ([], .eof))
      else readGo P fuel (s.drop k) P.B idx acc cmp
    else
      let crcStored := s.take 4
      let len := de16 (s.drop 4)
      let ty := s.getD 6 0
      if ty == 0 then
        if ((s.drop 7).take (rem - 7)).all (· == 0) then
          if s.length ≤ k then (if idx > 0 then ([], .corrupt) else ([], .eof))
          else readGo P fuel (s.drop k) P.B idx acc cmp
        else ([], .corrupt)
      else if ty == tySetCompression then
        if len > rem - 7 then ([], .corrupt)
        else if P.crc ty ((s.drop 7).take len) != crcStored then ([], .corrupt)
        else if len == 0 then readGo P fuel (s.drop 7) (k - 7) idx acc cmp
        else
          let cb := s.getD 7 0
          if cb == 0 then readGo P fuel (s.drop (7 + len)) (k - (7 + len)) idx acc false
          else if cb == 1 then readGo P fuel (s.drop (7 + len)) (k - (7 + len)) idx acc true
          else ([], .corrupt)
      else if ty != tyFull && ty != tyFirst && ty != tyMiddle && ty != tyLast then ([], .corrupt)
      else if (if ty == tyFull || ty == tyFirst then idx != 0 else idx == 0) then ([], .corrupt)
      else if len > rem - 7 then ([], .corrupt)
      else
        let d := (s.drop 7).take len
        if P.crc ty d != crcStored then ([], .corrupt)
        else if ty == tyLast || ty == tyFull then
          match (if cmp && !(acc ++ d).isEmpty then P.lz4 (acc ++ d) else some (acc ++ d)) with
          | none => ([], .corrupt)
          | some rec =>
            let r := readGo P fuel (s.drop (7 + len)) (k - (7 + len)) 0 [] cmp
            (rec :: r.1, r.2)
        else readGo P fuel (s.drop (7 + len)) (k - (7 + len)) (idx + 1) (acc ++ d) cmp

def readAll (P : Params) (file : Bytes) : List Bytes × Ending :=
  readGo P (file.length + 2) file P.B 0 [] false

/-- `repair_corrupted_wal_segment`: rewrite the records that read back before the first error
into a fresh segment (an empty result deletes the segment). -/
def repair (P : Params) (file : Bytes) : Bytes := (writeAll P 0 (readAll P file).1).1

/-- `Wal::open` on an existing segment followed by appends: the writer resumes at
`len mod B` without looking at the content. -/
def appendSession (P : Params) (file : Bytes) (rs : List Bytes) : Bytes :=
  file ++ (writeAll P (file.length % P.B) rs).1

/-- recovery flow of the store on one segment (TolerateCorruptedWithRepair): read; on a
corruption report repair; then reopen for appending. -/
def recoverAndAppend (P : Params) (file : Bytes) (rs : List Bytes) : Bytes :=
  let r := readAll P file
  let file' := if r.2 == .corrupt then repair P file else file
  appendSession P file' rs
