/-!
# Nested lock acquisition of the store's read and background paths (src/snapshot.rs
`collect_iter_state_from`, src/lsm.rs `flush_immutable_to_sst` / `rotate_memtable`,
src/compaction/compactor.rs `update_manifest`)

An *operation* is a fixed sequence of lock actions: acquire a lock in read or write mode, or
release one; whatever is still held at the end is released together.  Only acquisitions made while
another of these locks is held (and the first one of such a nest) are listed: a lock taken and
dropped with nothing else held cannot take part in a circular wait.  Threads run one operation
each; a request is granted when the lock is free or, for a read request, held by readers only.
Lock ids: 0 = active_memtable, 1 = level_manifest, 2 = immutable_memtables.
-/

inductive LMode | rd | wr
  deriving DecidableEq, Repr

structure LReq where
  lock : Nat
  mode : LMode
  deriving DecidableEq, Repr

inductive LAct
  | acq (r : LReq) (gated : Bool)   -- `gated`: a yield point follows the acquisition in the code
  | rel (lock : Nat)
  deriving DecidableEq, Repr

/-- locks held after a prefix of actions -/
def heldOf : List LAct → List LReq → List LReq
  | [], acc => acc
  | .acq r _ :: rest, acc => heldOf rest (acc ++ [r])
  | .rel l :: rest, acc => heldOf rest (acc.filter (fun h => h.lock != l))

structure LThread where
  prog : List LAct
  pc : Nat := 0
  deriving Repr

def LThread.done (t : LThread) : Bool := decide (t.prog.length ≤ t.pc)
def LThread.held (t : LThread) : List LReq := if t.done then [] else heldOf (t.prog.take t.pc) []
def LThread.next (t : LThread) : Option LReq :=
  match t.prog[t.pc]? with
  | some (.acq r _) => some r
  | _ => none

abbrev LSys := List LThread

def compatible (want : LReq) (heldBy : LReq) : Bool :=
  want.lock != heldBy.lock || (want.mode == .rd && heldBy.mode == .rd)

/-- can thread `i` be granted request `r`? -/
def canGrant (s : LSys) (i : Nat) (r : LReq) : Bool :=
  (List.range s.length).all (fun j => j == i || (s[j]?.map (fun t => t.held.all (compatible r))).getD true)

/-- thread `i` is blocked: its next action is an acquisition that cannot be granted -/
def blocked (s : LSys) (i : Nat) : Bool :=
  match s[i]? with
  | none => false
  | some t => match t.next with
    | some r => !canGrant s i r
    | none => false

/-- one action of thread `i` (no change when blocked or finished) -/
def LSys.step (s : LSys) (i : Nat) : LSys :=
  match s[i]? with
  | none => s
  | some t => if t.done || blocked s i then s else s.set i { t with pc := t.pc + 1 }

/-- the discipline: every acquisition asks for a lock of a higher id than all locks held at that point -/
def disciplinedFrom : List LAct → List LReq → Bool
  | [], _ => true
  | .acq r g :: rest, acc => acc.all (fun h => decide (h.lock < r.lock)) && disciplinedFrom rest (acc ++ [r])
  | .rel l :: rest, acc => disciplinedFrom rest (acc.filter (fun h => h.lock != l))

def disciplined (p : List LAct) : Bool := disciplinedFrom p []

/-! ### the operations of the code -/

def opIter : List LAct := [.acq ⟨0, .rd⟩ true, .acq ⟨1, .rd⟩ true, .acq ⟨2, .rd⟩ true]
def opFlush : List LAct := [.acq ⟨1, .wr⟩ true, .acq ⟨2, .wr⟩ true]
def opRotate : List LAct := [.acq ⟨0, .wr⟩ true, .acq ⟨1, .rd⟩ false, .rel 1, .acq ⟨2, .wr⟩ true]
def opCompact : List LAct := [.acq ⟨1, .wr⟩ true, .acq ⟨2, .wr⟩ true]

/-- `LsmCommitEnv::apply`: the batch is added to the active memtable under its read lock -/
def opCommit : List LAct := [.acq ⟨0, .rd⟩ true, .rel 0]
/-- a rotation followed by the flush of the two pending immutable memtables (what the rotating committer and
the background flush task do one after the other) -/
def opRotFlush : List LAct := opRotate ++ [.rel 0, .rel 2] ++ opFlush ++ [.rel 1, .rel 2] ++ opFlush

def opByName (n : String) : Option (List LAct) :=
  if n == "commit" then some opCommit else if n == "rotflush" then some opRotFlush else
  if n == "iter" then some opIter else if n == "flush" then some opFlush
  else if n == "rotate" then some opRotate else if n == "compact" then some opCompact else none
