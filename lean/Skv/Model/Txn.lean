import Skv.Model.Basic
/-!
Model of `Transaction` (src/transaction.rs): the write-set machine.  Literal port of
`write` (replace-or-push rule incl. the explicit-timestamp exception), `get_with_options`
(write-set part laid over the snapshot), `set_savepoint`, `rollback_to_savepoint`,
`rollback`, and the batch `commit` builds (flatten, stable sort by `seqno`).
The snapshot is a parameter `snap : Key → Option Val` (what `Snapshot::get` returns; C01).
-/

inductive Mode | readWrite | readOnly | writeOnly
deriving DecidableEq, Repr, Inhabited

def Mode.mutable : Mode → Bool
  | .readOnly => false
  | _ => true

inductive TErr | closed | readOnly | writeOnly | emptyKey | noSavepoint
deriving DecidableEq, Repr

def TErr.toStr : TErr → String
  | .closed => "Closed" | .readOnly => "ReadOnly" | .writeOnly => "WriteOnly"
  | .emptyKey => "EmptyKey" | .noSavepoint => "NoSavepoint"

structure Entry where
  key : Key
  value : Option Val
  kind : Kind
  sp : Nat
  seqno : Nat
  ts : Nat          -- 0 = `Entry::COMMIT_TIME`
deriving DecidableEq, Repr

structure Txn where
  mode : Mode
  closed : Bool
  savepoints : Nat
  writeSeqno : Nat
  ws : List (Key × List Entry)     -- association list; BTreeMap order is irrelevant for get/commit
deriving Repr

namespace Txn

def lookup (ws : List (Key × List Entry)) (k : Key) : Option (List Entry) :=
  (ws.find? (fun p => p.1 == k)).map (·.2)

def upsert (ws : List (Key × List Entry)) (k : Key) (f : Option (List Entry) → List Entry) :
    List (Key × List Entry) :=
  match ws with
  | [] => [(k, f none)]
  | (k', es) :: rest => if k' == k then (k', f (some es)) :: rest else (k', es) :: upsert rest k f

/-- the replace-or-push rule of `Transaction::write` -/
def pushRule (e : Entry) : Option (List Entry) → List Entry
  | none => [e]
  | some es =>
    match es.getLast? with
    | none => [e]
    | some last =>
      if last.sp == e.sp then
        if last.ts != 0 && e.ts != 0 && last.ts != e.ts then es ++ [e]
        else es.dropLast ++ [e]
      else es ++ [e]

/-- set / delete / soft_delete / replace with optional explicit timestamp.  As in the code the
write sequence number is bumped before the mode/closed/empty-key checks. -/
def write (t : Txn) (k : Key) (v : Option Val) (kind : Kind) (ts : Nat) : Txn × Except TErr Unit :=
  let seqno := t.writeSeqno + 1
  let t := { t with writeSeqno := seqno }
  if !t.mode.mutable then (t, .error .readOnly)
  else if t.closed then (t, .error .closed)
  else if k.isEmpty then (t, .error .emptyKey)
  else
    let e : Entry := ⟨k, v, kind, t.savepoints, seqno, ts⟩
    ({ t with ws := upsert t.ws k (pushRule e) }, .ok ())

/-- write-set part of `get`: `some none` = pending delete, `some (some v)` = pending value,
`none` = fall through to the snapshot -/
def get (t : Txn) (k : Key) : Except TErr (Option (Option Val)) :=
  if t.closed then .error .closed
  else if k.isEmpty then .error .emptyKey
  else if t.mode == .writeOnly then .error .writeOnly
  else
    match (lookup t.ws k).bind (·.getLast?) with
    | some e => if e.kind.isTomb then .ok (some none) else .ok (some e.value)
    | none => .ok none

/-- full `get`: write set laid over the snapshot -/
def getFull (t : Txn) (snap : Key → Option Val) (k : Key) : Except TErr (Option Val) :=
  match t.get k with
  | .error e => .error e
  | .ok (some r) => .ok r
  | .ok none => .ok (snap k)

def setSavepoint (t : Txn) : Txn × Except TErr Unit :=
  if !t.mode.mutable then (t, .error .readOnly)
  else if t.closed then (t, .error .closed)
  else ({ t with savepoints := t.savepoints + 1 }, .ok ())

def rollbackToSavepoint (t : Txn) : Txn × Except TErr Unit :=
  if !t.mode.mutable then (t, .error .readOnly)
  else if t.closed then (t, .error .closed)
  else if t.savepoints == 0 then (t, .error .noSavepoint)
  else
    let ws := t.ws.map (fun (p : Key × List Entry) => (p.1, p.2.filter (fun e => e.sp != t.savepoints)))
    let ws := ws.filter (fun p => !p.2.isEmpty)
    ({ t with ws := ws, savepoints := t.savepoints - 1 }, .ok ())

def rollback (t : Txn) : Txn :=
  { t with closed := true, ws := [], savepoints := 0, writeSeqno := 0 }

def insBySeq (e : Entry) : List Entry → List Entry
  | [] => [e]
  | x :: xs => if e.seqno < x.seqno then e :: x :: xs else x :: insBySeq e xs

/-- the batch `commit` builds: all surviving entries in issue order (`sort_by_key(seqno)`) -/
def batch (t : Txn) : List Entry := (t.ws.flatMap (·.2)).foldr insBySeq []

/-- `commit`: returns the batch handed to the pipeline (none = nothing to do / error).
The pipeline's verdict is a parameter: on `ok` the transaction closes; on failure the
transaction stays open with an *emptied* write set (`std::mem::take`). -/
def commit (t : Txn) (pipelineOk : Bool) : Txn × Except TErr (List Entry) :=
  if t.closed then (t, .error .closed)
  else if t.mode == .readOnly then (t, .error .readOnly)
  else if t.ws.isEmpty then ({ t with closed := true }, .ok [])
  else
    let b := t.batch
    if pipelineOk then ({ t with closed := true, ws := [] }, .ok b)
    else ({ t with ws := [] }, .ok b)

def start (m : Mode) : Txn := ⟨m, false, 0, 0, []⟩
end Txn
