import Skv.Model.Txn
import Skv.Spec.Overlay
/-!
Program-level machines for C08: the model (`Txn.step`, over the write-set machine) and the
specification (`STxn.step`, over the frame stack), both consuming the same operations and
producing the API-visible outputs.
-/

inductive TOp
  | write (k : Key) (v : Option Val) (kind : Kind) (ts : Nat)
  | get (k : Key)
  | setSp | rbSp | rollback
  | commit (pipelineOk : Bool)
deriving Repr

inductive TOut
  | ok | err (e : TErr) | val (v : Option Val) | pipelineErr
deriving DecidableEq, Repr

def TOut.toStr : TOut → String
  | .ok => "ok" | .err e => "err:" ++ e.toStr | .val v => optHex v | .pipelineErr => "err:Pipeline"

def exceptOut : Except TErr Unit → TOut
  | .ok _ => .ok | .error e => .err e

def Txn.step (snap : Key → Option Val) (t : Txn) : TOp → Txn × TOut
  | .write k v kind ts => let r := t.write k v kind ts; (r.1, exceptOut r.2)
  | .get k => (t, match t.getFull snap k with | .ok v => .val v | .error e => .err e)
  | .setSp => let r := t.setSavepoint; (r.1, exceptOut r.2)
  | .rbSp => let r := t.rollbackToSavepoint; (r.1, exceptOut r.2)
  | .rollback => (t.rollback, .ok)
  | .commit okp =>
    let r := t.commit okp
    (r.1, match r.2 with
          | .error e => .err e
          | .ok b => if b.isEmpty || okp then .ok else .pipelineErr)

structure STxn where
  mode : Mode
  closed : Bool
  spec : Spec

def STxn.start (m : Mode) : STxn := ⟨m, false, Spec.start⟩

def STxn.step (snap : Key → Option Val) (s : STxn) : TOp → STxn × TOut
  | .write k v kind ts =>
    if !s.mode.mutable then (s, .err .readOnly)
    else if s.closed then (s, .err .closed)
    else if k.isEmpty then (s, .err .emptyKey)
    else ({ s with spec := s.spec.write ⟨k, v, kind, ts⟩ }, .ok)
  | .get k =>
    if s.closed then (s, .err .closed)
    else if k.isEmpty then (s, .err .emptyKey)
    else if s.mode == .writeOnly then (s, .err .writeOnly)
    else (s, .val (s.spec.getFull snap k))
  | .setSp =>
    if !s.mode.mutable then (s, .err .readOnly)
    else if s.closed then (s, .err .closed)
    else ({ s with spec := s.spec.setSavepoint }, .ok)
  | .rbSp =>
    if !s.mode.mutable then (s, .err .readOnly)
    else if s.closed then (s, .err .closed)
    else match s.spec.rollbackToSavepoint with
      | none => (s, .err .noSavepoint)
      | some sp => ({ s with spec := sp }, .ok)
  | .rollback => ({ s with closed := true, spec := Spec.start }, .ok)
  | .commit okp =>
    if s.closed then (s, .err .closed)
    else if s.mode == .readOnly then (s, .err .readOnly)
    else if s.spec.log.isEmpty then ({ s with closed := true }, .ok)
    else if okp then ({ s with closed := true, spec := ⟨s.spec.frames.map (fun _ => [])⟩ }, .ok)
    else ({ s with spec := ⟨s.spec.frames.map (fun _ => [])⟩ }, .pipelineErr)

/-- run a program, collecting outputs -/
def runProg {σ : Type} (step : σ → TOp → σ × TOut) : σ → List TOp → List TOut
  | _, [] => []
  | s, op :: ops => let r := step s op; r.2 :: runProg step r.1 ops
