/-!
Durable-state machine at record granularity (C02 / C03 / C07): WAL segments holding whole batch
records (byte-level framing, torn tails and repair are C12's theorems), the pairing of memtables
with segments, the manifest `log_number`, flush, WAL clean-up and recovery
(`replay from max(first, log_number)`).  Batches are identified by numbers in commit order.
-/

structure Mem where
  wal : Nat               -- segment this memtable is paired with (`set_wal_number`)
  batches : List Nat
deriving Repr, DecidableEq

structure DState where
  segs : List (Nat × List Nat) := [(0, [])]   -- (segment id, records) — existing files
  active : Nat := 0                           -- active WAL segment
  logNumber : Nat := 0                        -- manifest: segments below are flushed
  tables : List Nat := []                     -- batches contained in SSTs
  memActive : Mem := ⟨0, []⟩
  imms : List Mem := []                       -- immutable memtables, oldest first
  acked : List Nat := []
  pending : Option Nat := none                -- batch whose WAL record is written but not yet applied
  next : Nat := 0                             -- next batch id
deriving Repr

inductive DOp
  | walAppend           -- critical section of commit: the record goes to the active segment
  | applyAck            -- memtable apply of the pending batch, then `commit()` returns Ok
  | rotate              -- `rotate_memtable`: new WAL segment, active memtable becomes immutable
  | flushOldest         -- `flush_oldest_immutable_to_sst`: SST + manifest (log_number = wal+1), memtable dropped
  | cleanupWal          -- asynchronous `cleanup_old_segments(log_number)`
deriving Repr, DecidableEq

def appendSeg (segs : List (Nat × List Nat)) (id b : Nat) : List (Nat × List Nat) :=
  segs.map (fun s => if s.1 == id then (s.1, s.2 ++ [b]) else s)

def DState.step (d : DState) : DOp → DState
  | .walAppend =>
    match d.pending with
    | some _ => d          -- one committer at a time in this model (C05 handles pipelining)
    | none => { d with segs := appendSeg d.segs d.active d.next, pending := some d.next, next := d.next + 1 }
  | .applyAck =>
    match d.pending with
    | none => d
    | some b =>
      { d with memActive := { d.memActive with batches := d.memActive.batches ++ [b] },
               acked := d.acked ++ [b], pending := none }
  | .rotate =>
    -- also what the ArenaFull retry inside `apply` does while a batch is pending (the straddle)
    { d with segs := d.segs ++ [(d.active + 1, [])], active := d.active + 1,
             imms := d.imms ++ [d.memActive], memActive := ⟨d.active + 1, []⟩ }
  | .flushOldest =>
    match d.imms with
    | [] => d
    | m :: rest => { d with tables := d.tables ++ m.batches, logNumber := m.wal + 1, imms := rest }
  | .cleanupWal => { d with segs := d.segs.filter (fun s => s.1 ≥ d.logNumber) }

def DState.run (d : DState) : List DOp → DState
  | [] => d
  | op :: ops => DState.run (d.step op) ops

/-- what `Core::new` rebuilds from a process-crash image: the tables plus every record of every
existing segment at or above `log_number` -/
def DState.recover (d : DState) : List Nat :=
  d.tables ++ (d.segs.filter (fun s => s.1 ≥ d.logNumber)).flatMap (·.2)

/-- hypothesis `H_noStraddle`: no memtable rotation between a batch's WAL append and the end of
its apply (the excluded family is the known finding `batch-straddles-rotation`) -/
def noStraddle : Bool → List DOp → Bool
  | _, [] => true
  | pend, .walAppend :: ops => noStraddle true ops
  | _, .applyAck :: ops => noStraddle false ops
  | pend, .rotate :: ops => !pend && noStraddle pend ops
  | pend, _ :: ops => noStraddle pend ops
