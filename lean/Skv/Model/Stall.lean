/-!
Model of `WriteStallController::check` (src/stall.rs) against its signallers (`signal_work_done`
after a flush or compaction, `signal_shutdown` at close).

`tokio::sync::Notify::notify_waiters` wakes exactly the `Notified` futures created before the call;
this is modelled by a generation counter: a future created at generation `g` is ready iff `gen > g`
(trusted: that reading of the tokio contract).  A committer walks `idle → registered g → decided g`
(it saw the stall condition and no shutdown) `→ idle` (woken) or `returned`.  The environment may
raise the stall condition, clear it, set the shutdown flag, and call `notify_waiters`; `owed` counts
the clearings / flag stores whose `notify_waiters` call has not happened yet.
-/

inductive WPhase
  | idle
  | registered (g : Nat)
  | decided (g : Nat)
  | parked (g : Nat)      -- late-registration variant only
  | returned (ok : Bool)
deriving DecidableEq, Repr

structure SState where
  gen : Nat := 0
  stalled : Bool := false
  shutdown : Bool := false
  owed : Nat := 0
  phase : Nat → WPhase := fun _ => .idle

inductive SOp
  | register (i : Nat)
  | read (i : Nat)
  | await (i : Nat)
  | stall
  | clear
  | signal
  | shutdown
deriving DecidableEq, Repr

namespace SState

def setPhase (s : SState) (i : Nat) (p : WPhase) : SState :=
  { s with phase := fun j => if j = i then p else s.phase j }

/-- the code as written: the `Notified` future is created before the flag and the counts are read -/
def step (s : SState) : SOp → SState
  | .register i => match s.phase i with
    | .idle => s.setPhase i (.registered s.gen)
    | _ => s
  | .read i => match s.phase i with
    | .registered g =>
      if s.shutdown then s.setPhase i (.returned false)
      else if !s.stalled then s.setPhase i (.returned true)
      else s.setPhase i (.decided g)
    | _ => s
  | .await i => match s.phase i with
    | .decided g => if g < s.gen then s.setPhase i .idle else s
    | _ => s
  | .stall => { s with stalled := true }
  | .clear => { s with stalled := false, owed := s.owed + 1 }
  | .signal => { s with gen := s.gen + 1, owed := s.owed - 1 }
  | .shutdown => { s with shutdown := true, owed := s.owed + 1 }

def run (s : SState) (ops : List SOp) : SState := ops.foldl step s

/-- the variant in which the future is only created when the committer has decided to wait -/
def stepLate (s : SState) : SOp → SState
  | .await i => match s.phase i with
    | .decided _ => s.setPhase i (.parked s.gen)
    | .parked g => if g < s.gen then s.setPhase i .idle else s
    | _ => s
  | op => s.step op

def runLate (s : SState) (ops : List SOp) : SState := ops.foldl stepLate s

/-- the committer cannot move: it waits for a generation that has not come -/
def blocked (s : SState) (i : Nat) : Bool :=
  match s.phase i with
  | .decided g => !(g < s.gen)
  | .parked g => !(g < s.gen)
  | _ => false

end SState
