/-!
# Value-log files and their clean-up (src/vlog.rs `cleanup_obsolete_files`, src/levels/mod.rs
`min_oldest_vlog_file_id`, src/sstable/table.rs `TableWriter::add` / `finish`)

A table records the smallest value-log file id among its value pointers (`oldest`, 0 = no pointer);
the manifest-wide minimum over the tables that have one bounds what the clean-up may delete:
files with an id below it, never the active file.
-/

structure VTab where
  id : Nat
  ptrs : List Nat          -- value-log file ids of the table's value pointers
  oldest : Nat             -- recorded `oldest_vlog_file_id`
  deriving DecidableEq, Repr

structure VS where
  files : List Nat := []   -- value-log files on disk
  active : Nat := 0        -- file currently written
  tables : List VTab := [] -- live tables
  deriving Repr

/-- `min_vlog_file_id` as `TableWriter::add` maintains it: running minimum, 0 when no pointer was seen -/
def tabOldest : List Nat → Nat
  | [] => 0
  | p :: ps => ps.foldl min p

/-- `LevelManifest::min_oldest_vlog_file_id` -/
def minOldest (ts : List VTab) : Nat :=
  match (ts.map (·.oldest)).filter (· > 0) with
  | [] => 0
  | x :: xs => xs.foldl min x

/-- `VLog::cleanup_obsolete_files(min_oldest)` -/
def VS.cleanup (s : VS) : VS :=
  let m := minOldest s.tables
  { s with files := s.files.filter (fun f => !(decide (f < m) && f != s.active)) }

/-- a flush or a compaction output: a new table whose pointers lead to existing files -/
def VS.addTable (s : VS) (id : Nat) (ptrs : List Nat) : VS :=
  { s with tables := { id := id, ptrs := ptrs, oldest := tabOldest ptrs } :: s.tables }

/-- compaction removes its inputs -/
def VS.dropTables (s : VS) (ids : List Nat) : VS :=
  { s with tables := s.tables.filter (fun t => !ids.contains t.id) }

/-- a new value-log file is created (rotation) -/
def VS.newFile (s : VS) (f : Nat) : VS := { s with files := f :: s.files, active := f }

/-- every pointer of a live table resolves: the file exists, the table's recorded oldest id is set and not above it -/
def VS.inv (s : VS) : Prop :=
  ∀ t ∈ s.tables, ∀ p ∈ t.ptrs, p ∈ s.files ∧ 0 < t.oldest ∧ t.oldest ≤ p

/-! ## a compaction round in progress

`Compactor::merge_tables` hides its input tables, writes the output (whose value pointers are the inputs'),
and only then switches the manifest (output in, inputs out).  Flushes — each followed by a clean-up — run
meanwhile.  The hidden inputs stay in the manifest and are counted by `min_oldest_vlog_file_id`;
`skipHidden = true` is the variant of a seeded change that leaves them out. -/

structure VS2 where
  s : VS := {}
  hidden : List Nat := []      -- ids of the inputs of the running compaction
  deriving Repr

def VS.cleanupSkipping (s : VS) (hidden : List Nat) : VS :=
  let m := minOldest (s.tables.filter (fun t => !hidden.contains t.id))
  { s with files := s.files.filter (fun f => !(decide (f < m) && f != s.active)) }

inductive VAct2
  | newFile (f : Nat)
  | flush (id : Nat) (ptrs : List Nat)      -- a new table whose pointers were just written
  | cleanup
  | hide (ids : List Nat)                   -- a compaction round picks and hides its inputs
  | finish (newId : Nat)                    -- output installed with the inputs' pointers, inputs removed

def VS2.act (skipHidden : Bool) (x : VS2) : VAct2 → VS2
  | .newFile f => { x with s := x.s.newFile f }
  | .flush id ptrs => { x with s := x.s.addTable id ptrs }
  | .cleanup => { x with s := if skipHidden then x.s.cleanupSkipping x.hidden else x.s.cleanup }
  | .hide ids => { x with hidden := ids }
  | .finish newId =>
    let inputs := x.s.tables.filter (fun t => x.hidden.contains t.id)
    { s := (x.s.addTable newId (inputs.flatMap (·.ptrs))).dropTables x.hidden, hidden := [] }
