import Skv.Model.Compact
/-!
# Version history and time-travel reads (src/snapshot.rs `HistoryIterator::skip_to_valid_forward`,
`Snapshot::get_at`)

Per key the iterator sees the versions newest first.  `histKeyFwd` is the loop body of the forward
scan for one user key (snapshot filter, timestamp range, first-visible hard delete, barrier,
tombstone filter); `specKey` is the property: the versions newer than the newest visible barrier
(hard delete exclusive, replace inclusive), nothing when the newest visible version is a hard
delete, then the option filters.
-/

structure HVer where
  seq : Nat
  kind : VKind
  ts : Nat
  val : Nat
  deriving DecidableEq, Repr

structure HOpts where
  tombs : Bool := false
  range : Option (Nat × Nat) := none
  limit : Option Nat := none
  deriving Repr

/-- one visible, in-range version: update the flags, list it or not, go on with `k` -/
def histStep (tombs : Bool) (fs lh bs : Bool) (v : HVer) (k : Bool → Bool → Bool → List HVer) : List HVer :=
  let lh := if !fs && v.kind.isHard then true else lh
  if lh then k true lh bs
  else if bs then k true lh bs
  else if v.kind.isHard then k true lh true
  else
    let bs' := bs || v.kind == .replace
    if !tombs && v.kind.isTomb then k true lh bs' else v :: k true lh bs'

/-- a visible version ABOVE the timestamp range: it is not listed, but it goes through the flag updates
(`above_ts_range`, `fix:` commit): a hard delete or replace newer than the range has erased the versions
inside it -/
def histStepAbove (fs lh bs : Bool) (v : HVer) (k : Bool → Bool → Bool → List HVer) : List HVer :=
  let lh := if !fs && v.kind.isHard then true else lh
  if lh then k true lh bs
  else if bs then k true lh bs
  else if v.kind.isHard then k true lh true
  else k true lh (bs || v.kind == .replace)

/-- loop state for one user key: first_visible_seen, latest_is_hard_delete, barrier_seen -/
def histKeyFwd (tombs : Bool) (range : Option (Nat × Nat)) (snap : Nat) : Bool → Bool → Bool → List HVer → List HVer
  | _, _, _, [] => []
  | fs, lh, bs, v :: rest =>
    if v.seq > snap then histKeyFwd tombs range snap fs lh bs rest
    else
      match range with
      | some (a, b) =>
        if v.ts > b then histStepAbove fs lh bs v (fun fs lh bs => histKeyFwd tombs range snap fs lh bs rest)
        else if v.ts < a then []                                     -- advance_to_next_user_key
        else histStep tombs fs lh bs v (fun fs lh bs => histKeyFwd tombs range snap fs lh bs rest)
      | none => histStep tombs fs lh bs v (fun fs lh bs => histKeyFwd tombs range snap fs lh bs rest)

/-- retained versions of a visible list (newest first) -/
def hRetainedGo : List HVer → List HVer
  | [] => []
  | v :: vs => if v.kind.isHard then [] else if v.kind == .replace then [v] else v :: hRetainedGo vs

def hRetained (vis : List HVer) : List HVer :=
  match vis with
  | v :: _ => if v.kind.isHard then [] else hRetainedGo vis
  | [] => []

def inRangeTs (o : HOpts) (v : HVer) : Bool :=
  match o.range with
  | some (a, b) => decide (a ≤ v.ts) && decide (v.ts ≤ b)
  | none => true

/-- the property for one key -/
def specKey (o : HOpts) (snap : Nat) (vs : List HVer) : List HVer :=
  (hRetained (vs.filter (fun v => decide (v.seq ≤ snap)))).filter (fun v => (o.tombs || !v.kind.isTomb) && inRangeTs o v)

def applyLimit (o : HOpts) (l : List α) : List α := match o.limit with | some n => l.take n | none => l

/-- whole scan: keys ascending, per key newest first, cut at the limit -/
def histFwd (o : HOpts) (snap : Nat) (keys : List (Nat × List HVer)) : List (Nat × HVer) :=
  applyLimit o (keys.flatMap (fun kv => (histKeyFwd o.tombs o.range snap false false false kv.2).map (fun v => (kv.1, v))))
def specHistory (o : HOpts) (snap : Nat) (keys : List (Nat × List HVer)) : List (Nat × HVer) :=
  applyLimit o (keys.flatMap (fun kv => (specKey o snap kv.2).map (fun v => (kv.1, v))))

/-- `Snapshot::get_at`: scan the key's history (tombstones included, no range) and keep the entry
with the greatest timestamp at or below `t` (a later entry of the scan wins a tie) -/
def getAtGo (t : Nat) : Option HVer → List HVer → Option HVer
  | best, [] => best
  | best, v :: rest =>
    let bt := match best with | some b => b.ts | none => 0
    if v.ts ≤ t && v.ts ≥ bt then getAtGo t (some v) rest else getAtGo t best rest

def getAt (snap t : Nat) (vs : List HVer) : Option Nat :=
  match getAtGo t none (histKeyFwd true none snap false false false vs) with
  | some v => if v.kind.isTomb then none else some v.val
  | none => none

/-- keep the candidate with the strictly greater timestamp -/
def specPick (best : Option HVer) (v : HVer) : Option HVer :=
  match best with
  | none => some v
  | some b => if v.ts > b.ts then some v else some b

/-- the property: the retained version with the greatest timestamp not above `t` -/
def specGetAt (snap t : Nat) (vs : List HVer) : Option Nat :=
  let cands := (specKey { tombs := true } snap vs).filter (fun v => decide (v.ts ≤ t))
  match cands.foldl specPick none with
  | some v => if v.kind.isTomb then none else some v.val
  | none => none

/-! ## backward scan (`collect_one_user_key_backward`): the versions of one key are collected oldest
first, the newest barrier is searched from the newest end, the valid range is emitted oldest first -/

/-- position (counted from the newest version, starting at `j`) of the newest barrier among versions given
newest first, and whether it is a hard delete -/
def newestBarrier : List HVer → Nat → Option (Nat × Bool)
  | [], _ => none
  | v :: rest, j =>
    if v.kind.isHard then some (j, true) else if v.kind == .replace then some (j, false)
    else newestBarrier rest (j + 1)

def inRangeOpt (range : Option (Nat × Nat)) (v : HVer) : Bool :=
  match range with
  | some (a, b) => decide (a ≤ v.ts) && decide (v.ts ≤ b)
  | none => true

/-- `valid_start_idx` -/
def bwdStart (len : Nat) : Option (Nat × Bool) → Nat
  | some (j, true) => len - 1 - j + 1
  | some (j, false) => len - 1 - j
  | none => 0

def histKeyBwd (tombs : Bool) (range : Option (Nat × Nat)) (snap : Nat) (vs : List HVer) : List HVer :=
  let asc := vs.reverse.filter (fun v => decide (v.seq ≤ snap))
  match asc.getLast? with
  | none => []
  | some latest =>
    if latest.kind.isHard then []
    else
      let start := bwdStart asc.length (newestBarrier asc.reverse 0)
      (asc.drop start).filter (fun v => !v.kind.isHard && (inRangeOpt range v && (tombs || !v.kind.isTomb)))

/-- whole backward scan: keys descending, per key oldest first, cut at the limit -/
def histBwd (o : HOpts) (snap : Nat) (keys : List (Nat × List HVer)) : List (Nat × HVer) :=
  applyLimit o (keys.reverse.flatMap (fun kv => (histKeyBwd o.tombs o.range snap kv.2).map (fun v => (kv.1, v))))

/-! ## the same version from two sources

After a crash between the version-index update and the manifest switch of a flush, the versions of the
interrupted flush are in the index AND (replayed from the commit log) in a memtable; a batch whose apply
was retried after a rotation sits in two memtables.  The merge then delivers such a version twice, one
copy right after the other.  Both history loops skip a version whose (sequence number, timestamp) equal
those of the version examined just before (`fix:` commit); in the model that is a pass over the key's
versions before the loop proper. -/

def dedupAdj : List HVer → List HVer
  | [] => []
  | [x] => [x]
  | x :: y :: r => if x.seq = y.seq ∧ x.ts = y.ts then dedupAdj (y :: r) else x :: dedupAdj (y :: r)

def histKeyFwdD (tombs : Bool) (range : Option (Nat × Nat)) (snap : Nat) (vs : List HVer) : List HVer :=
  histKeyFwd tombs range snap false false false (dedupAdj vs)


/-! ## back-filled timestamps

With the version index a version may be written with a timestamp older than existing ones.  The index keeps a
key's versions by timestamp; the property's "newest first" and "earlier versions" are then about timestamps. -/

/-- the versions of a key by timestamp, newest first (commit order breaks ties): the order of the version index -/
def insTs (v : HVer) : List HVer → List HVer
  | [] => [v]
  | x :: xs => if v.ts > x.ts || (v.ts == x.ts && v.seq > x.seq) then v :: x :: xs else x :: insTs v xs
def sortTs (l : List HVer) : List HVer := l.foldr insTs []
