import Skv.Model.Compact
/-!
# Version history and time-travel reads (src/snapshot.rs `HistoryIterator::skip_to_valid_forward`,
`Snapshot::get_at`)

Per key the iterator sees the versions newest first.  `histKeyFwd` is the loop body of the forward
scan for one user key (snapshot filter, timestamp range, first-visible hard delete, barrier,
tombstone filter); `specKey` is the property: the versions newer than the newest visible barrier
(hard delete exclusive, replace inclusive), nothing when the newest visible version is a hard
delete, then the option filters.
-/

structure HVer where
  seq : Nat
  kind : VKind
  ts : Nat
  val : Nat
  deriving DecidableEq, Repr

structure HOpts where
  tombs : Bool := false
  range : Option (Nat × Nat) := none
  limit : Option Nat := none
  deriving Repr

/-- one visible, in-range version: update the flags, list it or not, go on with `k` -/
def histStep (tombs : Bool) (fs lh bs : Bool) (v : HVer) (k : Bool → Bool → Bool → List HVer) : List HVer :=
  let lh := if !fs && v.kind.isHard then true else lh
  if lh then k true lh bs
  else if bs then k true lh bs
  else if v.kind.isHard then k true lh true
  else
    let bs' := bs || v.kind == .replace
    if !tombs && v.kind.isTomb then k true lh bs' else v :: k true lh bs'

/-- loop state for one user key: first_visible_seen, latest_is_hard_delete, barrier_seen -/
def histKeyFwd (tombs : Bool) (range : Option (Nat × Nat)) (snap : Nat) : Bool → Bool → Bool → List HVer → List HVer
  | _, _, _, [] => []
  | fs, lh, bs, v :: rest =>
    if v.seq > snap then histKeyFwd tombs range snap fs lh bs rest
    else
      match range with
      | some (a, b) =>
        if v.ts > b then histKeyFwd tombs range snap fs lh bs rest   -- skipped before the barrier logic
        else if v.ts < a then []                                     -- advance_to_next_user_key
        else histStep tombs fs lh bs v (fun fs lh bs => histKeyFwd tombs range snap fs lh bs rest)
      | none => histStep tombs fs lh bs v (fun fs lh bs => histKeyFwd tombs range snap fs lh bs rest)

/-- retained versions of a visible list (newest first) -/
def hRetainedGo : List HVer → List HVer
  | [] => []
  | v :: vs => if v.kind.isHard then [] else if v.kind == .replace then [v] else v :: hRetainedGo vs

def hRetained (vis : List HVer) : List HVer :=
  match vis with
  | v :: _ => if v.kind.isHard then [] else hRetainedGo vis
  | [] => []

def inRangeTs (o : HOpts) (v : HVer) : Bool :=
  match o.range with
  | some (a, b) => decide (a ≤ v.ts) && decide (v.ts ≤ b)
  | none => true

/-- the property for one key -/
def specKey (o : HOpts) (snap : Nat) (vs : List HVer) : List HVer :=
  (hRetained (vs.filter (fun v => decide (v.seq ≤ snap)))).filter (fun v => (o.tombs || !v.kind.isTomb) && inRangeTs o v)

def applyLimit (o : HOpts) (l : List α) : List α := match o.limit with | some n => l.take n | none => l

/-- whole scan: keys ascending, per key newest first, cut at the limit -/
def histFwd (o : HOpts) (snap : Nat) (keys : List (Nat × List HVer)) : List (Nat × HVer) :=
  applyLimit o (keys.flatMap (fun kv => (histKeyFwd o.tombs o.range snap false false false kv.2).map (fun v => (kv.1, v))))
def specHistory (o : HOpts) (snap : Nat) (keys : List (Nat × List HVer)) : List (Nat × HVer) :=
  applyLimit o (keys.flatMap (fun kv => (specKey o snap kv.2).map (fun v => (kv.1, v))))

/-- `Snapshot::get_at`: scan the key's history (tombstones included, no range) and keep the entry
with the greatest timestamp at or below `t` (a later entry of the scan wins a tie) -/
def getAtGo (t : Nat) : Option HVer → List HVer → Option HVer
  | best, [] => best
  | best, v :: rest =>
    let bt := match best with | some b => b.ts | none => 0
    if v.ts ≤ t && v.ts ≥ bt then getAtGo t (some v) rest else getAtGo t best rest

def getAt (snap t : Nat) (vs : List HVer) : Option Nat :=
  match getAtGo t none (histKeyFwd true none snap false false false vs) with
  | some v => if v.kind.isTomb then none else some v.val
  | none => none

/-- keep the candidate with the strictly greater timestamp -/
def specPick (best : Option HVer) (v : HVer) : Option HVer :=
  match best with
  | none => some v
  | some b => if v.ts > b.ts then some v else some b

/-- the property: the retained version with the greatest timestamp not above `t` -/
def specGetAt (snap t : Nat) (vs : List HVer) : Option Nat :=
  let cands := (specKey { tombs := true } snap vs).filter (fun v => decide (v.ts ≤ t))
  match cands.foldl specPick none with
  | some v => if v.kind.isTomb then none else some v.val
  | none => none
