/-!
How a background task of `TaskManager` (src/task.rs) is told to exit.  The task loops:
`notify.notified().await; if stop_flag { break }; work`.  `stop()` and `Drop` set the flag and notify.
`tokio::sync::Notify`: `notify_one` wakes a parked waiter or, when nobody waits, stores a permit that the
next `notified().await` consumes at once; `notify_waiters` wakes the waiters parked at that moment and
stores nothing (trusted reading of the tokio contract).  A task that has been spawned but not polled yet —
or is busy — is not parked: only a stored permit reaches it.
-/

inductive TPhase | running | parked | woken | exited
deriving DecidableEq, Repr

structure TState where
  phase : TPhase := .running     -- spawned, on its way to the first `notified().await`
  permit : Bool := false
  stop : Bool := false
deriving DecidableEq, Repr

inductive TOp
  | taskAwait        -- the task reaches `notified().await`
  | taskResume       -- a woken task checks the flag: exits, or does its work and loops
  | setStop
  | notifyOne
  | notifyWaiters
deriving DecidableEq, Repr

def TState.step (s : TState) : TOp → TState
  | .taskAwait =>
    if s.phase = .running then (if s.permit then { s with phase := .woken, permit := false } else { s with phase := .parked })
    else s
  | .taskResume =>
    if s.phase = .woken then (if s.stop then { s with phase := .exited } else { s with phase := .running }) else s
  | .setStop => { s with stop := true }
  | .notifyOne => if s.phase = .parked then { s with phase := .woken } else { s with permit := true }
  | .notifyWaiters => if s.phase = .parked then { s with phase := .woken } else s

def TState.run (s : TState) (ops : List TOp) : TState := ops.foldl TState.step s

/-- the task's own steps until nothing changes -/
def TState.settle (s : TState) : TState := (((s.step .taskAwait).step .taskResume).step .taskAwait).step .taskResume
