/-!
# Sorted tables (src/sstable/table.rs, index_block.rs, block.rs, comparator.rs) — logical level

Keys are internal keys `(user key bytes, seq)` ordered by user key ascending, then seq descending
(`InternalKeyComparator::compare`; the kind byte does not take part).  A table is a list of
partitions, each a list of data blocks with the separator key the index stores for them.  Positions
are *global* entry indices (`total` = invalid), so that the literal two-level algorithms can be
compared directly with the flat sorted list of entries.
-/

structure IKey where
  uk : List Nat
  seq : Nat
  deriving DecidableEq, Repr

def ikLt (a b : IKey) : Bool := decide (a.uk < b.uk) || (a.uk == b.uk && decide (b.seq < a.seq))
def ikLe (a b : IKey) : Bool := !ikLt b a

/-- `INTERNAL_KEY_SEQ_NUM_MAX` is a parameter of the definitions that need it -/
structure Ent where
  k : IKey
  v : Nat
  deriving DecidableEq, Repr

structure PBlock where
  sep : IKey
  ents : List Ent
  restarts : List Nat := [0]
  deriving Repr

abbrev Part := List PBlock
abbrev Layout := List Part

/-- number of entries below `t` = position of the first entry `≥ t` in a sorted list -/
def firstGE (es : List Ent) (t : IKey) : Nat := (es.takeWhile (fun e => ikLt e.k t)).length
def firstGEk (ks : List IKey) (t : IKey) : Nat := (ks.takeWhile (fun k => ikLt k t)).length

def blocksOf (L : Layout) : List PBlock := L.flatten
def flatOf (bs : List PBlock) : List Ent := (bs.map (·.ents)).flatten
def offsetOf (bs : List PBlock) (j : Nat) : Nat := (flatOf (bs.take j)).length

/-! ## block-level seek: binary search over restart points, then linear scan (`BlockIterator::seek_internal`) -/

/-- the binary search loop: `left`/`right` are indices into `rs`; `fuel` bounds the iterations -/
def bsearch (es : List Ent) (rs : List Nat) (t : IKey) : Nat → Nat → Nat → Nat
  | 0, left, _ => left
  | fuel + 1, left, right =>
    if left < right then
      let mid := (left + right + 1) / 2
      match es[rs[mid]?.getD 0]? with
      | some e => if ikLt e.k t then bsearch es rs t fuel mid right else bsearch es rs t fuel left (mid - 1)
      | none => left
    else left

/-- linear scan from entry index `i`: first index `≥ i` whose key is not below `t` -/
def scanFrom (es : List Ent) (t : IKey) (i : Nat) : Nat := i + firstGE (es.drop i) t

def blockSeek (b : PBlock) (t : IKey) : Nat :=
  let left := bsearch b.ents b.restarts t b.restarts.length 0 (b.restarts.length - 1)
  scanFrom b.ents t (b.restarts[left]?.getD 0)

/-! ## index: top level keyed by each partition's last separator (`Index::find_block_handle_by_key`,
`IndexIterator::seek`) -/

def partTop (p : Part) : Option IKey := p.getLast?.map (·.sep)

def partBelow (t : IKey) (p : Part) : Bool :=
  match partTop p with | some k => ikLt k t | none => true

/-- `partition_point(|b| b.separator < target)` over the top-level keys -/
def findPart (L : Layout) (t : IKey) : Nat := (L.takeWhile (partBelow t)).length

/-- flat block index the index iterator lands on (`blocks.length` = invalid) -/
def idxSeek (L : Layout) (t : IKey) : Nat :=
  let pi := findPart L t
  match L[pi]? with
  | none => (blocksOf L).length
  | some p =>
    let j := firstGEk (p.map (·.sep)) t
    let base := (blocksOf (L.take pi)).length
    -- past the end of this partition: first block of the next one
    base + j

/-! ## table-level seek (`TableIterator::seek_internal` = index seek, block seek, `advance_to_valid_entry`) -/

def tblSeek (L : Layout) (t : IKey) : Nat :=
  let bs := blocksOf L
  let j := idxSeek L t
  match bs[j]? with
  | none => (flatOf bs).length
  | some b =>
    let p := blockSeek b t
    -- p = b.ents.length: the block iterator is invalid, the next block's first entry is taken
    offsetOf bs j + p

/-- `Table::get`: index lookup, block seek, *no* advance; hit only when the user key matches -/
def tblGet (L : Layout) (k : List Nat) (s : Nat) : Option Ent :=
  let bs := blocksOf L
  let t : IKey := ⟨k, s⟩
  match bs[idxSeek L t]? with
  | none => none
  | some b =>
    match b.ents[blockSeek b t]? with
    | some e => if e.k.uk = k then some e else none
    | none => none

/-- specification of a point lookup: the newest entry of `k` at or below `s` -/
def specGet (es : List Ent) (k : List Nat) (s : Nat) : Option Ent :=
  es.find? (fun e => e.k.uk = k && decide (e.k.seq ≤ s))

/-! ## well-formedness of a layout (decidable; checked on the real file's layout in every case) -/

def sortedEnts : List Ent → Bool
  | [] => true
  | [_] => true
  | a :: b :: rest => ikLt a.k b.k && sortedEnts (b :: rest)

/-- consecutive blocks: `last(B) ≤ sep(B) < first(B')`, and the separator is either the last key
itself or has a user key strictly below the next block's first user key (what `Table::get` needs
to stop at the end of a block) -/
def blocksWF : List PBlock → Bool
  | [] => true
  | [b] => (match b.ents.getLast? with | some l => ikLe l.k b.sep | none => false) && sortedEnts b.ents
  | b :: b' :: rest =>
    (match b.ents.getLast?, b'.ents.head? with
     | some l, some f => ikLe l.k b.sep && ikLt b.sep f.k && (b.sep == l.k || decide (b.sep.uk < f.k.uk))
     | _, _ => false) && sortedEnts b.ents && blocksWF (b' :: rest)

def restartsWF (b : PBlock) : Bool :=
  b.restarts.head? == some 0 && b.restarts.all (· < b.ents.length) &&
  (b.restarts.zip b.restarts.tail).all (fun p => p.1 < p.2)

def layoutWF (L : Layout) : Bool :=
  L.all (fun p => !p.isEmpty) && blocksWF (blocksOf L) && (blocksOf L).all restartsWF

/-! ## cursor with user-key bounds (`TableIterator`) over global positions -/

inductive Bnd
  | unb | incl (k : List Nat) | excl (k : List Nat)
  deriving DecidableEq, Repr

def satLower (lo : Bnd) (uk : List Nat) : Bool :=
  match lo with
  | .unb => true | .incl k => !decide (uk < k) | .excl k => decide (k < uk)
def satUpper (hi : Bnd) (uk : List Nat) : Bool :=
  match hi with
  | .unb => true | .incl k => !decide (k < uk) | .excl k => decide (uk < k)

structure TCur where
  pos : Option Nat := none      -- valid position
  exhausted : Bool := false
  deriving DecidableEq, Repr

structure TblCtx where
  L : Layout
  lo : Bnd
  hi : Bnd
  maxSeq : Nat

def TblCtx.flat (c : TblCtx) : List Ent := flatOf (blocksOf c.L)
def TblCtx.at? (c : TblCtx) (p : Nat) : Option Ent := c.flat[p]?
def TblCtx.mkPos (c : TblCtx) (p : Nat) : Option Nat := if p < c.flat.length then some p else none

def exhaust : TCur := { pos := none, exhausted := true }

/-- check the landing position against the upper bound (`mark_exhausted` otherwise) -/
def TblCtx.checkUpper (c : TblCtx) (p : Option Nat) : TCur :=
  match p with
  | none => { pos := none, exhausted := false }
  | some i => match c.at? i with
    | some e => if satUpper c.hi e.k.uk then { pos := some i } else exhaust
    | none => { pos := none }
def TblCtx.checkLower (c : TblCtx) (p : Option Nat) : TCur :=
  match p with
  | none => { pos := none, exhausted := false }
  | some i => match c.at? i with
    | some e => if satLower c.lo e.k.uk then { pos := some i } else exhaust
    | none => { pos := none }

/-- landing position of `seek_to_first` before the upper-bound check (`flat.length` = past the end) -/
def TblCtx.seekFirstPos (c : TblCtx) : Nat :=
  match c.lo with
  | .unb => 0
  | .incl k => tblSeek c.L ⟨k, c.maxSeq⟩
  | .excl k =>
    let p := tblSeek c.L ⟨k, 0⟩
    match c.at? p with
    | some e => if e.k.uk = k then p + 1 else p     -- landed on exactly (k, 0): advance past it
    | none => p

def TblCtx.seekFirst (c : TblCtx) : TCur := c.checkUpper (c.mkPos c.seekFirstPos)

def lastPosOf (n : Nat) : Option Nat := if n = 0 then none else some (n - 1)

/-- landing position of `seek_to_last` before the lower-bound check -/
def TblCtx.seekLastPos (c : TblCtx) : Option Nat :=
  let n := c.flat.length
  match c.hi with
  | .unb => lastPosOf n
  | .incl k =>
    let p := tblSeek c.L ⟨k, 0⟩
    match c.at? p with
    | none => lastPosOf n
    | some e => if k < e.k.uk then lastPosOf p else some p
  | .excl k =>
    let p := tblSeek c.L ⟨k, c.maxSeq⟩
    let p' : Option Nat := match c.at? p with | none => lastPosOf n | some _ => some p
    match p' with
    | none => none
    | some q => match c.at? q with
      | some e => if !decide (e.k.uk < k) then lastPosOf q else some q
      | none => none

def TblCtx.seekLast (c : TblCtx) : TCur := c.checkLower c.seekLastPos

def TblCtx.seek (c : TblCtx) (t : IKey) : TCur :=
  c.checkUpper (c.mkPos (tblSeek c.L t))

def TblCtx.next (c : TblCtx) (s : TCur) : TCur :=
  match s.pos with
  | none => if s.exhausted then s else c.seekFirst
  | some p =>
    match c.mkPos (p + 1) with
    | none => exhaust
    | some q => match c.at? q with
      | some e => if satUpper c.hi e.k.uk then { pos := some q } else exhaust
      | none => exhaust

def TblCtx.prev (c : TblCtx) (s : TCur) : TCur :=
  match s.pos with
  | none => if s.exhausted then s else c.seekLast
  | some p =>
    if p = 0 then exhaust else
    match c.at? (p - 1) with
    | some e => if satLower c.lo e.k.uk then { pos := some (p - 1) } else exhaust
    | none => exhaust

/-! ## specification: a cursor over the flat sorted list restricted to the user-key bounds -/

def inRange (lo hi : Bnd) (e : Ent) : Bool := satLower lo e.k.uk && satUpper hi e.k.uk

def landUpper (es : List Ent) (hi : Bnd) (i : Nat) : TCur :=
  match es[i]? with
  | some e => if satUpper hi e.k.uk then { pos := some i } else exhaust
  | none => {}
def landLower (es : List Ent) (lo : Bnd) (p : Option Nat) : TCur :=
  match p with
  | none => {}
  | some i => match es[i]? with
    | some e => if satLower lo e.k.uk then { pos := some i } else exhaust
    | none => {}

/-- first entry satisfying the lower bound -/
def specSeekFirst (es : List Ent) (lo hi : Bnd) : TCur :=
  landUpper es hi (es.takeWhile (fun e => !satLower lo e.k.uk)).length
/-- last entry satisfying the upper bound -/
def specSeekLast (es : List Ent) (lo hi : Bnd) : TCur :=
  landLower es lo (lastPosOf (es.takeWhile (fun e => satUpper hi e.k.uk)).length)
def specSeek (es : List Ent) (hi : Bnd) (t : IKey) : TCur := landUpper es hi (firstGE es t)
def specNext (es : List Ent) (lo hi : Bnd) (s : TCur) : TCur :=
  match s.pos with
  | none => if s.exhausted then s else specSeekFirst es lo hi
  | some p => match es[p + 1]? with
    | some e => if satUpper hi e.k.uk then { pos := some (p + 1) } else exhaust
    | none => exhaust
def specPrev (es : List Ent) (lo hi : Bnd) (s : TCur) : TCur :=
  match s.pos with
  | none => if s.exhausted then s else specSeekLast es lo hi
  | some p => if p = 0 then exhaust else match es[p - 1]? with
    | some e => if satLower lo e.k.uk then { pos := some (p - 1) } else exhaust
    | none => exhaust

/-! ## key-range shortcuts (`Table::is_before_range / is_after_range / overlaps_with_range`)
over the user keys of the first and last entry (`meta.smallest_point / largest_point`) -/

def isBeforeRange (largest : List Nat) (lo : Bnd) : Bool :=
  match lo with
  | .unb => false | .incl k => decide (largest < k) | .excl k => !decide (k < largest)
def isAfterRange (smallest : List Nat) (hi : Bnd) : Bool :=
  match hi with
  | .unb => false | .incl k => decide (k < smallest) | .excl k => !decide (smallest < k)
def overlapsRange (smallest largest : List Nat) (lo hi : Bnd) : Bool :=
  !isBeforeRange largest lo && !isAfterRange smallest hi
