import Skv.Model.BTree
/-!
The leaf-list walk of `BPlusTreeIterator` (src/bplustree/tree.rs): `seek_first`, then `next` until it
reports the end.  Leaves are chained in key order; a leaf whose entries were all deleted stays in the
chain when it cannot be merged with a sibling.  `skip`: does moving past the end of a leaf go on to the
next NON-EMPTY leaf (`advance_to_next_leaf` after `fix: 8434f42`) or to the next leaf whatever it holds
(before it: an empty leaf then reads as the end of the iteration; `seek_first` skipped empty leaves in
both versions).
-/

mutual
def BT.leaves : BT → List (List (Nat × Nat))
  | .leaf es => [es]
  | .node c rest => c.leaves ++ rest.leaves
def Kids.leaves : Kids → List (List (Nat × Nat))
  | .nil => []
  | .cons _ c rest => c.leaves ++ rest.leaves
end

/-- entries visited by `seek_first` followed by `next` to the end, over the leaf chain `ls`.
`started`: an entry has been visited already (before that, empty leaves are skipped by `seek_first`) -/
def walk (skip : Bool) : Bool → List (List (Nat × Nat)) → List (Nat × Nat)
  | _, [] => []
  | started, l :: rest =>
    if l.isEmpty then (if started && !skip then [] else walk skip started rest)
    else l ++ walk skip true rest

def walkFwd (skip : Bool) (ls : List (List (Nat × Nat))) : List (Nat × Nat) := walk skip false ls
