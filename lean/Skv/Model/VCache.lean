/-!
A cache in front of checksummed reads (src/vlog.rs `VLog::get` with the block cache; the table block
cache follows the same discipline).  `raw id` = the bytes on disk for entry `id`, `ok id` = whether
they pass their checksum(s).  `get` consults the cache first; on a miss it reads, VERIFIES, and only then
caches and returns.  `getEarly` is the variant that caches before verifying.
-/

structure VCache where
  entries : List (Nat × List Nat) := []

namespace VCache

def lookup (c : VCache) (id : Nat) : Option (List Nat) := (c.entries.find? (fun e => e.1 == id)).map (·.2)

def get (raw : Nat → List Nat) (ok : Nat → Bool) (c : VCache) (id : Nat) : VCache × Option (List Nat) :=
  match c.lookup id with
  | some v => (c, some v)
  | none => if ok id then ({ entries := (id, raw id) :: c.entries }, some (raw id)) else (c, none)

def getEarly (raw : Nat → List Nat) (ok : Nat → Bool) (c : VCache) (id : Nat) : VCache × Option (List Nat) :=
  match c.lookup id with
  | some v => (c, some v)
  | none =>
    let c' : VCache := { entries := (id, raw id) :: c.entries }
    if ok id then (c', some (raw id)) else (c', none)

/-- a sequence of reads through one open store: the answers -/
def gets (raw : Nat → List Nat) (ok : Nat → Bool) : VCache → List Nat → List (Nat × Option (List Nat))
  | _, [] => []
  | c, id :: ids => let r := c.get raw ok id; (id, r.2) :: gets raw ok r.1 ids

def getsEarly (raw : Nat → List Nat) (ok : Nat → Bool) : VCache → List Nat → List (Nat × Option (List Nat))
  | _, [] => []
  | c, id :: ids => let r := c.getEarly raw ok id; (id, r.2) :: getsEarly raw ok r.1 ids

end VCache
