import Skv.Model.Durable
/-!
The durable-state machine after the repairs `3449869` (a batch applied after a memtable rotation is
logged again in the segment of the memtable it goes to) and `0919665` (recovery that spreads one
segment over several memtables does not retire the segment while its last memtable is only in memory).
Same vocabulary as `Skv/Model/Durable.lean`; the rotation may now fall between a batch's WAL append and
its apply (no `noStraddle` hypothesis).  `pendSeg`: the segment the pending batch's record went to.
-/

structure D2 where
  segs : List (Nat × List Nat) := [(0, [])]
  active : Nat := 0
  logNumber : Nat := 0
  tables : List Nat := []
  memActive : Mem := ⟨0, []⟩
  imms : List Mem := []
  acked : List Nat := []
  pending : Option Nat := none
  pendSeg : Nat := 0
  next : Nat := 0
deriving Repr

namespace D2

def step (d : D2) : DOp → D2
  | .walAppend =>
    match d.pending with
    | some _ => d
    | none => { d with segs := appendSeg d.segs d.active d.next, pending := some d.next, pendSeg := d.active,
                       next := d.next + 1 }
  | .applyAck =>
    match d.pending with
    | none => d
    | some b =>
      -- `add_to_active`: the memtable belongs to a later segment than the record ⇒ log it again there
      let segs := if d.pendSeg < d.memActive.wal then appendSeg d.segs d.active b else d.segs
      { d with segs := segs, memActive := { d.memActive with batches := d.memActive.batches ++ [b] },
               acked := d.acked ++ [b], pending := none }
  | .rotate =>
    { d with segs := d.segs ++ [(d.active + 1, [])], active := d.active + 1,
             imms := d.imms ++ [d.memActive], memActive := ⟨d.active + 1, []⟩ }
  | .flushOldest =>
    match d.imms with
    | [] => d
    | m :: rest => { d with tables := d.tables ++ m.batches, logNumber := m.wal + 1, imms := rest }
  | .cleanupWal => { d with segs := d.segs.filter (fun s => s.1 ≥ d.logNumber) }

def run (d : D2) : List DOp → D2
  | [] => d
  | op :: ops => run (d.step op) ops

def recover (d : D2) : List Nat :=
  d.tables ++ (d.segs.filter (fun s => s.1 ≥ d.logNumber)).flatMap (·.2)

/-- what a crash followed by a reopen leaves on disk: the memtables are gone; recovery replays the
segments at or above `log_number`; when the records of the LAST segment do not fit one memtable the
first `k` of them are flushed to a table straight away and the rest stays in the new active memtable.
`retire`: does that flush record the segment as flushed (`log_number = segment + 1`, the code before
`0919665`) or leave `log_number` alone (after it).  Earlier segments are flushed whole and retired. -/
def reopen (retire : Bool) (k : Nat) (d : D2) : D2 :=
  let live := d.segs.filter (fun s => s.1 ≥ d.logNumber)
  let early := live.filter (fun s => s.1 < d.active)
  let last := (live.filter (fun s => s.1 == d.active)).flatMap (·.2)
  { d with tables := d.tables ++ early.flatMap (·.2) ++ last.take k,
           logNumber := if retire && decide (0 < k) then d.active + 1 else max d.logNumber d.active,
           memActive := ⟨d.active, last.drop k⟩, imms := [], pending := none }

end D2
