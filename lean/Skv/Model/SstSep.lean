import Skv.Model.Sst
/-!
# Separators and successors (src/comparator.rs)

`BytewiseComparator::separator / successor` over byte lists and the `InternalKeyComparator`
versions built on them (`maxSeq` = `INTERNAL_KEY_SEQ_NUM_MAX`; the kind/timestamp of the
synthesised key do not take part in the order).
-/

/-- first non-0xff byte incremented, rest cut: `none` when every byte is 0xff (or the list is empty) -/
def bump : List Nat → Option (List Nat)
  | [] => none
  | z :: zs => if z < 255 then some [z + 1] else (bump zs).map (z :: ·)

/-- `BytewiseComparator::separator(a, b)` -/
def bsep : List Nat → List Nat → List Nat
  | [], _ => []
  | a, [] => a
  | x :: a, y :: b =>
    if x = y then x :: bsep a b
    else if y ≤ x then x :: a                      -- start ≥ limit: unchanged
    else if b ≠ [] ∨ x + 1 < y then [x + 1]        -- increment and truncate
    else x :: (bump a).getD a                      -- skip this byte, bump the first non-0xff after it

/-- `BytewiseComparator::successor(key)` -/
def bsucc (k : List Nat) : List Nat := (bump k).getD k

/-- `InternalKeyComparator::separator` -/
def isep (maxSeq : Nat) (a b : IKey) : IKey :=
  if a = b then a
  else if a.uk ≠ b.uk then
    let s := bsep a.uk b.uk
    if s.length ≤ a.uk.length ∧ a.uk < s then ⟨s, maxSeq⟩ else a
  else a

/-- `InternalKeyComparator::successor` -/
def isucc (maxSeq : Nat) (a : IKey) : IKey :=
  let s := bsucc a.uk
  if s.length ≤ a.uk.length ∧ a.uk < s then ⟨s, maxSeq⟩ else a

/-- separators of a layout recomputed from the neighbouring keys, as `TableWriter` does -/
def sepsMatch (maxSeq : Nat) : List PBlock → Bool
  | [] => true
  | [b] => (match b.ents.getLast? with
      | some l => b.sep == isep maxSeq l.k (isucc maxSeq l.k)   -- `finish`: separator(last, successor(last))
      | none => false)
  | b :: b' :: rest =>
    (match b.ents.getLast?, b'.ents.head? with
     | some l, some f => b.sep == isep maxSeq l.k f.k
     | _, _ => false) && sepsMatch maxSeq (b' :: rest)
