/-!
Who schedules the work that ends a write stall on L0 (src/task.rs, src/lsm.rs `create_checkpoint`).

L0 tables are made by the background flush task and by foreground flushes (a checkpoint flushes the
memtables itself).  The level-compaction task runs only when it has been notified; writers stall
while `l0 ≥ stallAt`.  `wake`: does a foreground flush notify the level-compaction task (the `fix:`
commit) or not (the code before it).  Modelled, not verified: one compaction round started with
`l0 ≥ trigger` moves every L0 table down.
-/

structure BgState where
  l0 : Nat := 0
  scheduled : Bool := false      -- the level-compaction task has been notified and has not run yet
  trigger : Nat := 4             -- level0_max_files
  stallAt : Nat := 12            -- l0_stall_threshold

inductive BgOp | bgFlush | fgFlush | compactRun
deriving DecidableEq, Repr

namespace BgState

def step (wake : Bool) (s : BgState) : BgOp → BgState
  | .bgFlush => { s with l0 := s.l0 + 1, scheduled := true }
  | .fgFlush => { s with l0 := s.l0 + 1, scheduled := s.scheduled || wake }
  | .compactRun =>
    if s.scheduled then { s with l0 := if s.trigger ≤ s.l0 then 0 else s.l0, scheduled := false } else s

def run (wake : Bool) (s : BgState) (ops : List BgOp) : BgState := ops.foldl (step wake) s

def stalled (s : BgState) : Bool := decide (s.stallAt ≤ s.l0)

end BgState
