/-!
Model of per-key compaction (`CompactionIterator::process_accumulated_versions`, src/iter.rs),
literal: sort by seq descending and dedup are the caller's job here (`compactKey` takes the
versions newest first with distinct seqs), then `latest_is_delete_at_bottom` (with the
`fix:` condition), `has_set_with_delete`, visibility boundaries and the two if-chains.
-/

inductive VKind | delete | softDelete | set | replace
deriving DecidableEq, Repr

def VKind.isHard : VKind → Bool | .delete => true | _ => false
def VKind.isTomb : VKind → Bool | .delete | .softDelete => true | _ => false
def VKind.isBarrier : VKind → Bool | .delete | .replace => true | _ => false
def VKind.toByte : VKind → Nat | .delete => 0 | .softDelete => 1 | .set => 2 | .replace => 6
def VKind.ofByte? : Nat → Option VKind
  | 0 => some .delete | 1 => some .softDelete | 2 => some .set | 6 => some .replace | _ => none

structure Ver where
  seq : Nat
  kind : VKind
  ts : Nat
deriving DecidableEq, Repr

structure CCfg where
  bottom : Bool
  versioning : Bool
  retention : Nat
  now : Nat
deriving Repr

/-- `SnapshotVisibility` -/
inductive Vis | bounded (s : Nat) | noSnaps | newer
deriving DecidableEq, Repr

/-- `find_earliest_visible_snapshot` over the ascending snapshot list -/
def earliest (snaps : List Nat) (seq : Nat) : Vis :=
  match snaps with
  | [] => .noSnaps
  | _ => match snaps.find? (fun s => seq ≤ s) with
    | some s => .bounded s
    | none => .newer

def sameBoundary : Vis → Vis → Bool
  | .bounded a, .bounded b => a == b
  | .newer, .newer => true
  | .noSnaps, .noSnaps => true
  | _, _ => false

/-- is this version hidden by the newer one just processed (same visibility boundary)? -/
def superseded (c : CCfg) (isLatest : Bool) (nv : Option Vis) (cur : Vis) : Bool :=
  match nv with
  | none => false
  | some x =>
    let allows := match cur with | .noSnaps => !c.versioning | _ => true
    allows && !isLatest && sameBoundary x cur

/-- one version of the loop body: (output?, current visibility) -/
def keepVer (c : CCfg) (snaps : List Nat) (ldb hasRepl isLatest : Bool) (nv : Option Vis) (v : Ver) : Bool × Vis :=
  let cur := earliest snaps v.seq
  let sup := superseded c isLatest nv cur
  let required := !sup && (match cur with | .bounded _ => true | _ => false)
  let isHard := v.kind.isHard
  let isRepl := v.kind == .replace
  let stale :=
    if sup then true else if ldb then true else if required then false
    else if isLatest && !isHard && !isRepl then false
    else if isLatest && isHard && ldb then true
    else if isLatest && isHard then false
    else if isLatest && isRepl then false
    else if isHard then true
    else if hasRepl && !isRepl then true
    else if !c.versioning then true
    else if c.retention > 0 then decide (c.now - v.ts > c.retention)
    else false
  let out := if sup then false else if ldb then false else if stale then false
    else if c.versioning || required then true else isLatest
  (out, cur)

def compactGo (c : CCfg) (snaps : List Nat) (ldb hr : Bool) : Bool → Option Vis → List Ver → List Ver
  | _, _, [] => []
  | isLatest, nv, v :: vs =>
    let r := keepVer c snaps ldb hr isLatest nv v
    let rest := compactGo c snaps ldb hr false (some r.2) vs
    if r.1 then v :: rest else rest

/-- `latest_is_delete_at_bottom` including the `fix:` condition -/
def latestDeleteAtBottom (c : CCfg) (snaps : List Nat) (vs : List Ver) : Bool :=
  match vs with
  | [] => false
  | v :: rest =>
    let olderVisible := match rest.getLast? with
      | none => false
      | some o => snaps.any (fun s => s < v.seq && s ≥ o.seq)
    c.bottom && v.kind.isHard && !olderVisible

/-- versions newest first, distinct seqs, snapshots ascending -/
def compactKey (c : CCfg) (snaps : List Nat) (vs : List Ver) : List Ver :=
  compactGo c snaps (latestDeleteAtBottom c snaps vs) (vs.any (fun v => v.kind == .replace)) true none vs
