import Skv.Model.Basic
/-!
Specification for C08: a stack of frames, each the log of writes issued at that savepoint
depth.  `set_savepoint` pushes an empty frame, `rollback_to_savepoint` pops one; a read sees
the newest pending write of the key, else the snapshot.
-/

structure W where
  key : Key
  value : Option Val
  kind : Kind
  ts : Nat
deriving DecidableEq, Repr

structure Spec where
  frames : List (List W)      -- head = innermost (current) frame, logs newest-first
deriving Repr

namespace Spec
def start : Spec := ⟨[[]]⟩
def write (s : Spec) (w : W) : Spec :=
  match s.frames with
  | [] => ⟨[[w]]⟩
  | f :: fs => ⟨(w :: f) :: fs⟩
def setSavepoint (s : Spec) : Spec := ⟨[] :: s.frames⟩
def rollbackToSavepoint (s : Spec) : Option Spec :=
  match s.frames with
  | _ :: f :: fs => some ⟨f :: fs⟩
  | _ => none
/-- newest-first log of all pending writes -/
def log (s : Spec) : List W := s.frames.flatten
def get (s : Spec) (k : Key) : Option (Option Val) :=
  match s.log.find? (fun w => w.key == k) with
  | some w => if w.kind.isTomb then some none else some w.value
  | none => none
/-- read-your-writes over a snapshot -/
def getFull (s : Spec) (snap : Key → Option Val) (k : Key) : Option Val :=
  match s.get k with
  | some r => r
  | none => snap k
end Spec
