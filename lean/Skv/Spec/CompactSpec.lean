import Skv.Model.Compact
/-!
Specification of per-key compaction (C01, C06, C10): what every observer — each registered
snapshot horizon and the tip (all later readers) — must still see after the versions `vs` of one
key have been replaced by `out`.
-/

def visOf (s : Option Nat) (vs : List Ver) : List Ver :=
  match s with | none => vs | some s => vs.filter (fun v => v.seq ≤ s)

/-- the value a reader sees: newest visible version, tombstone ≡ nothing -/
def topValue (l : List Ver) : Option Ver :=
  match l.head? with
  | some v => if v.kind.isTomb then none else some v
  | none => none

/-- versions an observer's history shows: newer than the newest barrier (replace inclusive);
nothing when the newest visible version is a hard delete -/
def retainedGo : List Ver → List Ver
  | [] => []
  | v :: vs => if v.kind.isHard then [] else if v.kind == .replace then [v] else v :: retainedGo vs

def retained (vis : List Ver) : List Ver :=
  match vis with
  | v :: _ => if v.kind.isHard then [] else retainedGo vis
  | [] => []

def expired (c : CCfg) (v : Ver) : Bool := c.retention > 0 && decide (c.now - v.ts > c.retention)

/-- the newest visible version is preserved: exactly above the bottom level (the tombstone must
keep masking lower levels), up to "tombstone ≡ nothing" at the bottom -/
def topOk (c : CCfg) (s : Option Nat) (vs out : List Ver) : Bool :=
  let a := visOf s vs
  let b := visOf s out
  if c.bottom then topValue a == topValue b else a.head? == b.head?

/-- with versioning: every non-expired retained version survives and nothing new appears -/
def histOk (c : CCfg) (s : Option Nat) (vs out : List Ver) : Bool :=
  if !c.versioning then true
  else
    let ra := retained (visOf s vs)
    let rb := retained (visOf s out)
    (ra.filter (fun v => !expired c v)).all (fun v => rb.contains v) && rb.all (fun v => ra.contains v)

/-- above the bottom level the presence of a barrier is preserved (it still erases versions in lower levels) -/
def barrierOk (c : CCfg) (s : Option Nat) (vs out : List Ver) : Bool :=
  if c.bottom || !c.versioning then true
  else ((visOf s vs).any (fun v => v.kind.isBarrier)) == ((visOf s out).any (fun v => v.kind.isBarrier))

def observers (snaps : List Nat) : List (Option Nat) := none :: snaps.map some

/-- reads (C01 / C06): every observer's newest visible version is preserved, nothing is invented -/
def readsOK (c : CCfg) (snaps : List Nat) (vs out : List Ver) : Bool :=
  (observers snaps).all (fun s => topOk c s vs out) && out.all (fun v => vs.contains v)

/-- the full obligation including history (C10) -/
def specOK (c : CCfg) (snaps : List Nat) (vs out : List Ver) : Bool :=
  (observers snaps).all (fun s => topOk c s vs out && histOk c s vs out && barrierOk c s vs out)
  && out.all (fun v => vs.contains v)
