import Skv.Lemmas.Lock
import Skv.Lemmas.TaskStop
/-!
# C19 — one live instance per database directory

Model: `LState.step` over the interleaved micro-steps (`begin`, `tryLock`, `touch`, `finishOpen`,
`beginClose`, `release`, `crash`) of any number of openers, in one process or several.  All
theorems quantify over every interleaving (`ops : List LOp` arbitrary) — open racing with close,
with another open, with a crash.  What ties the step order inside the real `open` / `close` to the
model's phases (lock acquired before the first touch, released after the last) is the trace check
of the correspondence stream.  Not modelled: the behaviour of `flock(2)` itself (trusted: at most one
exclusive holder per file; released on close of the description and on process death).
-/

/-- **C19 (exclusion).** In every reachable state at most one opener is live — recovering, open
or still closing. -/
theorem C19_at_most_one_live (ops : List LOp) (i j : Nat)
    (hi : ((LState.run {} ops).phase i).live = true) (hj : ((LState.run {} ops).phase j).live = true) :
    i = j := by
  have h := linv_run ops {} linv_init
  have a := (h.liveIff i).mp hi
  have b := (h.liveIff j).mp hj
  rw [a] at b; exact Option.some.inj b

/-- **C19 (data touched only by the owner).** Every mutation of the directory in any run was made
by the opener that owned the lock at that moment. -/
theorem C19_touch_only_by_owner (ops : List LOp) (t : Nat × Option Nat)
    (ht : t ∈ (LState.run {} ops).touches) : t.2 = some t.1 :=
  (linv_run ops {} linv_init).touched t ht

/-- **C19 (refused open is pure).** While some other opener is live, an open attempt fails and
changes neither the data, nor the content of `LOCK`, nor the ownership. -/
theorem C19_refused_open_pure (ops : List LOp) (i j : Nat)
    (hi : (LState.run {} ops).phase i = .starting) (hj : ((LState.run {} ops).phase j).live = true) :
    let s := LState.run {} ops
    let s' := s.step (.tryLock i)
    s'.phase i = .refused ∧ s'.dataVer = s.dataVer ∧ s'.lockTxt = s.lockTxt ∧ s'.holder = s.holder ∧
      s'.touches = s.touches ∧ ∀ k, k ≠ i → s'.phase k = s.phase k := by
  intro s s'
  have h := linv_run ops {} linv_init
  have hh : s.holder = some j := (h.liveIff j).mp hj
  have : s' = s.setPhase i .refused := by
    show s.step (.tryLock i) = _
    simp only [LState.step]
    rw [show s.phase i = .starting from hi]
    simp only [hh]
  rw [this]
  refine ⟨by simp, rfl, rfl, rfl, rfl, ?_⟩
  intro k hk; simp [hk]

/-- a refused opener never becomes live without a new attempt: its later `touch` steps do nothing -/
theorem C19_refused_cannot_touch (s : LState) (i : Nat) (h : s.phase i = .refused) :
    s.step (.touch i) = s := by
  simp [LState.step, h, LPhase.live]

/-- **C19 (reopen after close).** When the owner finishes `close()`, the lock is free and the next
attempt by anyone succeeds. -/
theorem C19_reopen_after_close (ops : List LOp) (j i : Nat)
    (hj : (LState.run {} ops).phase j = .closing) (hi : (LState.run {} ops).phase i = .starting) (hij : i ≠ j) :
    (((LState.run {} ops).step (.release j)).step (.tryLock i)).phase i = .recovering := by
  have h := linv_run ops {} linv_init
  have hh : (LState.run {} ops).holder = some j := (h.liveIff j).mp (by rw [hj]; rfl)
  simp only [LState.step, hj]
  simp [hij, hi, hh]

/-- **C19 (reopen after crash / drop).** When the owner's process dies in any phase, the lock is
free and the next attempt succeeds. -/
theorem C19_reopen_after_crash (ops : List LOp) (j i : Nat)
    (hj : ((LState.run {} ops).phase j).live = true) (hi : (LState.run {} ops).phase i = .starting) (hij : i ≠ j) :
    (((LState.run {} ops).step (.crash j)).step (.tryLock i)).phase i = .recovering := by
  have h := linv_run ops {} linv_init
  have hh : (LState.run {} ops).holder = some j := (h.liveIff j).mp hj
  simp only [LState.step]
  simp [hij, hi, hh]

/-- the lock is free whenever nobody is live (so an open can only be refused by a live store) -/
theorem C19_refused_only_by_live (ops : List LOp) (i : Nat)
    (hi : (LState.run {} ops).phase i = .starting)
    (hr : (((LState.run {} ops).step (.tryLock i)).phase i) = .refused) :
    ∃ j, j ≠ i ∧ ((LState.run {} ops).phase j).live = true := by
  have h := linv_run ops {} linv_init
  cases hh : (LState.run {} ops).holder with
  | none => simp [LState.step, hi, hh] at hr
  | some j =>
    refine ⟨j, ?_, (h.liveIff j).mpr hh⟩
    intro hji; subst hji
    have := (h.liveIff j).mpr hh
    rw [hi] at this; cases this

/-- non-vacuity: opener 0 opens and starts closing, opener 1 is refused meanwhile, then succeeds
after the release. -/
example :
    let s := LState.run {} [.begin 0, .tryLock 0, .touch 0, .finishOpen 0, .beginClose 0, .touch 0,
      .begin 1, .tryLock 1]
    s.phase 0 = .closing ∧ s.phase 1 = .refused ∧ s.dataVer = 2 ∧
      ((s.run [.release 0, .begin 1, .tryLock 1]).phase 1 = .recovering) := by decide

/-- **C19 (reopen after a failed open).** When `build()` fails after the lock was taken (recovery
error), the lock is free again and the next attempt is not refused. -/
theorem C19_reopen_after_failed_open (ops : List LOp) (j i : Nat)
    (hj : (LState.run {} ops).phase j = .recovering) (hi : (LState.run {} ops).phase i = .starting) (hij : i ≠ j) :
    (((LState.run {} ops).step (.failOpen j)).step (.tryLock i)).phase i = .recovering := by
  have h := linv_run ops {} linv_init
  have hh : (LState.run {} ops).holder = some j := (h.liveIff j).mp (by rw [hj]; rfl)
  simp only [LState.step, hj]
  simp [hij, hi, hh]


/-! ## a store that goes away lets go of its background tasks (and with them of the directory lock)

The two background tasks hold a reference to the store core — its open files and the `LOCK` handle.
`TaskManager::stop` and `Drop for TaskManager` set the stop flag and call `notify_one`. -/

/-- **C19 (the tasks exit).** Whatever the task was doing when the flag was set and `notify_one` was
called — not yet polled, busy, parked — and whatever happens afterwards (more notifications, the task's own
steps), the task ends up exited once it has run: it cannot stay parked with the store core in its hands. -/
theorem C19_background_task_exits (s : TState) (ops : List TOp) :
    (((s.step .setStop).step .notifyOne).run ops).settle.phase = .exited := by
  apply settle_exits
  generalize hs0 : (s.step .setStop).step .notifyOne = s0
  have h0 : StopInv s0 := hs0 ▸ stopInv_after s
  clear hs0
  induction ops generalizing s0 with
  | nil => exact h0
  | cons op ops ih => exact ih _ (stopInv_step s0 h0 op (Or.inr trivial))

/-- the seeded change (`notify_waiters` in `Drop`), kernel-checked: a task that has not reached its first
`notified().await` yet misses the wake-up and parks for good, the flag set -/
theorem notify_waiters_misses_unparked_task :
    let s := ((({} : TState).step .setStop).step .notifyWaiters).settle
    s.phase = .parked ∧ s.stop = true ∧
      (((({} : TState).step .setStop).step .notifyOne).settle).phase = .exited := by decide
