import Skv.Lemmas.SstCursor
import Skv.Lemmas.SstSep
import Skv.Lemmas.SstRange
import Skv.Lemmas.Bloom
/-!
# C13 — sorted tables return exactly what was written

Model: a table is a list of index partitions of data blocks with the separator key the index stores
for each (`Layout`); `tblSeek` / `tblGet` / `TblCtx.*` are the two-level algorithms of
`TableIterator` and `Table::get` (index partition search, in-partition seek, block binary search
over restart points + linear scan, advance over the block gap, bound handling of
`seek_to_first` / `seek_to_last`).  Specification: the flat strictly sorted entry list.
All theorems hold for every well-formed layout — every block size, restart interval, partition
size; compression and checksums are transparent to this level — and `C13_writer_layout_wf` shows
that any cutting of a sorted entry list with the writer's separators is well-formed.
Tied to the code per case: the real file's layout is dumped, checked `layoutWF` and `sepsMatch`
(separators recomputed by the model's `isep` / `isucc`), and every lookup / cursor step is compared.
Not modelled: byte encodings (prefix compression, varints, block trailer, footer), Snappy, the
hash function of the bloom filter (the theorem is generic in the probe positions).
-/

/-- **seek**: the entry reached through index and blocks is the first entry `≥ target` of the table -/
theorem C13_seek (L : Layout) (h : layoutWF L = true) (t : IKey) :
    tblSeek L t = firstGE (flatOf (blocksOf L)) t := tblSeek_eq L h t

/-- **point lookup**: `Table::get (k, s)` returns the newest entry of `k` at or below `s`, or nothing -/
theorem C13_get (L : Layout) (h : layoutWF L = true) (k : List Nat) (s : Nat) :
    tblGet L k s = specGet (flatOf (blocksOf L)) k s := tblGet_eq L h k s

/-- the block-level binary search over restart points followed by the linear scan is exact -/
theorem C13_block_seek (b : PBlock) (hs : sortedEnts b.ents = true) (hr : b.restarts.head? = some 0) (t : IKey) :
    blockSeek b t = firstGE b.ents t := blockSeek_eq b hs hr t

/-- the partitioned index finds the same block as a flat index would -/
theorem C13_index_seek (L : Layout) (h : layoutWF L = true) (t : IKey) :
    idxSeek L t = firstGEk ((blocksOf L).map (·.sep)) t :=
  idxSeek_eq L (seps_sorted _ (layoutWF_blocks L h)) t

/-- **cursors under range bounds**: every operation of every cursor program lands exactly where
the list cursor over the in-range entries does (first = first entry satisfying the lower bound,
last = last entry satisfying the upper bound, next/prev = neighbours, never outside the bounds) -/
theorem C13_cursor_step (c : TblCtx) (hw : layoutWF c.L = true) (hm : seqBounded c.flat c.maxSeq)
    (s : TCur) (op : COp) : c.apply s op = specApply c.flat c.lo c.hi s op := apply_eq c hw hm s op

theorem C13_cursor_program (c : TblCtx) (hw : layoutWF c.L = true) (hm : seqBounded c.flat c.maxSeq)
    (ops : List COp) (s : TCur) :
    ops.foldl c.apply s = ops.foldl (specApply c.flat c.lo c.hi) s := by
  induction ops generalizing s with
  | nil => rfl
  | cons op ops ih => simp only [List.foldl_cons]; rw [C13_cursor_step c hw hm, ih]

theorem C13_seek_first (c : TblCtx) (hw : layoutWF c.L = true) (hm : seqBounded c.flat c.maxSeq) :
    c.seekFirst = specSeekFirst c.flat c.lo c.hi := seekFirst_eq c hw hm

theorem C13_seek_last (c : TblCtx) (hw : layoutWF c.L = true) (hm : seqBounded c.flat c.maxSeq) :
    c.seekLast = specSeekLast c.flat c.lo c.hi := seekLast_eq c hw hm

/-- **separators**: between any two keys `a < b` the index separator is in `[a, b)` and does not
share `b`'s user key unless it is `a` itself; the last block's separator is at or above its last key -/
theorem C13_separator (m : Nat) (a b : IKey) (h : ikLt a b = true) :
    ikLe a (isep m a b) = true ∧ ikLt (isep m a b) b = true ∧
      (isep m a b = a ∨ (isep m a b).uk < b.uk) := isep_wf m a b h

theorem C13_successor (m : Nat) (a : IKey) : ikLe a (isucc m a) = true := isucc_ge m a

/-- whatever the block-cutting policy: consecutive sorted non-empty blocks with the writer's
separators form a well-formed block list -/
theorem C13_writer_layout_wf (m : Nat) (bs : List PBlock)
    (hsorted : ∀ b ∈ bs, sortedEnts b.ents = true)
    (hadj : ∀ (pre : List PBlock) (b b' : PBlock) (post : List PBlock), bs = pre ++ b :: b' :: post →
      ∀ l f, b.ents.getLast? = some l → b'.ents.head? = some f → ikLt l.k f.k = true)
    (hm : sepsMatch m bs = true) : blocksWF bs = true := sepsMatch_blocksWF m bs hsorted hadj hm

/-- **filters never hide a present key** (generic in the hash) -/
theorem C13_bloom_no_false_negative {α : Type} (nbits : Nat) (hn : 0 < nbits) (probes : α → List Nat)
    (keys : List α) (k : α) (hk : k ∈ keys) : mayContain (buildFilter nbits probes keys) probes k = true :=
  bloom_no_false_negative nbits hn probes keys k hk

/-- **key-range shortcuts never hide an entry in the range** -/
theorem C13_range_shortcuts_sound (es : List Ent) (hs : sortedEnts es = true) (f l e : Ent)
    (hf : es.head? = some f) (hl : es.getLast? = some l) (he : e ∈ es) (lo hi : Bnd)
    (hin : inRange lo hi e = true) :
    isBeforeRange l.k.uk lo = false ∧ isAfterRange f.k.uk hi = false ∧
      overlapsRange f.k.uk l.k.uk lo hi = true := range_sound es hs f l e hf hl he lo hi hin

/-- non-vacuity: a two-partition, three-block layout with a version chain of one user key
spanning a block boundary and a separator in the gap is well-formed, and the gap lookup answers -/
def exLayout : Layout :=
  [ [ { sep := ⟨[97], 5⟩, ents := [⟨⟨[97], 9⟩, 0⟩, ⟨⟨[97], 5⟩, 1⟩], restarts := [0] },
      { sep := ⟨[98], 100⟩, ents := [⟨⟨[97], 2⟩, 2⟩, ⟨⟨[97], 0⟩, 3⟩], restarts := [0, 1] } ],
    [ { sep := ⟨[99, 255], 7⟩, ents := [⟨⟨[99], 4⟩, 4⟩, ⟨⟨[99, 255], 7⟩, 5⟩], restarts := [0] } ] ]

example : layoutWF exLayout = true ∧ tblGet exLayout [97] 4 = some ⟨⟨[97], 2⟩, 2⟩ ∧
    tblGet exLayout [98] 50 = none ∧ tblSeek exLayout ⟨[98], 50⟩ = 4 ∧
    ({ L := exLayout, lo := .unb, hi := .incl [97], maxSeq := 1000 } : TblCtx).seekLast = { pos := some 3 } := by
  decide
