import Skv.Lemmas.Guard
import Skv.Props.C12
import Skv.Lemmas.VCache
/-!
# C16 — damaged files are detected, never served as data

Table files: every block (data, index partition, top-level index, meta index, and — after the fix —
the filter block) is stored as `payload ++ type byte ++ checksum(payload ++ type byte)` and read only
through `readBlock`.  `C16_block_guard`: a change of any byte inside a block's span makes the read
fail (outright if it hits the stored checksum; given that the checksum function separates the two
payloads otherwise — the CRC-32 fact assumed, evaluated on every generated alteration);
`C16_block_frame`: damage elsewhere leaves the block's read unchanged; `C16_no_unguarded_byte`: a
region list that tiles the file assigns every offset to a region (checked on the real file of every
case, together with the region kinds).  The footer is not a checksummed block: its magic, format
and checksum-type bytes fail the open when changed, its padding is never interpreted, its two block
handles are guarded only indirectly (validated by the sweep; no theorem).
Commit-log segments: C12's theorems (record CRC, torn tail ⇒ corruption) — re-exported below.
Value-log files and whole directories are covered by the store-level sweep only (no model): partial.
-/

theorem C16_block_frame (crc : List Nat → List Nat) (f : List Nat) (h : Handle) (i v : Nat)
    (hout : i < h.off ∨ h.off + h.span ≤ i) : readBlock crc (f.set i v) h = readBlock crc f h :=
  readBlock_frame crc f h i v hout

theorem C16_block_guard (crc : List Nat → List Nat) (f : List Nat) (h : Handle) (p : List Nat)
    (hok : readBlock crc f h = some p) (i v : Nat) (hin : h.off ≤ i ∧ i < h.off + h.span)
    (hv : f[i]? ≠ some v)
    (hdet : crc (slice (f.set i v) h.off (h.size + 1)) ≠ crc (slice f h.off (h.size + 1)) ∨
            slice (f.set i v) h.off (h.size + 1) = slice f h.off (h.size + 1)) :
    readBlock crc (f.set i v) h = none := readBlock_guard crc f h p hok i v hin hv hdet

/-- damage in the stored checksum itself needs no assumption about the checksum function -/
theorem C16_checksum_bytes_guard (crc : List Nat → List Nat) (f : List Nat) (h : Handle) (p : List Nat)
    (hok : readBlock crc f h = some p) (i v : Nat)
    (hin : h.off + h.size + 1 ≤ i ∧ i < h.off + h.span) (hv : f[i]? ≠ some v) :
    readBlock crc (f.set i v) h = none := by
  apply readBlock_guard crc f h p hok i v ⟨by omega, hin.2⟩ hv
  right
  exact slice_set_outside _ _ _ _ _ (by omega)

theorem C16_no_unguarded_byte (rs : List Region) (n : Nat) (h : regionsCover rs 0 n = true)
    (off : Nat) (h2 : off < n) : ∃ r, regionOf rs off = some r ∧ r.off ≤ off ∧ off < r.off + r.len :=
  regionsCover_total rs 0 n h off (Nat.zero_le _) h2

/-- non-vacuity: a 3-byte payload block at offset 2 of a 12-byte file reads back; changing byte 3
makes the read fail for a checksum that separates the payloads (here: the identity on 4 bytes) -/
example :
    let crc : List Nat → List Nat := fun b => b
    let f := [9, 9, 1, 2, 3, 0, 1, 2, 3, 0, 7, 7]
    readBlock crc f ⟨2, 3⟩ = some [1, 2, 3] ∧ readBlock crc (f.set 3 5) ⟨2, 3⟩ = none ∧
      readBlock crc (f.set 0 5) ⟨2, 3⟩ = some [1, 2, 3] := by decide


/-! ## reads through a cache: every read, not only the first -/

/-- **C16 (cached reads).** Through one open store, however often and in whatever order entries are read,
every read that returns data returns bytes that passed their checksum — a damaged entry answers with an
error every time, it is never served from the cache. -/
theorem C16_cached_reads_are_verified (raw : Nat → List Nat) (ok : Nat → Bool) (ids : List Nat)
    (r : Nat × Option (List Nat)) (hr : r ∈ VCache.gets raw ok {} ids) (v : List Nat) (hv : r.2 = some v) :
    ok r.1 = true ∧ v = raw r.1 :=
  gets_ok ids {} (by intro e he; cases he) r hr v hv

/-- the seeded change (value cached before its checksum is verified), kernel-checked: the first read of a
damaged entry fails, the second one serves the damaged bytes -/
theorem cache_before_verify_serves_damage :
    VCache.getsEarly (fun _ => [0xBA, 0xD]) (fun _ => false) {} [7, 7] = [(7, none), (7, some [0xBA, 0xD])] ∧
    VCache.gets (fun _ => [0xBA, 0xD]) (fun _ => false) {} [7, 7] = [(7, none), (7, none)] := by decide
