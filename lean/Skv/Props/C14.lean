import Skv.Lemmas.Restore
import Skv.Lemmas.RestoreIdx
/-!
# C14 — checkpoint and restore reproduce the checkpointed state

Model: `RStore` — immutable table files named by ids from a counter, a block cache keyed by
(table id, offset) that is never invalidated on table deletion, `checkpoint` (files + counter),
`restore` (files and counter replaced, cache cleared after the repair), and the detached WAL
clean-up of a flush.  Specification of the contents (the checkpoint holds the committed state,
restore brings it back, the checkpoint directory opens standalone) is the key-value map of the
correspondence driver.
Proved: cache coherence — every cached block of an existing table is that table's block, all ids
below the counter — is an invariant of table writes, deletions, reads and of the REPAIRED restore,
for every checkpoint and history (`C14_cache_coherent`), and under coherence every read returns
the block of the file that is there now (`C14_read_after_restore`); the late clean-up never removes
a segment the current manifest needs (`C14_cleanup_keeps_needed`).  Kernel-checked witnesses show
what the code did before the three repairs (stale block served under a reused id; live segment
deleted).  With versioning and the B+tree version index (`VStore`: value log, index entries pointing into
it, sequence counter): after any history of versioned writes, checkpoints and restores the history of
every key is the one of the specification log, and the checkpoint opened standalone lists the
checkpointed history (`C14_history_after_restore`, `C14_checkpoint_dir_history`); before the repair the
open index of the discarded timeline stayed and the checkpoint had none
(`fixed_restore_kept_the_discarded_index`).  The value-log reload and the sequence / oracle reset are
validated by the stream only.
-/

inductive RAct
  | write (blocks : List Nat) | delete (id : Nat) | read (id off : Nat) | restore (c : Ckpt)

def RStore.act (s : RStore) : RAct → RStore
  | .write b => s.writeTable b
  | .delete id => s.deleteTable id
  | .read id off => (s.readBlock id off).1
  | .restore c => s.restore c true

def ckptOk (c : Ckpt) : Prop := ∀ f ∈ c.files, f.1 < c.nextId

/-- coherence is an invariant for every history (restores from any well-formed checkpoint included) -/
theorem C14_cache_coherent (acts : List RAct) (s : RStore) (h : s.coherent)
    (hc : ∀ a ∈ acts, ∀ c, a = .restore c → ckptOk c) : (acts.foldl RStore.act s).coherent := by
  induction acts generalizing s with
  | nil => exact h
  | cons a rest ih =>
    simp only [List.foldl_cons]
    apply ih
    · cases a with
      | write b => exact coherent_writeTable s h b
      | delete id => exact coherent_deleteTable s h id
      | read id off => exact coherent_readBlock s h id off
      | restore c => exact coherent_restore_clear s c (hc _ List.mem_cons_self c rfl)
    · intro a' ha' c hc'; exact hc a' (List.mem_cons_of_mem _ ha') c hc'

/-- after any such history a read of an existing table returns what the file holds now — never a
block cached from a discarded timeline -/
theorem C14_read_after_restore (acts : List RAct) (hc : ∀ a ∈ acts, ∀ c, a = .restore c → ckptOk c)
    (id off b : Nat) :
    let s := acts.foldl RStore.act {}
    s.file id ≠ none → (s.readBlock id off).2 = some b → s.truth id off = some b := by
  intro s hx hr
  exact readBlock_truth s (C14_cache_coherent acts {} coherent_init hc) id off b hx hr

/-- a checkpoint taken from a coherent store is well-formed -/
theorem C14_checkpoint_wellformed (s : RStore) (h : s.coherent) : ckptOk s.checkpoint := checkpoint_ids s h

theorem C14_cleanup_keeps_needed (segs : List Nat) (scheduled logNumber s : Nat) (hs : s ∈ segs)
    (hn : logNumber ≤ s) : s ∈ cleanupSegments segs (min scheduled logNumber) :=
  cleanup_keeps_needed segs scheduled logNumber s hs hn

/-- before the repair: a block of the discarded timeline is served under a reused table id -/
theorem C14_witness_stale_block :
    let s0 : RStore := {}
    let ck := s0.checkpoint
    let s1 := s0.writeTable [111]
    let s2 := (s1.readBlock 1 0).1
    let s3 := s2.restore ck false
    let s4 := s3.writeTable [222]
    (s4.readBlock 1 0).2 = some 111 ∧ s4.truth 1 0 = some 222 := restore_without_clear_serves_stale

/-- before the repair: the clean-up scheduled before the restore deletes the restored store's live segment -/
theorem C14_witness_late_cleanup : (3 : Nat) ∉ cleanupSegments [3] 5 := late_cleanup_deletes_live_segment


/-! ## versioned stores with the version index -/

/-- **history after restore.**  After any history of versioned writes, checkpoints and restores, the
history of every key, read through the index and the value log, is the history of the specification
(a log of versions; restore puts the remembered log back): every version resolves, none of the discarded
timeline is listed. -/
theorem C14_history_after_restore (acts : List VAct) (k : Nat) :
    (acts.foldl (VStore.act true) {}).history k = specHist (acts.foldl ASpec.act {}).log k := by
  have h := rel_run acts {} {} rel_init
  exact shows_history _ _ _ _ h.1 k

/-- **the checkpoint directory opened as a database** lists, for every key, the history remembered by the
specification at the checkpoint -/
theorem C14_checkpoint_dir_history (acts : List VAct) (k : Nat) (ck : VCk)
    (hck : (acts.foldl (VStore.act true) {}).saved = some ck) :
    ∃ l, (acts.foldl ASpec.act {}).saved = some l ∧ ck.history k = specHist l k := by
  have h := (rel_run acts {} {} rel_init).2
  rw [hck] at h
  cases has : (acts.foldl ASpec.act {}).saved with
  | none => simp [has] at h
  | some l =>
    simp only [has] at h
    obtain ⟨ix, hix, hsh⟩ := h
    refine ⟨l, rfl, ?_⟩
    unfold VCk.history
    rw [hix]
    exact shows_history _ _ _ _ hsh k

/-- non-vacuity: a history with a write after the checkpoint and one after the restore -/
example : (([.put 1 10, .checkpoint, .put 1 20, .put 2 30, .restore, .put 3 40] : List VAct).foldl (VStore.act true) {}).history 1
    = [some 10] := by decide

/-- the repaired defect: the checkpoint had no index file and the restore kept the open index of the
discarded timeline; after the restore and one more commit the pointer of the discarded version of key 1
resolves into the value written for key 3 (in the code: the record's header does not match and the read
fails), and the checkpoint opened standalone lists nothing -/
theorem fixed_restore_kept_the_discarded_index :
    let acts : List VAct := [.put 1 10, .checkpoint, .put 1 20, .put 2 30, .restore, .put 3 40]
    let s := acts.foldl (VStore.act false) {}
    s.history 1 = [some 40, some 10] ∧ specHist (acts.foldl ASpec.act {}).log 1 = [some 10] ∧
    (s.saved.map (fun c => c.history 1)) = some [] := by decide
