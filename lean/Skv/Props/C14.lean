import Skv.Lemmas.Restore
/-!
# C14 — checkpoint and restore reproduce the checkpointed state

Model: `RStore` — immutable table files named by ids from a counter, a block cache keyed by
(table id, offset) that is never invalidated on table deletion, `checkpoint` (files + counter),
`restore` (files and counter replaced, cache cleared after the repair), and the detached WAL
clean-up of a flush.  Specification of the contents (the checkpoint holds the committed state,
restore brings it back, the checkpoint directory opens standalone) is the key-value map of the
correspondence driver.
Proved: cache coherence — every cached block of an existing table is that table's block, all ids
below the counter — is an invariant of table writes, deletions, reads and of the REPAIRED restore,
for every checkpoint and history (`C14_cache_coherent`), and under coherence every read returns
the block of the file that is there now (`C14_read_after_restore`); the late clean-up never removes
a segment the current manifest needs (`C14_cleanup_keeps_needed`).  Kernel-checked witnesses show
what the code did before the three repairs (stale block served under a reused id; live segment
deleted).  The value-log reload and the sequence / oracle reset are validated by the stream only.
-/

inductive RAct
  | write (blocks : List Nat) | delete (id : Nat) | read (id off : Nat) | restore (c : Ckpt)

def RStore.act (s : RStore) : RAct → RStore
  | .write b => s.writeTable b
  | .delete id => s.deleteTable id
  | .read id off => (s.readBlock id off).1
  | .restore c => s.restore c true

def ckptOk (c : Ckpt) : Prop := ∀ f ∈ c.files, f.1 < c.nextId

/-- coherence is an invariant for every history (restores from any well-formed checkpoint included) -/
theorem C14_cache_coherent (acts : List RAct) (s : RStore) (h : s.coherent)
    (hc : ∀ a ∈ acts, ∀ c, a = .restore c → ckptOk c) : (acts.foldl RStore.act s).coherent := by
  induction acts generalizing s with
  | nil => exact h
  | cons a rest ih =>
    simp only [List.foldl_cons]
    apply ih
    · cases a with
      | write b => exact coherent_writeTable s h b
      | delete id => exact coherent_deleteTable s h id
      | read id off => exact coherent_readBlock s h id off
      | restore c => exact coherent_restore_clear s c (hc _ List.mem_cons_self c rfl)
    · intro a' ha' c hc'; exact hc a' (List.mem_cons_of_mem _ ha') c hc'

/-- after any such history a read of an existing table returns what the file holds now — never a
block cached from a discarded timeline -/
theorem C14_read_after_restore (acts : List RAct) (hc : ∀ a ∈ acts, ∀ c, a = .restore c → ckptOk c)
    (id off b : Nat) :
    let s := acts.foldl RStore.act {}
    s.file id ≠ none → (s.readBlock id off).2 = some b → s.truth id off = some b := by
  intro s hx hr
  exact readBlock_truth s (C14_cache_coherent acts {} coherent_init hc) id off b hx hr

/-- a checkpoint taken from a coherent store is well-formed -/
theorem C14_checkpoint_wellformed (s : RStore) (h : s.coherent) : ckptOk s.checkpoint := checkpoint_ids s h

theorem C14_cleanup_keeps_needed (segs : List Nat) (scheduled logNumber s : Nat) (hs : s ∈ segs)
    (hn : logNumber ≤ s) : s ∈ cleanupSegments segs (min scheduled logNumber) :=
  cleanup_keeps_needed segs scheduled logNumber s hs hn

/-- before the repair: a block of the discarded timeline is served under a reused table id -/
theorem C14_witness_stale_block :
    let s0 : RStore := {}
    let ck := s0.checkpoint
    let s1 := s0.writeTable [111]
    let s2 := (s1.readBlock 1 0).1
    let s3 := s2.restore ck false
    let s4 := s3.writeTable [222]
    (s4.readBlock 1 0).2 = some 111 ∧ s4.truth 1 0 = some 222 := restore_without_clear_serves_stale

/-- before the repair: the clean-up scheduled before the restore deletes the restored store's live segment -/
theorem C14_witness_late_cleanup : (3 : Nat) ∉ cleanupSegments [3] 5 := late_cleanup_deletes_live_segment
