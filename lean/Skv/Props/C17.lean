import Skv.Lemmas.PipelinePermits
import Skv.Lemmas.LockOrder
import Skv.Lemmas.Stall
import Skv.Lemmas.PipeTerm
import Skv.Lemmas.BgWork
import Skv.Lemmas.TaskStop
import Skv.Props.C05
/-!
# C17 — commits and shutdown always complete; no internal queue overflows

Model: the commit-pipeline transition system of `Skv/Model/Pipeline.lean` including every failure
branch (conflict, WAL error, apply error after a prefix) and the permit-with-batch flow control of
the `fix:` commit.  Statements hold for every number of threads and every interleaving.
Liveness under the real tokio scheduler is outside the model (partial; see DESIGN.md).
-/
open PState

theorem perm_initWith (n gc p c : Nat) : PermInv p (PState.initWith n gc p c) := by
  refine ⟨by simp [PState.initWith, PState.init], ?_, ?_, ?_, ?_⟩
  · intro qb h; simp [PState.initWith, PState.init] at h
  · intro i t h st hst
    simp only [PState.initWith, PState.init] at h
    rw [List.getElem?_replicate] at h
    split at h
    · have := (Option.some.inj h).symm; subst this; cases hst
    · cases h
  · intro f h; simp [PState.initWith, PState.init] at h
  · intro f h; simp [PState.initWith, PState.init] at h

theorem perm_begin (P : Nat) (s : PState) (h : PermInv P s) (i : Nat) (req : CommitReq) :
    PermInv P (s.begin i req) := by
  unfold PState.begin
  split
  · split
    · exact perm_setThread P s h i _ (fun st hst => by cases hst)
    · exact h
  · exact h

theorem begin_panicked (s : PState) (i : Nat) (req : CommitReq) : (s.begin i req).panicked = s.panicked := by
  unfold PState.begin; split
  · split <;> rfl
  · rfl

theorem step_cap (s : PState) (op : POp) : (s.apply op).cap = s.cap := by
  cases op with
  | begin i req => simp only [PState.apply, PState.begin]; split <;> (try split) <;> rfl
  | step i => exact stepThread_cap s i

/-- the permit invariant and "never panicked" hold after every run, provided there are no more
permits than ring slots -/
theorem C17_invariant (n gc p c : Nat) (hpc : p ≤ c) (ops : List POp) :
    let s := (PState.initWith n gc p c).run ops
    PermInv p s ∧ s.panicked = false ∧ s.cap = c := by
  suffices ∀ s, PInv s → ReqInv s → PermInv p s → s.panicked = false → s.cap = c →
      PermInv p (s.run ops) ∧ (s.run ops).panicked = false ∧ (s.run ops).cap = c from
    this _ (pinv_initWith n gc p c) (reqInv_init n) (perm_initWith n gc p c) rfl rfl
  induction ops with
  | nil => intro s _ _ h hp hc; exact ⟨h, hp, hc⟩
  | cons op ops ih =>
    intro s hi hr h hp hc
    cases op with
    | begin i req =>
      exact ih _ (pinv_begin s hi i req) (reqInv_begin s hr i req) (perm_begin p s h i req)
        (by show (s.begin i req).panicked = false; rw [begin_panicked]; exact hp)
        (by rw [← hc]; exact step_cap s (.begin i req))
    | step i =>
      have hs := perm_step p s hi h (by rw [hc]; exact hpc) i
      exact ih _ (pinv_step s hi hr i) (reqInv_step s hr i) hs.1 (hs.2 hp)
        (by rw [← hc]; exact step_cap s (.step i))

/-- **The commit queue never overflows** — for every thread count and interleaving, failures
included: the `panic!("commit queue overflow")` branch is unreachable and the queue never holds
more batches than there are permits. -/
theorem C17_queue_never_overflows (n gc p c : Nat) (hpc : p ≤ c) (ops : List POp) :
    let s := (PState.initWith n gc p c).run ops
    s.panicked = false ∧ s.queue.length ≤ p := by
  obtain ⟨hperm, hp, _⟩ := C17_invariant n gc p c hpc ops
  have hi := (C05_invariant n gc p c ops).1
  generalize (PState.initWith n gc p c).run ops = s at hperm hp hi
  refine ⟨hp, ?_⟩
  obtain ⟨a, _, hch⟩ := hi.chain
  have hnd := nodup_map_bat _ (qchain_firsts_nodup _ _ _ hch)
  have hsub : ∀ x ∈ (s.queue.map (·.first)).map Own.bat, x ∈ s.owners := by
    intro x hx
    obtain ⟨f, hf, rfl⟩ := List.mem_map.mp hx
    obtain ⟨qb, hqb, rfl⟩ := List.mem_map.mp hf
    exact hperm.qown qb hqb
  have := nodup_subset_length _ _ hnd hsub
  simp only [List.length_map] at this
  have hb := hperm.bound
  omega

/-- the permits of the real pipeline do not exceed its ring size (regenerated from src/commit.rs) -/
theorem C17_consts_ok : Consts.commitPermits ≤ Consts.maxConcurrentCommits := by decide

/-- the schedule that overflowed the ring before the `fix:` commit (one slow apply, then failing
commits) now ends without panic: the 7th failing committer simply has to wait for a permit -/
def overflowRun : List POp :=
  [.begin 0 { keys := [0] }, .step 0, .step 0] ++
  (List.replicate 8 [POp.begin 1 { keys := [1], failWal := true }, .step 1, .step 1, .step 1]).flatten

theorem C17_fixed_overflow_schedule :
    let s := (PState.initWith 2 1024 7 8).run overflowRun
    s.panicked = false ∧ s.queue.length = 7 ∧ s.permits = 0 := by decide

/-! ## store level: nested locks of readers, flush, rotation and compaction

`opIter`, `opFlush`, `opRotate`, `opCompact` are the nested lock sections of
`Snapshot::collect_iter_state_from`, `CoreInner::flush_immutable_to_sst`, `CoreInner::rotate_memtable`
and `Compactor::update_manifest` (ids 0 = active_memtable, 1 = level_manifest, 2 = immutable_memtables).
For any number of threads each running any disciplined operation: no circular wait exists in any
state (`C17_no_circular_wait`), so as long as a thread is unfinished one of them can move
(`C17_lock_progress`); the four operations of the code are disciplined (`C17_ops_disciplined`, a
finite check over the hand-written table, which the correspondence stream compares with the
acquisition order observed at the yield points of the real operations under every interleaving). -/

theorem C17_no_circular_wait (s : LSys) (hr : ∀ t ∈ s, disciplined t.prog = true) (S : List Nat) (hne : S ≠ [])
    (hS : ∀ i ∈ S, ∃ (t : LThread) (r : LReq), s[i]? = some t ∧ t.next = some r ∧
      ∃ j ∈ S, ∃ (u : LThread) (h : LReq), s[j]? = some u ∧ h ∈ u.held ∧ h.lock = r.lock) : False :=
  no_stuck_set s hr S hne hS

theorem C17_lock_progress (s : LSys) (hr : ∀ t ∈ s, disciplined t.prog = true)
    (hlive : ∃ (i : Nat) (t : LThread), s[i]? = some t ∧ t.done = false) :
    ∃ (i : Nat) (t : LThread), s[i]? = some t ∧ t.done = false ∧ blocked s i = false :=
  some_thread_can_step s hr hlive

theorem C17_ops_disciplined :
    disciplined opIter = true ∧ disciplined opFlush = true ∧ disciplined opRotate = true ∧
      disciplined opCompact = true ∧ disciplined opCommit = true ∧ disciplined opRotFlush = true := by decide

/-- a committer inside `apply` keeps the rotation out: while thread 0 sits between taking the active
memtable's read lock and dropping it, thread 1's rotation (which needs the write lock) cannot start — the
memtable a batch is being added to is not the one being rotated away and flushed -/
theorem C17_apply_excludes_rotation :
    let s : LSys := [{ prog := opCommit, pc := 1 }, { prog := opRotFlush, pc := 0 }]
    blocked s 1 = true ∧ ((s.step 1)[1]?.map (·.pc)) = some 0 := by decide

/-- the order used before the repair (immutable memtables before the manifest in the reader) is not
disciplined, and with it a reader and a compaction reach a state in which both are blocked -/
theorem C17_old_reader_order_deadlocks :
    let old : List LAct := [.acq ⟨0, .rd⟩ true, .acq ⟨2, .rd⟩ true, .acq ⟨1, .rd⟩ true]
    disciplined old = false ∧
      (let s : LSys := [{ prog := old, pc := 2 }, { prog := opCompact, pc := 1 }]
       blocked s 0 = true ∧ blocked s 1 = true) := by decide


/-! ## write-stall wait (src/stall.rs): no lost wake-up -/

/-- **C17 (no lost wake-up).** In every interleaving of any number of committers inside
`WriteStallController::check` with the background work that raises and clears the stall condition, the
shutdown flag, and the `notify_waiters` calls: whenever a committer is blocked in `notified.await` and
no signal is owed (every clearing and every shutdown-flag store has been followed by its
`notify_waiters`), the stall condition really holds and the store is not shutting down.  So a committer
never sleeps through the signal that was meant for it. -/
theorem C17_no_lost_wakeup (ops : List SOp) (i : Nat)
    (hb : (SState.run {} ops).blocked i = true) (hq : (SState.run {} ops).owed = 0) :
    (SState.run {} ops).stalled = true ∧ (SState.run {} ops).shutdown = false := by
  have h := sinv_run ops {} sinv_init
  unfold SState.blocked at hb
  split at hb
  · rename_i g hp
    rcases h.dec i g hp with h1 | h1 | h1
    · simp [h1] at hb
    · omega
    · exact h1
  · rename_i g hp; exact absurd hp (h.noPark i g)
  · cases hb

/-- a waiting committer is released by the next signal, whatever else happened since it registered -/
theorem C17_signal_releases (ops : List SOp) (i g : Nat) (hp : (SState.run {} ops).phase i = .decided g) :
    (((SState.run {} ops).step .signal).step (.await i)).phase i = .idle := by
  have h := sinv_run ops {} sinv_init
  have hle := h.decLe i g hp
  have hp' : ((SState.run {} ops).step .signal).phase i = .decided g := hp
  have hlt : g < ((SState.run {} ops).step .signal).gen :=
    show g < (SState.run {} ops).gen + 1 from Nat.lt_succ_of_le hle
  exact SState.await_of_lt _ i g hp' hlt

/-- once released it re-reads the state: it returns `Ok` when the condition is clear and the store is open,
and `Err(PipelineStall)` when the store is shutting down -/
theorem C17_released_committer_returns (s : SState) (i : Nat) (hp : s.phase i = .idle) :
    (((s.step (.register i)).step (.read i)).phase i =
      if s.shutdown then .returned false else if !s.stalled then .returned true else .decided s.gen) := by
  cases hs : s.shutdown <;> cases hst : s.stalled <;> simp [SState.step, hp, hs, hst]

/-- the variant that creates the `Notified` future only when it has decided to wait does lose the
wake-up: stall, committer 0 reads "stalled", the flush clears and signals, the committer then waits —
blocked with the condition clear and no signal owed. -/
theorem C17_late_registration_loses_wakeup :
    let s := SState.runLate {} [.stall, .register 0, .read 0, .clear, .signal, .await 0]
    s.blocked 0 = true ∧ s.owed = 0 ∧ s.stalled = false := by decide

/-- non-vacuity: in the code as written the same schedule releases the committer, which then returns -/
example :
    let s := SState.run {} [.stall, .register 0, .read 0, .clear, .signal, .await 0, .register 0, .read 0]
    s.blocked 0 = false ∧ s.phase 0 = .returned true := by decide
example : (SState.run {} [.stall, .register 0, .read 0, .await 0]).blocked 0 = true := by decide


/-! ## the commit pipeline cannot get stuck -/

/-- the liveness invariant (`LInv`, Lemmas/PipeLive.lean) holds in every reachable state: every
unapplied queue entry has a thread working on it, an applied head has a publisher about to look at it,
every batch somebody waits for is still in the queue or in a publisher's hands, and every permit is
accounted for by a thread inside its critical section or by a batch that has not both returned and
been dropped -/
theorem C17_liveness_invariant (n gc p c : Nat) (ops : List POp) :
    LInv p (proj ((PState.initWith n gc p c).run ops)) ∧ ReqInv ((PState.initWith n gc p c).run ops) := by
  suffices ∀ s, LInv p (proj s) → ReqInv s → LInv p (proj (s.run ops)) ∧ ReqInv (s.run ops) from
    this _ (linv_init_like p _ rfl rfl rfl rfl (by
      intro k t hk
      simp only [PState.initWith, PState.init] at hk
      rw [List.getElem?_replicate] at hk
      split at hk
      · cases hk; rfl
      · cases hk)) (reqInv_init n)
  induction ops with
  | nil => intro s h hr; exact ⟨h, hr⟩
  | cons op ops ih =>
    intro s h hr
    cases op with
    | begin i req => exact ih _ (linv_begin_step p s h i req) (reqInv_begin s hr i req)
    | step i => exact ih _ (linv_step p s h hr i) (reqInv_step s hr i)

/-- **C17 (the commit pipeline never deadlocks).** In every reachable state — any number of
committers, any interleaving, any pattern of conflicts, WAL failures and apply failures — as long as
some `commit()` call is in progress, some thread can take a step that changes the state: no set of
calls wait for each other (for a permit, for the head of the queue, for a completion) for ever. -/
theorem C17_pipeline_progress (n gc p c : Nat) (hp : 0 < p) (hpc : p ≤ c) (ops : List POp)
    (hbusy : ∃ (i : Nat) (t : Thread), ((PState.initWith n gc p c).run ops).threads[i]? = some t ∧ t.pc ≠ .ready) :
    ∃ i, ((PState.initWith n gc p c).run ops).stepThread i ≠ (PState.initWith n gc p c).run ops := by
  obtain ⟨hL, _⟩ := C17_liveness_invariant n gc p c ops
  have hnp : ((PState.initWith n gc p c).run ops).panicked = false := (C17_invariant n gc p c hpc ops).2.1
  revert hbusy hL hnp
  generalize (PState.initWith n gc p c).run ops = s
  intro hbusy hL hnp
  refine Classical.byContradiction fun hno => ?_
  have hall : ∀ i, s.stepThread i = s := fun i => Classical.byContradiction fun h => hno ⟨i, h⟩
  have hq : quiet (proj s) := by
    intro k cc hk
    simp only [proj, List.getElem?_map] at hk
    cases ht : s.threads[k]? with
    | none => simp [ht] at hk
    | some t =>
      simp [ht] at hk
      subst hk
      rcases stuck_cases s k t hnp ht (hall k) with h1 | ⟨st, h1, _⟩ | ⟨f, h1, h2⟩
      · left; rw [h1]; rfl
      · right; left; rw [h1]; rfl
      · right; right
        refine ⟨f, by rw [h1]; rfl, ?_⟩
        intro hm
        obtain ⟨pr, hpr, hf⟩ := List.mem_map.mp hm
        simp only [PState.completedRes] at h2
        have : s.completed.find? (fun q => q.1 == f) = none := by
          cases hfind : s.completed.find? (fun q => q.1 == f) with
          | none => rfl
          | some x => simp [hfind] at h2
        have := List.find?_eq_none.mp this pr hpr
        simp [hf] at this
  obtain ⟨hcls, hperm⟩ := quiet_impossible p (proj s) hL hq
  obtain ⟨i, t, ht, hne⟩ := hbusy
  have hc := hcls i (cls t.pc) (proj_th s i t ht)
  rcases stuck_cases s i t hnp ht (hall i) with h1 | ⟨st, h1, h2⟩ | ⟨f, h1, _⟩
  · exact hne h1
  · have : (proj s).permits = s.permits := rfl
    omega
  · rw [h1] at hc
    rcases hc with hc | hc <;> cases hc

/-- non-vacuity: two committers, the second one's batch applied first; after the steps below thread 1
waits for its completion while thread 0 is about to publish — a call is in progress and a step exists -/
example :
    let s := (PState.initWith 2 1024 7 8).run
      [.begin 0 { keys := [1] }, .begin 1 { keys := [2] }, .step 0, .step 0, .step 1, .step 1, .step 1, .step 1, .step 1, .step 1]
    (s.threads.map (fun t => t.pc.gate)) = ["apply_entry:0", "idle"] ∧ s.queue.length = 2 ∧
      (s.stepThread 0).threads.map (fun t => t.pc.gate) ≠ s.threads.map (fun t => t.pc.gate) := by decide


/-! ## … and every call in progress comes to an end -/

theorem PState.run_append (s : PState) (a b : List POp) : s.run (a ++ b) = (s.run a).run b := by
  induction a generalizing s with
  | nil => rfl
  | cons x xs ih => exact ih _

/-- a schedule every step of which changes the state -/
def allEffective : PState → List Nat → Prop
  | _, [] => True
  | s, i :: is => s.stepThread i ≠ s ∧ allEffective (s.stepThread i) is

def PState.runSched (s : PState) (sched : List Nat) : PState := s.run (sched.map POp.step)

/-- **C17 (bounded work).** From any reachable state, with no new calls arriving, no schedule can
take more than `measure` state-changing steps: threads cannot keep each other busy for ever
(no livelock), whatever the interleaving. -/
theorem C17_effective_steps_bounded (n gc p c : Nat) (hpc : p ≤ c) (ops : List POp) (sched : List Nat)
    (h : allEffective ((PState.initWith n gc p c).run ops) sched) :
    sched.length ≤ ((PState.initWith n gc p c).run ops).measure := by
  induction sched generalizing ops with
  | nil => exact Nat.zero_le _
  | cons i is ih =>
    obtain ⟨hne, hrest⟩ := h
    have hrun : (PState.initWith n gc p c).run (ops ++ [.step i]) =
        ((PState.initWith n gc p c).run ops).stepThread i := by rw [PState.run_append]; rfl
    have hnp : (((PState.initWith n gc p c).run ops).stepThread i).panicked = false := by
      rw [← hrun]; exact (C17_invariant n gc p c hpc _).2.1
    have hdec := step_decreases _ i hne hnp
    have := ih (ops ++ [.step i]) (by rw [hrun]; exact hrest)
    rw [hrun] at this
    simp only [List.length_cons]
    omega

/-- **C17 (every call returns).** From any reachable state there is a schedule — in fact every
schedule that keeps choosing a thread that can move is one, by the two theorems above — after which
every `commit()` call in progress has returned. -/
theorem C17_all_calls_return (n gc p c : Nat) (hp : 0 < p) (hpc : p ≤ c) (ops : List POp) :
    ∃ sched : List Nat, allEffective ((PState.initWith n gc p c).run ops) sched ∧
      ∀ t ∈ (((PState.initWith n gc p c).run ops).runSched sched).threads, t.pc = .ready := by
  -- induction on the measure
  suffices ∀ (m : Nat) (ops : List POp), ((PState.initWith n gc p c).run ops).measure ≤ m →
      ∃ sched : List Nat, allEffective ((PState.initWith n gc p c).run ops) sched ∧
        ∀ t ∈ (((PState.initWith n gc p c).run ops).runSched sched).threads, t.pc = .ready from
    this _ ops (Nat.le_refl _)
  intro m
  induction m with
  | zero =>
    intro ops hm
    by_cases hall : ∀ t ∈ ((PState.initWith n gc p c).run ops).threads, t.pc = .ready
    · exact ⟨[], trivial, hall⟩
    · exfalso
      have : ∃ (i : Nat) (t : Thread), ((PState.initWith n gc p c).run ops).threads[i]? = some t ∧ t.pc ≠ .ready := by
        refine Classical.byContradiction fun hno => hall ?_
        intro t ht
        obtain ⟨i, hi, hget⟩ := List.getElem_of_mem ht
        refine Classical.byContradiction fun hne => hno ⟨i, t, ?_, hne⟩
        rw [List.getElem?_eq_getElem hi, hget]
      obtain ⟨i, hne⟩ := C17_pipeline_progress n gc p c hp hpc ops this
      have hrun : (PState.initWith n gc p c).run (ops ++ [.step i]) =
          ((PState.initWith n gc p c).run ops).stepThread i := by rw [PState.run_append]; rfl
      have hnp : (((PState.initWith n gc p c).run ops).stepThread i).panicked = false := by
        rw [← hrun]; exact (C17_invariant n gc p c hpc _).2.1
      have := step_decreases _ i hne hnp
      omega
  | succ m ih =>
    intro ops hm
    by_cases hall : ∀ t ∈ ((PState.initWith n gc p c).run ops).threads, t.pc = .ready
    · exact ⟨[], trivial, hall⟩
    · have : ∃ (i : Nat) (t : Thread), ((PState.initWith n gc p c).run ops).threads[i]? = some t ∧ t.pc ≠ .ready := by
        refine Classical.byContradiction fun hno => hall ?_
        intro t ht
        obtain ⟨i, hi, hget⟩ := List.getElem_of_mem ht
        refine Classical.byContradiction fun hne => hno ⟨i, t, ?_, hne⟩
        rw [List.getElem?_eq_getElem hi, hget]
      obtain ⟨i, hne⟩ := C17_pipeline_progress n gc p c hp hpc ops this
      have hrun : (PState.initWith n gc p c).run (ops ++ [.step i]) =
          ((PState.initWith n gc p c).run ops).stepThread i := by rw [PState.run_append]; rfl
      have hnp : (((PState.initWith n gc p c).run ops).stepThread i).panicked = false := by
        rw [← hrun]; exact (C17_invariant n gc p c hpc _).2.1
      have hdec := step_decreases _ i hne hnp
      obtain ⟨sched, he, hr⟩ := ih (ops ++ [.step i]) (by rw [hrun]; omega)
      refine ⟨i :: sched, ⟨hne, by rw [← hrun]; exact he⟩, ?_⟩
      have : ((PState.initWith n gc p c).run ops).runSched (i :: sched) =
          ((PState.initWith n gc p c).run (ops ++ [.step i])).runSched sched := by
        rw [hrun]; rfl
      rw [this]; exact hr


/-! ## the work that ends an L0 stall is always scheduled -/

/-- **C17 (a stalled writer is never left without a compaction on its way).** With a foreground flush
(checkpoint) notifying the level-compaction task like the background flush task does, in every
reachable state in which writers stall on the number of L0 tables the compaction has been notified;
and the run it triggers ends the stall. -/
theorem C17_stall_has_work_scheduled (ops : List BgOp) (s0 : BgState) (h0 : s0.l0 = 0) (ht : 0 < s0.trigger)
    (hts : s0.trigger ≤ s0.stallAt) (hst : (s0.run true ops).stalled = true) :
    (s0.run true ops).scheduled = true ∧ ((s0.run true ops).step true .compactRun).stalled = false := by
  obtain ⟨hinv, htr, hsa⟩ := bginv_run ops s0 ht (by intro hc; omega)
  have hl : (s0.run true ops).stallAt ≤ (s0.run true ops).l0 := by simpa [BgState.stalled] using hst
  have hsch : (s0.run true ops).scheduled = true := hinv (by omega)
  refine ⟨hsch, ?_⟩
  simp only [BgState.step, hsch, if_true, BgState.stalled]
  rw [if_pos (by omega)]
  simp; omega

/-- before the fix a checkpoint did not notify the compaction task: twelve checkpoints in a row leave the
writers stalled with no compaction scheduled (kernel-checked witness; replayed on the real store by the
`bgwork` stream) -/
theorem C17_checkpoints_without_wake_stall_for_good :
    let s := ({} : BgState).run false (List.replicate 12 .fgFlush)
    s.stalled = true ∧ s.scheduled = false ∧ (s.step false .compactRun).stalled = true := by decide


/-! ## close(): the background tasks exit

`TaskManager::stop` (called by `close()`) sets the stop flag, wakes both tasks with the permit-storing
`notify_one`, waits until neither reports `running`, and joins their handles.  The join returns because each
task exits whatever it was doing when the stop arrived — parked, busy with a flush or compaction round,
or not yet polled — and whatever further wake-ups (commits, flushes, other `notify_one` / `notify_waiters`
calls) arrive meanwhile (the task model and its theorem are shared with C19). -/
theorem C17_close_stops_background_tasks (memtableTask levelTask : TState) (ops1 ops2 : List TOp) :
    (((memtableTask.step .setStop).step .notifyOne).run ops1).settle.phase = .exited ∧
    (((levelTask.step .setStop).step .notifyOne).run ops2).settle.phase = .exited :=
  ⟨task_exits_after_stop memtableTask ops1, task_exits_after_stop levelTask ops2⟩
