import Skv.Lemmas.History
import Skv.Lemmas.HistRange
import Skv.Lemmas.GetAtAny
import Skv.Lemmas.Compact
/-!
# C10 — time-travel reads and version history are exact and permanent

Model: `histKeyFwd` / `histFwd` (the forward loop of `HistoryIterator` for one key and for a key
range with the limit), `getAt` (`Snapshot::get_at` on top of it), `compactKey` with versioning
and retention (shared with C01/C06).  Specification: `specKey` / `specHistory` / `specGetAt`
(retained versions = newer than the newest visible barrier, hard delete exclusive, replace
inclusive), and for compaction `specOK` (every non-expired retained version of every observer
survives, nothing erased comes back, the newest barrier stays above the last level).
Proved: the forward history scan equals the property for every version list, snapshot, tombstone
option and limit when no timestamp range is given (`C10_history_forward`).  Kernel-checked
witnesses of where the code departs from the property (known findings): a timestamp range that ends
below a hard delete lists versions the delete erased (`C10_finding_ts_range_skips_barrier`);
compaction with versioning drops a non-newest hard delete while keeping what it erased, drops
versions newer than a replace, and drops retained versions when a snapshot is registered
(`C10_finding_compaction_*`).  Backward traversal, seeks, `get_at`, both index back-ends, placement
independence and crash images are validated by the correspondence streams, not proved (partial).
-/

theorem C10_history_forward (o : HOpts) (hr : o.range = none) (snap : Nat) (keys : List (Nat × List HVer)) :
    histFwd o snap keys = specHistory o snap keys := histFwd_eq_spec o hr snap keys

theorem C10_history_key (o : HOpts) (hr : o.range = none) (snap : Nat) (vs : List HVer) :
    histKeyFwd o.tombs o.range snap false false false vs = specKey o snap vs := histKeyFwd_eq_spec o hr snap vs

/-- the limit keeps a prefix of the unlimited listing -/
theorem C10_limit_prefix (o : HOpts) (snap : Nat) (keys : List (Nat × List HVer)) (n : Nat) :
    histFwd { o with limit := some n } snap keys = (histFwd { o with limit := none } snap keys).take n := by
  simp [histFwd, applyLimit]

/-- **history with a timestamp range** (after the `fix:` commit that lets a version above the range take
part in the barrier logic): forward, for every range, snapshot, option set and limit, provided the
timestamps of a key's versions do not increase towards older versions (the cut below the range relies on
it; the store stamps versions with the commit time, `set_at` callers choose their own) -/
theorem C10_history_forward_ts_range (o : HOpts) (snap : Nat) (keys : List (Nat × List HVer))
    (hd : ∀ kv ∈ keys, TsNonInc kv.2) : histFwd o snap keys = specHistory o snap keys :=
  histFwd_eq_spec_range o snap keys hd

/-- backward, for every range (no assumption on the timestamps: the backward loop never cuts) -/
theorem C10_history_backward_ts_range (o : HOpts) (snap : Nat) (keys : List (Nat × List HVer)) :
    histBwd o snap keys =
      applyLimit o ((keys.flatMap (fun kv => (specKey o snap kv.2).map (fun v => (kv.1, v)))).reverse) :=
  histBwd_eq_spec_range o snap keys

/-- the repaired defect: set@10, hard delete@50, queried with timestamp range [0, 40]: the delete was
skipped by the range filter before it could act as a barrier, so the erased version was listed -/
theorem fixed_ts_range_skipped_barrier :
    let vs : List HVer := [⟨2, .delete, 50, 0⟩, ⟨1, .set, 10, 7⟩]
    let o : HOpts := { range := some (0, 40) }
    histKeyFwdOld o.tombs o.range 100 false false false vs = [⟨1, .set, 10, 7⟩] ∧
    histKeyFwd o.tombs o.range 100 false false false vs = [] ∧ specKey o 100 vs = [] := by decide

/-- without the timestamp assumption the cut below the range loses versions: a version written with
`set_at` at a timestamp above an older one's -/
theorem ts_cut_needs_ordered_timestamps :
    let vs : List HVer := [⟨2, .set, 5, 0⟩, ⟨1, .set, 30, 7⟩]
    let o : HOpts := { range := some (20, 40) }
    histKeyFwd o.tombs o.range 100 false false false vs = [] ∧ specKey o 100 vs = [⟨1, .set, 30, 7⟩] := by decide

/-- known finding (compaction, versioning, above the last level): soft delete@4 over hard delete@2:
the hard delete is dropped ("older DELETE: always stale"), so it no longer erases the versions of
the key in lower levels -/
theorem C10_finding_compaction_drops_barrier :
    let c : CCfg := ⟨false, true, 0, 20⟩
    let vs : List Ver := [⟨4, .softDelete, 4⟩, ⟨2, .delete, 2⟩]
    compactKey c [] vs = [⟨4, .softDelete, 4⟩] ∧ specOK c [] vs (compactKey c [] vs) = false := by decide

/-- known finding: set@6, hard delete@4, set@2: the delete goes, set@2 stays — the erased version is back -/
theorem C10_finding_compaction_resurrects :
    let c : CCfg := ⟨false, true, 0, 20⟩
    let vs : List Ver := [⟨6, .set, 6⟩, ⟨4, .delete, 4⟩, ⟨2, .set, 2⟩]
    compactKey c [] vs = [⟨6, .set, 6⟩, ⟨2, .set, 2⟩] ∧ specOK c [] vs (compactKey c [] vs) = false := by decide

/-- known finding: set@6, set@4 over replace@2 with unlimited retention: set@4 (newer than the replace) is dropped -/
theorem C10_finding_compaction_drops_newer_than_replace :
    let c : CCfg := ⟨true, true, 0, 20⟩
    let vs : List Ver := [⟨6, .set, 6⟩, ⟨4, .set, 4⟩, ⟨2, .replace, 2⟩]
    (compactKey c [] vs).contains ⟨4, .set, 4⟩ = false ∧ specOK c [] vs (compactKey c [] vs) = false := by decide

/-- known finding: a registered snapshot makes compaction drop a retained version although versioning is on -/
theorem C10_finding_compaction_snapshot_drops_history :
    let c : CCfg := ⟨true, true, 0, 20⟩
    let vs : List Ver := [⟨6, .set, 6⟩, ⟨4, .set, 4⟩, ⟨2, .set, 2⟩]
    (compactKey c [7] vs).length < 3 ∧ specOK c [7] vs (compactKey c [7] vs) = false := by decide

/-- non-vacuity of `C10_history_forward`: a history with a soft delete, a replace barrier and an
invisible newer version -/
example :
    let vs : List HVer := [⟨9, .set, 90, 9⟩, ⟨5, .softDelete, 50, 0⟩, ⟨4, .set, 40, 4⟩, ⟨3, .replace, 30, 3⟩, ⟨1, .set, 10, 1⟩]
    specKey { tombs := true } 8 vs = [⟨5, .softDelete, 50, 0⟩, ⟨4, .set, 40, 4⟩, ⟨3, .replace, 30, 3⟩] ∧
      specKey {} 8 vs = [⟨4, .set, 40, 4⟩, ⟨3, .replace, 30, 3⟩] ∧
      getAt 8 45 vs = some 4 ∧ getAt 8 55 vs = none ∧ specGetAt 8 35 vs = some 3 := by decide

/-- **time-travel read**: `get_at` returns the value of the retained version with the greatest
timestamp not above `t` (nothing if that version is a tombstone or none exists), for version lists
whose timestamps strictly decrease from newest to oldest -/
theorem C10_get_at (snap t : Nat) (vs : List HVer) (h : TsDesc vs) : getAt snap t vs = specGetAt snap t vs :=
  getAt_eq_spec snap t vs h


/-- **backward history.** `seek_last` / `prev` list, for the keys taken from the end of the range, each
key's retained versions oldest first: the forward listing read from the other end (the limit then cuts
that sequence).  The per-key loop collects the versions oldest first and searches the newest barrier from
the newest end; `histKeyBwd` is a literal model of it. -/
theorem C10_history_backward (o : HOpts) (hr : o.range = none) (snap : Nat) (keys : List (Nat × List HVer)) :
    histBwd o snap keys =
      applyLimit o ((keys.flatMap (fun kv => (specKey o snap kv.2).map (fun v => (kv.1, v)))).reverse) :=
  histBwd_eq_spec o hr snap keys

theorem C10_history_backward_key (tombs : Bool) (snap : Nat) (vs : List HVer) :
    histKeyBwd tombs none snap vs = (specKey { tombs := tombs, range := none } snap vs).reverse :=
  histKeyBwd_eq_spec tombs snap vs

/-- non-vacuity: set, soft delete, replace, set, hard-deleted older history — backward lists from the
replace on, oldest first -/
example :
    (histKeyBwd true none 100
      [⟨5, .set, 50, 5⟩, ⟨4, .replace, 40, 4⟩, ⟨3, .softDelete, 30, 0⟩, ⟨2, .set, 20, 2⟩]).map (·.seq) = [4, 5] := by decide

/-- **exactly once.**  When the merge delivers some versions of a key twice in a row (the version index
and a replayed memtable after a crash inside a flush; two memtables after a retried apply), the listing
is the one of the versions themselves: every retained version once.  Sequence numbers of distinct
versions of a key differ. -/
theorem C10_each_version_once (o : HOpts) (hr : o.range = none) (snap : Nat) (vs : List HVer)
    (twice : HVer → Bool) (hd : vs.Pairwise (fun a b => a.seq ≠ b.seq)) :
    histKeyFwdD o.tombs o.range snap (withCopies twice vs) = specKey o snap vs := by
  unfold histKeyFwdD
  rw [dedupAdj_withCopies twice vs hd]
  exact histKeyFwd_eq_spec o hr snap vs

/-- the loop before the `fix:` commit (no pass over repeated versions) lists a version delivered twice
twice -/
theorem fixed_history_listed_a_replayed_version_twice :
    (histKeyFwd true none 100 false false false
      (withCopies (fun v => decide (v.seq ≥ 11)) [⟨12, .set, 12, 1⟩, ⟨11, .set, 11, 1⟩, ⟨3, .set, 3, 1⟩])).map (·.seq)
      = [12, 12, 11, 11, 3] ∧
    (histKeyFwdD true none 100
      (withCopies (fun v => decide (v.seq ≥ 11)) [⟨12, .set, 12, 1⟩, ⟨11, .set, 11, 1⟩, ⟨3, .set, 3, 1⟩])).map (·.seq)
      = [12, 11, 3] := by decide


/-- known finding `history-commit-order-until-flush`: put@300, put@100, put@200 (back-filled timestamps, version
index).  While unflushed the loop sees the versions in commit order and lists 200, 100, 300; the index (and the
property) order them by timestamp: 300, 200, 100 — the listing changes with the flush. -/
theorem C10_finding_commit_order_until_flush :
    let vs : List HVer := [⟨3, .set, 200, 3⟩, ⟨2, .set, 100, 2⟩, ⟨1, .set, 300, 1⟩]
    (histKeyFwd true none 100 false false false vs).map (·.ts) = [200, 100, 300] ∧
    (specKey { tombs := true } 100 (sortTs vs)).map (·.ts) = [300, 200, 100] ∧
    getAt 100 300 vs = specGetAt 100 300 (sortTs vs) := by decide


/-- **get_at, any order of the listing.** When the timestamps of a key's versions are pairwise different,
`get_at` returns the retained version with the greatest timestamp not above `t` (nothing if that is a delete)
whatever order the versions are listed in — no assumption that timestamps follow the commit order. -/
theorem C10_get_at_any_order (snap t : Nat) (vs : List HVer) (h : TsDistinct vs) :
    getAt snap t vs = specGetAt snap t vs := getAt_eq_spec_distinct snap t vs h

/-- **get_at with back-filled timestamps.** For a key holding sets only, the answer computed over the commit
order (unflushed versions) is the specification's answer over the timestamp order (the version index): the
same before and after the flush. -/
theorem C10_get_at_back_filled_sets (snap t : Nat) (vs : List HVer) (hs : AllSets vs) (hd : TsDistinct vs) :
    getAt snap t vs = specGetAt snap t (sortTs vs) := getAt_sets_any_order snap t vs hs hd

/-- non-vacuity: put@300, put@100, put@200 in commit order newest first -/
example : AllSets [⟨3, .set, 200, 3⟩, ⟨2, .set, 100, 2⟩, ⟨1, .set, 300, 1⟩] ∧
    TsDistinct [⟨3, .set, 200, 3⟩, ⟨2, .set, 100, 2⟩, ⟨1, .set, 300, 1⟩] := by
  constructor
  · intro v hv; simp at hv; rcases hv with rfl | rfl | rfl <;> rfl
  · simp [TsDistinct]
