import Skv.Lemmas.History
import Skv.Lemmas.Compact
/-!
# C10 — time-travel reads and version history are exact and permanent

Model: `histKeyFwd` / `histFwd` (the forward loop of `HistoryIterator` for one key and for a key
range with the limit), `getAt` (`Snapshot::get_at` on top of it), `compactKey` with versioning
and retention (shared with C01/C06).  Specification: `specKey` / `specHistory` / `specGetAt`
(retained versions = newer than the newest visible barrier, hard delete exclusive, replace
inclusive), and for compaction `specOK` (every non-expired retained version of every observer
survives, nothing erased comes back, the newest barrier stays above the last level).
Proved: the forward history scan equals the property for every version list, snapshot, tombstone
option and limit when no timestamp range is given (`C10_history_forward`).  Kernel-checked
witnesses of where the code departs from the property (known findings): a timestamp range that ends
below a hard delete lists versions the delete erased (`C10_finding_ts_range_skips_barrier`);
compaction with versioning drops a non-newest hard delete while keeping what it erased, drops
versions newer than a replace, and drops retained versions when a snapshot is registered
(`C10_finding_compaction_*`).  Backward traversal, seeks, `get_at`, both index back-ends, placement
independence and crash images are validated by the correspondence streams, not proved (partial).
-/

theorem C10_history_forward (o : HOpts) (hr : o.range = none) (snap : Nat) (keys : List (Nat × List HVer)) :
    histFwd o snap keys = specHistory o snap keys := histFwd_eq_spec o hr snap keys

theorem C10_history_key (o : HOpts) (hr : o.range = none) (snap : Nat) (vs : List HVer) :
    histKeyFwd o.tombs o.range snap false false false vs = specKey o snap vs := histKeyFwd_eq_spec o hr snap vs

/-- the limit keeps a prefix of the unlimited listing -/
theorem C10_limit_prefix (o : HOpts) (snap : Nat) (keys : List (Nat × List HVer)) (n : Nat) :
    histFwd { o with limit := some n } snap keys = (histFwd { o with limit := none } snap keys).take n := by
  simp [histFwd, applyLimit]

/-- known finding: set@10, hard delete@50, queried with timestamp range [0, 40]: the delete is
skipped by the range filter before it can act as a barrier, so the erased version is listed -/
theorem C10_finding_ts_range_skips_barrier :
    let vs : List HVer := [⟨2, .delete, 50, 0⟩, ⟨1, .set, 10, 7⟩]
    let o : HOpts := { range := some (0, 40) }
    histKeyFwd o.tombs o.range 100 false false false vs = [⟨1, .set, 10, 7⟩] ∧ specKey o 100 vs = [] := by decide

/-- known finding (compaction, versioning, above the last level): soft delete@4 over hard delete@2:
the hard delete is dropped ("older DELETE: always stale"), so it no longer erases the versions of
the key in lower levels -/
theorem C10_finding_compaction_drops_barrier :
    let c : CCfg := ⟨false, true, 0, 20⟩
    let vs : List Ver := [⟨4, .softDelete, 4⟩, ⟨2, .delete, 2⟩]
    compactKey c [] vs = [⟨4, .softDelete, 4⟩] ∧ specOK c [] vs (compactKey c [] vs) = false := by decide

/-- known finding: set@6, hard delete@4, set@2: the delete goes, set@2 stays — the erased version is back -/
theorem C10_finding_compaction_resurrects :
    let c : CCfg := ⟨false, true, 0, 20⟩
    let vs : List Ver := [⟨6, .set, 6⟩, ⟨4, .delete, 4⟩, ⟨2, .set, 2⟩]
    compactKey c [] vs = [⟨6, .set, 6⟩, ⟨2, .set, 2⟩] ∧ specOK c [] vs (compactKey c [] vs) = false := by decide

/-- known finding: set@6, set@4 over replace@2 with unlimited retention: set@4 (newer than the replace) is dropped -/
theorem C10_finding_compaction_drops_newer_than_replace :
    let c : CCfg := ⟨true, true, 0, 20⟩
    let vs : List Ver := [⟨6, .set, 6⟩, ⟨4, .set, 4⟩, ⟨2, .replace, 2⟩]
    (compactKey c [] vs).contains ⟨4, .set, 4⟩ = false ∧ specOK c [] vs (compactKey c [] vs) = false := by decide

/-- known finding: a registered snapshot makes compaction drop a retained version although versioning is on -/
theorem C10_finding_compaction_snapshot_drops_history :
    let c : CCfg := ⟨true, true, 0, 20⟩
    let vs : List Ver := [⟨6, .set, 6⟩, ⟨4, .set, 4⟩, ⟨2, .set, 2⟩]
    (compactKey c [7] vs).length < 3 ∧ specOK c [7] vs (compactKey c [7] vs) = false := by decide

/-- non-vacuity of `C10_history_forward`: a history with a soft delete, a replace barrier and an
invisible newer version -/
example :
    let vs : List HVer := [⟨9, .set, 90, 9⟩, ⟨5, .softDelete, 50, 0⟩, ⟨4, .set, 40, 4⟩, ⟨3, .replace, 30, 3⟩, ⟨1, .set, 10, 1⟩]
    specKey { tombs := true } 8 vs = [⟨5, .softDelete, 50, 0⟩, ⟨4, .set, 40, 4⟩, ⟨3, .replace, 30, 3⟩] ∧
      specKey {} 8 vs = [⟨4, .set, 40, 4⟩, ⟨3, .replace, 30, 3⟩] ∧
      getAt 8 45 vs = some 4 ∧ getAt 8 55 vs = none ∧ specGetAt 8 35 vs = some 3 := by decide

/-- **time-travel read**: `get_at` returns the value of the retained version with the greatest
timestamp not above `t` (nothing if that version is a tombstone or none exists), for version lists
whose timestamps strictly decrease from newest to oldest -/
theorem C10_get_at (snap t : Nat) (vs : List HVer) (h : TsDesc vs) : getAt snap t vs = specGetAt snap t vs :=
  getAt_eq_spec snap t vs h
