import Skv.Lemmas.TxnIter
/-!
# C09 — range cursors enumerate exactly the live keys, in order, in both directions

Model: `TI` (Skv/Model/TxnIter.lean), the merge of the snapshot-side cursor and the write-set-side
cursor performed by `TransactionRangeIterator`.  Specification: `LeastGE S W X r` — `r` is the least
key `≥ X` that is *live* in the overlay of write set `W` on the snapshot's live keys `S`
(`Live`: in `S` and not overwritten, or written non-tombstone in `W`), or `none` if there is none.

Proved (unbounded: all sorted key lists, all tombstone patterns): the forward positioning loop,
hence `seek_first` and `seek(target)`, land on exactly that key in a state satisfying the forward
invariant `FwdState`.  `next` / `prev` / `seek_last` (mirror loop and the direction-change prologue)
are not proved yet: they are validated by the exhaustive-program correspondence run (partial).
The snapshot side is assumed to be a correct cursor over the live keys of the snapshot; the
correspondence run drives the real `SnapshotIterator` / `KMergeIterator` / table and memtable cursors
underneath and would expose a deviation as implementation ≠ model.
-/

theorem FSplit_first {α : Type} (key : α → Nat) (xs : List α) : FSplit key xs 0 (Cur.first ⟨xs, none⟩).pos := by
  cases xs with
  | nil => intro a ha; cases ha
  | cons x r =>
    refine ⟨rfl, ?_, Nat.zero_le _⟩
    intro a ha; cases ha

theorem FSplit_seekGo {α : Type} (key : α → Nat) (k : Nat) : ∀ (r l : List α),
    (∀ a ∈ l, key a < k) →
    FSplit key (l.reverse ++ r) k (Cur.seekGo (fun a => decide (key a < k)) l r) := by
  intro r
  induction r with
  | nil => intro l hl; simpa [Cur.seekGo, FSplit] using hl
  | cons x r ih =>
    intro l hl
    simp only [Cur.seekGo]
    by_cases hx : key x < k
    · simp only [hx, decide_true, if_true]
      have := ih (x :: l) (by intro a ha; rcases List.mem_cons.mp ha with rfl | ha; exact hx; exact hl a ha)
      simpa using this
    · simp only [hx, decide_false, Bool.false_eq_true, if_false]
      exact ⟨rfl, hl, by omega⟩

/-- **`seek_first`** positions the cursor on the least live key of the overlay (or reports that
there is none), for every sorted snapshot key list and every sorted write set with tombstones. -/
theorem C09_seek_first (S : List Nat) (W : List (Nat × Bool)) (hS : SortedBy id S) (hW : SortedBy Prod.fst W) :
    (∃ K, FwdState S W (TI.start S W).seekFirst K ∧ LeastGE S W 0 (some K)) ∨
    ((TI.start S W).seekFirst.cur = .none ∧ LeastGE S W 0 none) := by
  unfold TI.seekFirst
  apply posMin_spec S W hS hW
  · rfl
  · rfl
  · rfl
  · exact FSplit_first id S
  · exact FSplit_first Prod.fst W
  · simp only [TI.fuel, TI.start, wsRemaining, Cur.first]
    cases W with
    | nil => simp
    | cons w r => simp

/-- **`seek(target)`** positions the cursor on the least live key `≥ target` (or none). -/
theorem C09_seek (S : List Nat) (W : List (Nat × Bool)) (hS : SortedBy id S) (hW : SortedBy Prod.fst W)
    (t : TI) (hts : t.snap.xs = S) (htw : t.ws.xs = W) (k : Nat) :
    (∃ K, FwdState S W (t.seek k) K ∧ LeastGE S W k (some K)) ∨
    ((t.seek k).cur = .none ∧ LeastGE S W k none) := by
  unfold TI.seek
  apply posMin_spec S W hS hW
  · exact hts
  · exact htw
  · rfl
  · have := FSplit_seekGo id k S [] (by intro a ha; cases ha)
    simpa [Cur.seek, hts] using this
  · have := FSplit_seekGo Prod.fst k W [] (by intro a ha; cases ha)
    simpa [Cur.seek, htw] using this
  · have hrem : ∀ (r l : List (Nat × Bool)),
        wsRemaining ⟨W, Cur.seekGo (fun e => decide (e.1 < k)) l r⟩ ≤ r.length := by
      intro r
      induction r with
      | nil => intro l; simp [Cur.seekGo, wsRemaining]
      | cons x r ih =>
        intro l
        simp only [Cur.seekGo]
        split
        · have := ih (x :: l); simp only [List.length_cons]; omega
        · simp [wsRemaining]
    have h := hrem W []
    simp only [TI.fuel, Cur.seek, htw]
    omega

/-- the positioning loop itself (the statement the two corollaries instantiate) -/
theorem C09_position_to_min (S : List Nat) (W : List (Nat × Bool)) (hS : SortedBy id S) (hW : SortedBy Prod.fst W)
    (fuel : Nat) (t : TI) (X : Nat) (h1 : t.snap.xs = S) (h2 : t.ws.xs = W) (h3 : t.dir = .fwd)
    (h4 : FSplit id S X t.snap.pos) (h5 : FSplit Prod.fst W X t.ws.pos) (h6 : wsRemaining t.ws < fuel) :
    (∃ K, FwdState S W (TI.posMin fuel t) K ∧ LeastGE S W X (some K)) ∨
    ((TI.posMin fuel t).cur = .none ∧ LeastGE S W X none) :=
  posMin_spec S W hS hW fuel t X h1 h2 h3 h4 h5 h6
