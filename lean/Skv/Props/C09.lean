import Skv.Lemmas.TxnIterTurn
/-!
# C09 — range cursors enumerate exactly the live keys, in order, in both directions

Model: `TI` (Skv/Model/TxnIter.lean), the merge of the snapshot-side cursor and the write-set-side
cursor performed by `TransactionRangeIterator`.  Specification: `LeastGE S W X r` — `r` is the least
key `≥ X` that is *live* in the overlay of write set `W` on the snapshot's live keys `S`
(`Live`: in `S` and not overwritten, or written non-tombstone in `W`), or `none` if there is none.

Proved (unbounded: all sorted key lists, all tombstone patterns): the forward positioning loop,
hence `seek_first` and `seek(target)`, land on exactly that key in a state satisfying the forward
invariant `FwdState`; the mirror loop, hence `seek_last`, lands on the greatest live key below a bound
(`BwdState`, `GreatestLT`); `next` and `prev` from either kind of state — including the direction-change
prologue of the `fix:` commit — land on the least live key above / the greatest live key below the
current one; and (`C09_cursor_trace`) every sequence of cursor calls reports, call after call, exactly
the keys the specification names.
The snapshot side is assumed to be a correct cursor over the live keys of the snapshot; the
correspondence run drives the real `SnapshotIterator` / `KMergeIterator` / table and memtable cursors
underneath and would expose a deviation as implementation ≠ model.
-/

theorem FSplit_first {α : Type} (key : α → Nat) (xs : List α) : FSplit key xs 0 (Cur.first ⟨xs, none⟩).pos := by
  cases xs with
  | nil => intro a ha; cases ha
  | cons x r =>
    refine ⟨rfl, ?_, Nat.zero_le _⟩
    intro a ha; cases ha

theorem FSplit_seekGo {α : Type} (key : α → Nat) (k : Nat) : ∀ (r l : List α),
    (∀ a ∈ l, key a < k) →
    FSplit key (l.reverse ++ r) k (Cur.seekGo (fun a => decide (key a < k)) l r) := by
  intro r
  induction r with
  | nil => intro l hl; simpa [Cur.seekGo, FSplit] using hl
  | cons x r ih =>
    intro l hl
    simp only [Cur.seekGo]
    by_cases hx : key x < k
    · simp only [hx, decide_true, if_true]
      have := ih (x :: l) (by intro a ha; rcases List.mem_cons.mp ha with rfl | ha; exact hx; exact hl a ha)
      simpa using this
    · simp only [hx, decide_false, Bool.false_eq_true, if_false]
      exact ⟨rfl, hl, by omega⟩

/-- **`seek_first`** positions the cursor on the least live key of the overlay (or reports that
there is none), for every sorted snapshot key list and every sorted write set with tombstones. -/
theorem C09_seek_first (S : List Nat) (W : List (Nat × Bool)) (hS : SortedBy id S) (hW : SortedBy Prod.fst W) :
    (∃ K, FwdState S W (TI.start S W).seekFirst K ∧ LeastGE S W 0 (some K)) ∨
    ((TI.start S W).seekFirst.cur = .none ∧ LeastGE S W 0 none) := by
  unfold TI.seekFirst
  apply posMin_spec S W hS hW
  · rfl
  · rfl
  · rfl
  · exact FSplit_first id S
  · exact FSplit_first Prod.fst W
  · simp only [TI.fuel, TI.start, wsRemaining, Cur.first]
    cases W with
    | nil => simp
    | cons w r => simp

/-- **`seek(target)`** positions the cursor on the least live key `≥ target` (or none). -/
theorem C09_seek (S : List Nat) (W : List (Nat × Bool)) (hS : SortedBy id S) (hW : SortedBy Prod.fst W)
    (t : TI) (hts : t.snap.xs = S) (htw : t.ws.xs = W) (k : Nat) :
    (∃ K, FwdState S W (t.seek k) K ∧ LeastGE S W k (some K)) ∨
    ((t.seek k).cur = .none ∧ LeastGE S W k none) := by
  unfold TI.seek
  apply posMin_spec S W hS hW
  · exact hts
  · exact htw
  · rfl
  · have := FSplit_seekGo id k S [] (by intro a ha; cases ha)
    simpa [Cur.seek, hts] using this
  · have := FSplit_seekGo Prod.fst k W [] (by intro a ha; cases ha)
    simpa [Cur.seek, htw] using this
  · have hrem : ∀ (r l : List (Nat × Bool)),
        wsRemaining ⟨W, Cur.seekGo (fun e => decide (e.1 < k)) l r⟩ ≤ r.length := by
      intro r
      induction r with
      | nil => intro l; simp [Cur.seekGo, wsRemaining]
      | cons x r ih =>
        intro l
        simp only [Cur.seekGo]
        split
        · have := ih (x :: l); simp only [List.length_cons]; omega
        · simp [wsRemaining]
    have h := hrem W []
    simp only [TI.fuel, Cur.seek, htw]
    omega

/-- the positioning loop itself (the statement the two corollaries instantiate) -/
theorem C09_position_to_min (S : List Nat) (W : List (Nat × Bool)) (hS : SortedBy id S) (hW : SortedBy Prod.fst W)
    (fuel : Nat) (t : TI) (X : Nat) (h1 : t.snap.xs = S) (h2 : t.ws.xs = W) (h3 : t.dir = .fwd)
    (h4 : FSplit id S X t.snap.pos) (h5 : FSplit Prod.fst W X t.ws.pos) (h6 : wsRemaining t.ws < fuel) :
    (∃ K, FwdState S W (TI.posMin fuel t) K ∧ LeastGE S W X (some K)) ∨
    ((TI.posMin fuel t).cur = .none ∧ LeastGE S W X none) :=
  posMin_spec S W hS hW fuel t X h1 h2 h3 h4 h5 h6


/-! ## the backward half, the steps, and whole call sequences -/

/-- the cursor is positioned on live key `K`, having last moved forward or backward -/
def Positioned (S : List Nat) (W : List (Nat × Bool)) (t : TI) (K : Nat) : Prop :=
  FwdState S W t K ∨ BwdState S W t K

theorem Positioned.key {S W t K} (h : Positioned S W t K) : t.key = some K := by
  rcases h with h | h
  · exact h.key
  · exact h.key

/-- **`next`** from a cursor on `K` — whichever direction it last moved in — lands on the least live
key above `K` (or reports exhaustion when there is none). -/
theorem C09_next (S : List Nat) (W : List (Nat × Bool)) (hS : SortedBy id S) (hW : SortedBy Prod.fst W)
    (t : TI) (K : Nat) (h : Positioned S W t K) :
    (∃ K', FwdState S W t.next K' ∧ LeastGE S W (K + 1) (some K')) ∨
    (t.next.cur = .none ∧ LeastGE S W (K + 1) none) := by
  rcases h with h | h
  · have : t.next = t.stepFwd := by simp [TI.next, h.dir]
    rw [this]
    exact stepFwd_spec S W hS hW t K h.mid
  · have : t.next = t.turnFwd.stepFwd := by simp [TI.next, h.dir]
    rw [this]
    exact stepFwd_spec S W hS hW _ K (turnFwd_spec S W hS hW t K h)

/-- **`prev`** from a cursor on `K` lands on the greatest live key below `K` (or reports exhaustion). -/
theorem C09_prev (S : List Nat) (W : List (Nat × Bool)) (hS : SortedBy id S) (hW : SortedBy Prod.fst W)
    (t : TI) (K : Nat) (h : Positioned S W t K) :
    (∃ K', BwdState S W t.prev K' ∧ GreatestLT S W K (some K')) ∨
    (t.prev.cur = .none ∧ GreatestLT S W K none) := by
  rcases h with h | h
  · have : t.prev = t.turnBwd.stepBwd := by simp [TI.prev, h.dir]
    rw [this]
    exact stepBwd_spec S W hS hW _ K (turnBwd_spec S W hS hW t K h)
  · have : t.prev = t.stepBwd := by simp [TI.prev, h.dir]
    rw [this]
    exact stepBwd_spec S W hS hW t K h.mid

/-- **`seek_last`** lands on the greatest live key below any bound `Y` that exceeds every stored key. -/
theorem C09_seek_last (S : List Nat) (W : List (Nat × Bool)) (hS : SortedBy id S) (hW : SortedBy Prod.fst W)
    (t : TI) (hts : t.snap.xs = S) (htw : t.ws.xs = W) (Y : Nat)
    (hYs : ∀ k ∈ S, k < Y) (hYw : ∀ e ∈ W, e.1 < Y) :
    (∃ K, BwdState S W t.seekLast K ∧ GreatestLT S W Y (some K)) ∨
    (t.seekLast.cur = .none ∧ GreatestLT S W Y none) := by
  unfold TI.seekLast
  have hw : BSplit Prod.fst W Y (Cur.last t.ws).pos := by
    have := FSplit_none_last (key := Prod.fst) (xs := W) (X := Y) t.ws.pos hYw
    rw [← htw] at this ⊢
    exact this
  apply posMax_spec S W hS hW
  · exact hts
  · exact htw
  · rfl
  · have := FSplit_none_last (key := id) (xs := S) (X := Y) t.snap.pos hYs
    rw [← hts] at this ⊢
    exact this
  · exact hw
  · have := wsBefore_le (Cur.last t.ws) hw
    simp only [TI.fuel, htw]
    exact Nat.lt_succ_of_le this

/-! ### whole call sequences -/

inductive COp | seekFirst | seekLast | seek (k : Nat) | next | prev

def TI.apply (t : TI) : COp → TI
  | .seekFirst => t.seekFirst
  | .seekLast => t.seekLast
  | .seek k => t.seek k
  | .next => t.next
  | .prev => t.prev

/-- the keys reported after each call -/
def TI.runKeys (t : TI) : List COp → List (Option Nat)
  | [] => []
  | op :: ops => (t.apply op).key :: (t.apply op).runKeys ops

/-- `r` is the greatest live key (`none`: nothing is live) -/
def GreatestLive (S : List Nat) (W : List (Nat × Bool)) : Option Nat → Prop
  | none => ∀ k, ¬ Live S W k
  | some K => Live S W K ∧ ∀ k, Live S W k → k ≤ K

/-- what one call must report.  `st`: `some p` = the cursor is known to be on `p` (`none` = exhausted);
`none` = not tracked (after `next`/`prev` on an exhausted cursor, which the API does not define). -/
def StepOK (S : List Nat) (W : List (Nat × Bool)) (st : Option (Option Nat)) (op : COp) (r : Option Nat) : Prop :=
  match op, st with
  | .seekFirst, _ => LeastGE S W 0 r
  | .seek k, _ => LeastGE S W k r
  | .seekLast, _ => GreatestLive S W r
  | .next, some (some K) => LeastGE S W (K + 1) r
  | .prev, some (some K) => GreatestLT S W K r
  | _, _ => True

def nextSt (st : Option (Option Nat)) (op : COp) (r : Option Nat) : Option (Option Nat) :=
  match op, st with
  | .seekFirst, _ | .seek _, _ | .seekLast, _ => some r
  | _, some (some _) => some r
  | _, _ => none

def TraceOK (S : List Nat) (W : List (Nat × Bool)) : Option (Option Nat) → List COp → List (Option Nat) → Prop
  | _, [], [] => True
  | st, op :: ops, r :: rs => StepOK S W st op r ∧ TraceOK S W (nextSt st op r) ops rs
  | _, _, _ => False

def bound (l : List Nat) : Nat := l.foldr max 0

theorem le_bound {l : List Nat} {a : Nat} (h : a ∈ l) : a ≤ bound l := by
  induction l with
  | nil => cases h
  | cons x xs ih =>
    simp only [bound, List.foldr] at ih ⊢
    rcases List.mem_cons.mp h with rfl | h
    · exact Nat.le_max_left _ _
    · exact Nat.le_trans (ih h) (Nat.le_max_right _ _)

theorem GreatestLT_top {S : List Nat} {W : List (Nat × Bool)} {Y : Nat} {r : Option Nat}
    (hYs : ∀ k ∈ S, k < Y) (hYw : ∀ e ∈ W, e.1 < Y) (h : GreatestLT S W Y r) : GreatestLive S W r := by
  have hl : ∀ k, Live S W k → k < Y := by
    intro k hk
    rcases hk with ⟨hk, _⟩ | hk
    · exact hYs k hk
    · exact hYw (k, false) hk
  cases r with
  | none => intro k hk; have := h k hk; have := hl k hk; omega
  | some K => exact ⟨h.1, fun k hk => h.2.2 k hk (hl k hk)⟩

theorem posMin_xs : ∀ (f : Nat) (t : TI), (TI.posMin f t).snap.xs = t.snap.xs ∧ (TI.posMin f t).ws.xs = t.ws.xs := by
  intro f
  induction f with
  | zero => intro t; exact ⟨rfl, rfl⟩
  | succ f ih =>
    intro t
    unfold TI.posMin
    split
    · exact ⟨rfl, rfl⟩
    · exact ⟨rfl, rfl⟩
    · split
      · have := ih { t with ws := t.ws.next }; simpa [Cur.next_xs] using this
      · exact ⟨rfl, rfl⟩
    · split
      · exact ⟨rfl, rfl⟩
      · split
        · split
          · have := ih { t with ws := t.ws.next }; simpa [Cur.next_xs] using this
          · exact ⟨rfl, rfl⟩
        · split
          · have := ih { t with snap := t.snap.next, ws := t.ws.next }; simpa [Cur.next_xs] using this
          · exact ⟨rfl, rfl⟩

theorem posMax_xs : ∀ (f : Nat) (t : TI), (TI.posMax f t).snap.xs = t.snap.xs ∧ (TI.posMax f t).ws.xs = t.ws.xs := by
  intro f
  induction f with
  | zero => intro t; exact ⟨rfl, rfl⟩
  | succ f ih =>
    intro t
    unfold TI.posMax
    split
    · exact ⟨rfl, rfl⟩
    · exact ⟨rfl, rfl⟩
    · split
      · have := ih { t with ws := t.ws.prev }; simpa [Cur.prev_xs] using this
      · exact ⟨rfl, rfl⟩
    · split
      · exact ⟨rfl, rfl⟩
      · split
        · split
          · have := ih { t with ws := t.ws.prev }; simpa [Cur.prev_xs] using this
          · exact ⟨rfl, rfl⟩
        · split
          · have := ih { t with snap := t.snap.prev, ws := t.ws.prev }; simpa [Cur.prev_xs] using this
          · exact ⟨rfl, rfl⟩

theorem eqCheck_xs (t : TI) : t.eqCheck.snap.xs = t.snap.xs ∧ t.eqCheck.ws.xs = t.ws.xs := by
  unfold TI.eqCheck; split <;> exact ⟨rfl, rfl⟩

theorem turnFwd_xs (t : TI) : t.turnFwd.snap.xs = t.snap.xs ∧ t.turnFwd.ws.xs = t.ws.xs := by
  unfold TI.turnFwd
  simp only []
  refine ⟨?_, ?_⟩
  · rw [(eqCheck_xs _).1]; repeat' split
    all_goals simp [Cur.next_xs, Cur.first_xs]
  · rw [(eqCheck_xs _).2]; repeat' split
    all_goals simp [Cur.next_xs, Cur.first_xs]

theorem turnBwd_xs (t : TI) : t.turnBwd.snap.xs = t.snap.xs ∧ t.turnBwd.ws.xs = t.ws.xs := by
  unfold TI.turnBwd
  simp only []
  refine ⟨?_, ?_⟩
  · rw [(eqCheck_xs _).1]; repeat' split
    all_goals simp [Cur.prev_xs, Cur.last_xs]
  · rw [(eqCheck_xs _).2]; repeat' split
    all_goals simp [Cur.prev_xs, Cur.last_xs]

theorem stepFwd_xs (t : TI) : t.stepFwd.snap.xs = t.snap.xs ∧ t.stepFwd.ws.xs = t.ws.xs := by
  unfold TI.stepFwd
  split
  · have := posMin_xs t.fuel { t with snap := t.snap.next, ws := t.ws.next, eq := false }
    simpa [Cur.next_xs] using this
  · split
    · have := posMin_xs t.fuel { t with snap := t.snap.next }; simpa [Cur.next_xs] using this
    · have := posMin_xs t.fuel { t with ws := t.ws.next }; simpa [Cur.next_xs] using this
    · exact ⟨rfl, rfl⟩

theorem stepBwd_xs (t : TI) : t.stepBwd.snap.xs = t.snap.xs ∧ t.stepBwd.ws.xs = t.ws.xs := by
  unfold TI.stepBwd
  split
  · have := posMax_xs t.fuel { t with snap := t.snap.prev, ws := t.ws.prev, eq := false }
    simpa [Cur.prev_xs] using this
  · split
    · have := posMax_xs t.fuel { t with snap := t.snap.prev }; simpa [Cur.prev_xs] using this
    · have := posMax_xs t.fuel { t with ws := t.ws.prev }; simpa [Cur.prev_xs] using this
    · exact ⟨rfl, rfl⟩

theorem apply_xs (t : TI) (op : COp) : (t.apply op).snap.xs = t.snap.xs ∧ (t.apply op).ws.xs = t.ws.xs := by
  cases op with
  | seekFirst => exact posMin_xs _ _
  | seekLast => exact posMax_xs _ _
  | seek k => exact posMin_xs _ _
  | next =>
    simp only [TI.apply, TI.next]
    split
    · exact ⟨(stepFwd_xs _).1.trans (turnFwd_xs t).1, (stepFwd_xs _).2.trans (turnFwd_xs t).2⟩
    · exact stepFwd_xs t
  | prev =>
    simp only [TI.apply, TI.prev]
    split
    · exact ⟨(stepBwd_xs _).1.trans (turnBwd_xs t).1, (stepBwd_xs _).2.trans (turnBwd_xs t).2⟩
    · exact stepBwd_xs t

/-- `seek_first` from any cursor state -/
theorem C09_seek_first_any (S : List Nat) (W : List (Nat × Bool)) (hS : SortedBy id S) (hW : SortedBy Prod.fst W)
    (t : TI) (hts : t.snap.xs = S) (htw : t.ws.xs = W) :
    (∃ K, FwdState S W t.seekFirst K ∧ LeastGE S W 0 (some K)) ∨
    (t.seekFirst.cur = .none ∧ LeastGE S W 0 none) := by
  unfold TI.seekFirst
  have hw : FSplit Prod.fst W 0 (Cur.first t.ws).pos := by
    have := BSplit_none_first (key := Prod.fst) (xs := W) (Y := 0) t.ws.pos (fun a _ => Nat.zero_le _)
    rw [← htw] at this ⊢
    exact this
  apply posMin_spec S W hS hW
  · exact hts
  · exact htw
  · rfl
  · have := BSplit_none_first (key := id) (xs := S) (Y := 0) t.snap.pos (fun a _ => Nat.zero_le _)
    rw [← hts] at this ⊢
    exact this
  · exact hw
  · have := wsRemaining_le (Cur.first t.ws) hw
    simp only [TI.fuel, htw]
    exact Nat.lt_succ_of_le this

def Tracked (S : List Nat) (W : List (Nat × Bool)) (t : TI) : Option (Option Nat) → Prop
  | some (some K) => Positioned S W t K
  | _ => True

theorem key_of_cur_none (t : TI) (h : t.cur = .none) : t.key = none := by simp [TI.key, h]

/-- **C09 (every call sequence).** Whatever sequence of `seek_first` / `seek_last` / `seek(k)` /
`next` / `prev` is issued against a cursor over sorted snapshot keys `S` and sorted write set `W`,
every reported key is the one the specification names: least live key `≥` the target for the seeks,
greatest live key for `seek_last`, least live key above / greatest live key below the current key for
`next` / `prev` (in any mixture of directions), and exhaustion exactly when no such key exists. -/
theorem C09_cursor_trace (S : List Nat) (W : List (Nat × Bool)) (hS : SortedBy id S) (hW : SortedBy Prod.fst W) :
    ∀ (ops : List COp) (t : TI) (st : Option (Option Nat)),
      t.snap.xs = S → t.ws.xs = W → Tracked S W t st → TraceOK S W st ops (t.runKeys ops) := by
  intro ops
  induction ops with
  | nil => intro t st _ _ _; exact True.intro
  | cons op ops ih =>
    intro t st hts htw htr
    have hx := apply_xs t op
    have hts' : (t.apply op).snap.xs = S := hx.1.trans hts
    have htw' : (t.apply op).ws.xs = W := hx.2.trans htw
    simp only [TI.runKeys, TraceOK]
    -- a positioned-or-exhausted outcome yields both the step and the tracking for the rest
    have fin : ∀ (r : Option Nat), (t.apply op).key = r → StepOK S W st op r →
        Tracked S W (t.apply op) (nextSt st op r) →
        StepOK S W st op (t.apply op).key ∧ TraceOK S W (nextSt st op (t.apply op).key) ops ((t.apply op).runKeys ops) := by
      intro r hr h1 h2
      rw [hr]
      exact ⟨h1, ih _ _ hts' htw' h2⟩
    cases op with
    | seekFirst =>
      rcases C09_seek_first_any S W hS hW t hts htw with ⟨K, hK, hL⟩ | ⟨hc, hL⟩
      · exact fin (some K) hK.key hL (Or.inl hK)
      · exact fin none (key_of_cur_none _ hc) hL True.intro
    | seek k =>
      rcases C09_seek S W hS hW t hts htw k with ⟨K, hK, hL⟩ | ⟨hc, hL⟩
      · exact fin (some K) hK.key hL (Or.inl hK)
      · exact fin none (key_of_cur_none _ hc) hL True.intro
    | seekLast =>
      have hYs : ∀ k ∈ S, k < bound S + bound (W.map Prod.fst) + 1 := by
        intro k hk; have := le_bound hk; omega
      have hYw : ∀ e ∈ W, e.1 < bound S + bound (W.map Prod.fst) + 1 := by
        intro e he
        have := le_bound (List.mem_map_of_mem (f := Prod.fst) he); omega
      rcases C09_seek_last S W hS hW t hts htw _ hYs hYw with ⟨K, hK, hL⟩ | ⟨hc, hL⟩
      · exact fin (some K) hK.key (GreatestLT_top hYs hYw hL) (Or.inr hK)
      · exact fin none (key_of_cur_none _ hc) (GreatestLT_top hYs hYw hL) True.intro
    | next =>
      match st, htr with
      | some (some K), htr =>
        rcases C09_next S W hS hW t K htr with ⟨K', hK, hL⟩ | ⟨hc, hL⟩
        · exact fin (some K') hK.key hL (Or.inl hK)
        · exact fin none (key_of_cur_none _ hc) hL True.intro
      | some none, _ => exact ⟨True.intro, ih _ _ hts' htw' True.intro⟩
      | none, _ => exact ⟨True.intro, ih _ _ hts' htw' True.intro⟩
    | prev =>
      match st, htr with
      | some (some K), htr =>
        rcases C09_prev S W hS hW t K htr with ⟨K', hK, hL⟩ | ⟨hc, hL⟩
        · exact fin (some K') hK.key hL (Or.inr hK)
        · exact fin none (key_of_cur_none _ hc) hL True.intro
      | some none, _ => exact ⟨True.intro, ih _ _ hts' htw' True.intro⟩
      | none, _ => exact ⟨True.intro, ih _ _ hts' htw' True.intro⟩

/-- the statement for a fresh cursor -/
theorem C09_cursor_trace_fresh (S : List Nat) (W : List (Nat × Bool)) (hS : SortedBy id S) (hW : SortedBy Prod.fst W)
    (ops : List COp) : TraceOK S W none ops ((TI.start S W).runKeys ops) :=
  C09_cursor_trace S W hS hW ops _ none rfl rfl True.intro

/-- non-vacuity: a mixed-direction walk over snapshot {1,3,5}, write set {2, 3†, 6} -/
example : (TI.start [1, 3, 5] [(2, false), (3, true), (6, false)]).runKeys
    [.seekLast, .prev, .prev, .next, .next, .next, .seek 3, .prev, .prev, .prev] =
    [some 6, some 5, some 2, some 5, some 6, none, some 5, some 2, some 1, none] := by decide
