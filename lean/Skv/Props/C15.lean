import Skv.Props.C17
import Skv.Lemmas.Arena
/-!
# C15 — a failed commit leaves no trace and does not poison later commits (pipeline level)

Model: the commit-pipeline transition system with its failure branches.  What is proved here:
a commit refused by the conflict check changes nothing observable; every failure branch keeps all
pipeline invariants (so every later commit is covered by the C05 / C17 theorems: the pipeline is
not poisoned); a failed call never reports success.  What is *false* of the code and recorded as
a known finding: entries of a batch whose apply failed after a prefix become visible
(`finding_failed_commit_visible`, shared with C05).  The memtable arena (a batch too large for any memtable, a batch
whose fit depends on the tower heights drawn) is covered by the arena-accounting model below.  File-level
faults (short write, ENOSPC, fsync error) are store-level and not modelled.
-/
open PState

/-- a commit refused by the oracle (conflict / retry) leaves memtable, queue, horizon, sequence
counter, batch table, conflict map and completions exactly as they were -/
theorem C15_refused_commit_leaves_no_trace (s : PState) (i : Nat) (t : Thread) (start : Nat)
    (hp : s.panicked = false) (ht : s.threads[i]? = some t) (hpc : t.pc = .havePermit start)
    (e : CErr) (hchk : s.oracle.check t.req.keys start = .error e) :
    let s' := s.stepThread i
    s'.mem = s.mem ∧ s'.queue = s.queue ∧ s'.visible = s.visible ∧ s'.logSeq = s.logSeq ∧
    s'.batches = s.batches ∧ s'.completed = s.completed := by
  intro s'
  show (s.stepThread i).mem = s.mem ∧ (s.stepThread i).queue = s.queue ∧ (s.stepThread i).visible = s.visible ∧
    (s.stepThread i).logSeq = s.logSeq ∧ (s.stepThread i).batches = s.batches ∧
    (s.stepThread i).completed = s.completed
  rw [stepThread_eq s i t hp ht, hpc]
  dsimp only
  split
  · simp
  · simp
  · rename_i a heq; rw [hchk] at heq; cases heq

/-- **not poisoned**: whatever fails (conflict, WAL error, apply error at any entry), all
structural invariants of the pipeline still hold afterwards, so the guarantees proved for C05
(atomic, ordered visibility) and C17 (no overflow) apply to every later commit -/
theorem C15_pipeline_survives (n gc p c : Nat) (hpc : p ≤ c) (ops : List POp) :
    let s := (PState.initWith n gc p c).run ops
    PInv s ∧ PermInv p s ∧ s.panicked = false :=
  ⟨(C05_invariant n gc p c ops).1, (C17_invariant n gc p c hpc ops).1, (C17_invariant n gc p c hpc ops).2.1⟩

/-- a completion is recorded once: the first result sent on a batch's channel wins, so a batch
completed with an error is never reported as committed later -/
theorem C15_first_completion_wins (s : PState) (f : Nat) (r r' : CRes)
    (h : s.completedRes f = some r) : (s.complete f r').completedRes f = some r := by
  unfold complete
  have hany : s.completed.any (fun p => p.1 == f) = true := by
    unfold completedRes at h
    cases hf : s.completed.find? (fun p => p.1 == f) with
    | none => simp [hf] at h
    | some x =>
      simp only [List.any_eq_true]
      have hx : (x.1 == f) = true := @List.find?_some _ (fun p => p.1 == f) x s.completed hf
      exact ⟨x, List.mem_of_find?_eq_some hf, hx⟩
  simp [hany, h]


/-! ## batches measured against the memtable arena (`fix: d15184a`, `fix: f5e9e07`) -/

/-- **a refused batch could never have been applied.**  What the admission check of `write` turns away
(`Error::BatchTooLarge`, before anything is logged) does not fit an empty memtable of the configured size
whatever tower heights are drawn: refusing it loses nothing. -/
theorem C15_refused_batch_can_never_fit (c : ArenaCfg) (cap : Nat) (es : List (Nat × Nat))
    (h : fitsEmpty c cap c.empty (es.map (·.1)) = false) : addAll c cap c.empty es = none :=
  addAll_refused c es c.empty c.empty cap (Nat.le_refl _) h

/-- **an admitted batch is always applied.**  The memtable `apply` rotates to — sized by
`arena_size_for`, never smaller than the configured size — takes the batch whatever heights are drawn. -/
theorem C15_admitted_batch_is_applied (c : ArenaCfg) (cap : Nat) (es : List (Nat × Nat))
    (hh : ∀ e ∈ es, e.2 ≤ c.maxH) :
    (addAll c (max cap (arenaSizeFor c c.empty (es.map (·.1)))) c.empty es).isSome = true :=
  addAll_sized c es c.empty _ hh (Nat.le_max_right _ _)

/-- the admission check is not stricter than it must be: what it lets through does fit the configured
size when every node gets the shortest tower -/
theorem C15_admission_is_tight (c : ArenaCfg) (cap : Nat) (ds : List Nat)
    (h : fitsEmpty c cap c.empty ds = true) : (addAll c cap c.empty (ds.map (fun d => (d, 1)))).isSome = true :=
  addAll_admitted c ds c.empty cap h

/-- the defect repaired by `f5e9e07`, kernel-checked with the sizes of the code (node 40..192 bytes,
sentinels 399): three entries of 100 bytes are admitted for a 1000-byte arena and fit it with towers of
height one, but not when the first node draws a tower of height 12 — and they always fit the arena
`arena_size_for` asks for -/
theorem fixed_fit_depended_on_tower_heights :
    let c : ArenaCfg := ⟨40, 8, 20, 399⟩
    fitsEmpty c 1000 c.empty [100, 100, 100] = true ∧
      (addAll c 1000 c.empty [(100, 1), (100, 1), (100, 1)]).isSome = true ∧
      addAll c 1000 c.empty [(100, 12), (100, 1), (100, 1)] = none ∧
      arenaSizeFor c c.empty [100, 100, 100] = 1296 := by decide
