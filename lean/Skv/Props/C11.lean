import Skv.Lemmas.VlogGc
/-!
# C11 — separated large values stay intact and reachable

Model: `VS` — value-log files on disk, the active file, the live tables with the file ids their
value pointers lead to and the `oldest_vlog_file_id` each table records (`tabOldest`: the running
minimum kept by `TableWriter::add`), the manifest minimum (`minOldest`) and `cleanup` (files below
it, never the active one).  Proved for every history of file rotations, table creations (flush,
compaction output), table removals and clean-ups: every value pointer of every live table leads to
a file that still exists (`C11_pointers_resolve`), also while a compaction round has hidden its inputs and
flushes run beside it (`C11_pointers_resolve_during_compaction`).  That values come back byte for byte, for every
size around the separation threshold, through flush, compaction, rotation, clean-up, reopen and
crash images, with readers open across all of it, is decided by the store stream (placement-free
specification) and by a walk over all live tables' pointers after every compaction; the encoding
of pointers and value-log entries and their damage detection are C16's.  Power loss (unsynced
value-log data at the moment a table is installed) is not modelled: partial.
-/

inductive VAct
  | newFile (f : Nat) | addTable (id : Nat) (ptrs : List Nat) | dropTables (ids : List Nat) | cleanup

def VS.act (s : VS) : VAct → VS
  | .newFile f => s.newFile f
  | .addTable id ptrs => s.addTable id ptrs
  | .dropTables ids => s.dropTables ids
  | .cleanup => s.cleanup

/-- side condition of a table creation: its pointers were just written, to existing files with positive ids -/
def actOk (s : VS) : VAct → Prop
  | .addTable _ ptrs => (∀ p ∈ ptrs, p ∈ s.files) ∧ (∀ p ∈ ptrs, 0 < p)
  | _ => True

def runOk : VS → List VAct → Prop
  | _, [] => True
  | s, a :: rest => actOk s a ∧ runOk (s.act a) rest

theorem C11_pointers_resolve (acts : List VAct) (s : VS) (h : s.inv) (hok : runOk s acts) :
    (acts.foldl VS.act s).inv := by
  induction acts generalizing s with
  | nil => exact h
  | cons a rest ih =>
    simp only [List.foldl_cons]
    obtain ⟨h1, h2⟩ := hok
    apply ih _ _ h2
    cases a with
    | newFile f => exact newFile_inv s h f
    | addTable id ptrs => exact addTable_inv s h id ptrs h1.1 h1.2
    | dropTables ids => exact dropTables_inv s h ids
    | cleanup => exact cleanup_inv s h

theorem C11_init : ({} : VS).inv := by intro t ht; cases ht

/-- the clean-up keeps the active file -/
theorem C11_active_kept (s : VS) (h : s.active ∈ s.files) : s.active ∈ s.cleanup.files := by
  unfold VS.cleanup
  simp only [List.mem_filter, Bool.not_eq_true', Bool.and_eq_false_iff, decide_eq_false_iff_not]
  exact ⟨h, Or.inr (by simp)⟩

/-- the recorded oldest id is the minimum of the pointers (what `C11_pointers_resolve` rests on) -/
theorem C11_oldest_is_min (ptrs : List Nat) (p : Nat) (hp : p ∈ ptrs) : tabOldest ptrs ≤ p := tabOldest_le ptrs p hp

/-- witness: recording the FIRST pointer instead of the minimum lets the clean-up delete a referenced file -/
theorem C11_witness_first_pointer :
    let s : VS := { files := [1, 2, 3], active := 3,
                    tables := [{ id := 9, ptrs := [3, 1], oldest := 3 }] }
    (1 : Nat) ∉ s.cleanup.files := first_pointer_is_not_oldest

/-- non-vacuity: two flushes, a compaction whose output still needs file 2 but not file 1, clean-up: file 1 goes -/
example :
    let acts : List VAct := [.newFile 1, .addTable 10 [1, 1], .newFile 2, .addTable 11 [2], .newFile 3,
      .addTable 12 [3, 2], .dropTables [10, 11], .cleanup]
    runOk {} acts ∧ ((acts.foldl VS.act {}).files = [3, 2]) := by
  refine ⟨?_, by decide⟩
  simp [runOk, actOk, VS.act, VS.newFile, VS.addTable, VS.dropTables]


/-! ## with a compaction round in progress -/

def act2Ok (x : VS2) : VAct2 → Prop
  | .flush _ ptrs => (∀ p ∈ ptrs, p ∈ x.s.files) ∧ (∀ p ∈ ptrs, 0 < p)
  | _ => True

def run2Ok : VS2 → List VAct2 → Prop
  | _, [] => True
  | x, a :: rest => act2Ok x a ∧ run2Ok (x.act false a) rest

/-- **pointers resolve also across a running compaction.**  For every history in which flushes (each with
freshly written pointers), file rotations and clean-ups run while a compaction round has hidden its inputs,
and the round's output — carrying the inputs' pointers — is installed later: every value pointer of every
live table leads to an existing file.  The only side condition left is on flushes; that the compaction
output's pointers resolve is now a consequence (its inputs stayed counted by the manifest minimum). -/
theorem C11_pointers_resolve_during_compaction (acts : List VAct2) (x : VS2) (h : x.s.inv) (hok : run2Ok x acts) :
    (acts.foldl (VS2.act false) x).s.inv := by
  induction acts generalizing x with
  | nil => exact h
  | cons a rest ih =>
    simp only [List.foldl_cons]
    obtain ⟨h1, h2⟩ := hok
    apply ih _ _ h2
    apply act2_inv x h a
    intro id ptrs ha
    subst ha
    exact h1

/-- the seeded variant (hidden inputs left out of the minimum): a flush committing during the round deletes
the file the round's output will point into -/
theorem hidden_inputs_must_be_counted :
    let acts : List VAct2 := [.newFile 1, .flush 10 [1], .newFile 2, .hide [10], .flush 11 [2], .cleanup, .finish 12]
    let bad := acts.foldl (VS2.act true) {}
    let good := acts.foldl (VS2.act false) {}
    (bad.s.tables.map (·.ptrs) = [[1], [2]] ∧ bad.s.files = [2]) ∧ good.s.files = [2, 1] := by decide
