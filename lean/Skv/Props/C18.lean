import Skv.Lemmas.BTreeDel
import Skv.Lemmas.BtOverflow
import Skv.Lemmas.BtScan
/-!
# C18 — the B+tree index is a persistent ordered map

Model: `BT` (first child + (separator, child) pairs; an equal key goes right, as in
`InternalNode::find_child_index`), `BT.get`, `BT.insert` with leaf and internal splits under an
ARBITRARY split policy (the code decides by byte sizes: every policy is covered), `BT.del` at the
leaf, the leaf rebalancing steps (`mergeLeaves`, `redistFromLeft/Right` with the first key of the
new right leaf as separator), and the overflow-chain slot of an internal key (`prepareSlot`,
`decodeSlot`, `replaceSeparator`).  Specification: the sorted association list (`listInsert`,
`listDelete`, `lookup`, filter for ranges).
Proved: lookups, insertion with any splits and leaf deletion refine the ordered map and keep the
structural invariant (sorted keys, separator bounds, strictly increasing separators); the flat list
is sorted (so range scans are the filtered list); leaf merges and redistributions keep content,
order and bounds; a consistent overflow slot decodes to its key after write + reload and the repaired
separator replacement keeps slots consistent and frees the old chain.  Kernel-checked witnesses show
what the code did before the repair.  Validated by the differential stream only (partial):
internal-node merges/redistribution, the free-list allocator (`pages_conserved` is checked by the
audit walk on every run, not proved), page codecs, reopen.
-/

theorem C18_get (t : BT) (h : t.wf none none) (k : Nat) : t.get k = lookup t.toList k :=
  BT.get_eq t none none h k

theorem C18_insert (p : Policy) (t : BT) (k v : Nat) (h : t.wf none none) :
    (t.insert p k v).toList = listInsert t.toList k v ∧ (t.insert p k v).wf none none :=
  BT.insert_spec p t k v h

theorem C18_delete (t : BT) (k : Nat) (h : t.wf none none) :
    (t.del k).toList = listDelete t.toList k ∧ (t.del k).wf none none :=
  BT.del_spec t none none k h

/-- the leaves in order are strictly sorted: a range scan is the filtered sorted list -/
theorem C18_scan_sorted (t : BT) (h : t.wf none none) : t.toList.Pairwise (fun a b => a.1 < b.1) :=
  BT.toList_sorted t none none h

/-- any sequence of inserts and deletes, under any split policy, is the ordered map -/
inductive BOp | ins (k v : Nat) | del (k : Nat)

def BT.apply (p : Policy) (t : BT) : BOp → BT
  | .ins k v => t.insert p k v
  | .del k => t.del k
def listApply (l : List (Nat × Nat)) : BOp → List (Nat × Nat)
  | .ins k v => listInsert l k v
  | .del k => listDelete l k

theorem C18_refines_map (p : Policy) (ops : List BOp) (t : BT) (h : t.wf none none) :
    (ops.foldl (BT.apply p) t).toList = ops.foldl listApply t.toList ∧ (ops.foldl (BT.apply p) t).wf none none := by
  induction ops generalizing t with
  | nil => exact ⟨rfl, h⟩
  | cons op ops ih =>
    simp only [List.foldl_cons]
    cases op with
    | ins k v =>
      obtain ⟨a, b⟩ := C18_insert p t k v h
      have := ih (t.insert p k v) b
      simp only [BT.apply, listApply]
      rw [← a]; exact this
    | del k =>
      obtain ⟨a, b⟩ := C18_delete t k h
      have := ih (t.del k) b
      simp only [BT.apply, listApply]
      rw [← a]; exact this

theorem C18_empty_wf : (BT.leaf []).wf none none := by simp [BT.wf]

theorem C18_merge_leaves (l r : List (Nat × Nat)) (lo hi : Option Nat) (s : Nat)
    (hl : (BT.leaf l).wf lo (some s)) (hr : (BT.leaf r).wf (some s) hi) (hs : inBs lo hi s) :
    (BT.leaf (mergeLeaves l r)).wf lo hi := mergeLeaves_wf l r lo hi s hl hr hs

theorem C18_redistribute (l' r' : List (Nat × Nat)) (lo hi : Option Nat) (f : Nat × Nat)
    (hsorted : (l' ++ r').Pairwise (fun a b => a.1 < b.1)) (hb : ∀ e ∈ l' ++ r', inB lo hi e.1)
    (hf : r'.head? = some f) (hne : l' ≠ []) :
    (BT.leaf l').wf lo (some f.1) ∧ (BT.leaf r').wf (some f.1) hi ∧ inBs lo hi f.1 :=
  redist_wf l' r' lo hi f hsorted hb hf hne

theorem C18_redistribute_content (l r : List (Nat × Nat)) (n : Nat) :
    (redistFromLeft l r n).1 ++ (redistFromLeft l r n).2.2 = l ++ r ∧
      (redistFromRight l r n).1 ++ (redistFromRight l r n).2.2 = l ++ r :=
  ⟨redistFromLeft_content l r n, redistFromRight_content l r n⟩

/-- overflow chains: write + reload of a consistent slot gives the key back -/
theorem C18_overflow_roundtrip (loc : Nat) (st : ChainStore) (s : Slot) (h : slotConsistent loc st s) :
    decodeSlot loc (prepareSlot loc st s).1 (prepareSlot loc st s).2 = some s.key ∧
      slotConsistent loc (prepareSlot loc st s).1 (prepareSlot loc st s).2 :=
  ⟨decode_prepare loc st s h, prepare_consistent loc st s h⟩

theorem C18_replace_separator (loc : Nat) (st : ChainStore) (s : Slot) (k : List Nat) :
    slotConsistent loc (replaceSeparator st s k).1 (replaceSeparator st s k).2 ∧
      (∀ c, s.ovf = some c → (replaceSeparator st s k).1.get c = none) :=
  ⟨replaceSeparator_consistent loc st s k, fun c h => replaceSeparator_frees st s k c h⟩

/-- non-vacuity: five inserts with a policy that cuts leaves of more than two entries and nodes of
more than two separators build a three-level well-formed tree that answers like the list -/
def exPolicy : Policy :=
  { leaf := fun es => if es.length > 2 then some (es.length / 2) else none,
    node := fun n => if n > 2 then some (n / 2) else none }

example :
    let t := [(5, 50), (1, 10), (9, 90), (3, 30), (7, 70), (2, 20), (8, 80), (4, 40), (6, 60)].foldl
      (fun t kv => t.insert exPolicy kv.1 kv.2) (BT.leaf [])
    t.toList.map (·.1) = [1, 2, 3, 4, 5, 6, 7, 8, 9] ∧ t.get 6 = some 60 ∧ t.get 10 = none ∧
      (match t with | .node (.node _ _) _ => true | _ => false) = true := by decide

/-- **overflow chains keep exactly one owner through internal rebalancing.**  Rotating a key through
the parent in either direction (`redistribute_internal_from_left/right`) and merging two internal
nodes (`merge_internal_nodes`) leave the sequence of slots — each with its chain — unchanged, so
ownership (`Owned`: every chain holds its key's tail, no chain has two owners, none is leaked) is
kept with no allocation and no free; a leaf merge drops the separator and frees its chain, and
ownership holds for what remains. -/
theorem C18_chain_ownership (loc : Nat) (st : ChainStore) (t : Trio) (h : Owned loc st t.slots) :
    (∀ t', rotRight t = some t' → Owned loc st t'.slots) ∧
    (∀ t', rotLeft t = some t' → Owned loc st t'.slots) ∧
    Owned loc st (mergeInternal t) ∧
    Owned loc (dropSeparator st t.2.1) (t.1 ++ t.2.2) :=
  ⟨fun t' h' => by rw [rotRight_slots t t' h']; exact h,
   fun t' h' => by rw [rotLeft_slots t t' h']; exact h,
   h,
   dropSeparator_owned loc st t.1 t.2.2 t.2.1 h⟩

/-- non-vacuity of `Owned`, and the rotation really moves a slot -/
example :
    let loc := 2
    let (st1, a) := prepareSlot loc {} { key := [1, 1, 1, 1], ovf := none }
    let (st2, p) := prepareSlot loc st1 { key := [5, 5, 5, 5], ovf := none }
    (rotRight ([a], p, [])).map (fun t => (t.1.length, t.2.1.key, t.2.2.length)) = some (0, [1, 1, 1, 1], 1) ∧
      st2.chains.length = 2 ∧ a.ovf = some 0 ∧ p.ovf = some 1 := by decide


/-- **a full scan lists every entry, whatever leaves deletes have emptied.**  The cursor's walk over the
leaf chain (`seek_first`, then `next` to the end), with `advance_to_next_leaf` going on to the next
non-empty leaf, visits exactly the entries of the tree in order. -/
theorem C18_scan_complete (t : BT) : walkFwd true t.leaves = t.toList := by
  rw [walkFwd_skip, BT.leaves_flatten]

/-- the defect repaired by `8434f42`, kernel-checked: with a leaf in the middle emptied by deletes the
walk that does not skip it stops there -/
theorem fixed_scan_stopped_at_empty_leaf :
    let t := BT.node (.leaf [(1, 10)]) (.cons 5 (.leaf []) (.cons 9 (.leaf [(9, 90)]) .nil))
    walkFwd false t.leaves = [(1, 10)] ∧ walkFwd true t.leaves = [(1, 10), (9, 90)] ∧
      t.toList = [(1, 10), (9, 90)] := by decide
