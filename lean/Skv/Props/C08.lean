import Skv.Lemmas.TxnBatch
/-!
# C08 — inside a transaction: read-your-writes, savepoints, rollback and modes

Property theorems only.  Model: `Txn.step` (literal port of `src/transaction.rs`'s write-set
machine); specification: `STxn.step` (stack of overlay frames over the snapshot).
All statements quantify over every mode, every snapshot function, every program.
-/
open Txn

def runState {σ : Type} (step : σ → TOp → σ × TOut) : σ → List TOp → σ
  | s, [] => s
  | s, op :: ops => runState step (step s op).1 ops

/-- the model and specification states reached by any program are related by `Sim` -/
theorem C08_reach_sim (m : Mode) (snap : Key → Option Val) (ops : List TOp) :
    Sim (runState (Txn.step snap) (Txn.start m) ops) (runState (STxn.step snap) (STxn.start m) ops) := by
  suffices ∀ (t : Txn) (s : STxn), Sim t s →
      Sim (runState (Txn.step snap) t ops) (runState (STxn.step snap) s ops) from
    this _ _ (sim_start m)
  induction ops with
  | nil => intro t s h; exact h
  | cons op ops ih => intro t s h; exact ih _ _ (sim_step snap t s h op).2

theorem C08_reach_wswf (m : Mode) (snap : Key → Option Val) (ops : List TOp) :
    WsWf (runState (Txn.step snap) (Txn.start m) ops) := by
  suffices ∀ (t : Txn), WsWf t → WsWf (runState (Txn.step snap) t ops) from this _ (wswf_start m)
  induction ops with
  | nil => intro t h; exact h
  | cons op ops ih => intro t h; exact ih _ (wswf_step snap t h op)

/-- **Main refinement.** Every program (any mode, any snapshot, any sequence of set / delete /
soft delete / replace / explicit-timestamp writes, reads, nested savepoints, partial rollbacks,
rollback, commit with either pipeline verdict) produces exactly the outputs of the overlay-stack
specification. -/
theorem C08_program_refines (m : Mode) (snap : Key → Option Val) (ops : List TOp) :
    runProg (Txn.step snap) (Txn.start m) ops = runProg (STxn.step snap) (STxn.start m) ops :=
  sim_run snap ops _ _ (sim_start m)

/-- read-your-writes: in any reachable open read-write/… state, a read of `k` right after a
successful write of `k` returns that write (a pending delete hides the key). -/
theorem C08_ryow (m : Mode) (snap : Key → Option Val) (ops : List TOp)
    (k : Key) (v : Option Val) (kind : Kind) (ts : Nat) :
    let t := runState (Txn.step snap) (Txn.start m) ops
    t.mode = .readWrite → t.closed = false → k.isEmpty = false →
    ((t.write k v kind ts).1.getFull snap k) = .ok (if kind.isTomb then none else v) := by
  intro t hm hc hk
  obtain ⟨hmode, hclosed, hinv, hne⟩ := C08_reach_sim m snap ops
  generalize hs : runState (STxn.step snap) (STxn.start m) ops = s at hmode hclosed hinv
  have hmut : t.mode.mutable = true := by rw [hm]; rfl
  have hi' := inv_write t s.spec hinv k v kind ts hmut hc hk
  have hcl' : (t.write k v kind ts).1.closed = false := by simp [Txn.write, hmut, hc, hk]
  have hmo' : (t.write k v kind ts).1.mode ≠ .writeOnly := by
    have : (t.write k v kind ts).1.mode = t.mode := by simp [Txn.write, hmut, hc, hk]
    rw [this, hm]; decide
  have hg := get_refines _ _ hi' k hcl' hk hmo'
  simp only [Txn.getFull, hg]
  have : (s.spec.write ⟨k, v, kind, ts⟩).get k = some (if kind.isTomb then none else v) := by
    unfold Spec.get Spec.log Spec.write
    cases hf : s.spec.frames with
    | nil => simp; split <;> rfl
    | cons f fs => simp; split <;> rfl
  rw [this]

/-- writes issued inside a savepoint touch only the innermost frame -/
private theorem writes_head (ws : List W) (f : List W) (fs : List (List W)) :
    ∃ f', (ws.foldl Spec.write ⟨f :: fs⟩) = ⟨f' :: fs⟩ := by
  induction ws generalizing f with
  | nil => exact ⟨f, rfl⟩
  | cons w ws ih => simpa [Spec.write] using ih (w :: f)

/-- savepoint restore (specification level): `set_savepoint`, any number of writes,
`rollback_to_savepoint` gives back exactly the pending writes that existed at the savepoint.
Together with `C08_program_refines` this holds of the model for arbitrarily nested uses. -/
theorem C08_savepoint_restore_spec (s : Spec) (ws : List W) (h : s.frames ≠ []) :
    (ws.foldl Spec.write s.setSavepoint).rollbackToSavepoint = some s := by
  obtain ⟨frames⟩ := s
  cases frames with
  | nil => exact absurd rfl h
  | cons f fs =>
    obtain ⟨f', hf⟩ := writes_head ws [] (f :: fs)
    simp only [Spec.setSavepoint]
    rw [hf]; rfl

/-- savepoint restore (model level, one level): after `set_savepoint; writes; rollback_to_savepoint`
every key reads as before the savepoint. -/
theorem C08_savepoint_restore (m : Mode) (snap : Key → Option Val) (ops : List TOp)
    (ws : List (Key × Option Val × Kind × Nat)) (k : Key) :
    let t := runState (Txn.step snap) (Txn.start m) ops
    let prog := [TOp.setSp] ++ ws.map (fun w => TOp.write w.1 w.2.1 w.2.2.1 w.2.2.2) ++ [TOp.rbSp]
    let t' := runState (Txn.step snap) t prog
    t.mode = .readWrite → t.closed = false → (∀ w ∈ ws, w.1.isEmpty = false) →
    t'.getFull snap k = t.getFull snap k := by
  intro t prog t' hm hc hks
  -- run the same program on the specification
  have hsim := C08_reach_sim m snap ops
  generalize hs : runState (STxn.step snap) (STxn.start m) ops = s at hsim
  have hsim' : Sim t' (runState (STxn.step snap) s prog) := by
    suffices ∀ (p : List TOp) (a : Txn) (b : STxn), Sim a b →
        Sim (runState (Txn.step snap) a p) (runState (STxn.step snap) b p) from this _ _ _ hsim
    intro p; induction p with
    | nil => intro a b h; exact h
    | cons op p ih => intro a b h; exact ih _ _ (sim_step snap a b h op).2
  have hsm : s.mode = .readWrite := by rw [← hsim.mode]; exact hm
  have hsc : s.closed = false := by rw [← hsim.closed]; exact hc
  -- the specification ends where it started
  have hspec : runState (STxn.step snap) s prog = s := by
    obtain ⟨sm, sc, ss⟩ := s
    simp only at hsm hsc; subst hsm hsc
    have hfr : ss.frames ≠ [] := by
      intro h0; have := hsim.inv.len; simp [h0] at this
    have hwr : ∀ (l : List (Key × Option Val × Kind × Nat)) (sp : Spec), (∀ w ∈ l, w.1.isEmpty = false) →
        ∀ rest, runState (STxn.step snap) ⟨.readWrite, false, sp⟩
            (l.map (fun w => TOp.write w.1 w.2.1 w.2.2.1 w.2.2.2) ++ rest)
          = runState (STxn.step snap)
              ⟨.readWrite, false, (l.map (fun w => (⟨w.1, w.2.1, w.2.2.1, w.2.2.2⟩ : W))).foldl Spec.write sp⟩ rest := by
      intro l; induction l with
      | nil => intro sp _ rest; rfl
      | cons w l ih =>
        intro sp hk rest
        have hw : w.1.isEmpty = false := hk w (List.mem_cons_self ..)
        simp only [List.map_cons, List.cons_append, runState, STxn.step, Mode.mutable, hw,
          List.foldl_cons]
        exact ih _ (fun x hx => hk x (List.mem_cons_of_mem _ hx)) rest
    show runState (STxn.step snap) ⟨.readWrite, false, ss⟩
        ([TOp.setSp] ++ ws.map (fun w => TOp.write w.1 w.2.1 w.2.2.1 w.2.2.2) ++ [TOp.rbSp]) = _
    simp only [List.singleton_append, List.cons_append, runState, STxn.step, Mode.mutable]
    rw [show (if (!true) = true then ((⟨.readWrite, false, ss⟩ : STxn), TOut.err TErr.readOnly)
          else if false = true then ((⟨.readWrite, false, ss⟩ : STxn), TOut.err TErr.closed)
          else (⟨.readWrite, false, ss.setSavepoint⟩, TOut.ok)).1 = ⟨.readWrite, false, ss.setSavepoint⟩ from rfl]
    rw [List.nil_append, hwr ws ss.setSavepoint hks [TOp.rbSp]]
    simp only [runState, STxn.step, Mode.mutable]
    rw [C08_savepoint_restore_spec ss _ hfr]
    rfl
  rw [hspec] at hsim'
  -- both model states read like the same specification state
  have hcl' : t'.closed = false := by rw [hsim'.closed]; exact hsc
  have hmo' : t'.mode = .readWrite := by rw [hsim'.mode]; exact hsm
  by_cases hk : k.isEmpty = true
  · simp [Txn.getFull, Txn.get, hcl', hc, hk]
  · have hk : k.isEmpty = false := by simpa using hk
    have g1 := get_refines t' s.spec hsim'.inv k hcl' hk (by rw [hmo']; decide)
    have g2 := get_refines t s.spec hsim.inv k hc hk (by rw [hm]; decide)
    simp only [Txn.getFull, g1, g2]

/-- rollback discards everything: the write set is empty (nothing can ever be committed) and
every later operation except `rollback` is refused with `Closed`/`ReadOnly`. -/
theorem C08_rollback_discards (t : Txn) :
    t.rollback.ws = [] ∧ t.rollback.batch = [] ∧ t.rollback.closed = true ∧
    (∀ okp, (t.rollback.commit okp).2 = .error .closed) ∧
    (∀ k, t.rollback.get k = .error .closed) := by
  refine ⟨rfl, rfl, rfl, ?_, ?_⟩
  · intro okp; simp [Txn.commit, Txn.rollback]
  · intro k; simp [Txn.get, Txn.rollback]

/-- mode / closed decision table, stated outright. -/
theorem C08_modes (t : Txn) (snap : Key → Option Val) :
    (t.mode = .readOnly → ∀ k v kind ts, (t.step snap (.write k v kind ts)).2 = .err .readOnly) ∧
    (t.mode = .readOnly → (t.step snap .setSp).2 = .err .readOnly ∧
        (t.step snap .rbSp).2 = .err .readOnly) ∧
    (t.mode = .readOnly → t.closed = false → ∀ okp, (t.step snap (.commit okp)).2 = .err .readOnly) ∧
    (t.mode = .writeOnly → t.closed = false → ∀ k, k.isEmpty = false →
        (t.step snap (.get k)).2 = .err .writeOnly) ∧
    (t.closed = true → t.mode ≠ .readOnly → ∀ k v kind ts,
        (t.step snap (.write k v kind ts)).2 = .err .closed) ∧
    (t.closed = true → ∀ k, (t.step snap (.get k)).2 = .err .closed) ∧
    (t.closed = true → ∀ okp, (t.step snap (.commit okp)).2 = .err .closed) ∧
    (∀ k v kind ts, t.mode ≠ .readOnly → t.closed = false → k.isEmpty = true →
        (t.step snap (.write k v kind ts)).2 = .err .emptyKey) := by
  refine ⟨?_, ?_, ?_, ?_, ?_, ?_, ?_, ?_⟩
  · intro h k v kind ts; simp [Txn.step, Txn.write, h, Mode.mutable, exceptOut]
  · intro h; simp [Txn.step, Txn.setSavepoint, Txn.rollbackToSavepoint, h, Mode.mutable, exceptOut]
  · intro h hc okp; simp [Txn.step, Txn.commit, h, hc]
  · intro h hc k hk; simp [Txn.step, Txn.getFull, Txn.get, h, hc, hk]
  · intro hc hm k v kind ts
    have : t.mode.mutable = true := by cases hmm : t.mode <;> simp_all [Mode.mutable]
    simp [Txn.step, Txn.write, this, hc, exceptOut]
  · intro hc k; simp [Txn.step, Txn.getFull, Txn.get, hc]
  · intro hc okp; simp [Txn.step, Txn.commit, hc]
  · intro k v kind ts hm hc hk
    have : t.mode.mutable = true := by cases hmm : t.mode <;> simp_all [Mode.mutable]
    simp [Txn.step, Txn.write, this, hc, hk, exceptOut]

/-- commit order: the batch handed to the pipeline is a permutation of the surviving entries,
sorted by issue number. -/
theorem C08_commit_order (t : Txn) :
    t.batch.Perm (t.ws.flatMap (·.2)) ∧ t.batch.Pairwise (fun a b => a.seqno ≤ b.seqno) :=
  ⟨sortBySeq_perm _, sortBySeq_sorted _⟩

/-- commit effect: in every reachable state, applying the batch in order leaves, for each key,
exactly what a read inside the transaction returned for it (the newest surviving write). -/
theorem C08_commit_effect (m : Mode) (snap : Key → Option Val) (ops : List TOp) (k : Key) :
    let t := runState (Txn.step snap) (Txn.start m) ops
    let s := runState (STxn.step snap) (STxn.start m) ops
    ((t.batch.filter (fun e => e.key == k)).getLast?).map entryView = s.spec.get k := by
  intro t s
  have hsim := C08_reach_sim m snap ops
  have hwf := C08_reach_wswf m snap ops
  rw [batch_filter_key _ hwf k]
  have hv := hsim.inv.view 0 (Nat.zero_le _) k
  simp only [Nat.sub_zero, List.drop_zero] at hv
  have hall : (entriesOf t.ws k).filter (fun e => e.sp ≤ t.savepoints) = entriesOf t.ws k := by
    apply List.filter_eq_self.mpr
    intro e he; simpa using hsim.inv.spLe k e he
  unfold viewUpTo at hv
  rw [hall] at hv
  show Option.map entryView (entriesOf t.ws k).getLast? = s.spec.get k
  rw [hv]
  unfold specUpTo Spec.get Spec.log wView
  cases List.find? (fun w => w.key == k) s.spec.frames.flatten <;> simp
  split <;> rfl
