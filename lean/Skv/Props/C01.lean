import Skv.Lemmas.Compact
import Skv.Lemmas.BeginRace
/-!
# C01 — transactions read from a stable snapshot (read side of snapshot isolation)

What is proved (for every key history, every set of registered snapshots, every configuration):
* per-key compaction never changes what a registered snapshot reads (`C01_compaction_stable`);
* the counted snapshot tracker keeps a sequence number registered exactly as long as some reader
  registered at it is alive, however many readers share it (`C01_tracker_covers_live_readers`);
* commits made after a reader began are invisible to it (`C01_later_commits_invisible`);
* the component search (memtables, then tables) returns the newest visible version whenever the
  components are ordered newest first (`C01_component_search_newest`).
The tie to the code: the per-key rule is compared with the real `CompactionIterator` on every input
of up to 3 (quick) / 4 (thorough) versions and every snapshot subset; whole histories with readers
sharing start points and rotation / flush / compaction / reopen placements are compared with the map
specification on a real `Tree`.
-/

/-- the value a reader at horizon `s` gets for a key whose versions (newest first) are `vs` -/
def readAt (s : Nat) (vs : List Ver) : Option Ver := topValue (visOf (some s) vs)

/-- **Compaction is invisible to registered readers.** For every reader whose horizon `s` is in the
snapshot list handed to the compaction, the value it reads for the key is the same before and
after — at every level including the last one, with or without versioning / retention, whatever
the other snapshots are. -/
theorem C01_compaction_stable (c : CCfg) (snaps : List Nat) (vs : List Ver)
    (hs : SortedAsc snaps) (hsd : SortedDesc vs) (s : Nat) (hmem : s ∈ snaps) :
    readAt s (compactKey c snaps vs) = readAt s vs := by
  have h := compactKey_reads_ok c snaps vs hs hsd
  unfold readsOK at h
  simp only [Bool.and_eq_true, List.all_eq_true] at h
  have hob : some s ∈ observers snaps := by
    simp only [observers, List.mem_cons, List.mem_map]
    exact Or.inr ⟨s, hmem, rfl⟩
  have ht := h.1 (some s) hob
  unfold topOk at ht
  unfold readAt
  split at ht
  · simp only [beq_iff_eq] at ht; exact ht.symm
  · simp only [beq_iff_eq] at ht; exact (topValue_eq_of_head _ _ ht).symm

/-- versions committed after the reader began (seq above its horizon) do not change its read -/
theorem C01_later_commits_invisible (s : Nat) (newer vs : List Ver) (hn : ∀ v ∈ newer, s < v.seq) :
    readAt s (newer ++ vs) = readAt s vs := by
  unfold readAt visOf
  have : newer.filter (fun v => decide (v.seq ≤ s)) = [] := by
    rw [List.filter_eq_nil_iff]; intro v hv; have := hn v hv; simp; omega
  simp only [List.filter_append, this, List.nil_append]

/-! ### the snapshot tracker (counted registrations — the `fix:` commit)

The tracker is a multiset of sequence numbers (the code stores it as `seq ↦ count`);
`get_all_snapshots` returns its distinct elements. -/

abbrev Tracker := List Nat
def Tracker.register (t : Tracker) (s : Nat) : Tracker := s :: t
def Tracker.unregister (t : Tracker) (s : Nat) : Tracker := t.erase s

inductive REv
  | openR (id seq : Nat)      -- `Snapshot::new`: register
  | closeR (id : Nat)         -- `Drop for Snapshot`: unregister the reader's own sequence number
deriving Repr

structure RState where
  live : List (Nat × Nat) := []      -- (reader id, seq)
  tracker : Tracker := []

def RState.step (st : RState) : REv → RState
  | .openR id s => { live := (id, s) :: st.live, tracker := st.tracker.register s }
  | .closeR id =>
    match st.live.find? (fun p => p.1 == id) with
    | some p => { live := st.live.erase p, tracker := st.tracker.unregister p.2 }
    | none => st

def RState.run (st : RState) : List REv → RState
  | [] => st
  | e :: es => RState.run (st.step e) es

theorem map_erase_perm (l : List (Nat × Nat)) (p : Nat × Nat) (hp : p ∈ l) :
    ((l.erase p).map (·.2)).Perm ((l.map (·.2)).erase p.2) := by
  induction l with
  | nil => cases hp
  | cons q r ih =>
    by_cases hq : q = p
    · subst hq; simp
    · have hpr : p ∈ r := by
        rcases List.mem_cons.mp hp with h | h
        · exact absurd h.symm hq
        · exact h
      have h1 : (q :: r).erase p = q :: r.erase p := by simp [List.erase_cons, hq]
      rw [h1]
      simp only [List.map_cons]
      by_cases hs : q.2 = p.2
      · -- same sequence number, different reader: erasing either occurrence is the same multiset
        have he : (q.2 :: r.map (·.2)).erase p.2 = r.map (·.2) := by
          rw [← hs]; exact List.erase_cons_head ..
        rw [he]
        have := ih hpr
        -- (q.2 :: map (erase p)) ~ q.2 :: (map r).erase p.2 ~ map r   (since p.2 ∈ map r)
        have hmem : p.2 ∈ r.map (·.2) := List.mem_map.mpr ⟨p, hpr, rfl⟩
        exact (List.Perm.cons q.2 this).trans (by rw [hs]; exact List.perm_cons_erase hmem |>.symm)
      · rw [List.erase_cons_tail (by simpa using hs)]
        exact List.Perm.cons q.2 (ih hpr)

/-- the tracker always holds exactly the multiset of the live readers' sequence numbers -/
theorem tracker_perm_live (evs : List REv) :
    ∀ st : RState, st.tracker.Perm (st.live.map (·.2)) →
      (st.run evs).tracker.Perm ((st.run evs).live.map (·.2)) := by
  induction evs with
  | nil => intro st h; exact h
  | cons e es ih =>
    intro st h
    apply ih
    cases e with
    | openR id s => exact List.Perm.cons s h
    | closeR id =>
      simp only [RState.step]
      cases hf : st.live.find? (fun p => p.1 == id) with
      | none => exact h
      | some p =>
        have hp : p ∈ st.live := List.mem_of_find?_eq_some hf
        exact (h.erase p.2).trans (map_erase_perm st.live p hp).symm

/-- **A live reader is always tracked**, however many readers share its sequence number and in
whatever order the others begin and finish: compaction always receives its horizon. -/
theorem C01_tracker_covers_live_readers (evs : List REv) (id s : Nat)
    (hlive : (id, s) ∈ (RState.run {} evs).live) : s ∈ (RState.run {} evs).tracker := by
  have h := tracker_perm_live evs {} (List.Perm.refl _)
  exact h.symm.subset (List.mem_map.mpr ⟨(id, s), hlive, rfl⟩)

/-! ### component search -/

/-- `Snapshot::get` per key: components in search order (active memtable, immutables newest first,
L0 newest first, then one table per deeper level); the first component holding a visible version
answers -/
def physGet (s : Nat) (comps : List (List Ver)) : Option Ver :=
  comps.findSome? (fun c => topOf s c)

theorem physGet_eq_flatten (s : Nat) (comps : List (List Ver)) : physGet s comps = topOf s comps.flatten := by
  unfold physGet topOf
  induction comps with
  | nil => rfl
  | cons c r ih =>
    simp only [List.findSome?_cons, List.flatten_cons, List.find?_append]
    cases hc : List.find? (fun v => decide (v.seq ≤ s)) c with
    | none => simp only [Option.none_or, ih]
    | some v => simp only [Option.some_or]

/-- **The component search returns the newest visible version** whenever the components are ordered
newest first (which rotation, flush and compaction maintain): it is visible, and no visible version
anywhere is newer. -/
theorem C01_component_search_newest (s : Nat) (comps : List (List Ver)) (hsd : SortedDesc comps.flatten)
    (t : Ver) (ht : physGet s comps = some t) :
    t.seq ≤ s ∧ t ∈ comps.flatten ∧ ∀ u ∈ comps.flatten, u.seq ≤ s → u.seq ≤ t.seq := by
  rw [physGet_eq_flatten] at ht
  generalize comps.flatten = l at ht hsd
  unfold topOf at ht
  refine ⟨by simpa using List.find?_some ht, List.mem_of_find?_eq_some ht, ?_⟩
  induction l with
  | nil => intro u hu; cases hu
  | cons v r ih =>
    intro u hu hus
    have hp := List.pairwise_cons.mp hsd
    by_cases hv : v.seq ≤ s
    · have : v = t := by simpa [List.find?_cons, hv] using ht
      subst this
      rcases List.mem_cons.mp hu with rfl | hu
      · exact Nat.le_refl _
      · exact Nat.le_of_lt (hp.1 u hu)
    · have ht' : List.find? (fun v => decide (v.seq ≤ s)) r = some t := by simpa [List.find?_cons, hv] using ht
      rcases List.mem_cons.mp hu with rfl | hu
      · exact absurd hus hv
      · exact ih ht' hp.2 u hu hus


/-! ## begin against a compaction's capture of the snapshot list -/

/-- **a reader is never missed by a running compaction.**  With the begin that reads the visible sequence
number and registers the snapshot in one step under the tracker's lock (which the capture takes too), in every
interleaving of commits, begins and captures: every reader registered after a compaction's capture has a
sequence number not older than the visible one at that capture — it reads the newest versions the compaction
keeps; readers registered before it are in the captured list. -/
theorem C01_begin_atomic_with_capture (ops : List BOp) (ha : ∀ op ∈ ops, atomicOp op = true) :
    (BR.run {} ops).safe := (binv_run ops {} binv_init ha).safe

/-- non-vacuity: a commit, a capture, a begin, another commit, another begin -/
example : (BR.run {} [.commit, .capture, .beginAtomic, .commit, .beginAtomic]).lateReaders = [2, 1] := by decide

/-- the repaired defect: the two steps of the old begin around a commit and a capture — the reader (sequence
number 0) is not in the captured list and is older than the capture (visible 1): the compaction drops the
version it is about to read (in the real store: `get` returned nothing for a key that had a value at the
reader's snapshot) -/
theorem fixed_begin_raced_with_compaction_capture :
    let s := BR.run {} [.load, .commit, .capture, .register]
    s.captured = some ([], 1) ∧ s.lateReaders = [0] ∧ ¬ s.safe := by
  refine ⟨by decide, by decide, ?_⟩
  intro h
  simp [BR.safe, BR.run, BR.step, BR.reg] at h
