import Skv.Lemmas.Wal
import Skv.Model.Consts
import Skv.Lemmas.WalTrunc
/-!
# C12 — commit log reads back as an exact prefix; repair keeps all valid records

Property theorems.  Model: `addRecord`/`writeAll` (writer, `src/wal/writer.rs`), `readGo`/`readAll`
(reader, `src/wal/reader.rs`), `repair`, `appendSession`, `recoverAndAppend` (`src/wal/manager.rs`,
`src/wal/recovery.rs`) in `Skv/Model/Wal.lean`.  Everything is generic in the block size `B`
(`7 < B ≤ 65542`), the checksum function and the LZ4 codec.
-/

/-- **C12.1 round trip.** Every list of records (any sizes: empty payloads, lengths leaving 0..7
bytes before a block end, records spanning any number of blocks) written from the start of a
segment reads back byte-identical, in order, followed by a clean end-of-log. -/
theorem C12_roundtrip (P : Params) (rs : List Bytes) :
    readAll P (writeAll P 0 rs).1 = (rs, .eof) := wal_roundtrip P rs

/-- **C12.4 close / reopen.** Records appended after reopening a cleanly closed segment (the
writer resumes at `len mod B`) are read back after the earlier ones, for every session split. -/
theorem C12_resume (P : Params) (rs1 rs2 : List Bytes) :
    readAll P (appendSession P (writeAll P 0 rs1).1 rs2) = (rs1 ++ rs2, .eof) := wal_resume P rs1 rs2

/-- three sessions (induction step made explicit: any number of sessions follows by repeating it) -/
theorem C12_resume_twice (P : Params) (rs1 rs2 rs3 : List Bytes) :
    readAll P (appendSession P (appendSession P (writeAll P 0 rs1).1 rs2) rs3)
      = (rs1 ++ rs2 ++ rs3, .eof) := by
  have h12 : appendSession P (writeAll P 0 rs1).1 rs2 = (writeAll P 0 (rs1 ++ rs2)).1 := by
    unfold appendSession
    have hkey : (writeAll P ((writeAll P 0 rs1).1.length % P.B) rs2).1
        = (writeAll P (writeAll P 0 rs1).2 rs2).1 := by
      rcases resume_offset P rs1 with h | ⟨h1, h2⟩
      · rw [← h]
      · rw [h1, h2]
        cases rs2 with
        | nil => simp [writeAll]
        | cons r rs => rw [writeAll_off_B]
    rw [hkey, ← (writeAll_append P rs1 rs2 0).1]
  rw [h12]
  exact wal_resume P (rs1 ++ rs2) rs3

/-- repair of an undamaged segment is the identity on its records -/
theorem C12_repair_clean (P : Params) (rs : List Bytes) :
    readAll P (repair P (writeAll P 0 rs).1) = (rs, .eof) := by
  simp only [repair, wal_roundtrip]

/-- repair is idempotent on whatever it produced (any input bytes whatsoever) -/
theorem C12_repair_idempotent (P : Params) (file : Bytes) :
    repair P (repair P file) = repair P file := by
  simp only [repair, wal_roundtrip]

/-- whatever `repair` keeps reads back cleanly: after repairing *any* byte string the segment is a
well-formed log holding exactly the records that were readable before the first error -/
theorem C12_repair_reads_back (P : Params) (file : Bytes) :
    readAll P (repair P file) = ((readAll P file).1, .eof) := by
  unfold repair
  exact wal_roundtrip P _

/-- records appended after repairing any damaged segment are read back on the next open -/
theorem C12_append_after_repair (P : Params) (file : Bytes) (rs : List Bytes) :
    readAll P (appendSession P (repair P file) rs) = ((readAll P file).1 ++ rs, .eof) := by
  unfold repair
  exact wal_resume P _ rs

/-- the constants of the real code satisfy the model's side conditions (re-checked against
`src/wal/mod.rs` on every run through the regenerated `Consts.lean`) -/
theorem C12_consts_ok :
    7 < Consts.walBlockSize ∧ Consts.walBlockSize ≤ 65535 + 7 ∧ Consts.walHeaderSize = 7 ∧
    Consts.recFull = 1 ∧ Consts.recFirst = 2 ∧ Consts.recMiddle = 3 ∧ Consts.recLast = 4 ∧
    Consts.recEmpty = 0 ∧ Consts.recSetCompression = 9 := by decide


/-- **C12.2 torn tail.** A log cut at ANY byte — a crash in the middle of a write, wherever the cut falls
with respect to fragment headers, fragment data, block padding and block boundaries — reads as a prefix
of the records that were written: never a record that was not written, never a later record without the
earlier ones, never a damaged one (for every block size above the header size, every list of records of
any sizes, every checksum function). -/
theorem C12_truncation_prefix (P : Params) (rs : List Bytes) (n : Nat) :
    (readAll P ((writeAll P 0 rs).1.take n)).1 <+: rs :=
  wal_truncation_prefix P rs n

/-- and the repaired log (what recovery leaves on disk) holds exactly that prefix and reads back clean -/
theorem C12_truncation_repair (P : Params) (rs : List Bytes) (n : Nat) :
    readAll P (repair P ((writeAll P 0 rs).1.take n)) = ((readAll P ((writeAll P 0 rs).1.take n)).1, .eof) ∧
      (readAll P ((writeAll P 0 rs).1.take n)).1 <+: rs :=
  ⟨C12_repair_reads_back P _, wal_truncation_prefix P rs n⟩


/-- **records before the damage.** If the file holds the encoding of `rs` followed by anything at all — the
rest of the log with a byte altered, a record cut off, garbage — reading returns `rs` first, complete and in
order (what follows them is decided by the checksums: end-of-log, a corruption report, or the intact rest).
With `writeAll_append` this is "every record lying wholly before the damage is returned". -/
theorem C12_records_before_damage (P : Params) (rs : List Bytes) (junk : Bytes) :
    rs <+: (readAll P ((writeAll P 0 rs).1 ++ junk)).1 := wal_records_before_damage P rs junk

/-- the same for damage inside a log of `rs1 ++ rs2`: the bytes from the end of `rs1`'s encoding on are
replaced by `junk` -/
theorem C12_damage_after_prefix (P : Params) (rs1 rs2 : List Bytes) (junk : Bytes) :
    ((writeAll P 0 (rs1 ++ rs2)).1.take (writeAll P 0 rs1).1.length = (writeAll P 0 rs1).1) ∧
    rs1 <+: (readAll P ((writeAll P 0 (rs1 ++ rs2)).1.take (writeAll P 0 rs1).1.length ++ junk)).1 := by
  have hsplit : (writeAll P 0 (rs1 ++ rs2)).1 = (writeAll P 0 rs1).1 ++ (writeAll P (writeAll P 0 rs1).2 rs2).1 := by
    exact (writeAll_append P rs1 rs2 0).1
  have htake : (writeAll P 0 (rs1 ++ rs2)).1.take (writeAll P 0 rs1).1.length = (writeAll P 0 rs1).1 := by
    rw [hsplit]; simp
  exact ⟨htake, by rw [htake]; exact wal_records_before_damage P rs1 junk⟩
