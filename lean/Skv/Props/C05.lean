import Skv.Lemmas.Pipeline
import Skv.Model.Consts
/-!
# C05 — commits become visible atomically, in one real-time-consistent total order

Model: the transition system `PState.stepThread` / `PState.begin` of `Skv/Model/Pipeline.lean`
(every step is what one committer thread does between two consecutive yield points of
`CommitPipeline::commit` / `publish`; any interleaving of any number of threads is a run).
All statements hold for every run from an initial state — any thread count, any batch sizes,
any apply-completion order, failures included unless stated otherwise.
-/
open PState

/-- initial states: any thread count, GC interval, permit count and queue capacity -/
def PState.initWith (n gc permits cap : Nat) : PState := { PState.init n with gc := gc, permits := permits, cap := cap }

theorem pinv_initWith (n gc p c : Nat) : PInv (PState.initWith n gc p c) :=
  pinv_core_same (PState.init n) _ (pinv_init n) rfl rfl rfl rfl rfl rfl
    (pcs_same _ _ (grows_core_same _ _ rfl rfl rfl rfl (fun _ h => h)) rfl (pinv_init n).pcs)

/-- the invariants hold after every run -/
theorem C05_invariant (n gc p c : Nat) (ops : List POp) :
    PInv ((PState.initWith n gc p c).run ops) ∧ ReqInv ((PState.initWith n gc p c).run ops) := by
  suffices ∀ s, PInv s → ReqInv s → PInv (s.run ops) ∧ ReqInv (s.run ops) from
    this _ (pinv_initWith n gc p c) (reqInv_init n)
  induction ops with
  | nil => intro s h hr; exact ⟨h, hr⟩
  | cons op ops ih =>
    intro s h hr
    cases op with
    | begin i req => exact ih _ (pinv_begin s h i req) (reqInv_begin s hr i req)
    | step i => exact ih _ (pinv_step s h hr i) (reqInv_step s hr i)

/-- **the horizon never moves backwards** (every operation, every state) -/
theorem C05_visible_mono (s : PState) (op : POp) : s.visible ≤ (s.apply op).visible := by
  cases op with
  | begin i req =>
    simp only [PState.apply, PState.begin]
    split
    · split <;> exact Nat.le_refl _
    · exact Nat.le_refl _
  | step i => exact visible_mono_step s i

theorem C05_visible_mono_run (s : PState) (ops : List POp) : s.visible ≤ (s.run ops).visible := by
  induction ops generalizing s with
  | nil => exact Nat.le_refl _
  | cons op ops ih => exact Nat.le_trans (C05_visible_mono s op) (ih _)

/-- **publication is FIFO**: the publish loop removes only the head of the queue and only when it
has been marked applied; nothing else ever leaves the queue. -/
theorem C05_publish_fifo (s : PState) (i : Nat) (t : Thread) (f : Nat) (k : FK) :
    (s.publishTop i t f k).queue = s.queue ∨
    ∃ b rest, s.queue = b :: rest ∧ b.applied = true ∧ (s.publishTop i t f k).queue = rest :=
  publishTop_queue s i t f k

/-- **the horizon is never strictly inside a batch**: for every allocated batch, the horizon is
either below its first or at/after its last sequence number. -/
theorem C05_horizon_on_batch_boundary (n gc p c : Nat) (ops : List POp) :
    let s := (PState.initWith n gc p c).run ops
    ∀ f cnt fl, (f, cnt, fl) ∈ s.batches → s.visible < f ∨ f + cnt - 1 ≤ s.visible :=
  (C05_invariant n gc p c ops).1.noInside

/-- **batches still in the queue are invisible**: every queued (not yet published) batch lies
entirely above the horizon. -/
theorem C05_queued_invisible (n gc p c : Nat) (ops : List POp) :
    let s := (PState.initWith n gc p c).run ops
    ∀ qb ∈ s.queue, s.visible < qb.first := by
  intro s qb hqb
  obtain ⟨a, hva, hch⟩ := (C05_invariant n gc p c ops).1.chain
  have h1 := qchain_first_ge _ _ _ hch qb hqb
  exact Nat.lt_of_lt_of_le hva h1

/-- **Atomic visibility (partial: batches whose commit did not fail).** In every reachable state,
every non-failed batch whose last sequence number is at or below the horizon is completely applied:
a reader at any horizon `≤ visible` sees all of it or (by `C05_horizon_on_batch_boundary`) none of it.
The statement for *failed* batches is false of the code — `finding_failed_commit_visible`. -/
theorem C05_atomic_partial (n gc p c : Nat) (ops : List POp) :
    let s := (PState.initWith n gc p c).run ops
    ∀ f cnt, (f, cnt, false) ∈ s.batches → f + cnt - 1 ≤ s.visible → bmem s f cnt := by
  intro s f cnt hin hle
  have hinv := (C05_invariant n gc p c ops).1
  rcases hinv.settled f cnt false hin with ⟨qb, hqb, hqf⟩ | hfl | hb
  · have := C05_queued_invisible n gc p c ops qb hqb
    have hc := (hinv.bok f cnt false hin).1
    have : s.visible < qb.first := this
    omega
  · cases hfl
  · exact hb

/-- **Real-time order.** A commit is reported successful (its completion is `ok`) only after the
horizon covers its whole batch; since the horizon is monotone and `begin` loads the current
horizon, every transaction begun after `commit()` returned sees it, and sees everything ordered
before it (`C05_atomic_partial` for all batches below the horizon). -/
theorem C05_ok_implies_visible (n gc p c : Nat) (ops : List POp) :
    let s := (PState.initWith n gc p c).run ops
    ∀ f, s.completedRes f = some .ok → ∃ cnt fl, (f, cnt, fl) ∈ s.batches ∧ f + cnt - 1 ≤ s.visible := by
  intro s f hres
  have hinv := (C05_invariant n gc p c ops).1
  apply hinv.compl f
  unfold completedRes at hres
  cases hf : s.completed.find? (fun p => p.1 == f) with
  | none => simp [hf] at hres
  | some x =>
    simp only [hf, Option.map_some, Option.some.injEq] at hres
    have hm := List.mem_of_find?_eq_some hf
    have hk := List.find?_some hf
    have : x = (f, CRes.ok) := by
      obtain ⟨x1, x2⟩ := x
      simp at hk hres; subst hk hres; rfl
    rw [← this]; exact hm

theorem C05_begin_loads_horizon (s : PState) (i : Nat) (req : CommitReq) (t : Thread)
    (ht : s.threads[i]? = some t) (hr : t.pc = .ready) :
    (s.begin i req).threads[i]? = some { t with pc := .begun s.visible, req := req } := by
  have hlt : i < s.threads.length := by
    rcases Nat.lt_or_ge i s.threads.length with h | h
    · exact h
    · rw [List.getElem?_eq_none h] at ht; cases ht
  simp [PState.begin, ht, hr, List.getElem?_set_self hlt]

/-- witness of the defect shared with C15 (known finding `failed-commit-partially-visible`):
one committer, a 2-entry batch whose apply fails at the second entry; after the failed call has
drained the queue the horizon is 2 and entry 1 of the failed batch is in the memtable. -/
def failedVisibleRun : List POp :=
  [.begin 0 { keys := [0, 1], failApplyAt := some 1 }, .step 0, .step 0, .step 0, .step 0, .step 0,
   .step 0, .step 0, .step 0, .step 0]

theorem finding_failed_commit_visible :
    let s := (PState.initWith 1 1024 7 8).run failedVisibleRun
    s.visible = 2 ∧ s.mem = [1] ∧ s.batches = [(1, 2, true)] ∧
    (s.threads.map (·.results)) = [[CRes.errApply]] := by decide

/-- the pipeline constants the model is instantiated with (regenerated from src/commit.rs):
the ring has 8 slots and the semaphore one permit fewer -/
theorem C05_consts_ok :
    Consts.maxConcurrentCommits = 8 ∧ Consts.commitPermits + 1 = Consts.maxConcurrentCommits := by decide
