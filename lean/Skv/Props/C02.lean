import Skv.Lemmas.Durable
import Skv.Lemmas.Durable2
import Skv.Props.C12
/-!
# C02 — acknowledged commits survive crashes
# C03 — crash recovery is atomic and prefix-consistent
# C07 — the store can always reopen what it wrote   (record-level durable-state machine)

Model: `DState.step` (WAL append / memtable apply + acknowledge / rotation / flush with manifest
`log_number` / asynchronous WAL clean-up) and `DState.recover` (tables plus every record of every
existing segment at or above `log_number`), at the granularity of whole batch records.  That a
record is read back whole or not at all, that a torn tail is cut off by repair and that appends
after reopening are readable is C12 (`C12_roundtrip`, `C12_repair_reads_back`,
`C12_append_after_repair`).  Crash model proved here: process crash (every completed write is kept)
at every operation boundary of every run.  Power loss (unsynced data lost) is not modelled: partial.
Hypothesis of the `_partial` theorems: `noStraddle` — no memtable rotation between a batch's WAL
append and the end of its apply; the excluded family is a known finding with a kernel-checked witness.
-/

theorem dinv_run (ops : List DOp) : ∀ d : DState, DInv d → noStraddle d.pending.isSome ops = true →
    DInv (d.run ops) := by
  induction ops with
  | nil => intro d h _; exact h
  | cons op ops ih =>
    intro d h hns
    have hstep : DInv (d.step op) := by
      apply dinv_step d h op
      intro hop; subst hop
      simp only [noStraddle, Bool.and_eq_true, Bool.not_eq_true'] at hns
      cases hp : d.pending with
      | none => rfl
      | some b => rw [hp] at hns; simp at hns
    apply ih _ hstep
    cases op with
    | walAppend =>
      simp only [noStraddle] at hns
      simp only [DState.step]
      cases hp : d.pending <;> simpa [hp] using hns
    | applyAck =>
      simp only [noStraddle] at hns
      simp only [DState.step]
      cases hp : d.pending <;> simpa [hp] using hns
    | rotate =>
      simp only [noStraddle, Bool.and_eq_true] at hns
      simpa [DState.step] using hns.2
    | flushOldest =>
      simp only [noStraddle] at hns
      simp only [DState.step]
      cases d.imms <;> simpa using hns
    | cleanupWal =>
      simp only [noStraddle] at hns
      simpa [DState.step] using hns

theorem recover_of_safe (d : DState) (h : DInv d) (b : Nat) (hb : b < d.next) : b ∈ d.recover := by
  unfold DState.recover
  rcases h.safe b hb with ht | ⟨s, hs, hge, hbs⟩
  · exact List.mem_append_left _ ht
  · apply List.mem_append_right
    simp only [List.mem_flatMap, List.mem_filter, decide_eq_true_eq]
    exact ⟨s, ⟨hs, hge⟩, hbs⟩

def AckLt (d : DState) : Prop := ∀ b ∈ d.acked, b < d.next

theorem acklt_run (ops : List DOp) : ∀ d : DState, DInv d → AckLt d → noStraddle d.pending.isSome ops = true →
    AckLt (d.run ops) := by
  induction ops with
  | nil => intro d _ h _; exact h
  | cons op ops ih =>
    intro d hi h hns
    have hinv := dinv_run [op] d hi (by
      cases op <;> simp_all [noStraddle])
    have hns' : noStraddle (d.step op).pending.isSome ops = true := by
      cases op with
      | walAppend => simp only [noStraddle] at hns; simp only [DState.step]; cases hp : d.pending <;> simpa [hp] using hns
      | applyAck => simp only [noStraddle] at hns; simp only [DState.step]; cases hp : d.pending <;> simpa [hp] using hns
      | rotate => simp only [noStraddle, Bool.and_eq_true] at hns; simpa [DState.step] using hns.2
      | flushOldest => simp only [noStraddle] at hns; simp only [DState.step]; cases d.imms <;> simpa using hns
      | cleanupWal => simp only [noStraddle] at hns; simpa [DState.step] using hns
    apply ih _ hinv _ hns'
    intro b hb
    cases op with
    | walAppend =>
      simp only [DState.run, DState.step] at hb ⊢
      cases hp : d.pending with
      | some _ => simp only [hp] at hb ⊢; exact h b hb
      | none => simp only [hp] at hb ⊢; exact Nat.lt_succ_of_lt (h b hb)
    | applyAck =>
      simp only [DState.run, DState.step] at hb ⊢
      cases hp : d.pending with
      | none => simp only [hp] at hb ⊢; exact h b hb
      | some b0 =>
        simp only [hp] at hb ⊢
        rcases List.mem_append.mp hb with hb | hb
        · exact h b hb
        · have : b = b0 := by simpa using hb
          subst this; exact hi.recLt.2.2.2 b hp
    | rotate => simp only [DState.run, DState.step] at hb ⊢; exact h b hb
    | flushOldest =>
      simp only [DState.run, DState.step] at hb ⊢
      cases hi' : d.imms with
      | nil => simp only [hi'] at hb ⊢; exact h b hb
      | cons m rest => simp only [hi'] at hb ⊢; exact h b hb
    | cleanupWal => simp only [DState.run, DState.step] at hb ⊢; exact h b hb

/-- **C02 (process crash, partial: no straddle).** After any run of commits, rotations, flushes
and WAL clean-ups, every acknowledged batch is in what recovery rebuilds. -/
theorem C02_acked_survive_process_crash_partial (ops : List DOp) (hns : noStraddle false ops = true)
    (b : Nat) (hb : b ∈ (DState.run {} ops).acked) : b ∈ (DState.run {} ops).recover := by
  have hinv := dinv_run ops {} dinv_init hns
  have hlt := acklt_run ops {} dinv_init (by intro b hb; cases hb) hns
  exact recover_of_safe _ hinv b (hlt b hb)

/-- **C03 (prefix consistency, partial: no straddle).** What recovery rebuilds is exactly the set
of batches whose WAL record was written — a prefix of the commit order that contains every
acknowledged batch and at most one unacknowledged (in-flight) batch; nothing else appears. -/
theorem C03_recovered_is_prefix_partial (ops : List DOp) (hns : noStraddle false ops = true) (b : Nat) :
    b ∈ (DState.run {} ops).recover ↔ b < (DState.run {} ops).next := by
  have hinv := dinv_run ops {} dinv_init hns
  constructor
  · intro hb
    unfold DState.recover at hb
    rcases List.mem_append.mp hb with hb | hb
    · exact hinv.recLt.2.1 b hb
    · simp only [List.mem_flatMap, List.mem_filter] at hb
      obtain ⟨s, ⟨hs, _⟩, hbs⟩ := hb
      exact hinv.recLt.1 s hs b hbs
  · exact recover_of_safe _ hinv b

theorem C03_unacked_at_most_one_partial (ops : List DOp) (hns : noStraddle false ops = true) (b : Nat)
    (hb : b < (DState.run {} ops).next) :
    b ∈ (DState.run {} ops).acked ∨ (DState.run {} ops).pending = some b :=
  (dinv_run ops {} dinv_init hns).ackedOrPending b hb

/-- **C07 (sequence floor).** Everything recovered is below the next batch number: commits made
after reopening are ordered after everything recovered. -/
theorem C07_recovered_below_next_partial (ops : List DOp) (hns : noStraddle false ops = true) (b : Nat)
    (hb : b ∈ (DState.run {} ops).recover) : b < (DState.run {} ops).next :=
  (C03_recovered_is_prefix_partial ops hns b).mp hb

/-- **C07 (idempotence).** Recovery reads the durable state without changing which records are
eligible: cleaning up the WAL afterwards (as the reopened store does) and recovering again gives
the same set of batches. -/
theorem C07_recover_after_cleanup (d : DState) (b : Nat) :
    b ∈ (d.step .cleanupWal).recover ↔ b ∈ d.recover := by
  simp only [DState.step, DState.recover, List.mem_append, List.mem_flatMap, List.mem_filter,
    decide_eq_true_eq]
  constructor
  · rintro (h | ⟨s, ⟨⟨hs, _⟩, hg⟩, hb⟩)
    · exact Or.inl h
    · exact Or.inr ⟨s, ⟨hs, by simpa using hg⟩, hb⟩
  · rintro (h | ⟨s, ⟨hs, hg⟩, hb⟩)
    · exact Or.inl h
    · exact Or.inr ⟨s, ⟨⟨hs, by simpa using hg⟩, by simpa using hg⟩, hb⟩

/-- witness of the excluded family (known finding `batch-straddles-rotation`): the record of batch 0
goes to segment 0, a rotation happens before its apply, the old memtable is flushed
(`log_number = 1`) — batch 0 is acknowledged and gone from what recovery rebuilds. -/
theorem finding_straddle :
    let d := DState.run {} [.walAppend, .rotate, .applyAck, .flushOldest]
    d.acked = [0] ∧ d.recover = [] := by decide


/-! ## after the repairs `3449869` and `0919665`: no hypothesis on where rotations fall

`D2` (Skv/Model/Durable2.lean) is the same machine with the batch logged again when its apply lands in
a memtable of a later segment, and with a recovery that may split the last segment between a table and
the new active memtable.  The theorems below quantify over EVERY run: rotations may fall between a
batch's WAL append and its apply. -/

/-- **C02 (process crash).** After any run of commits, rotations (wherever they fall), flushes and WAL
clean-ups, every acknowledged batch is in what recovery rebuilds. -/
theorem C02_acked_survive_process_crash (ops : List DOp) (b : Nat) (hb : b ∈ (D2.run {} ops).acked) :
    b ∈ (D2.run {} ops).recover :=
  acked_recoverable _ (inv2_run ops {} inv2_init) b hb

/-- **C02 (crash, reopen, crash again).** Recovery itself keeps everything recoverable, wherever it has
to cut the last segment between a table and the new active memtable. -/
theorem C02_acked_survive_reopen (ops : List DOp) (k : Nat) (b : Nat) (hb : b ∈ (D2.run {} ops).acked) :
    b ∈ ((D2.run {} ops).reopen false k).recover :=
  reopen_keeps _ (inv2_run ops {} inv2_init) k b (C02_acked_survive_process_crash ops b hb)

/-- **C03 (nothing else appears).** What recovery rebuilds are batches whose WAL record was written, and
of those at most one is unacknowledged (the batch in flight). -/
theorem C03_recovered_only_written (ops : List DOp) (b : Nat) (hb : b ∈ (D2.run {} ops).recover) :
    b ∈ (D2.run {} ops).acked ∨ (D2.run {} ops).pending = some b := by
  have hinv := inv2_run ops {} inv2_init
  apply hinv.ackedOrPending
  unfold D2.recover at hb
  rcases List.mem_append.mp hb with hb | hb
  · exact hinv.written.2.1 b hb
  · simp only [List.mem_flatMap, List.mem_filter] at hb
    obtain ⟨s, ⟨hs, _⟩, hbs⟩ := hb
    exact hinv.written.1 s hs b hbs

/-- the defect repaired by `0919665`, kernel-checked: two acknowledged batches in one segment; recovery
flushes the first to a table and records the segment as flushed — the second is gone at the next crash -/
theorem fixed_recovery_retired_a_split_segment :
    let d := D2.run {} [.walAppend, .applyAck, .walAppend, .applyAck]
    d.acked = [0, 1] ∧ (d.reopen true 1).recover = [0] ∧ (d.reopen false 1).recover = [0, 0, 1] := by decide

/-- non-vacuity: a rotation between append and apply, then the flush of the rotated memtable and the WAL
clean-up — the batch is still recovered, from its second record -/
example :
    let d := D2.run {} [.walAppend, .rotate, .applyAck, .flushOldest, .cleanupWal]
    d.acked = [0] ∧ d.recover = [0] ∧ d.segs = [(1, [0])] := by decide


/-- **C07 (opening repeatedly yields the same contents).** A reopen — also one that is itself cut short by a
crash after it flushed the first `k` replayed records of the last segment — changes nothing in what the next
recovery rebuilds: nothing is lost and nothing is added. -/
theorem C07_reopen_same_contents (ops : List DOp) (k : Nat) (b : Nat) :
    b ∈ ((D2.run {} ops).reopen false k).recover ↔ b ∈ (D2.run {} ops).recover :=
  ⟨reopen_adds_nothing _ k b, reopen_keeps _ (inv2_run ops {} inv2_init) k b⟩


/-- **C07 (new commits are ordered after everything recovered).** For every run — rotations wherever they
fall — everything recovery rebuilds lies below the next batch number, so a commit made after reopening is
never shadowed by recovered data. -/
theorem C07_recovered_below_next (ops : List DOp) (b : Nat) (hb : b ∈ (D2.run {} ops).recover) :
    b < (D2.run {} ops).next := by
  have hinv := inv2_run ops {} inv2_init
  unfold D2.recover at hb
  rcases List.mem_append.mp hb with hb | hb
  · exact hinv.written.2.1 b hb
  · simp only [List.mem_flatMap, List.mem_filter] at hb
    obtain ⟨s, ⟨hs, _⟩, hbs⟩ := hb
    exact hinv.written.1 s hs b hbs
