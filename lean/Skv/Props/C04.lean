import Skv.Lemmas.Oracle
import Skv.Model.Consts
/-!
# C04 — no lost updates: first committer wins

Model: `Oracle` (literal port of `src/oracle.rs`, with the repaired `rollback`) inside the
transition system `OState.step`, whose `commit` event is the critical section of
`CommitPipeline::commit` (check → seq allocation → publish, one atomic step under `write_mutex`)
and whose `fail` event is the rollback after a WAL or apply failure.  Keys are fingerprints:
a fingerprint collision can only add conflicts, never hide one.  All statements hold for every
GC interval (the code's value is `Consts.gcInterval`) and every event sequence.
-/
open Oracle

def OState.run (gc : Nat) (s : OState) : List OEv → OState
  | [] => s
  | ev :: evs => OState.run gc (s.step gc ev).1 evs

/-- the soundness invariant holds in every reachable state -/
theorem C04_invariant (gc : Nat) (evs : List OEv) : OInv (OState.init.run gc evs) := by
  suffices ∀ s, OInv s → OInv (s.run gc evs) from this _ oinv_init
  induction evs with
  | nil => intro s h; exact h
  | cons ev evs ih => intro s h; exact ih _ (oinv_step gc s h ev)

/-- **check is sound.** In every reachable state, if `check keys start` succeeds then no live
batch (published, not rolled back — committed or still in flight) with a stamp above `start`
wrote any of the keys: a successful check never overlooks a commit made after the checker began. -/
theorem C04_check_sound (gc : Nat) (evs : List OEv) (keys : List Nat) (start : Nat) :
    let s := OState.init.run gc evs
    s.o.check keys start = .ok () → ∀ b ∈ s.live, start < b.stamp → ¬ sharesKey b.keys keys :=
  fun hok => check_sound _ (C04_invariant gc evs) keys start hok

/-- **First committer wins.** In every reachable state, of any two live batches that share a key
the later one began at or after the earlier one's commit stamp, i.e. their lifetimes did not
overlap: two transactions that overlap in time and write the same key never both commit —
including across garbage collection of the conflict map and across rollbacks of failed batches. -/
theorem C04_first_committer_wins (gc : Nat) (evs : List OEv) :
    (OState.init.run gc evs).live.Pairwise (fun a b => sharesKey a.keys b.keys → a.stamp ≤ b.start) :=
  (C04_invariant gc evs).fcw

/-- the failure path keeps the invariant (full strength: any live batch may fail at any time) -/
theorem C04_rollback_preserves (s : OState) (h : OInv s) (b : OBatch) (hb : b ∈ s.live) :
    OInv { s with o := s.o.rollback b.keys b.stamp, live := s.live.filter (fun x => x.stamp != b.stamp) } :=
  oinv_fail s h b hb

/-- **GC is safe for registered transactions.** The kept window only ever moves to the clamped
`oldest_active` passed by the committer, so a transaction whose start is not above... below it is
never pruned: if every registered start `r` satisfies `keptSince ≤ r` and `oa ≤ r`, this still
holds after the step, hence registered transactions never get `retry`. -/
theorem C04_gc_safe (gc : Nat) (s : OState) (keys : List Nat) (start oa : Nat) (regs : List Nat)
    (h1 : ∀ r ∈ regs, s.o.keptSince ≤ r) (h2 : ∀ r ∈ regs, min oa start ≤ r) :
    ∀ r ∈ regs, (s.step gc (.commit keys start oa)).1.o.keptSince ≤ r := by
  intro r hr
  simp only [OState.step]
  split
  · exact h1 r hr
  · split
    · exact h1 r hr
    · dsimp only
      rcases publish_keptSince gc s.o keys s.next keys.length (min oa start) with h | ⟨h, _⟩
      · rw [h]; exact h1 r hr
      · rw [h]; exact h2 r hr

/-- the kept window never moves backwards (so `retry` is permanent for a given start) -/
theorem C04_keptSince_mono (gc : Nat) (s : OState) (ev : OEv) :
    s.o.keptSince ≤ (s.step gc ev).1.o.keptSince := by
  cases ev with
  | commit keys start oa =>
    simp only [OState.step]
    split
    · exact Nat.le_refl _
    · split
      · exact Nat.le_refl _
      · dsimp only
        rcases publish_keptSince gc s.o keys s.next keys.length (min oa start) with h | ⟨h, h'⟩
        · rw [h]; exact Nat.le_refl _
        · rw [h]; exact Nat.le_of_lt h'
  | fail stamp =>
    simp only [OState.step]
    split <;> exact Nat.le_refl _

/-! ### no false aborts (partial: traces without failed commits) -/

def noFail : List OEv → Prop
  | [] => True
  | .fail _ :: _ => False
  | .commit .. :: evs => noFail evs

/-- every entry of the map is the stamp of a live batch that wrote the key -/
def Exact (s : OState) : Prop :=
  ∀ k e, lookup s.o.recent k = some e → ∃ b ∈ s.live, b.stamp = e.seq ∧ k ∈ b.keys

theorem exact_commit (gc : Nat) (s : OState) (hi : OInv s) (h : Exact s) (keys : List Nat) (start oa : Nat) :
    Exact (s.step gc (.commit keys start oa)).1 := by
  simp only [OState.step]
  split
  · exact h
  · split
    · exact h
    · intro k e he
      dsimp only at he ⊢
      rw [publish_lookup gc s.o keys s.next keys.length (min oa start) k hi.nodup] at he
      by_cases hk : k ∈ keys
      · simp only [hk, if_true, Option.filter] at he
        split at he
        · have he := Option.some.inj he
          refine ⟨⟨keys, s.next + keys.length - 1, start⟩, by simp, ?_, hk⟩
          rw [← he, stampOf_seq]
        · cases he
      · simp only [hk, if_false] at he
        cases hl : lookup s.o.recent k with
        | none => simp [hl, Option.filter] at he
        | some e0 =>
          simp only [hl, Option.filter] at he
          split at he
          · have he := Option.some.inj he
            obtain ⟨b, hb, hbs, hbk⟩ := h k e0 hl
            exact ⟨b, List.mem_append_left _ hb, by rw [← he]; exact hbs, hbk⟩
          · cases he

/-- **No false aborts (partial).** On every trace without failed commits: if `check` reports a
conflict then some live batch with a stamp above `start` really wrote one of the keys
(fingerprints taken as keys), and `retry` is reported only below the kept window.  The full
statement (traces *with* failures) is false of the code: see `finding_ghost_stamp`. -/
theorem C04_no_false_abort_partial (gc : Nat) (evs : List OEv) (hnf : noFail evs)
    (keys : List Nat) (start : Nat) :
    let s := OState.init.run gc evs
    (s.o.check keys start = .error .conflict → ∃ b ∈ s.live, start < b.stamp ∧ sharesKey b.keys keys) ∧
    (s.o.check keys start = .error .retry → start < s.o.keptSince) := by
  have hex : Exact (OState.init.run gc evs) := by
    suffices ∀ s, OInv s → Exact s → Exact (s.run gc evs) from
      this _ oinv_init (by intro k e h; simp [OState.init, Oracle.empty, lookup] at h)
    induction evs with
    | nil => intro s _ h; exact h
    | cons ev evs ih =>
      intro s hi h
      cases ev with
      | fail st => exact absurd hnf (by simp [noFail])
      | commit keys start oa =>
        exact ih (by simpa [noFail] using hnf) _ (oinv_step gc s hi _) (exact_commit gc s hi h keys start oa)
  intro s
  refine ⟨?_, ?_⟩
  · intro hc
    unfold Oracle.check at hc
    split at hc
    · cases hc
    · split at hc
      · rename_i hany
        simp only [List.any_eq_true] at hany
        obtain ⟨k, hk, hm⟩ := hany
        cases hl : lookup s.o.recent k with
        | none => simp [hl] at hm
        | some e =>
          simp only [hl, decide_eq_true_eq] at hm
          obtain ⟨b, hb, hbs, hbk⟩ := hex k e hl
          exact ⟨b, hb, by omega, k, hbk, hk⟩
      · cases hc
  · intro hc
    unfold Oracle.check at hc
    split at hc
    · assumption
    · split at hc <;> cases hc

/-- witness of the remaining defect (known finding `ghost-stamp-after-double-rollback`):
three commits of key 0, the 2nd and the 3rd fail in that order; a transaction that began at 1
(after the only surviving commit, stamp 1) is refused although no live batch is newer. -/
def ghostTrace : List OEv :=
  [.commit [0] 0 0, .commit [0] 1 0, .commit [0] 2 0, .fail 2, .fail 3]

def isConflict : Except CErr Unit → Bool
  | .error .conflict => true
  | _ => false

theorem finding_ghost_stamp :
    isConflict ((OState.init.run 1024 ghostTrace).o.check [0] 1) = true ∧
    (OState.init.run 1024 ghostTrace).live.map (·.stamp) = [1] := by decide

/-- the GC interval of the code is positive (a zero interval would sweep on every publish) -/
theorem C04_consts_ok : 0 < Consts.gcInterval := by decide
