import Skv.Props.C01
/-!
# C06 — flush, compaction, caching and reopen never change query answers

Per key, the physical arrangement is a list of components (memtables and tables in search order)
each holding versions newest first.  Rotation, flush and reopen move whole components without
touching their contents, so the flattened version list — hence every answer — is literally
unchanged; compaction replaces the versions of a key by `compactKey` of them, and that preserves
the answer of every registered snapshot (C01) *and of every later reader* (`C06_compaction_tip`):
in particular a deleted or overwritten key never shows an older value again, also when its
tombstone is discarded at the last level.
-/

/-- what a reader that begins after the compaction (horizon above every version) reads -/
def readTip (vs : List Ver) : Option Ver := topValue vs

/-- **Compaction never changes the answer for later readers** (every level, every configuration,
every snapshot set): the newest version's value is preserved; at the last level a dropped
tombstone and "nothing" are the same answer. -/
theorem C06_compaction_tip (c : CCfg) (snaps : List Nat) (vs : List Ver)
    (hs : SortedAsc snaps) (hsd : SortedDesc vs) :
    readTip (compactKey c snaps vs) = readTip vs := by
  have h := compactKey_reads_ok c snaps vs hs hsd
  unfold readsOK at h
  simp only [Bool.and_eq_true, List.all_eq_true] at h
  have ht := h.1 none (by simp [observers])
  unfold topOk at ht
  unfold readTip
  simp only [visOf] at ht
  split at ht
  · simp only [beq_iff_eq] at ht; exact ht.symm
  · simp only [beq_iff_eq] at ht; exact (topValue_eq_of_head _ _ ht).symm

/-- compaction invents nothing and keeps the order -/
theorem C06_compaction_sublist (c : CCfg) (snaps : List Nat) (vs : List Ver) :
    (compactKey c snaps vs).Sublist vs := compactGo_sublist c snaps _ _ vs _ _

/-- above the last level the newest version itself (tombstones included) is kept, so it keeps
masking whatever lies in deeper levels -/
theorem C06_nonbottom_keeps_newest (c : CCfg) (snaps : List Nat) (v : Ver) (rest : List Ver)
    (hb : c.bottom = false) : (compactKey c snaps (v :: rest)).head? = some v := by
  have hldb : latestDeleteAtBottom c snaps (v :: rest) = false := by simp [latestDeleteAtBottom, hb]
  have hk := keepVer_latest c snaps (List.any (v :: rest) fun v => v.kind == VKind.replace) v
  simp only [compactKey, hldb, compactGo, hk, if_true, List.head?_cons]

/-- moving whole components (rotation: active → immutable; flush: memtable → table; reopen: the same
tables again) does not change the flattened version list, hence no answer -/
theorem C06_rearrangement_invisible (s : Nat) (before after : List (List Ver))
    (h : before.flatten = after.flatten) : physGet s before = physGet s after := by
  rw [physGet_eq_flatten, physGet_eq_flatten, h]

/-- replacing some components of a key by their compaction keeps every registered reader's and
every later reader's answer, given the merged input is what the compaction saw -/
theorem C06_compaction_in_place (c : CCfg) (snaps : List Nat) (pre merged post : List Ver)
    (hs : SortedAsc snaps) (hsd : SortedDesc merged) (s : Nat) (hmem : s ∈ snaps)
    (hpre : ∀ v ∈ pre, s < v.seq) :
    readAt s (pre ++ compactKey c snaps merged) = readAt s (pre ++ merged) := by
  rw [C01_later_commits_invisible s pre _ hpre, C01_later_commits_invisible s pre _ hpre]
  exact C01_compaction_stable c snaps merged hs hsd s hmem
