import Skv.Model.Sst
/-! order facts about internal keys and `firstGE` on sorted lists -/

def IKey.lt (a b : IKey) : Prop := a.uk < b.uk ∨ (a.uk = b.uk ∧ b.seq < a.seq)

theorem ikLt_iff (a b : IKey) : ikLt a b = true ↔ IKey.lt a b := by
  simp [ikLt, IKey.lt]

theorem ikLt_irrefl (a : IKey) : ikLt a a = false := by
  cases h : ikLt a a with
  | false => rfl
  | true =>
    rcases (ikLt_iff a a).mp h with h | ⟨_, h⟩
    · exact absurd h (List.lt_irrefl _)
    · exact absurd h (Nat.lt_irrefl _)

theorem ikLt_trans {a b c : IKey} (h1 : ikLt a b = true) (h2 : ikLt b c = true) : ikLt a c = true := by
  rw [ikLt_iff] at *
  rcases h1 with h1 | ⟨e1, s1⟩ <;> rcases h2 with h2 | ⟨e2, s2⟩
  · exact Or.inl (List.lt_trans h1 h2)
  · exact Or.inl (e2 ▸ h1)
  · exact Or.inl (e1 ▸ h2)
  · exact Or.inr ⟨e1.trans e2, Nat.lt_trans s2 s1⟩

theorem uk_trichotomy (a b : List Nat) : a < b ∨ a = b ∨ b < a := by
  by_cases h1 : a < b
  · exact Or.inl h1
  · by_cases h2 : b < a
    · exact Or.inr (Or.inr h2)
    · have h1' : b ≤ a := List.not_lt.mp h1
      have h2' : a ≤ b := List.not_lt.mp h2
      exact Or.inr (Or.inl (List.le_antisymm h2' h1'))

theorem ikLt_total (a b : IKey) : ikLt a b = true ∨ a = b ∨ ikLt b a = true := by
  rcases uk_trichotomy a.uk b.uk with h | h | h
  · exact Or.inl ((ikLt_iff a b).mpr (Or.inl h))
  · rcases Nat.lt_trichotomy a.seq b.seq with s | s | s
    · exact Or.inr (Or.inr ((ikLt_iff b a).mpr (Or.inr ⟨h.symm, s⟩)))
    · refine Or.inr (Or.inl ?_)
      cases a; cases b; simp_all
    · exact Or.inl ((ikLt_iff a b).mpr (Or.inr ⟨h, s⟩))
  · exact Or.inr (Or.inr ((ikLt_iff b a).mpr (Or.inl h)))

theorem ikLt_asymm {a b : IKey} (h : ikLt a b = true) : ikLt b a = false := by
  cases h' : ikLt b a with
  | false => rfl
  | true => have := ikLt_trans h h'; rw [ikLt_irrefl] at this; cases this

/-- `a ≤ b` -/
theorem ikLe_iff (a b : IKey) : ikLe a b = true ↔ ikLt b a = false := by simp [ikLe]

theorem ikLt_of_le_of_lt {a b c : IKey} (h1 : ikLe a b = true) (h2 : ikLt b c = true) : ikLt a c = true := by
  rw [ikLe_iff] at h1
  rcases ikLt_total a b with h | h | h
  · exact ikLt_trans h h2
  · subst h; exact h2
  · rw [h] at h1; cases h1

theorem ikLt_of_lt_of_le {a b c : IKey} (h1 : ikLt a b = true) (h2 : ikLe b c = true) : ikLt a c = true := by
  rw [ikLe_iff] at h2
  rcases ikLt_total b c with h | h | h
  · exact ikLt_trans h1 h
  · subst h; exact h1
  · rw [h] at h2; cases h2

theorem ikLe_of_lt {a b : IKey} (h : ikLt a b = true) : ikLe a b = true := by
  rw [ikLe_iff]; exact ikLt_asymm h

theorem ikLe_refl (a : IKey) : ikLe a a = true := by rw [ikLe_iff]; exact ikLt_irrefl a

theorem not_lt_of_le {a b : IKey} (h : ikLe a b = true) : ikLt b a = false := (ikLe_iff a b).mp h

/-! ### sorted entry lists -/

theorem sortedEnts_cons {a : Ent} {l : List Ent} (h : sortedEnts (a :: l) = true) : sortedEnts l = true := by
  cases l with
  | nil => rfl
  | cons b rest => simp [sortedEnts] at h; exact h.2

/-- in a sorted list every later key is above the head -/
theorem sortedEnts_head_lt {a : Ent} {l : List Ent} (h : sortedEnts (a :: l) = true) :
    ∀ e ∈ l, ikLt a.k e.k = true := by
  induction l generalizing a with
  | nil => intro e he; cases he
  | cons b rest ih =>
    simp only [sortedEnts, Bool.and_eq_true] at h
    intro e he
    rcases List.mem_cons.mp he with he | he
    · subst he; exact h.1
    · exact ikLt_trans h.1 (ih h.2 e he)

theorem sortedEnts_append {a b : List Ent} (h : sortedEnts (a ++ b) = true) :
    sortedEnts a = true ∧ sortedEnts b = true := by
  induction a with
  | nil => exact ⟨rfl, h⟩
  | cons x xs ih =>
    have hx := sortedEnts_cons h
    have ⟨h1, h2⟩ := ih hx
    refine ⟨?_, h2⟩
    cases xs with
    | nil => rfl
    | cons y ys =>
      simp only [List.cons_append, sortedEnts, Bool.and_eq_true] at h ⊢
      exact ⟨h.1, h1⟩

/-! ### `firstGE` -/

theorem firstGE_cons (e : Ent) (es : List Ent) (t : IKey) :
    firstGE (e :: es) t = if ikLt e.k t then firstGE es t + 1 else 0 := by
  unfold firstGE; simp only [List.takeWhile_cons]; split <;> simp

theorem firstGE_le (es : List Ent) (t : IKey) : firstGE es t ≤ es.length := by
  induction es with
  | nil => simp [firstGE]
  | cons x xs ih => rw [firstGE_cons]; split <;> simp <;> omega

/-- every entry before the position is below the target -/
theorem firstGE_before (es : List Ent) (t : IKey) (i : Nat) (hi : i < firstGE es t) :
    ∃ e, es[i]? = some e ∧ ikLt e.k t = true := by
  induction es generalizing i with
  | nil => simp [firstGE] at hi
  | cons x xs ih =>
    rw [firstGE_cons] at hi
    split at hi
    · rename_i hx
      cases i with
      | zero => exact ⟨x, rfl, hx⟩
      | succ i => simpa using ih i (by omega)
    · omega

/-- the entry at the position, if any, is not below the target -/
theorem firstGE_at (es : List Ent) (t : IKey) (e : Ent) (h : es[firstGE es t]? = some e) :
    ikLt e.k t = false := by
  induction es with
  | nil => simp at h
  | cons x xs ih =>
    rw [firstGE_cons] at h
    split at h
    · simpa using ih (by simpa using h)
    · rename_i hx
      have : x = e := by simpa using h
      subst this; simpa using hx

/-- in a sorted list every entry from the position on is not below the target -/
theorem firstGE_after (es : List Ent) (hs : sortedEnts es = true) (t : IKey) (i : Nat) (e : Ent)
    (hi : firstGE es t ≤ i) (he : es[i]? = some e) : ikLt e.k t = false := by
  induction es generalizing i with
  | nil => simp at he
  | cons x xs ih =>
    rw [firstGE_cons] at hi
    split at hi
    · cases i with
      | zero => omega
      | succ i => exact ih (sortedEnts_cons hs) i (by omega) (by simpa using he)
    · rename_i hx
      cases i with
      | zero =>
        have : x = e := by simpa using he
        subst this; simpa using hx
      | succ i =>
        have hmem : e ∈ xs := List.mem_of_getElem? (by simpa using he)
        have hlt := sortedEnts_head_lt hs e hmem
        cases h : ikLt e.k t with
        | false => rfl
        | true => have := ikLt_trans hlt h; simp_all

theorem firstGE_all_lt (es : List Ent) (t : IKey) (h : ∀ e ∈ es, ikLt e.k t = true) :
    firstGE es t = es.length := by
  induction es with
  | nil => rfl
  | cons x xs ih =>
    rw [firstGE_cons, h x (List.mem_cons_self), if_pos rfl, ih (fun e he => h e (List.mem_cons_of_mem _ he))]
    rfl

theorem firstGE_append_all_lt (a b : List Ent) (t : IKey) (h : ∀ e ∈ a, ikLt e.k t = true) :
    firstGE (a ++ b) t = a.length + firstGE b t := by
  induction a with
  | nil => simp
  | cons x xs ih =>
    rw [List.cons_append, firstGE_cons, h x (List.mem_cons_self), if_pos rfl,
      ih (fun e he => h e (List.mem_cons_of_mem _ he))]
    simp; omega

theorem firstGE_append_stop (a b : List Ent) (t : IKey) (h : firstGE a t < a.length) :
    firstGE (a ++ b) t = firstGE a t := by
  induction a with
  | nil => simp at h
  | cons x xs ih =>
    rw [List.cons_append, firstGE_cons, firstGE_cons]
    rw [firstGE_cons] at h
    split
    · rename_i hx; rw [if_pos hx] at h; rw [ih (by simpa using h)]
    · rfl

theorem firstGE_head_ge (es : List Ent) (t : IKey) (e : Ent) (h : es.head? = some e)
    (hge : ikLt e.k t = false) : firstGE es t = 0 := by
  cases es with
  | nil => rfl
  | cons x xs =>
    have : x = e := by simpa using h
    subst this
    rw [firstGE_cons, hge]; rfl

/-- same facts for key lists (separators) -/
theorem firstGEk_cons (k : IKey) (ks : List IKey) (t : IKey) :
    firstGEk (k :: ks) t = if ikLt k t then firstGEk ks t + 1 else 0 := by
  unfold firstGEk; simp only [List.takeWhile_cons]; split <;> simp

theorem firstGEk_le (ks : List IKey) (t : IKey) : firstGEk ks t ≤ ks.length := by
  induction ks with
  | nil => simp [firstGEk]
  | cons x xs ih => rw [firstGEk_cons]; split <;> simp <;> omega

theorem firstGEk_append_all_lt (a b : List IKey) (t : IKey) (h : ∀ k ∈ a, ikLt k t = true) :
    firstGEk (a ++ b) t = a.length + firstGEk b t := by
  induction a with
  | nil => simp
  | cons x xs ih =>
    rw [List.cons_append, firstGEk_cons, h x (List.mem_cons_self), if_pos rfl,
      ih (fun e he => h e (List.mem_cons_of_mem _ he))]
    simp; omega

theorem firstGEk_append_stop (a b : List IKey) (t : IKey) (h : firstGEk a t < a.length) :
    firstGEk (a ++ b) t = firstGEk a t := by
  induction a with
  | nil => simp at h
  | cons x xs ih =>
    rw [List.cons_append, firstGEk_cons, firstGEk_cons]
    rw [firstGEk_cons] at h
    split
    · rename_i hx; rw [if_pos hx] at h; rw [ih (by simpa using h)]
    · rfl
