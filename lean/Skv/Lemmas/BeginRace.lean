import Skv.Model.BeginRace

/-- invariant of the atomic protocol: nobody is between the two steps, the capture's visible number is not
above the current one, late readers are not older than the capture -/
structure BInv (s : BR) : Prop where
  noLoaded : s.loaded = none
  capLe : ∀ l v, s.captured = some (l, v) → v ≤ s.visible
  safe : s.safe

theorem binv_init : BInv {} := ⟨rfl, (fun l v h => nomatch h), trivial⟩

theorem binv_step (s : BR) (h : BInv s) (op : BOp) (ha : atomicOp op = true) : BInv (s.step op) := by
  obtain ⟨h1, h2, h3⟩ := h
  cases op with
  | load => cases ha
  | register => cases ha
  | commit =>
    refine ⟨h1, ?_, h3⟩
    intro l v hc
    exact Nat.le_succ_of_le (h2 l v hc)
  | capture =>
    refine ⟨h1, ?_, ?_⟩
    · intro l v hc
      simp only [BR.step, Option.some.injEq, Prod.mk.injEq] at hc
      show v ≤ s.visible
      omega
    · simp [BR.step, BR.safe]
  | beginAtomic =>
    refine ⟨h1, ?_, ?_⟩
    · intro l v hc
      exact h2 l v (by simpa [BR.step, BR.reg] using hc)
    · unfold BR.safe at h3 ⊢
      cases hc : s.captured with
      | none => simp [BR.step, BR.reg, hc]
      | some p =>
        obtain ⟨l, v⟩ := p
        simp only [hc] at h3
        simp only [BR.step, BR.reg, hc, Option.isSome_some, if_true]
        intro q hq
        rcases List.mem_cons.mp hq with rfl | hq
        · exact h2 l v hc
        · exact h3 q hq

theorem binv_run (ops : List BOp) (s : BR) (h : BInv s) (ha : ∀ op ∈ ops, atomicOp op = true) : BInv (s.run ops) := by
  induction ops generalizing s with
  | nil => exact h
  | cons op rest ih =>
    exact ih _ (binv_step s h op (ha op List.mem_cons_self)) (fun o ho => ha o (List.mem_cons_of_mem _ ho))
