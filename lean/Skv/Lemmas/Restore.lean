import Skv.Model.Restore

theorem find_mem_fst {α : Type} [BEq α] [LawfulBEq α] {β : Type} (l : List (α × β)) (k : α) (p : α × β)
    (h : l.find? (·.1 == k) = some p) : p ∈ l ∧ p.1 = k := by
  have h1 := List.mem_of_find?_eq_some h
  have h2 := List.find?_some h
  exact ⟨h1, by simpa using h2⟩

/-- a read through a coherent cache returns the block of the current file -/
theorem readBlock_truth (s : RStore) (h : s.coherent) (id off : Nat) (b : Nat)
    (hx : s.file id ≠ none) (hr : (s.readBlock id off).2 = some b) : s.truth id off = some b := by
  unfold RStore.readBlock at hr
  cases hc : s.cached id off with
  | some c =>
    simp only [hc] at hr
    cases hr
    unfold RStore.cached at hc
    cases hf : s.cache.find? (·.1 == (id, off)) with
    | none => simp [hf] at hc
    | some e =>
      simp only [hf, Option.map_some, Option.some.injEq] at hc
      obtain ⟨hm, hk⟩ := find_mem_fst s.cache (id, off) e hf
      have hcoh := (h.1 e hm).2
      cases hfile : s.file id with
      | none => exact absurd hfile hx
      | some bl =>
        have := hcoh bl (by rw [hk]; exact hfile)
        unfold RStore.truth
        rw [hfile]
        simp only [Option.bind_some]
        rw [hk] at this
        simpa [hc] using this
  | none =>
    simp only [hc] at hr
    unfold RStore.truth
    cases hb : (s.file id).bind (fun bl => bl[off]?) with
    | none => simp [hb] at hr
    | some b' => simp only [hb] at hr; exact hr

theorem coherent_init : ({} : RStore).coherent := by
  constructor <;> intro e he <;> cases he

theorem file_writeTable (s : RStore) (blocks : List Nat) (id : Nat) :
    (s.writeTable blocks).file id = if id = s.nextId then some blocks else s.file id := by
  unfold RStore.writeTable RStore.file
  simp only [List.find?_cons]
  by_cases h : id = s.nextId
  · subst h; simp
  · have : (s.nextId == id) = false := by simp; omega
    simp [this, h]

theorem coherent_writeTable (s : RStore) (h : s.coherent) (blocks : List Nat) : (s.writeTable blocks).coherent := by
  constructor
  · intro e he
    have he' : e ∈ s.cache := he
    obtain ⟨h1, h2⟩ := h.1 e he'
    refine ⟨by show e.1.1 < s.nextId + 1; omega, ?_⟩
    intro bl hbl
    rw [file_writeTable] at hbl
    have hne : e.1.1 ≠ s.nextId := by omega
    simp only [hne, if_false] at hbl
    exact h2 bl hbl
  · intro f hf
    have : f ∈ (s.nextId, blocks) :: s.files := hf
    rcases List.mem_cons.mp this with h1 | h1
    · rw [h1]; show s.nextId < s.nextId + 1; omega
    · have := h.2 f h1; show f.1 < s.nextId + 1; omega

theorem find_filter_ne (l : List (Nat × List Nat)) (d id : Nat) (p : Nat × List Nat)
    (h : (l.filter (fun x => x.1 != d)).find? (fun x => x.1 == id) = some p) :
    l.find? (fun x => x.1 == id) = some p := by
  induction l with
  | nil => simp at h
  | cons x xs ih =>
    simp only [List.filter_cons] at h
    by_cases hx : (x.1 != d) = true
    · simp only [hx, if_true, List.find?_cons] at h ⊢
      by_cases hk : (x.1 == id) = true
      · simp only [hk] at h ⊢; exact h
      · simp only [hk] at h ⊢; exact ih h
    · simp only [hx] at h
      simp only [List.find?_cons]
      by_cases hk : (x.1 == id) = true
      · -- x is the deleted table and has the id looked for: the filtered list cannot contain that id
        exfalso
        have hxd : x.1 = d := by simpa using hx
        have hxi : x.1 = id := by simpa using hk
        have hm := List.mem_of_find?_eq_some h
        have hp := List.find?_some h
        have := (List.mem_filter.mp hm).2
        simp at this hp
        omega
      · simp only [hk]; exact ih h

theorem file_deleteTable_some (s : RStore) (d id : Nat) (bl : List Nat)
    (h : (s.deleteTable d).file id = some bl) : s.file id = some bl := by
  unfold RStore.deleteTable RStore.file at *
  simp only at h
  cases hf : (s.files.filter (fun x => x.1 != d)).find? (fun x => x.1 == id) with
  | none => simp [hf] at h
  | some p =>
    simp only [hf, Option.map_some, Option.some.injEq] at h
    rw [find_filter_ne s.files d id p hf]
    simp [h]

theorem coherent_deleteTable (s : RStore) (h : s.coherent) (d : Nat) : (s.deleteTable d).coherent := by
  constructor
  · intro e he
    obtain ⟨h1, h2⟩ := h.1 e he
    exact ⟨h1, fun bl hbl => h2 bl (file_deleteTable_some s d e.1.1 bl hbl)⟩
  · intro f hf
    exact h.2 f (List.mem_filter.mp hf).1

theorem coherent_readBlock (s : RStore) (h : s.coherent) (id off : Nat) : (s.readBlock id off).1.coherent := by
  unfold RStore.readBlock
  cases hc : s.cached id off with
  | some c => exact h
  | none =>
    simp only
    cases hb : (s.file id).bind (fun bl => bl[off]?) with
    | none => exact h
    | some b =>
      simp only
      constructor
      · intro e he
        rcases List.mem_cons.mp he with h1 | h1
        · subst h1
          cases hf : s.file id with
          | none => simp [hf] at hb
          | some bl =>
            simp only [hf, Option.bind_some] at hb
            refine ⟨?_, fun bl' hbl' => by
              have : (RStore.file { files := s.files, nextId := s.nextId, cache := ((id, off), b) :: s.cache } id) = s.file id := rfl
              rw [this, hf] at hbl'; cases hbl'; exact hb⟩
            -- the table exists, so its id is below the counter
            unfold RStore.file at hf
            cases hfi : s.files.find? (·.1 == id) with
            | none => simp [hfi] at hf
            | some p =>
              obtain ⟨hm, hk⟩ := find_mem_fst s.files id p hfi
              have := h.2 p hm
              show id < s.nextId
              omega
        · exact h.1 e h1
      · exact h.2

/-- **the repaired restore re-establishes coherence** whatever the checkpoint -/
theorem coherent_restore_clear (s : RStore) (c : Ckpt) (hc : ∀ f ∈ c.files, f.1 < c.nextId) :
    (s.restore c true).coherent := by
  constructor
  · intro e he; simp [RStore.restore] at he
  · exact hc

/-- a checkpoint of a coherent store satisfies the side condition -/
theorem checkpoint_ids (s : RStore) (h : s.coherent) : ∀ f ∈ s.checkpoint.files, f.1 < s.checkpoint.nextId := h.2

/-- witness of the defect: checkpoint, write table 1 and read it (cached), restore WITHOUT clearing,
write a new table (it gets id 1 again): its block is served from the discarded timeline -/
theorem restore_without_clear_serves_stale :
    let s0 : RStore := {}
    let ck := s0.checkpoint
    let s1 := s0.writeTable [111]
    let s2 := (s1.readBlock 1 0).1
    let s3 := s2.restore ck false
    let s4 := s3.writeTable [222]
    (s4.readBlock 1 0).2 = some 111 ∧ s4.truth 1 0 = some 222 := by decide

/-- the late clean-up never removes a segment the current manifest needs -/
theorem cleanup_keeps_needed (segs : List Nat) (scheduled logNumber s : Nat) (hs : s ∈ segs) (hn : logNumber ≤ s) :
    s ∈ cleanupSegments segs (min scheduled logNumber) := by
  unfold cleanupSegments
  simp only [List.mem_filter, decide_eq_true_eq]
  exact ⟨hs, by omega⟩

/-- witness: with the number computed before the restore alone, the live segment goes -/
theorem late_cleanup_deletes_live_segment : (3 : Nat) ∉ cleanupSegments [3] 5 := by decide
