import Skv.Model.RestoreIdx

/-- the index over the value log shows exactly the versions of `l`, all of them visible -/
def Shows (vlog : List Nat) (index : List IEnt) (seq : Nat) (l : List (Nat × Nat)) : Prop :=
  index.map (fun e => (e.key, vlog[e.pos]?)) = l.map (fun p => (p.1, some p.2)) ∧ ∀ e ∈ index, e.seq ≤ seq

def Rel (c : VStore) (a : ASpec) : Prop :=
  Shows c.vlog c.index c.seq a.log ∧
  match c.saved, a.saved with
  | none, none => True
  | some ck, some l => ∃ ix, ck.index = some ix ∧ Shows ck.vlog ix ck.seq l
  | _, _ => False

theorem shows_history (vlog : List Nat) (index : List IEnt) (seq : Nat) (l : List (Nat × Nat))
    (h : Shows vlog index seq l) (k : Nat) :
    (index.filter (fun e => e.key == k && decide (e.seq ≤ seq))).map (fun e => vlog[e.pos]?) = specHist l k := by
  obtain ⟨hm, hs⟩ := h
  unfold specHist
  induction index generalizing l with
  | nil =>
    cases l with
    | nil => rfl
    | cons p ps => simp at hm
  | cons e es ih =>
    cases l with
    | nil => simp at hm
    | cons p ps =>
      simp only [List.map_cons, List.cons.injEq, Prod.mk.injEq] at hm
      obtain ⟨⟨hk, hv⟩, hrest⟩ := hm
      have hes : ∀ x ∈ es, x.seq ≤ seq := fun x hx => hs x (List.mem_cons_of_mem _ hx)
      have he : e.seq ≤ seq := hs e List.mem_cons_self
      have ih' := ih ps hrest hes
      simp only [List.filter_cons, hk, he, decide_true, Bool.and_true]
      by_cases hkk : (p.1 == k) = true
      · simp only [hkk, if_true, List.map_cons, hv, ih']
      · simp only [hkk, Bool.false_eq_true, if_false, ih']

theorem shows_put (vlog : List Nat) (index : List IEnt) (seq : Nat) (l : List (Nat × Nat))
    (h : Shows vlog index seq l) (k v : Nat) :
    Shows (vlog ++ [v]) (⟨k, seq + 1, vlog.length⟩ :: index) (seq + 1) ((k, v) :: l) := by
  obtain ⟨hm, hs⟩ := h
  constructor
  · simp only [List.map_cons, List.cons.injEq, Prod.mk.injEq, true_and]
    constructor
    · simp
    · -- older pointers still resolve to the same values
      rw [← hm]
      apply List.map_congr_left
      intro e he
      have hsome : ∃ x, vlog[e.pos]? = some x := by
        have hmem : (e.key, vlog[e.pos]?) ∈ index.map (fun e => (e.key, vlog[e.pos]?)) :=
          List.mem_map.mpr ⟨e, he, rfl⟩
        rw [hm] at hmem
        obtain ⟨p, _, hp⟩ := List.mem_map.mp hmem
        simp only [Prod.mk.injEq] at hp
        exact ⟨p.2, hp.2.symm⟩
      obtain ⟨x, hx⟩ := hsome
      have hlt : e.pos < vlog.length := by
        have := List.getElem?_eq_some_iff.mp hx
        exact this.1
      simp only [Prod.mk.injEq, true_and]
      rw [List.getElem?_append_left hlt]
  · intro e he
    rcases List.mem_cons.mp he with rfl | he
    · exact Nat.le_refl _
    · exact Nat.le_succ_of_le (hs e he)

theorem rel_init : Rel {} {} := by
  refine ⟨⟨rfl, ?_⟩, trivial⟩
  intro e he; cases he

theorem rel_act (c : VStore) (a : ASpec) (h : Rel c a) (x : VAct) : Rel (c.act true x) (a.act x) := by
  obtain ⟨hcur, hsaved⟩ := h
  cases x with
  | put k v =>
    refine ⟨shows_put _ _ _ _ hcur k v, ?_⟩
    simpa [VStore.act, ASpec.act] using hsaved
  | checkpoint =>
    refine ⟨hcur, ?_⟩
    simp only [VStore.act, ASpec.act, if_true]
    exact ⟨c.index, rfl, hcur⟩
  | restore =>
    cases hcs : c.saved with
    | none =>
      cases has : a.saved with
      | none =>
        simp only [VStore.act, ASpec.act, hcs, has]
        exact ⟨hcur, by simp [hcs, has]⟩
      | some l => simp [hcs, has] at hsaved
    | some ck =>
      cases has : a.saved with
      | none => simp [hcs, has] at hsaved
      | some l =>
        simp only [hcs, has] at hsaved
        obtain ⟨ix, hix, hsh⟩ := hsaved
        simp only [VStore.act, ASpec.act, hcs, has, hix]
        refine ⟨hsh, ?_⟩
        simp only [hcs, has]
        exact ⟨ix, hix, hsh⟩

theorem rel_run (acts : List VAct) (c : VStore) (a : ASpec) (h : Rel c a) :
    Rel (acts.foldl (VStore.act true) c) (acts.foldl ASpec.act a) := by
  induction acts generalizing c a with
  | nil => exact h
  | cons x xs ih => exact ih _ _ (rel_act c a h x)
