import Skv.Lemmas.BTreeIns
/-! leaf-level deletion, root insertion, sortedness, and the leaf rebalancing steps -/

theorem listDelete_append_left (l1 l2 : List (Nat × Nat)) (k : Nat) (h : ∀ e ∈ l2, e.1 ≠ k) :
    listDelete (l1 ++ l2) k = listDelete l1 k ++ l2 := by
  unfold listDelete
  rw [List.filter_append]
  congr 1
  apply List.filter_eq_self.mpr
  intro e he; simpa using h e he

theorem listDelete_append_right (l1 l2 : List (Nat × Nat)) (k : Nat) (h : ∀ e ∈ l1, e.1 ≠ k) :
    listDelete (l1 ++ l2) k = l1 ++ listDelete l2 k := by
  unfold listDelete
  rw [List.filter_append]
  congr 1
  apply List.filter_eq_self.mpr
  intro e he; simpa using h e he

mutual
theorem BT.del_spec : ∀ (t : BT) (lo hi : Option Nat) (k : Nat), t.wf lo hi →
    (t.del k).toList = listDelete t.toList k ∧ (t.del k).wf lo hi
  | .leaf es, lo, hi, k, h => by
    simp only [BT.wf] at h
    simp only [BT.del, BT.toList, BT.wf]
    refine ⟨trivial, List.Pairwise.sublist List.filter_sublist h.1, ?_⟩
    intro e he
    exact h.2 e (List.mem_filter.mp he).1
  | .node c rest, lo, hi, k, h => by
    simp only [BT.wf] at h
    have hr := Kids.del_spec rest lo hi k h.2
    simp only [BT.del]
    cases hrd : rest.del k with
    | none =>
      rw [hrd] at hr
      simp only
      obtain ⟨ct, cw⟩ := BT.del_spec c lo (rest.firstSepOr hi) k h.1
      simp only [BT.toList, BT.wf]
      refine ⟨?_, cw, h.2⟩
      rw [ct, listDelete_append_left]
      intro e he; have := hr e he; omega
    | some rest' =>
      rw [hrd] at hr
      simp only
      obtain ⟨ht, hwf, hfs, s, hs, hsk⟩ := hr
      simp only [BT.toList, BT.wf]
      refine ⟨?_, by rw [hfs]; exact h.1, hwf⟩
      rw [ht, listDelete_append_right]
      intro e he
      have hc : c.wf lo (some s) := by
        rw [Kids.firstSepOr_some_of_none rest hi s hs] at h; exact h.1
      have := BT.keys_lt_first c lo s hc e he
      omega
theorem Kids.del_spec : ∀ (r : Kids) (lo hi : Option Nat) (k : Nat), r.wf lo hi →
    match r.del k with
    | none => ∀ e ∈ r.toList, k < e.1
    | some r' => r'.toList = listDelete r.toList k ∧ r'.wf lo hi ∧ r'.firstSepOr hi = r.firstSepOr hi ∧
        ∃ s, r.firstSepOr none = some s ∧ s ≤ k
  | .nil, _, _, _, _ => by simp [Kids.del, Kids.toList]
  | .cons sep c rest, lo, hi, k, h => by
    have hw := h
    simp only [Kids.wf] at h
    obtain ⟨h1, h2, h3, h4⟩ := h
    simp only [Kids.del]
    by_cases hks : k < sep
    · simp only [hks, if_true]
      intro e he
      have := Kids.keys_ge_first sep c rest lo hi hw e he
      omega
    · simp only [hks, if_false]
      have hr := Kids.del_spec rest (some sep) hi k h3
      cases hrd : rest.del k with
      | some rest' =>
        rw [hrd] at hr
        simp only
        obtain ⟨ht, hwf, hfs, s1, hs1, hs1k⟩ := hr
        refine ⟨?_, ?_, by simp [Kids.firstSepOr], sep, by simp [Kids.firstSepOr], by omega⟩
        · simp only [Kids.toList]
          rw [ht, listDelete_append_right]
          intro e he
          have hc : c.wf (some sep) (some s1) := by
            rw [Kids.firstSepOr_some_of_none rest hi s1 hs1] at h2; exact h2
          have := BT.keys_lt_first c _ s1 hc e he
          omega
        · simp only [Kids.wf]
          refine ⟨h1, by rw [hfs]; exact h2, hwf, ?_⟩
          intro s' hs'
          have e1 : rest'.firstSepOr hi = some s' := Kids.firstSepOr_some_of_none rest' hi s' hs'
          rw [hfs, Kids.firstSepOr_some_of_none rest hi s1 hs1] at e1
          cases e1
          exact h4 s1 hs1
      | none =>
        rw [hrd] at hr
        simp only
        obtain ⟨ct, cw⟩ := BT.del_spec c (some sep) (rest.firstSepOr hi) k h2
        refine ⟨?_, ?_, by simp [Kids.firstSepOr], sep, by simp [Kids.firstSepOr], by omega⟩
        · simp only [Kids.toList]
          rw [ct, listDelete_append_left]
          intro e he; have := hr e he; omega
        · simp only [Kids.wf]; exact ⟨h1, cw, h3, h4⟩
end

mutual
theorem BT.toList_sorted : ∀ (t : BT) (lo hi : Option Nat), t.wf lo hi →
    t.toList.Pairwise (fun a b => a.1 < b.1)
  | .leaf es, _, _, h => by simp only [BT.wf] at h; exact h.1
  | .node c rest, lo, hi, h => by
    simp only [BT.wf] at h
    simp only [BT.toList]
    rw [List.pairwise_append]
    refine ⟨BT.toList_sorted c _ _ h.1, Kids.toList_sorted rest _ _ h.2, ?_⟩
    intro a ha b hb
    cases rest with
    | nil => simp [Kids.toList] at hb
    | cons s c1 rest1 =>
      have h1 := BT.keys_lt_first c lo s (by simpa [Kids.firstSepOr] using h.1) a ha
      have h2 := Kids.keys_ge_first s c1 rest1 lo hi h.2 b hb
      omega
theorem Kids.toList_sorted : ∀ (r : Kids) (lo hi : Option Nat), r.wf lo hi →
    r.toList.Pairwise (fun a b => a.1 < b.1)
  | .nil, _, _, _ => by simp [Kids.toList]
  | .cons sep c rest, lo, hi, h => by
    simp only [Kids.wf] at h
    simp only [Kids.toList]
    rw [List.pairwise_append]
    refine ⟨BT.toList_sorted c _ _ h.2.1, Kids.toList_sorted rest _ _ h.2.2.1, ?_⟩
    intro a ha b hb
    cases rest with
    | nil => simp [Kids.toList] at hb
    | cons s c1 rest1 =>
      have h1 := BT.keys_lt_first c (some sep) s (by simpa [Kids.firstSepOr] using h.2.1) a ha
      have h2 := Kids.keys_ge_first s c1 rest1 (some sep) hi h.2.2.1 b hb
      omega
end

/-- insertion at the root: a root split adds a level -/
theorem BT.insert_spec (p : Policy) (t : BT) (k v : Nat) (h : t.wf none none) :
    (t.insert p k v).toList = listInsert t.toList k v ∧ (t.insert p k v).wf none none := by
  have hk : inB none none k := ⟨fun _ h0 => (nomatch h0), fun _ h0 => (nomatch h0)⟩
  obtain ⟨a, b⟩ := BT.ins_spec p t none none k v h hk
  unfold BT.insert
  cases hi : t.ins p k v with
  | one t' => rw [hi] at a b; exact ⟨a, b⟩
  | two l s r =>
    rw [hi] at a b
    simp only [Ins.toList] at a
    simp only [Ins.wf] at b
    refine ⟨by simp only [BT.toList, Kids.toList, List.append_nil]; exact a, ?_⟩
    simp only [BT.wf, Kids.wf, Kids.firstSepOr]
    exact ⟨b.2.1, b.1, b.2.2, trivial, fun _ h0 => (nomatch h0)⟩

/-! ### leaf rebalancing -/

theorem mergeLeaves_wf (l r : List (Nat × Nat)) (lo hi : Option Nat) (s : Nat)
    (hl : (BT.leaf l).wf lo (some s)) (hr : (BT.leaf r).wf (some s) hi) (hs : inBs lo hi s) :
    (BT.leaf (mergeLeaves l r)).wf lo hi := by
  simp only [BT.wf, mergeLeaves] at *
  refine ⟨?_, ?_⟩
  · rw [List.pairwise_append]
    refine ⟨hl.1, hr.1, ?_⟩
    intro a ha b hb
    have := (hl.2 a ha).2 s rfl
    have := (hr.2 b hb).1 s rfl
    omega
  · intro e he
    rcases List.mem_append.mp he with h | h
    · exact inB_weaken_hi (hl.2 e h) (inBs_inB hs)
    · exact inB_weaken_lo (hr.2 e h) (inBs_inB hs)

/-- moving entries across a leaf boundary and taking the first key of the new right leaf as
separator keeps content, order and bounds -/
theorem redist_wf (l' r' : List (Nat × Nat)) (lo hi : Option Nat) (f : Nat × Nat)
    (hsorted : (l' ++ r').Pairwise (fun a b => a.1 < b.1)) (hb : ∀ e ∈ l' ++ r', inB lo hi e.1)
    (hf : r'.head? = some f) (hne : l' ≠ []) :
    (BT.leaf l').wf lo (some f.1) ∧ (BT.leaf r').wf (some f.1) hi ∧ inBs lo hi f.1 := by
  rw [List.pairwise_append] at hsorted
  obtain ⟨h1, h2, h3⟩ := hsorted
  have hfm : f ∈ r' := List.mem_of_head? hf
  simp only [BT.wf]
  refine ⟨⟨h1, ?_⟩, ⟨h2, ?_⟩, ?_⟩
  · intro e he
    exact ⟨(hb e (List.mem_append_left _ he)).1, fun h hh => by cases hh; exact h3 e he f hfm⟩
  · intro e he
    refine ⟨fun l hl => ?_, (hb e (List.mem_append_right _ he)).2⟩
    cases hl
    cases r' with
    | nil => cases he
    | cons x xs =>
      have : x = f := by simpa using hf
      subst this
      rcases List.mem_cons.mp he with h | h
      · rw [h]; exact Nat.le_refl _
      · rw [List.pairwise_cons] at h2; exact Nat.le_of_lt (h2.1 e h)
  · obtain ⟨e0, he0⟩ := List.exists_mem_of_ne_nil _ hne
    refine ⟨fun l hl => ?_, (hb f (List.mem_append_right _ hfm)).2⟩
    have a1 := (hb e0 (List.mem_append_left _ he0)).1 l hl
    have a2 := h3 e0 he0 f hfm
    omega

theorem redistFromLeft_content (l r : List (Nat × Nat)) (n : Nat) :
    (redistFromLeft l r n).1 ++ (redistFromLeft l r n).2.2 = l ++ r := by
  simp only [redistFromLeft]
  rw [← List.append_assoc, List.take_append_drop]

theorem redistFromRight_content (l r : List (Nat × Nat)) (n : Nat) :
    (redistFromRight l r n).1 ++ (redistFromRight l r n).2.2 = l ++ r := by
  simp only [redistFromRight]
  rw [List.append_assoc, List.take_append_drop]
