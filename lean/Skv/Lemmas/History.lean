import Skv.Model.History

theorem histKeyFwd_cons_invisible (o : HOpts) (snap : Nat) (fs lh bs : Bool) (v : HVer) (rest : List HVer)
    (h : v.seq > snap) : histKeyFwd o.tombs o.range snap fs lh bs (v :: rest) = histKeyFwd o.tombs o.range snap fs lh bs rest := by
  simp [histKeyFwd, h]

theorem histKeyFwd_cons_visible (o : HOpts) (hr : o.range = none) (snap : Nat) (fs lh bs : Bool) (v : HVer)
    (rest : List HVer) (h : ¬ v.seq > snap) :
    histKeyFwd o.tombs o.range snap fs lh bs (v :: rest) = histStep o.tombs fs lh bs v (fun fs lh bs => histKeyFwd o.tombs o.range snap fs lh bs rest) := by
  simp [histKeyFwd, h, hr]

/-- once the newest visible version was a hard delete, nothing is listed -/
theorem hist_latestHard (o : HOpts) (hr : o.range = none) (snap : Nat) (bs : Bool) :
    ∀ vs, histKeyFwd o.tombs o.range snap true true bs vs = [] := by
  intro vs
  induction vs generalizing bs with
  | nil => simp [histKeyFwd]
  | cons v rest ih =>
    by_cases h : v.seq > snap
    · rw [histKeyFwd_cons_invisible o snap _ _ _ v rest h]; exact ih bs
    · rw [histKeyFwd_cons_visible o hr snap _ _ _ v rest h]
      simp only [histStep, Bool.not_true, Bool.false_and, Bool.false_eq_true, if_false, if_true]
      exact ih bs

/-- behind a barrier nothing is listed -/
theorem hist_barrier (o : HOpts) (hr : o.range = none) (snap : Nat) :
    ∀ vs, histKeyFwd o.tombs o.range snap true false true vs = [] := by
  intro vs
  induction vs with
  | nil => simp [histKeyFwd]
  | cons v rest ih =>
    by_cases h : v.seq > snap
    · rw [histKeyFwd_cons_invisible o snap _ _ _ v rest h]; exact ih
    · rw [histKeyFwd_cons_visible o hr snap _ _ _ v rest h]
      simp only [histStep, Bool.not_true, Bool.false_and, Bool.false_eq_true, if_false, if_true]
      exact ih

def histFilter (o : HOpts) (v : HVer) : Bool := o.tombs || !v.kind.isTomb

theorem hist_go (o : HOpts) (hr : o.range = none) (snap : Nat) :
    ∀ vs, histKeyFwd o.tombs o.range snap true false false vs =
      (hRetainedGo (vs.filter (fun v => decide (v.seq ≤ snap)))).filter (histFilter o) := by
  intro vs
  induction vs with
  | nil => simp [histKeyFwd, hRetainedGo]
  | cons v rest ih =>
    by_cases h : v.seq > snap
    · rw [histKeyFwd_cons_invisible o snap _ _ _ v rest h]
      have : decide (v.seq ≤ snap) = false := by simp; omega
      simp only [List.filter_cons, this, Bool.false_eq_true, if_false]
      exact ih
    · rw [histKeyFwd_cons_visible o hr snap _ _ _ v rest h]
      have hv : decide (v.seq ≤ snap) = true := by simp; omega
      simp only [List.filter_cons, hv, if_true, hRetainedGo]
      simp only [histStep, Bool.not_true, Bool.false_and, Bool.false_eq_true, if_false]
      by_cases hh : v.kind.isHard = true
      · simp only [hh, if_true]
        rw [hist_barrier o hr snap rest]; rfl
      · have hh' : v.kind.isHard = false := by simpa using hh
        simp only [hh', Bool.false_eq_true, if_false, Bool.false_or]
        by_cases hrep : (v.kind == VKind.replace) = true
        · have hnt : v.kind.isTomb = false := by
            have : v.kind = .replace := by simpa using hrep
            rw [this]; rfl
          simp only [hrep, if_true, hnt, Bool.not_false, Bool.and_true, Bool.not_true, Bool.and_false,
            Bool.false_eq_true, if_false]
          rw [hist_barrier o hr snap rest]
          simp [List.filter_cons, histFilter, hnt]
        · have hrep' : (v.kind == VKind.replace) = false := by simpa using hrep
          simp only [hrep', Bool.false_eq_true, if_false]
          rw [ih]
          by_cases ht : (!o.tombs && v.kind.isTomb) = true
          · simp only [ht, if_true]
            have : histFilter o v = false := by
              simp only [histFilter]
              simp only [Bool.and_eq_true, Bool.not_eq_true'] at ht
              simp [ht.1, ht.2]
            simp [List.filter_cons, this]
          · have ht' : (!o.tombs && v.kind.isTomb) = false := by simpa using ht
            simp only [ht', Bool.false_eq_true, if_false]
            have : histFilter o v = true := by
              simp only [histFilter]
              cases hto : o.tombs <;> cases htk : v.kind.isTomb <;> simp_all
            simp [List.filter_cons, this]

/-- **the forward scan of one key is the property** (no timestamp range) -/
theorem histKeyFwd_eq_spec (o : HOpts) (hr : o.range = none) (snap : Nat) :
    ∀ vs, histKeyFwd o.tombs o.range snap false false false vs = specKey o snap vs := by
  intro vs
  have hspec : ∀ l : List HVer, (l.filter (fun v => (o.tombs || !v.kind.isTomb) && inRangeTs o v)) = l.filter (histFilter o) := by
    intro l
    congr 1
    funext v
    simp [inRangeTs, hr, histFilter]
  induction vs with
  | nil => simp [histKeyFwd, specKey, hRetained]
  | cons v rest ih =>
    by_cases h : v.seq > snap
    · rw [histKeyFwd_cons_invisible o snap _ _ _ v rest h, ih]
      have : decide (v.seq ≤ snap) = false := by simp; omega
      simp [specKey, List.filter_cons, this]
    · rw [histKeyFwd_cons_visible o hr snap _ _ _ v rest h]
      have hv : decide (v.seq ≤ snap) = true := by simp; omega
      unfold specKey
      rw [hspec]
      simp only [List.filter_cons, hv, if_true, hRetained]
      simp only [histStep, Bool.not_false, Bool.true_and]
      by_cases hh : v.kind.isHard = true
      · simp only [hh, if_true]
        rw [hist_latestHard o hr snap false rest]; rfl
      · have hh' : v.kind.isHard = false := by simpa using hh
        simp only [hh', Bool.false_eq_true, if_false, Bool.false_or, hRetainedGo]
        by_cases hrep : (v.kind == VKind.replace) = true
        · have hnt : v.kind.isTomb = false := by
            have : v.kind = .replace := by simpa using hrep
            rw [this]; rfl
          simp only [hrep, if_true, hnt, Bool.not_false, Bool.and_false, Bool.false_eq_true, if_false]
          rw [hist_barrier o hr snap rest]
          simp [List.filter_cons, histFilter, hnt]
        · have hrep' : (v.kind == VKind.replace) = false := by simpa using hrep
          simp only [hrep', Bool.false_eq_true, if_false]
          rw [hist_go o hr snap rest]
          by_cases ht : (!o.tombs && v.kind.isTomb) = true
          · simp only [ht, if_true]
            have : histFilter o v = false := by
              simp only [histFilter]
              simp only [Bool.and_eq_true, Bool.not_eq_true'] at ht
              simp [ht.1, ht.2]
            simp [List.filter_cons, this]
          · have ht' : (!o.tombs && v.kind.isTomb) = false := by simpa using ht
            simp only [ht', Bool.false_eq_true, if_false]
            have : histFilter o v = true := by
              simp only [histFilter]
              cases hto : o.tombs <;> cases htk : v.kind.isTomb <;> simp_all
            simp [List.filter_cons, this]

theorem histFwd_eq_spec (o : HOpts) (hr : o.range = none) (snap : Nat) (keys : List (Nat × List HVer)) :
    histFwd o snap keys = specHistory o snap keys := by
  unfold histFwd specHistory
  congr 1
  congr 1
  funext kv
  rw [histKeyFwd_eq_spec o hr snap kv.2]
