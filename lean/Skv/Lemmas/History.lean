import Skv.Model.History

theorem histKeyFwd_cons_invisible (o : HOpts) (snap : Nat) (fs lh bs : Bool) (v : HVer) (rest : List HVer)
    (h : v.seq > snap) : histKeyFwd o.tombs o.range snap fs lh bs (v :: rest) = histKeyFwd o.tombs o.range snap fs lh bs rest := by
  simp [histKeyFwd, h]

theorem histKeyFwd_cons_visible (o : HOpts) (hr : o.range = none) (snap : Nat) (fs lh bs : Bool) (v : HVer)
    (rest : List HVer) (h : ¬ v.seq > snap) :
    histKeyFwd o.tombs o.range snap fs lh bs (v :: rest) = histStep o.tombs fs lh bs v (fun fs lh bs => histKeyFwd o.tombs o.range snap fs lh bs rest) := by
  simp [histKeyFwd, h, hr]

/-- once the newest visible version was a hard delete, nothing is listed -/
theorem hist_latestHard (o : HOpts) (hr : o.range = none) (snap : Nat) (bs : Bool) :
    ∀ vs, histKeyFwd o.tombs o.range snap true true bs vs = [] := by
  intro vs
  induction vs generalizing bs with
  | nil => simp [histKeyFwd]
  | cons v rest ih =>
    by_cases h : v.seq > snap
    · rw [histKeyFwd_cons_invisible o snap _ _ _ v rest h]; exact ih bs
    · rw [histKeyFwd_cons_visible o hr snap _ _ _ v rest h]
      simp only [histStep, Bool.not_true, Bool.false_and, Bool.false_eq_true, if_false, if_true]
      exact ih bs

/-- behind a barrier nothing is listed -/
theorem hist_barrier (o : HOpts) (hr : o.range = none) (snap : Nat) :
    ∀ vs, histKeyFwd o.tombs o.range snap true false true vs = [] := by
  intro vs
  induction vs with
  | nil => simp [histKeyFwd]
  | cons v rest ih =>
    by_cases h : v.seq > snap
    · rw [histKeyFwd_cons_invisible o snap _ _ _ v rest h]; exact ih
    · rw [histKeyFwd_cons_visible o hr snap _ _ _ v rest h]
      simp only [histStep, Bool.not_true, Bool.false_and, Bool.false_eq_true, if_false, if_true]
      exact ih

def histFilter (o : HOpts) (v : HVer) : Bool := o.tombs || !v.kind.isTomb

theorem hist_go (o : HOpts) (hr : o.range = none) (snap : Nat) :
    ∀ vs, histKeyFwd o.tombs o.range snap true false false vs =
      (hRetainedGo (vs.filter (fun v => decide (v.seq ≤ snap)))).filter (histFilter o) := by
  intro vs
  induction vs with
  | nil => simp [histKeyFwd, hRetainedGo]
  | cons v rest ih =>
    by_cases h : v.seq > snap
    · rw [histKeyFwd_cons_invisible o snap _ _ _ v rest h]
      have : decide (v.seq ≤ snap) = false := by simp; omega
      simp only [List.filter_cons, this, Bool.false_eq_true, if_false]
      exact ih
    · rw [histKeyFwd_cons_visible o hr snap _ _ _ v rest h]
      have hv : decide (v.seq ≤ snap) = true := by simp; omega
      simp only [List.filter_cons, hv, if_true, hRetainedGo]
      simp only [histStep, Bool.not_true, Bool.false_and, Bool.false_eq_true, if_false]
      by_cases hh : v.kind.isHard = true
      · simp only [hh, if_true]
        rw [hist_barrier o hr snap rest]; rfl
      · have hh' : v.kind.isHard = false := by simpa using hh
        simp only [hh', Bool.false_eq_true, if_false, Bool.false_or]
        by_cases hrep : (v.kind == VKind.replace) = true
        · have hnt : v.kind.isTomb = false := by
            have : v.kind = .replace := by simpa using hrep
            rw [this]; rfl
          simp only [hrep, if_true, hnt, Bool.not_false, Bool.and_true, Bool.not_true, Bool.and_false,
            Bool.false_eq_true, if_false]
          rw [hist_barrier o hr snap rest]
          simp [List.filter_cons, histFilter, hnt]
        · have hrep' : (v.kind == VKind.replace) = false := by simpa using hrep
          simp only [hrep', Bool.false_eq_true, if_false]
          rw [ih]
          by_cases ht : (!o.tombs && v.kind.isTomb) = true
          · simp only [ht, if_true]
            have : histFilter o v = false := by
              simp only [histFilter]
              simp only [Bool.and_eq_true, Bool.not_eq_true'] at ht
              simp [ht.1, ht.2]
            simp [List.filter_cons, this]
          · have ht' : (!o.tombs && v.kind.isTomb) = false := by simpa using ht
            simp only [ht', Bool.false_eq_true, if_false]
            have : histFilter o v = true := by
              simp only [histFilter]
              cases hto : o.tombs <;> cases htk : v.kind.isTomb <;> simp_all
            simp [List.filter_cons, this]

/-- **the forward scan of one key is the property** (no timestamp range) -/
theorem histKeyFwd_eq_spec (o : HOpts) (hr : o.range = none) (snap : Nat) :
    ∀ vs, histKeyFwd o.tombs o.range snap false false false vs = specKey o snap vs := by
  intro vs
  have hspec : ∀ l : List HVer, (l.filter (fun v => (o.tombs || !v.kind.isTomb) && inRangeTs o v)) = l.filter (histFilter o) := by
    intro l
    congr 1
    funext v
    simp [inRangeTs, hr, histFilter]
  induction vs with
  | nil => simp [histKeyFwd, specKey, hRetained]
  | cons v rest ih =>
    by_cases h : v.seq > snap
    · rw [histKeyFwd_cons_invisible o snap _ _ _ v rest h, ih]
      have : decide (v.seq ≤ snap) = false := by simp; omega
      simp [specKey, List.filter_cons, this]
    · rw [histKeyFwd_cons_visible o hr snap _ _ _ v rest h]
      have hv : decide (v.seq ≤ snap) = true := by simp; omega
      unfold specKey
      rw [hspec]
      simp only [List.filter_cons, hv, if_true, hRetained]
      simp only [histStep, Bool.not_false, Bool.true_and]
      by_cases hh : v.kind.isHard = true
      · simp only [hh, if_true]
        rw [hist_latestHard o hr snap false rest]; rfl
      · have hh' : v.kind.isHard = false := by simpa using hh
        simp only [hh', Bool.false_eq_true, if_false, Bool.false_or, hRetainedGo]
        by_cases hrep : (v.kind == VKind.replace) = true
        · have hnt : v.kind.isTomb = false := by
            have : v.kind = .replace := by simpa using hrep
            rw [this]; rfl
          simp only [hrep, if_true, hnt, Bool.not_false, Bool.and_false, Bool.false_eq_true, if_false]
          rw [hist_barrier o hr snap rest]
          simp [List.filter_cons, histFilter, hnt]
        · have hrep' : (v.kind == VKind.replace) = false := by simpa using hrep
          simp only [hrep', Bool.false_eq_true, if_false]
          rw [hist_go o hr snap rest]
          by_cases ht : (!o.tombs && v.kind.isTomb) = true
          · simp only [ht, if_true]
            have : histFilter o v = false := by
              simp only [histFilter]
              simp only [Bool.and_eq_true, Bool.not_eq_true'] at ht
              simp [ht.1, ht.2]
            simp [List.filter_cons, this]
          · have ht' : (!o.tombs && v.kind.isTomb) = false := by simpa using ht
            simp only [ht', Bool.false_eq_true, if_false]
            have : histFilter o v = true := by
              simp only [histFilter]
              cases hto : o.tombs <;> cases htk : v.kind.isTomb <;> simp_all
            simp [List.filter_cons, this]

theorem histFwd_eq_spec (o : HOpts) (hr : o.range = none) (snap : Nat) (keys : List (Nat × List HVer)) :
    histFwd o snap keys = specHistory o snap keys := by
  unfold histFwd specHistory
  congr 1
  congr 1
  funext kv
  rw [histKeyFwd_eq_spec o hr snap kv.2]

/-! ### get_at -/

def TsDesc (l : List HVer) : Prop := l.Pairwise (fun a b => b.ts < a.ts)

theorem getAtGo_some_stable (t : Nat) (b : HVer) : ∀ (l : List HVer), (∀ v ∈ l, v.ts < b.ts) →
    getAtGo t (some b) l = some b := by
  intro l
  induction l with
  | nil => intro _; rfl
  | cons v rest ih =>
    intro h
    have hv := h v List.mem_cons_self
    simp only [getAtGo]
    have : (decide (v.ts ≤ t) && decide (v.ts ≥ b.ts)) = false := by
      simp only [Bool.and_eq_false_iff, decide_eq_false_iff_not]; right; omega
    simp only [this, Bool.false_eq_true, if_false]
    exact ih (fun x hx => h x (List.mem_cons_of_mem _ hx))

/-- on a list with strictly decreasing timestamps `get_at` picks the first entry at or below `t` -/
theorem getAtGo_eq_find (t : Nat) : ∀ (l : List HVer), TsDesc l →
    getAtGo t none l = l.find? (fun v => decide (v.ts ≤ t)) := by
  intro l
  induction l with
  | nil => intro _; rfl
  | cons v rest ih =>
    intro h
    have hp := List.pairwise_cons.mp h
    simp only [getAtGo, List.find?_cons]
    by_cases hv : v.ts ≤ t
    · simp only [hv, decide_true, Nat.zero_le, Bool.and_self, if_true]
      exact getAtGo_some_stable t v rest (fun x hx => hp.1 x hx)
    · simp only [hv, decide_false, Bool.false_and, Bool.false_eq_true, if_false]
      exact ih hp.2

theorem fold_pick_stable (b : HVer) : ∀ (l : List HVer), (∀ v ∈ l, v.ts < b.ts) →
    l.foldl specPick (some b) = some b := by
  intro l
  induction l with
  | nil => intro _; rfl
  | cons v rest ih =>
    intro h
    have hv := h v List.mem_cons_self
    simp only [List.foldl_cons, specPick]
    have : ¬ v.ts > b.ts := by omega
    simp only [this, if_false]
    exact ih (fun x hx => h x (List.mem_cons_of_mem _ hx))

theorem fold_pick_eq_head (l : List HVer) (h : TsDesc l) : l.foldl specPick none = l.head? := by
  cases l with
  | nil => rfl
  | cons v rest =>
    have hp := List.pairwise_cons.mp h
    simp only [List.foldl_cons, specPick, List.head?_cons]
    exact fold_pick_stable v rest (fun x hx => hp.1 x hx)

theorem tsDesc_filter (l : List HVer) (p : HVer → Bool) (h : TsDesc l) : TsDesc (l.filter p) :=
  List.Pairwise.sublist List.filter_sublist h

theorem hRetainedGo_sublist : ∀ (l : List HVer), (hRetainedGo l).Sublist l := by
  intro l
  induction l with
  | nil => exact List.Sublist.slnil
  | cons v rest ih =>
    simp only [hRetainedGo]
    split
    · exact List.nil_sublist _
    · split
      · exact (List.nil_sublist rest).cons₂ v
      · exact ih.cons₂ v

theorem hRetained_sublist (l : List HVer) : (hRetained l).Sublist l := by
  unfold hRetained
  cases l with
  | nil => exact List.Sublist.slnil
  | cons v rest =>
    simp only
    split
    · exact List.nil_sublist _
    · exact hRetainedGo_sublist _

theorem specKey_tsDesc (o : HOpts) (snap : Nat) (vs : List HVer) (h : TsDesc vs) : TsDesc (specKey o snap vs) := by
  unfold specKey
  apply tsDesc_filter
  exact List.Pairwise.sublist (hRetained_sublist _) (tsDesc_filter vs _ h)

theorem find_filter_head (l : List HVer) (p : HVer → Bool) : l.find? p = (l.filter p).head? := by
  induction l with
  | nil => rfl
  | cons v rest ih =>
    simp only [List.find?_cons, List.filter_cons]
    cases hp : p v
    · simp only [Bool.false_eq_true, if_false]; exact ih
    · simp

/-- **get_at is the property** when timestamps strictly decrease along the versions (newest first) -/
theorem getAt_eq_spec (snap t : Nat) (vs : List HVer) (h : TsDesc vs) : getAt snap t vs = specGetAt snap t vs := by
  unfold getAt specGetAt
  have hk := histKeyFwd_eq_spec { tombs := true } rfl snap vs
  simp only at hk
  rw [hk]
  have hd := specKey_tsDesc { tombs := true } snap vs h
  rw [getAtGo_eq_find t _ hd, find_filter_head]
  have hf : TsDesc ((specKey { tombs := true } snap vs).filter (fun v => decide (v.ts ≤ t))) := tsDesc_filter _ _ hd
  simp only [fold_pick_eq_head _ hf]
