import Skv.Model.History

theorem histKeyFwd_cons_invisible (o : HOpts) (snap : Nat) (fs lh bs : Bool) (v : HVer) (rest : List HVer)
    (h : v.seq > snap) : histKeyFwd o.tombs o.range snap fs lh bs (v :: rest) = histKeyFwd o.tombs o.range snap fs lh bs rest := by
  simp [histKeyFwd, h]

theorem histKeyFwd_cons_visible (o : HOpts) (hr : o.range = none) (snap : Nat) (fs lh bs : Bool) (v : HVer)
    (rest : List HVer) (h : ¬ v.seq > snap) :
    histKeyFwd o.tombs o.range snap fs lh bs (v :: rest) = histStep o.tombs fs lh bs v (fun fs lh bs => histKeyFwd o.tombs o.range snap fs lh bs rest) := by
  simp [histKeyFwd, h, hr]

/-- once the newest visible version was a hard delete, nothing is listed -/
theorem hist_latestHard (o : HOpts) (hr : o.range = none) (snap : Nat) (bs : Bool) :
    ∀ vs, histKeyFwd o.tombs o.range snap true true bs vs = [] := by
  intro vs
  induction vs generalizing bs with
  | nil => simp [histKeyFwd]
  | cons v rest ih =>
    by_cases h : v.seq > snap
    · rw [histKeyFwd_cons_invisible o snap _ _ _ v rest h]; exact ih bs
    · rw [histKeyFwd_cons_visible o hr snap _ _ _ v rest h]
      simp only [histStep, Bool.not_true, Bool.false_and, Bool.false_eq_true, if_false, if_true]
      exact ih bs

/-- behind a barrier nothing is listed -/
theorem hist_barrier (o : HOpts) (hr : o.range = none) (snap : Nat) :
    ∀ vs, histKeyFwd o.tombs o.range snap true false true vs = [] := by
  intro vs
  induction vs with
  | nil => simp [histKeyFwd]
  | cons v rest ih =>
    by_cases h : v.seq > snap
    · rw [histKeyFwd_cons_invisible o snap _ _ _ v rest h]; exact ih
    · rw [histKeyFwd_cons_visible o hr snap _ _ _ v rest h]
      simp only [histStep, Bool.not_true, Bool.false_and, Bool.false_eq_true, if_false, if_true]
      exact ih

def histFilter (o : HOpts) (v : HVer) : Bool := o.tombs || !v.kind.isTomb

theorem hist_go (o : HOpts) (hr : o.range = none) (snap : Nat) :
    ∀ vs, histKeyFwd o.tombs o.range snap true false false vs =
      (hRetainedGo (vs.filter (fun v => decide (v.seq ≤ snap)))).filter (histFilter o) := by
  intro vs
  induction vs with
  | nil => simp [histKeyFwd, hRetainedGo]
  | cons v rest ih =>
    by_cases h : v.seq > snap
    · rw [histKeyFwd_cons_invisible o snap _ _ _ v rest h]
      have : decide (v.seq ≤ snap) = false := by simp; omega
      simp only [List.filter_cons, this, Bool.false_eq_true, if_false]
      exact ih
    · rw [histKeyFwd_cons_visible o hr snap _ _ _ v rest h]
      have hv : decide (v.seq ≤ snap) = true := by simp; omega
      simp only [List.filter_cons, hv, if_true, hRetainedGo]
      simp only [histStep, Bool.not_true, Bool.false_and, Bool.false_eq_true, if_false]
      by_cases hh : v.kind.isHard = true
      · simp only [hh, if_true]
        rw [hist_barrier o hr snap rest]; rfl
      · have hh' : v.kind.isHard = false := by simpa using hh
        simp only [hh', Bool.false_eq_true, if_false, Bool.false_or]
        by_cases hrep : (v.kind == VKind.replace) = true
        · have hnt : v.kind.isTomb = false := by
            have : v.kind = .replace := by simpa using hrep
            rw [this]; rfl
          simp only [hrep, if_true, hnt, Bool.not_false, Bool.and_true, Bool.not_true, Bool.and_false,
            Bool.false_eq_true, if_false]
          rw [hist_barrier o hr snap rest]
          simp [List.filter_cons, histFilter, hnt]
        · have hrep' : (v.kind == VKind.replace) = false := by simpa using hrep
          simp only [hrep', Bool.false_eq_true, if_false]
          rw [ih]
          by_cases ht : (!o.tombs && v.kind.isTomb) = true
          · simp only [ht, if_true]
            have : histFilter o v = false := by
              simp only [histFilter]
              simp only [Bool.and_eq_true, Bool.not_eq_true'] at ht
              simp [ht.1, ht.2]
            simp [List.filter_cons, this]
          · have ht' : (!o.tombs && v.kind.isTomb) = false := by simpa using ht
            simp only [ht', Bool.false_eq_true, if_false]
            have : histFilter o v = true := by
              simp only [histFilter]
              cases hto : o.tombs <;> cases htk : v.kind.isTomb <;> simp_all
            simp [List.filter_cons, this]

/-- **the forward scan of one key is the property** (no timestamp range) -/
theorem histKeyFwd_eq_spec (o : HOpts) (hr : o.range = none) (snap : Nat) :
    ∀ vs, histKeyFwd o.tombs o.range snap false false false vs = specKey o snap vs := by
  intro vs
  have hspec : ∀ l : List HVer, (l.filter (fun v => (o.tombs || !v.kind.isTomb) && inRangeTs o v)) = l.filter (histFilter o) := by
    intro l
    congr 1
    funext v
    simp [inRangeTs, hr, histFilter]
  induction vs with
  | nil => simp [histKeyFwd, specKey, hRetained]
  | cons v rest ih =>
    by_cases h : v.seq > snap
    · rw [histKeyFwd_cons_invisible o snap _ _ _ v rest h, ih]
      have : decide (v.seq ≤ snap) = false := by simp; omega
      simp [specKey, List.filter_cons, this]
    · rw [histKeyFwd_cons_visible o hr snap _ _ _ v rest h]
      have hv : decide (v.seq ≤ snap) = true := by simp; omega
      unfold specKey
      rw [hspec]
      simp only [List.filter_cons, hv, if_true, hRetained]
      simp only [histStep, Bool.not_false, Bool.true_and]
      by_cases hh : v.kind.isHard = true
      · simp only [hh, if_true]
        rw [hist_latestHard o hr snap false rest]; rfl
      · have hh' : v.kind.isHard = false := by simpa using hh
        simp only [hh', Bool.false_eq_true, if_false, Bool.false_or, hRetainedGo]
        by_cases hrep : (v.kind == VKind.replace) = true
        · have hnt : v.kind.isTomb = false := by
            have : v.kind = .replace := by simpa using hrep
            rw [this]; rfl
          simp only [hrep, if_true, hnt, Bool.not_false, Bool.and_false, Bool.false_eq_true, if_false]
          rw [hist_barrier o hr snap rest]
          simp [List.filter_cons, histFilter, hnt]
        · have hrep' : (v.kind == VKind.replace) = false := by simpa using hrep
          simp only [hrep', Bool.false_eq_true, if_false]
          rw [hist_go o hr snap rest]
          by_cases ht : (!o.tombs && v.kind.isTomb) = true
          · simp only [ht, if_true]
            have : histFilter o v = false := by
              simp only [histFilter]
              simp only [Bool.and_eq_true, Bool.not_eq_true'] at ht
              simp [ht.1, ht.2]
            simp [List.filter_cons, this]
          · have ht' : (!o.tombs && v.kind.isTomb) = false := by simpa using ht
            simp only [ht', Bool.false_eq_true, if_false]
            have : histFilter o v = true := by
              simp only [histFilter]
              cases hto : o.tombs <;> cases htk : v.kind.isTomb <;> simp_all
            simp [List.filter_cons, this]

theorem histFwd_eq_spec (o : HOpts) (hr : o.range = none) (snap : Nat) (keys : List (Nat × List HVer)) :
    histFwd o snap keys = specHistory o snap keys := by
  unfold histFwd specHistory
  congr 1
  congr 1
  funext kv
  rw [histKeyFwd_eq_spec o hr snap kv.2]

/-! ### get_at -/

def TsDesc (l : List HVer) : Prop := l.Pairwise (fun a b => b.ts < a.ts)

theorem getAtGo_some_stable (t : Nat) (b : HVer) : ∀ (l : List HVer), (∀ v ∈ l, v.ts < b.ts) →
    getAtGo t (some b) l = some b := by
  intro l
  induction l with
  | nil => intro _; rfl
  | cons v rest ih =>
    intro h
    have hv := h v List.mem_cons_self
    simp only [getAtGo]
    have : (decide (v.ts ≤ t) && decide (v.ts ≥ b.ts)) = false := by
      simp only [Bool.and_eq_false_iff, decide_eq_false_iff_not]; right; omega
    simp only [this, Bool.false_eq_true, if_false]
    exact ih (fun x hx => h x (List.mem_cons_of_mem _ hx))

/-- on a list with strictly decreasing timestamps `get_at` picks the first entry at or below `t` -/
theorem getAtGo_eq_find (t : Nat) : ∀ (l : List HVer), TsDesc l →
    getAtGo t none l = l.find? (fun v => decide (v.ts ≤ t)) := by
  intro l
  induction l with
  | nil => intro _; rfl
  | cons v rest ih =>
    intro h
    have hp := List.pairwise_cons.mp h
    simp only [getAtGo, List.find?_cons]
    by_cases hv : v.ts ≤ t
    · simp only [hv, decide_true, Nat.zero_le, Bool.and_self, if_true]
      exact getAtGo_some_stable t v rest (fun x hx => hp.1 x hx)
    · simp only [hv, decide_false, Bool.false_and, Bool.false_eq_true, if_false]
      exact ih hp.2

theorem fold_pick_stable (b : HVer) : ∀ (l : List HVer), (∀ v ∈ l, v.ts < b.ts) →
    l.foldl specPick (some b) = some b := by
  intro l
  induction l with
  | nil => intro _; rfl
  | cons v rest ih =>
    intro h
    have hv := h v List.mem_cons_self
    simp only [List.foldl_cons, specPick]
    have : ¬ v.ts > b.ts := by omega
    simp only [this, if_false]
    exact ih (fun x hx => h x (List.mem_cons_of_mem _ hx))

theorem fold_pick_eq_head (l : List HVer) (h : TsDesc l) : l.foldl specPick none = l.head? := by
  cases l with
  | nil => rfl
  | cons v rest =>
    have hp := List.pairwise_cons.mp h
    simp only [List.foldl_cons, specPick, List.head?_cons]
    exact fold_pick_stable v rest (fun x hx => hp.1 x hx)

theorem tsDesc_filter (l : List HVer) (p : HVer → Bool) (h : TsDesc l) : TsDesc (l.filter p) :=
  List.Pairwise.sublist List.filter_sublist h

theorem hRetainedGo_sublist : ∀ (l : List HVer), (hRetainedGo l).Sublist l := by
  intro l
  induction l with
  | nil => exact List.Sublist.slnil
  | cons v rest ih =>
    simp only [hRetainedGo]
    split
    · exact List.nil_sublist _
    · split
      · exact (List.nil_sublist rest).cons₂ v
      · exact ih.cons₂ v

theorem hRetained_sublist (l : List HVer) : (hRetained l).Sublist l := by
  unfold hRetained
  cases l with
  | nil => exact List.Sublist.slnil
  | cons v rest =>
    simp only
    split
    · exact List.nil_sublist _
    · exact hRetainedGo_sublist _

theorem specKey_tsDesc (o : HOpts) (snap : Nat) (vs : List HVer) (h : TsDesc vs) : TsDesc (specKey o snap vs) := by
  unfold specKey
  apply tsDesc_filter
  exact List.Pairwise.sublist (hRetained_sublist _) (tsDesc_filter vs _ h)

theorem find_filter_head (l : List HVer) (p : HVer → Bool) : l.find? p = (l.filter p).head? := by
  induction l with
  | nil => rfl
  | cons v rest ih =>
    simp only [List.find?_cons, List.filter_cons]
    cases hp : p v
    · simp only [Bool.false_eq_true, if_false]; exact ih
    · simp

/-- **get_at is the property** when timestamps strictly decrease along the versions (newest first) -/
theorem getAt_eq_spec (snap t : Nat) (vs : List HVer) (h : TsDesc vs) : getAt snap t vs = specGetAt snap t vs := by
  unfold getAt specGetAt
  have hk := histKeyFwd_eq_spec { tombs := true } rfl snap vs
  simp only at hk
  rw [hk]
  have hd := specKey_tsDesc { tombs := true } snap vs h
  rw [getAtGo_eq_find t _ hd, find_filter_head]
  have hf : TsDesc ((specKey { tombs := true } snap vs).filter (fun v => decide (v.ts ≤ t))) := tsDesc_filter _ _ hd
  simp only [fold_pick_eq_head _ hf]

/-! ### backward scan -/

theorem hRetainedGo_noHard : ∀ (l : List HVer), ∀ v ∈ hRetainedGo l, v.kind.isHard = false := by
  intro l
  induction l with
  | nil => intro v hv; cases hv
  | cons x xs ih =>
    intro v hv
    simp only [hRetainedGo] at hv
    by_cases hx : x.kind.isHard = true
    · simp [hx] at hv
    · have hx' : x.kind.isHard = false := by simpa using hx
      simp only [hx', Bool.false_eq_true, if_false] at hv
      by_cases hr : x.kind = .replace
      · simp [hr] at hv
        subst hv; exact hx'
      · have : (x.kind == VKind.replace) = false := by simpa using hr
        simp only [this, Bool.false_eq_true, if_false] at hv
        rcases List.mem_cons.mp hv with rfl | hv
        · exact hx'
        · exact ih v hv

/-- the retained versions are the ones newer than the newest barrier (a replace included) -/
theorem hRetainedGo_take : ∀ (l : List HVer) (j0 : Nat),
    hRetainedGo l = match newestBarrier l j0 with
      | some (j, true) => l.take (j - j0)
      | some (j, false) => l.take (j - j0 + 1)
      | none => l := by
  intro l
  induction l with
  | nil => intro j0; rfl
  | cons x xs ih =>
    intro j0
    simp only [hRetainedGo, newestBarrier]
    by_cases hx : x.kind.isHard = true
    · simp [hx]
    · have hx' : x.kind.isHard = false := by simpa using hx
      simp only [hx', Bool.false_eq_true, if_false]
      by_cases hr : x.kind = .replace
      · simp [hr]
      · have hrb : (x.kind == VKind.replace) = false := by simpa using hr
        simp only [hrb, Bool.false_eq_true, if_false]
        rw [ih (j0 + 1)]
        -- the barrier position found in the tail is at least j0 + 1
        have hge : ∀ p, newestBarrier xs (j0 + 1) = some p → j0 + 1 ≤ p.1 := by
          intro p hp
          clear ih
          induction xs generalizing j0 with
          | nil => cases hp
          | cons y ys ih2 =>
            simp only [newestBarrier] at hp
            split at hp
            · cases hp; exact Nat.le_refl _
            · split at hp
              · cases hp; exact Nat.le_refl _
              · have := ih2 (j0 + 1) hp; omega
        cases hnb : newestBarrier xs (j0 + 1) with
        | none => rfl
        | some p =>
          obtain ⟨j, b⟩ := p
          have := hge (j, b) hnb
          simp only at this
          cases b with
          | true =>
            simp only
            have : j - j0 = (j - (j0 + 1)) + 1 := by omega
            rw [this, List.take_succ_cons]
          | false =>
            simp only
            have : j - j0 + 1 = (j - (j0 + 1) + 1) + 1 := by omega
            rw [this, List.take_succ_cons]

theorem newestBarrier_lt : ∀ (l : List HVer) (j0 : Nat) (p : Nat × Bool), newestBarrier l j0 = some p →
    j0 ≤ p.1 ∧ p.1 < j0 + l.length := by
  intro l
  induction l with
  | nil => intro j0 p hp; cases hp
  | cons x xs ih =>
    intro j0 p hp
    simp only [newestBarrier] at hp
    split at hp
    · cases hp; simp
    · split at hp
      · cases hp; simp
      · have := ih (j0 + 1) p hp
        simp only [List.length_cons]; omega

/-- **the backward scan of one key lists the retained versions, oldest first** -/
theorem histKeyBwd_eq_spec (tombs : Bool) (snap : Nat) (vs : List HVer) :
    histKeyBwd tombs none snap vs = (specKey { tombs := tombs, range := none } snap vs).reverse := by
  unfold histKeyBwd specKey
  have hfilt : vs.reverse.filter (fun v => decide (v.seq ≤ snap)) =
      (vs.filter (fun v => decide (v.seq ≤ snap))).reverse := by
    rw [List.filter_reverse]
  simp only [hfilt, List.reverse_reverse, List.length_reverse]
  generalize vs.filter (fun v => decide (v.seq ≤ snap)) = vis
  have hopt : ∀ v : HVer, ((tombs || !v.kind.isTomb) && inRangeTs { tombs := tombs, range := none } v) =
      (tombs || !v.kind.isTomb) := by intro v; simp [inRangeTs]
  cases vis with
  | nil => simp [hRetained]
  | cons v rest =>
    have hlast : (v :: rest).reverse.getLast? = some v := by simp
    simp only [hlast, hRetained]
    by_cases hv : v.kind.isHard = true
    · simp [hv]
    · have hv' : v.kind.isHard = false := by simpa using hv
      simp only [hv', Bool.false_eq_true, if_false]
      -- what is dropped from the oldest end is what the barrier cuts off
      have key : ((v :: rest).reverse.drop (bwdStart (v :: rest).length (newestBarrier (v :: rest) 0))) =
          (hRetainedGo (v :: rest)).reverse := by
        rw [hRetainedGo_take (v :: rest) 0]
        cases hnb : newestBarrier (v :: rest) 0 with
        | none => simp [bwdStart]
        | some p =>
          obtain ⟨j, b⟩ := p
          have hlt := (newestBarrier_lt (v :: rest) 0 (j, b) hnb).2
          simp only [Nat.zero_add] at hlt
          cases b with
          | true =>
            simp only [Nat.sub_zero, bwdStart]
            rw [List.drop_reverse]
            congr 2
            omega
          | false =>
            simp only [Nat.sub_zero, bwdStart]
            rw [List.drop_reverse]
            congr 2
            omega
      rw [key, List.filter_reverse]
      congr 1
      apply List.filter_congr
      intro x hx
      rw [hopt x, hRetainedGo_noHard _ x hx]
      simp [inRangeOpt]

theorem reverse_flatMap' {α β : Type} (l : List α) (g : α → List β) :
    (l.flatMap g).reverse = l.reverse.flatMap (fun x => (g x).reverse) := by
  induction l with
  | nil => rfl
  | cons x xs ih => simp [List.flatMap_cons, List.flatMap_append, ih]

/-- **the backward scan is the forward listing read from the other end** (before the limit is applied) -/
theorem flatMap_congr' {α β : Type} (l : List α) (f g : α → List β) (h : ∀ x ∈ l, f x = g x) :
    l.flatMap f = l.flatMap g := by
  induction l with
  | nil => rfl
  | cons x xs ih =>
    simp only [List.flatMap_cons]
    rw [h x List.mem_cons_self, ih (fun y hy => h y (List.mem_cons_of_mem _ hy))]

theorem histBwd_eq_spec (o : HOpts) (hr : o.range = none) (snap : Nat) (keys : List (Nat × List HVer)) :
    histBwd o snap keys =
      applyLimit o ((keys.flatMap (fun kv => (specKey o snap kv.2).map (fun v => (kv.1, v)))).reverse) := by
  unfold histBwd
  congr 1
  rw [reverse_flatMap']
  apply flatMap_congr'
  intro kv _
  rw [hr, histKeyBwd_eq_spec, List.map_reverse]
  congr 2
  -- specKey does not look at the limit
  unfold specKey inRangeTs
  rw [hr]

/-- versions of one key as the merge delivers them, some of them twice in a row -/
def withCopies (twice : HVer → Bool) (l : List HVer) : List HVer :=
  l.flatMap (fun v => if twice v then [v, v] else [v])

theorem dedupAdj_withCopies (twice : HVer → Bool) : ∀ (l : List HVer),
    l.Pairwise (fun a b => a.seq ≠ b.seq) → dedupAdj (withCopies twice l) = l := by
  intro l
  induction l with
  | nil => intro _; rfl
  | cons x xs ih =>
    intro h
    rw [List.pairwise_cons] at h
    have ih' := ih h.2
    unfold withCopies at ih' ⊢
    simp only [List.flatMap_cons]
    -- what follows x's copies starts with a version of another sequence number (or is empty)
    cases xs with
    | nil =>
      simp only [List.flatMap_nil, List.append_nil]
      by_cases ht : twice x = true
      · simp [ht, dedupAdj]
      · simp [ht, dedupAdj]
    | cons y ys =>
      have hxy : x.seq ≠ y.seq := h.1 y List.mem_cons_self
      simp only [List.flatMap_cons] at ih' ⊢
      -- the head of the rest is y in both cases
      have hhead : ∃ tl, ((if twice y = true then [y, y] else [y]) ++ List.flatMap (fun v => if twice v = true then [v, v] else [v]) ys) = y :: tl := by
        by_cases hy : twice y = true
        · exact ⟨y :: List.flatMap (fun v => if twice v = true then [v, v] else [v]) ys, by simp [hy]⟩
        · exact ⟨List.flatMap (fun v => if twice v = true then [v, v] else [v]) ys, by simp [hy]⟩
      obtain ⟨tl, htl⟩ := hhead
      rw [htl] at ih' ⊢
      by_cases ht : twice x = true
      · simp only [ht, if_true, List.cons_append, List.nil_append]
        rw [dedupAdj]
        simp only [and_self, if_true]
        rw [dedupAdj]
        rw [if_neg (by intro hh; exact hxy hh.1), ih']
      · simp only [ht, Bool.false_eq_true, if_false, List.cons_append, List.nil_append]
        rw [dedupAdj]
        rw [if_neg (by intro hh; exact hxy hh.1), ih']
