import Skv.Model.Oracle
/-!
Lemmas for C04: association-list facts, characterisation of `publish` / `rollback` per key,
and the soundness invariant `OInv` of the oracle transition system, preserved by every step.
-/
open Oracle

abbrev OMap := List (Nat × OEntry)

def KeysNodup (m : OMap) : Prop := (m.map (·.1)).Nodup

theorem lookup_none_of_not_mem (m : OMap) (k : Nat) (h : k ∉ m.map (·.1)) : lookup m k = none := by
  induction m with
  | nil => rfl
  | cons p r ih =>
    simp only [List.map_cons, List.mem_cons, not_or] at h
    have hne : (p.1 == k) = false := beq_eq_false_iff_ne.mpr (Ne.symm h.1)
    have := ih h.2
    simp only [lookup, List.find?_cons, hne] at this ⊢
    exact this

theorem lookup_filter_ne (m : OMap) (k k' : Nat) (h : k' ≠ k) :
    lookup (m.filter (fun p => p.1 != k)) k' = lookup m k' := by
  induction m with
  | nil => rfl
  | cons p r ih =>
    simp only [List.filter_cons]
    by_cases hp : p.1 = k
    · have h1 : (p.1 != k) = false := by simp [hp]
      have h2 : (p.1 == k') = false := beq_eq_false_iff_ne.mpr (by rw [hp]; exact Ne.symm h)
      simp only [h1, Bool.false_eq_true, if_false]
      rw [ih]; simp [lookup, List.find?_cons, h2]
    · have h1 : (p.1 != k) = true := by simp [hp]
      simp only [h1, if_true]
      unfold lookup at ih ⊢
      simp only [List.find?_cons]
      split
      · rfl
      · exact ih

theorem lookup_filter_self (m : OMap) (k : Nat) : lookup (m.filter (fun p => p.1 != k)) k = none := by
  apply lookup_none_of_not_mem
  intro h
  simp only [List.mem_map, List.mem_filter] at h
  obtain ⟨p, ⟨_, hp⟩, rfl⟩ := h
  simp at hp

theorem lookup_insert (m : OMap) (k : Nat) (v : OEntry) (k' : Nat) :
    lookup (Oracle.insert m k v) k' = if k' = k then some v else lookup m k' := by
  unfold Oracle.insert
  by_cases h : k' = k
  · subst h; simp [lookup]
  · have h1 : (k == k') = false := beq_eq_false_iff_ne.mpr (Ne.symm h)
    have := lookup_filter_ne m k k' h
    unfold lookup at this ⊢
    simp only [List.find?_cons, h1, h, if_false]
    exact this

theorem lookup_erase (m : OMap) (k k' : Nat) :
    lookup (Oracle.erase m k) k' = if k' = k then none else lookup m k' := by
  unfold Oracle.erase
  by_cases h : k' = k
  · subst h; simp [lookup_filter_self]
  · simp [h, lookup_filter_ne m k k' h]

theorem keys_filter_nodup (m : OMap) (p : Nat × OEntry → Bool) (h : KeysNodup m) : KeysNodup (m.filter p) :=
  List.Nodup.sublist ((List.filter_sublist).map _) h

theorem keys_insert_nodup (m : OMap) (k : Nat) (v : OEntry) (h : KeysNodup m) : KeysNodup (Oracle.insert m k v) := by
  unfold KeysNodup Oracle.insert
  simp only [List.map_cons, List.nodup_cons]
  refine ⟨?_, keys_filter_nodup m _ h⟩
  intro hm
  simp only [List.mem_map, List.mem_filter] at hm
  obtain ⟨p, ⟨_, hp⟩, hk⟩ := hm
  simp [hk] at hp

theorem keys_erase_nodup (m : OMap) (k : Nat) (h : KeysNodup m) : KeysNodup (Oracle.erase m k) :=
  keys_filter_nodup m _ h

/-- with distinct keys, filtering on the value commutes with lookup -/
theorem lookup_filter_val (m : OMap) (q : OEntry → Bool) (k : Nat) (h : KeysNodup m) :
    lookup (m.filter (fun p => q p.2)) k = (lookup m k).filter q := by
  induction m with
  | nil => rfl
  | cons p r ih =>
    unfold KeysNodup at h
    simp only [List.map_cons, List.nodup_cons] at h
    have ih := ih h.2
    by_cases hp : p.1 = k
    · have h1 : (p.1 == k) = true := by simpa using hp
      have hnone : lookup r k = none := lookup_none_of_not_mem r k (hp ▸ h.1)
      by_cases hq : q p.2 = true
      · simp [List.filter_cons, hq, lookup, List.find?_cons, h1, Option.filter]
      · have hq : q p.2 = false := by simpa using hq
        simp only [List.filter_cons, hq, Bool.false_eq_true, if_false, ih, hnone]
        simp [lookup, List.find?_cons, h1, hq, Option.filter]
    · have h1 : (p.1 == k) = false := beq_eq_false_iff_ne.mpr hp
      simp only [List.filter_cons]
      split
      · unfold lookup at ih ⊢
        simp only [List.find?_cons, h1]; exact ih
      · rw [ih]; simp [lookup, List.find?_cons, h1]

/-! ### publish, key by key -/

def stampOf (s : Nat) : Option OEntry → OEntry
  | some c => if c.seq != s then ⟨s, .stamp c.seq⟩ else c
  | none => ⟨s, .absent⟩

theorem stampOf_seq (s : Nat) (x : Option OEntry) : (stampOf s x).seq = s := by
  cases x with
  | none => rfl
  | some c =>
    simp only [stampOf]
    split
    · rfl
    · rename_i h; simpa using h

theorem stampOf_idem (s : Nat) (x : Option OEntry) : stampOf s (some (stampOf s x)) = stampOf s x := by
  have := stampOf_seq s x
  generalize stampOf s x = e at this
  simp [stampOf, this]

theorem lookup_stampKey (s : Nat) (m : OMap) (k k' : Nat) :
    lookup (stampKey s m k) k' = if k' = k then some (stampOf s (lookup m k)) else lookup m k' := by
  unfold stampKey
  cases hl : lookup m k with
  | none => simp [lookup_insert, stampOf]
  | some cur =>
    simp only [stampOf]
    split
    · simp [lookup_insert]
    · by_cases h : k' = k
      · subst h; simp [hl]
      · simp [h]

theorem stampKey_nodup (s : Nat) (m : OMap) (k : Nat) (h : KeysNodup m) : KeysNodup (stampKey s m k) := by
  unfold stampKey
  split
  · split
    · exact keys_insert_nodup _ _ _ h
    · exact h
  · exact keys_insert_nodup _ _ _ h

theorem foldl_stampKey_nodup (s : Nat) (keys : List Nat) : ∀ m, KeysNodup m → KeysNodup (keys.foldl (stampKey s) m) := by
  induction keys with
  | nil => intro m h; exact h
  | cons a as ih => intro m h; exact ih _ (stampKey_nodup s m a h)

theorem lookup_foldl_stamp (s : Nat) (keys : List Nat) : ∀ (m : OMap) (k : Nat),
    lookup (keys.foldl (stampKey s) m) k =
      if k ∈ keys then some (stampOf s (lookup m k)) else lookup m k := by
  induction keys with
  | nil => intro m k; simp
  | cons a as ih =>
    intro m k
    simp only [List.foldl_cons]
    rw [ih, lookup_stampKey]
    by_cases hka : k = a
    · subst hka
      by_cases hk : k ∈ as
      · simp [hk, stampOf_idem]
      · simp [hk]
    · by_cases hk : k ∈ as
      · simp [hk, hka]
      · simp [hk, hka]

/-! ### rollback, key by key -/

def unOf (s : Nat) : Option OEntry → Option OEntry
  | some v =>
    if v.seq == s then
      match v.prev with
      | .absent => none
      | .stamp p => some ⟨p, .unknown⟩
      | .unknown => some v
    else some v
  | none => none

theorem unOf_idem (s : Nat) (x : Option OEntry) : unOf s (unOf s x) = unOf s x := by
  cases x with
  | none => rfl
  | some v =>
    simp only [unOf]
    by_cases h : v.seq = s
    · have h1 : (v.seq == s) = true := by simpa using h
      simp only [h1, if_true]
      cases hp : v.prev with
      | absent => rfl
      | stamp p => simp only [unOf]; split <;> rfl
      | unknown => simp [unOf, h1, hp]
    · have h1 : (v.seq == s) = false := beq_eq_false_iff_ne.mpr h
      simp [h1, unOf]

theorem lookup_unstampKey (s : Nat) (m : OMap) (k k' : Nat) :
    lookup (unstampKey s m k) k' = if k' = k then unOf s (lookup m k) else lookup m k' := by
  unfold unstampKey
  cases hl : lookup m k with
  | none =>
    by_cases h : k' = k
    · subst h; simp [hl, unOf]
    · simp [h]
  | some v =>
    simp only [unOf]
    by_cases hs : v.seq = s
    · have h1 : (v.seq == s) = true := by simpa using hs
      simp only [h1, if_true]
      cases hp : v.prev with
      | absent => simp [lookup_erase]
      | stamp p => simp [lookup_insert]
      | unknown =>
        by_cases h : k' = k
        · subst h; simp [hl]
        · simp [h]
    · have h1 : (v.seq == s) = false := beq_eq_false_iff_ne.mpr hs
      simp only [h1, Bool.false_eq_true, if_false]
      by_cases h : k' = k
      · subst h; simp [hl]
      · simp [h]

theorem unstampKey_nodup (s : Nat) (m : OMap) (k : Nat) (h : KeysNodup m) : KeysNodup (unstampKey s m k) := by
  unfold unstampKey
  split
  · split
    · split
      · exact keys_erase_nodup _ _ h
      · exact keys_insert_nodup _ _ _ h
      · exact h
    · exact h
  · exact h

theorem foldl_unstampKey_nodup (s : Nat) (keys : List Nat) : ∀ m, KeysNodup m → KeysNodup (keys.foldl (unstampKey s) m) := by
  induction keys with
  | nil => intro m h; exact h
  | cons a as ih => intro m h; exact ih _ (unstampKey_nodup s m a h)

theorem lookup_foldl_unstamp (s : Nat) (keys : List Nat) : ∀ (m : OMap) (k : Nat),
    lookup (keys.foldl (unstampKey s) m) k = if k ∈ keys then unOf s (lookup m k) else lookup m k := by
  induction keys with
  | nil => intro m k; simp
  | cons a as ih =>
    intro m k
    simp only [List.foldl_cons]
    rw [ih, lookup_unstampKey]
    by_cases hka : k = a
    · subst hka
      by_cases hk : k ∈ as
      · simp [hk, unOf_idem]
      · simp [hk]
    · by_cases hk : k ∈ as
      · simp [hk, hka]
      · simp [hk, hka]

/-! ### the soundness invariant of the oracle transition system -/

def sharesKey (a b : List Nat) : Prop := ∃ k, k ∈ a ∧ k ∈ b

structure OInv (s : OState) : Prop where
  nodup : KeysNodup s.o.recent
  stampsLt : ∀ b ∈ s.live, b.stamp < s.next
  seqLt : ∀ k e, lookup s.o.recent k = some e → e.seq < s.next
  distinct : s.live.Pairwise (fun a b => a.stamp ≠ b.stamp)
  /-- every live batch inside the kept window is covered by an entry at least as new -/
  cover : ∀ b ∈ s.live, s.o.keptSince ≤ b.stamp → ∀ k ∈ b.keys,
      ∃ e, lookup s.o.recent k = some e ∧ b.stamp ≤ e.seq
  /-- what an entry remembers as overwritten dominates every older live batch on that key -/
  prevOk : ∀ k e, lookup s.o.recent k = some e → ∀ b ∈ s.live, b.stamp < e.seq → k ∈ b.keys →
      s.o.keptSince ≤ b.stamp → (e.prev = .unknown ∨ ∃ p, e.prev = .stamp p ∧ b.stamp ≤ p)
  /-- a remembered overwritten stamp is older than the entry's own stamp -/
  prevLt : ∀ k e, lookup s.o.recent k = some e → ∀ p, e.prev = .stamp p → p < e.seq
  /-- first committer wins: of two live batches sharing a key, the later began after the earlier committed -/
  fcw : s.live.Pairwise (fun a b => sharesKey a.keys b.keys → a.stamp ≤ b.start)

theorem oinv_init : OInv OState.init := by
  refine ⟨by simp [OState.init, Oracle.empty, KeysNodup], ?_, ?_, by simp [OState.init], ?_, ?_, ?_, by simp [OState.init]⟩
  · intro b hb; simp [OState.init] at hb
  · intro k e h; simp [OState.init, Oracle.empty, lookup] at h
  · intro b hb; simp [OState.init] at hb
  · intro k e h; simp [OState.init, Oracle.empty, lookup] at h
  · intro k e h; simp [OState.init, Oracle.empty, lookup] at h

/-- what an accepted `check` guarantees, given the invariant -/
theorem check_sound (s : OState) (h : OInv s) (keys : List Nat) (start : Nat)
    (hok : s.o.check keys start = .ok ()) :
    ∀ b ∈ s.live, start < b.stamp → ¬ sharesKey b.keys keys := by
  intro b hb hlt ⟨k, hkb, hk⟩
  unfold Oracle.check at hok
  split at hok
  · cases hok
  · rename_i hks
    split at hok
    · cases hok
    · rename_i hany
      obtain ⟨e, he, hle⟩ := h.cover b hb (by omega) k hkb
      apply hany
      simp only [List.any_eq_true]
      exact ⟨k, hk, by simp [he]; omega⟩

/-- keptSince after publish -/
theorem publish_keptSince (gc : Nat) (o : Oracle) (keys : List Nat) (seq count oa : Nat) :
    (o.publish gc keys seq count oa).keptSince = o.keptSince ∨
    ((o.publish gc keys seq count oa).keptSince = oa ∧ o.keptSince < oa) := by
  unfold Oracle.publish
  dsimp only
  split
  · rename_i hc
    right; simp at hc; exact ⟨rfl, hc.2⟩
  · left; rfl

theorem publish_lookup (gc : Nat) (o : Oracle) (keys : List Nat) (seq count oa : Nat) (k : Nat)
    (hnd : KeysNodup o.recent) :
    lookup (o.publish gc keys seq count oa).recent k =
      (if k ∈ keys then some (stampOf (seq + count - 1) (lookup o.recent k)) else lookup o.recent k).filter
        (fun e => decide ((o.publish gc keys seq count oa).keptSince = o.keptSince ∨
                          e.seq ≥ (o.publish gc keys seq count oa).keptSince)) := by
  unfold Oracle.publish
  dsimp only
  split
  · rename_i hc
    dsimp only
    have hnd' := foldl_stampKey_nodup (seq + count - 1) keys o.recent hnd
    rw [lookup_filter_val _ (fun e => decide (e.seq ≥ oa)) k hnd', lookup_foldl_stamp]
    simp at hc
    have : oa ≠ o.keptSince := by omega
    congr 1
    funext e
    simp [this]
  · dsimp only
    rw [lookup_foldl_stamp]
    cases (if k ∈ keys then some (stampOf (seq + count - 1) (lookup o.recent k)) else lookup o.recent k) <;>
      simp [Option.filter]

theorem oinv_commit (gc : Nat) (s : OState) (h : OInv s) (keys : List Nat) (start oa : Nat)
    (hne : keys ≠ []) (hok : s.o.check keys start = .ok ()) :
    OInv { o := s.o.publish gc keys s.next keys.length (min oa start), next := s.next + keys.length,
           live := s.live ++ [⟨keys, s.next + keys.length - 1, start⟩] } := by
  have hlen : 0 < keys.length := List.length_pos_iff.mpr hne
  generalize hst : s.next + keys.length - 1 = stamp
  have hstamp_ge : s.next ≤ stamp := by omega
  have hks := publish_keptSince gc s.o keys s.next keys.length (min oa start)
  have hlk := fun k => publish_lookup gc s.o keys s.next keys.length (min oa start) k h.nodup
  rw [hst] at hlk
  generalize hpo : s.o.publish gc keys s.next keys.length (min oa start) = o' at hks hlk
  -- keptSince never decreases, and never exceeds `start`
  have hkmono : s.o.keptSince ≤ o'.keptSince := by rcases hks with h1 | ⟨h1, h2⟩ <;> omega
  have hstart_ks : s.o.keptSince ≤ start := by
    unfold Oracle.check at hok
    split at hok
    · cases hok
    · omega
  have hkle : o'.keptSince ≤ start := by
    rcases hks with h1 | ⟨h1, _⟩
    · omega
    · rw [h1]; exact Nat.min_le_right _ _
  -- shape of a looked-up entry after the publish
  have hshape : ∀ k e, lookup o'.recent k = some e →
      (k ∈ keys ∧ e = stampOf stamp (lookup s.o.recent k)) ∨ (k ∉ keys ∧ lookup s.o.recent k = some e) := by
    intro k e he
    rw [hlk] at he
    by_cases hk : k ∈ keys
    · simp only [hk, if_true] at he
      left; refine ⟨hk, ?_⟩
      simp only [Option.filter] at he
      split at he
      · exact (Option.some.inj he).symm
      · cases he
    · simp only [hk, if_false] at he
      right; refine ⟨hk, ?_⟩
      cases hl : lookup s.o.recent k with
      | none => simp [hl, Option.filter] at he
      | some e0 =>
        simp only [hl, Option.filter] at he
        split at he
        · exact congrArg some (Option.some.inj he)
        · cases he
  -- an old entry of sufficient seq survives
  have hsurv : ∀ k e, (if k ∈ keys then some (stampOf stamp (lookup s.o.recent k)) else lookup s.o.recent k) = some e →
      o'.keptSince ≤ e.seq → lookup o'.recent k = some e := by
    intro k e he hge
    rw [hlk, he]
    simp only [Option.filter]
    split
    · rfl
    · rename_i hd; simp at hd; omega
  refine ⟨?_, ?_, ?_, ?_, ?_, ?_, ?_, ?_⟩
  · -- nodup
    rw [← hpo]
    unfold Oracle.publish
    dsimp only
    split
    · exact keys_filter_nodup _ _ (foldl_stampKey_nodup _ _ _ h.nodup)
    · exact foldl_stampKey_nodup _ _ _ h.nodup
  · intro b hb
    rcases List.mem_append.mp hb with hb | hb
    · have := h.stampsLt b hb; dsimp only; omega
    · simp at hb; subst hb; dsimp only; omega
  · intro k e he
    dsimp only at he ⊢
    rcases hshape k e he with ⟨_, rfl⟩ | ⟨_, hold⟩
    · rw [stampOf_seq]; omega
    · have := h.seqLt k e hold; omega
  · refine List.pairwise_append.mpr ⟨h.distinct, by simp, ?_⟩
    intro a ha b hb
    simp at hb; subst hb
    have := h.stampsLt a ha; dsimp only; omega
  · -- cover
    intro b hb hk k hkb
    dsimp only at hk ⊢
    rcases List.mem_append.mp hb with hb | hb
    · have hk0 : s.o.keptSince ≤ b.stamp := by omega
      obtain ⟨e0, he0, hle0⟩ := h.cover b hb hk0 k hkb
      by_cases hin : k ∈ keys
      · refine ⟨stampOf stamp (some e0), ?_, ?_⟩
        · apply hsurv
          · simp [hin, he0]
          · rw [stampOf_seq]; have := h.stampsLt b hb; omega
        · rw [stampOf_seq]; have := h.stampsLt b hb; omega
      · exact ⟨e0, hsurv k e0 (by simp [hin, he0]) (by omega), hle0⟩
    · simp at hb; subst hb
      dsimp only at hkb hk ⊢
      refine ⟨stampOf stamp (lookup s.o.recent k), ?_, by rw [stampOf_seq]; exact Nat.le_refl _⟩
      apply hsurv
      · simp [hkb]
      · rw [stampOf_seq]; exact hk
  · -- prevOk
    intro k e he b hb hlt hkb hk
    dsimp only at he hk
    rcases hshape k e he with ⟨hin, rfl⟩ | ⟨hnin, hold⟩
    · -- freshly stamped entry: its prev is what was there before
      rcases List.mem_append.mp hb with hb | hb
      · have hk0 : s.o.keptSince ≤ b.stamp := by omega
        obtain ⟨e0, he0, hle0⟩ := h.cover b hb hk0 k hkb
        have hne0 : e0.seq ≠ stamp := by have := h.seqLt k e0 he0; omega
        right
        refine ⟨e0.seq, ?_, hle0⟩
        simp [he0, stampOf, hne0]
      · simp at hb; subst hb
        rw [stampOf_seq] at hlt
        exact absurd hlt (Nat.lt_irrefl _)
    · rcases List.mem_append.mp hb with hb | hb
      · exact h.prevOk k e hold b hb hlt hkb (by omega)
      · simp at hb; subst hb
        dsimp only at hkb
        exact absurd hkb hnin
  · -- prevLt
    intro k e he p hp
    dsimp only at he
    rcases hshape k e he with ⟨hin, rfl⟩ | ⟨hnin, hold⟩
    · cases hl : lookup s.o.recent k with
      | none => simp [hl, stampOf] at hp
      | some e0 =>
        have hlt0 := h.seqLt k e0 hl
        simp only [hl, stampOf] at hp ⊢
        split at hp
        · rename_i hc
          simp at hp; subst hp
          simp only [hc, if_true]; omega
        · rename_i hc
          simp only [hc, if_false]
          exact h.prevLt k e0 hl p hp
    · exact h.prevLt k e hold p hp
  · -- first committer wins
    refine List.pairwise_append.mpr ⟨h.fcw, by simp, ?_⟩
    intro a ha b hb
    simp at hb; subst hb
    dsimp only
    intro hshare
    by_cases hlt : start < a.stamp
    · exact absurd hshare (check_sound s h keys start hok a ha hlt)
    · omega

theorem oinv_fail (s : OState) (h : OInv s) (b : OBatch) (hb : b ∈ s.live) :
    OInv { s with o := s.o.rollback b.keys b.stamp, live := s.live.filter (fun x => x.stamp != b.stamp) } := by
  have hsub : (s.live.filter (fun x => x.stamp != b.stamp)).Sublist s.live := List.filter_sublist
  have hlk : ∀ k, lookup (s.o.rollback b.keys b.stamp).recent k =
      if k ∈ b.keys then unOf b.stamp (lookup s.o.recent k) else lookup s.o.recent k := by
    intro k; simp only [Oracle.rollback]; exact lookup_foldl_unstamp _ _ _ _
  have hmem : ∀ x, x ∈ s.live.filter (fun x => x.stamp != b.stamp) → x ∈ s.live ∧ x.stamp ≠ b.stamp := by
    intro x hx
    have := List.mem_filter.mp hx
    exact ⟨this.1, by simpa using this.2⟩
  -- shape of an entry after the rollback
  have hshape : ∀ k e', lookup (s.o.rollback b.keys b.stamp).recent k = some e' →
      lookup s.o.recent k = some e' ∨
      (∃ e p, lookup s.o.recent k = some e ∧ e.seq = b.stamp ∧ e.prev = .stamp p ∧ e' = ⟨p, .unknown⟩) := by
    intro k e' he
    rw [hlk] at he
    by_cases hk : k ∈ b.keys
    · simp only [hk, if_true] at he
      cases hl : lookup s.o.recent k with
      | none => simp [hl, unOf] at he
      | some v =>
        simp only [hl, unOf] at he
        split at he
        · rename_i hs
          have hs : v.seq = b.stamp := by simpa using hs
          cases hp : v.prev with
          | absent => simp [hp] at he
          | unknown => simp [hp] at he; left; rw [he]
          | stamp p => simp [hp] at he; right; exact ⟨v, p, rfl, hs, hp, he.symm⟩
        · left; exact he
    · simp only [hk, if_false] at he; left; exact he
  refine ⟨?_, ?_, ?_, h.distinct.sublist hsub, ?_, ?_, ?_, h.fcw.sublist hsub⟩
  · simp only [Oracle.rollback]; exact foldl_unstampKey_nodup _ _ _ h.nodup
  · intro x hx; exact h.stampsLt x (hmem x hx).1
  · intro k e' he
    dsimp only at he ⊢
    rcases hshape k e' he with hold | ⟨e, p, hl, _, hp, rfl⟩
    · exact h.seqLt k e' hold
    · have := h.prevLt k e hl p hp
      have := h.seqLt k e hl
      dsimp only; omega
  · -- cover
    intro x hx hk k hkx
    obtain ⟨hxl, hxne⟩ := hmem x hx
    dsimp only at hk ⊢
    have hk0 : s.o.keptSince ≤ x.stamp := hk
    obtain ⟨e, he, hle⟩ := h.cover x hxl hk0 k hkx
    rw [hlk]
    by_cases hkb : k ∈ b.keys
    · simp only [hkb, if_true, he, unOf]
      by_cases hs : e.seq = b.stamp
      · have h1 : (e.seq == b.stamp) = true := by simpa using hs
        simp only [h1, if_true]
        have hlt : x.stamp < e.seq := by omega
        rcases h.prevOk k e he x hxl hlt hkx hk0 with hu | ⟨p, hp, hpl⟩
        · simp only [hu]; exact ⟨e, rfl, hle⟩
        · simp only [hp]; exact ⟨⟨p, .unknown⟩, rfl, hpl⟩
      · have h1 : (e.seq == b.stamp) = false := beq_eq_false_iff_ne.mpr hs
        simp only [h1, Bool.false_eq_true, if_false]
        exact ⟨e, rfl, hle⟩
    · simp only [hkb, if_false]; exact ⟨e, he, hle⟩
  · -- prevOk
    intro k e' he x hx hlt hkx hk
    obtain ⟨hxl, _⟩ := hmem x hx
    dsimp only at he hk
    rcases hshape k e' he with hold | ⟨e, p, _, _, _, rfl⟩
    · exact h.prevOk k e' hold x hxl hlt hkx hk
    · left; rfl
  · -- prevLt
    intro k e' he p hp
    dsimp only at he
    rcases hshape k e' he with hold | ⟨e, p', _, _, _, rfl⟩
    · exact h.prevLt k e' hold p hp
    · simp at hp

/-- every step of the oracle transition system preserves the invariant -/
theorem oinv_step (gc : Nat) (s : OState) (h : OInv s) (ev : OEv) : OInv (s.step gc ev).1 := by
  cases ev with
  | commit keys start oa =>
    simp only [OState.step]
    split
    · exact h
    · rename_i hne
      split
      · exact h
      · rename_i u hok
        have hne' : keys ≠ [] := by intro h0; simp [h0] at hne
        have hok' : s.o.check keys start = .ok () := by rw [hok]
        exact oinv_commit gc s h keys start oa hne' hok'
  | fail stamp =>
    simp only [OState.step]
    split
    · exact h
    · rename_i b hf
      have hb : b ∈ s.live := List.mem_of_find?_eq_some hf
      have hbs : b.stamp = stamp := by
        have := List.find?_some hf; simpa using this
      subst hbs
      exact oinv_fail s h b hb
