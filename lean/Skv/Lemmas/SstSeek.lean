import Skv.Lemmas.SstOrder
/-! the two-level seek and the point lookup of a well-formed table equal the flat-list functions -/

/-! ### block-level seek -/

theorem sorted_take_lt (es : List Ent) (hs : sortedEnts es = true) (i : Nat) (e : Ent)
    (he : es[i]? = some e) : ∀ x ∈ es.take i, ikLt x.k e.k = true := by
  induction es generalizing i with
  | nil => simp at he
  | cons y ys ih =>
    cases i with
    | zero => intro x hx; simp at hx
    | succ i =>
      intro x hx
      have he' : ys[i]? = some e := by simpa using he
      rw [List.take_succ_cons] at hx
      rcases List.mem_cons.mp hx with hx | hx
      · subst hx; exact sortedEnts_head_lt hs e (List.mem_of_getElem? he')
      · exact ih (sortedEnts_cons hs) i he' x hx

/-- scanning from an index whose entry is below the target (or from 0) finds the global position -/
theorem scanFrom_eq (es : List Ent) (hs : sortedEnts es = true) (t : IKey) (i : Nat)
    (h : i = 0 ∨ ∃ e, es[i]? = some e ∧ ikLt e.k t = true) : scanFrom es t i = firstGE es t := by
  unfold scanFrom
  rcases h with h | ⟨e, he, hlt⟩
  · subst h; simp
  · have hall : ∀ x ∈ es.take i, ikLt x.k t = true :=
      fun x hx => ikLt_trans (sorted_take_lt es hs i e he x hx) hlt
    have := firstGE_append_all_lt (es.take i) (es.drop i) t hall
    rw [List.take_append_drop] at this
    rw [this, List.length_take]
    have : i < es.length := by
      rcases Nat.lt_or_ge i es.length with h | h
      · exact h
      · rw [List.getElem?_eq_none h] at he; cases he
    omega

theorem bsearch_inv (es : List Ent) (rs : List Nat) (t : IKey) (fuel left right : Nat)
    (h : left = 0 ∨ ∃ e, es[rs[left]?.getD 0]? = some e ∧ ikLt e.k t = true) :
    let l := bsearch es rs t fuel left right
    l = 0 ∨ ∃ e, es[rs[l]?.getD 0]? = some e ∧ ikLt e.k t = true := by
  induction fuel generalizing left right with
  | zero => exact h
  | succ fuel ih =>
    simp only [bsearch]
    split
    · split
      · rename_i e he
        split
        · rename_i hlt; exact ih _ _ (Or.inr ⟨e, he, hlt⟩)
        · exact ih _ _ h
      · exact h
    · exact h

theorem blockSeek_eq (b : PBlock) (hs : sortedEnts b.ents = true) (hr : b.restarts.head? = some 0)
    (t : IKey) : blockSeek b t = firstGE b.ents t := by
  unfold blockSeek
  apply scanFrom_eq _ hs
  have := bsearch_inv b.ents b.restarts t b.restarts.length 0 (b.restarts.length - 1) (Or.inl rfl)
  rcases this with h | h
  · left
    rw [h]
    cases hrs : b.restarts with
    | nil => rfl
    | cons x xs => rw [hrs] at hr; simp at hr; subst hr; rfl
  · right; exact h

/-! ### flat list of blocks -/

def flatSeek (bs : List PBlock) (t : IKey) : Nat :=
  let j := firstGEk (bs.map (·.sep)) t
  match bs[j]? with
  | none => (flatOf bs).length
  | some b => offsetOf bs j + firstGE b.ents t

theorem flatOf_cons (b : PBlock) (bs : List PBlock) : flatOf (b :: bs) = b.ents ++ flatOf bs := by
  simp [flatOf]

theorem offsetOf_cons_succ (b : PBlock) (bs : List PBlock) (j : Nat) :
    offsetOf (b :: bs) (j + 1) = b.ents.length + offsetOf bs j := by
  simp [offsetOf, flatOf]

theorem offsetOf_zero (bs : List PBlock) : offsetOf bs 0 = 0 := by simp [offsetOf, flatOf]

theorem sorted_le_last (es : List Ent) (hs : sortedEnts es = true) (l : Ent) (hl : es.getLast? = some l) :
    ∀ e ∈ es, ikLe e.k l.k = true := by
  induction es with
  | nil => intro e he; cases he
  | cons x xs ih =>
    intro e he
    cases xs with
    | nil =>
      have : x = l := by simpa using hl
      subst this
      have : e = x := by simpa using he
      subst this; exact ikLe_refl _
    | cons y ys =>
      have hl' : (y :: ys).getLast? = some l := by simpa [List.getLast?_cons_cons] using hl
      rcases List.mem_cons.mp he with he | he
      · subst he
        have hmem : l ∈ (y :: ys) := List.mem_of_getLast? hl'
        exact ikLe_of_lt (sortedEnts_head_lt hs l hmem)
      · exact ih (sortedEnts_cons hs) hl' e he

/-- what `blocksWF` says about the first block -/
structure HeadWF (b : PBlock) (rest : List PBlock) : Prop where
  sorted : sortedEnts b.ents = true
  allLe : ∀ e ∈ b.ents, ikLe e.k b.sep = true
  nonempty : b.ents ≠ []
  next : ∀ b' rest', rest = b' :: rest' → ∃ f l, b'.ents.head? = some f ∧ b.ents.getLast? = some l ∧
      ikLt b.sep f.k = true ∧ (b.sep = l.k ∨ b.sep.uk < f.k.uk)
  tail : blocksWF rest = true

theorem blocksWF_cons (b : PBlock) (rest : List PBlock) (h : blocksWF (b :: rest) = true) : HeadWF b rest := by
  cases rest with
  | nil =>
    simp only [blocksWF, Bool.and_eq_true] at h
    obtain ⟨h1, h2⟩ := h
    cases hl : b.ents.getLast? with
    | none => rw [hl] at h1; cases h1
    | some l =>
      rw [hl] at h1
      refine ⟨h2, ?_, ?_, ?_, rfl⟩
      · intro e he
        have := sorted_le_last _ h2 l hl e he
        rw [ikLe_iff] at this ⊢
        cases hc : ikLt b.sep e.k with
        | false => rfl
        | true =>
          have h3 : ikLt b.sep l.k = true := ikLt_of_lt_of_le hc ((ikLe_iff _ _).mpr this)
          have h4 := not_lt_of_le h1
          rw [h3] at h4; cases h4
      · intro hn; rw [hn] at hl; cases hl
      · intro b' rest' hh; cases hh
  | cons b' rest' =>
    simp only [blocksWF, Bool.and_eq_true] at h
    obtain ⟨⟨h1, h2⟩, h3⟩ := h
    cases hl : b.ents.getLast? with
    | none => rw [hl] at h1; cases h1
    | some l =>
      cases hf : b'.ents.head? with
      | none => rw [hl, hf] at h1; cases h1
      | some f =>
        rw [hl, hf] at h1
        simp only [Bool.and_eq_true, Bool.or_eq_true, beq_iff_eq, decide_eq_true_eq] at h1
        obtain ⟨⟨h1a, h1b⟩, h1c⟩ := h1
        refine ⟨h2, ?_, ?_, ?_, h3⟩
        · intro e he
          have := sorted_le_last _ h2 l hl e he
          rw [ikLe_iff] at this ⊢
          cases hc : ikLt b.sep e.k with
          | false => rfl
          | true =>
            have h5 : ikLt b.sep l.k = true := ikLt_of_lt_of_le hc ((ikLe_iff _ _).mpr this)
            have h4 := not_lt_of_le h1a
            rw [h5] at h4; cases h4
        · intro hn; rw [hn] at hl; cases hl
        · intro b'' rest'' hh
          cases hh
          exact ⟨f, l, hf, hl, h1b, h1c⟩

theorem flatOf_head (b : PBlock) (rest : List PBlock) (f : Ent) (h : b.ents.head? = some f) :
    (flatOf (b :: rest)).head? = some f := by
  rw [flatOf_cons]
  cases hb : b.ents with
  | nil => rw [hb] at h; cases h
  | cons x xs => rw [hb] at h; simpa using h

/-- **two-level seek over a flat block list = position in the flat entry list** -/
theorem flatSeek_eq (bs : List PBlock) (h : blocksWF bs = true) (t : IKey) :
    flatSeek bs t = firstGE (flatOf bs) t := by
  induction bs with
  | nil => simp [flatSeek, flatOf, firstGE, firstGEk]
  | cons b rest ih =>
    have hw := blocksWF_cons b rest h
    rw [flatOf_cons]
    unfold flatSeek
    simp only [List.map_cons]
    rw [firstGEk_cons]
    by_cases hsep : ikLt b.sep t = true
    · -- the whole block is below the target
      rw [if_pos hsep]
      have hall : ∀ e ∈ b.ents, ikLt e.k t = true := fun e he => ikLt_of_le_of_lt (hw.allLe e he) hsep
      rw [firstGE_append_all_lt _ _ _ hall, ← ih hw.tail]
      unfold flatSeek
      simp only [List.getElem?_cons_succ]
      cases hj : rest[firstGEk (rest.map (·.sep)) t]? with
      | none => simp [flatOf_cons]
      | some b' => simp only [offsetOf_cons_succ]; omega
    · -- the index stops at this block
      rw [if_neg hsep]
      simp only [List.getElem?_cons_zero, offsetOf_zero, Nat.zero_add]
      have hsep' : ikLt b.sep t = false := by simpa using hsep
      rcases Nat.lt_or_ge (firstGE b.ents t) b.ents.length with hp | hp
      · rw [firstGE_append_stop _ _ _ hp]
      · have hp' : firstGE b.ents t = b.ents.length := Nat.le_antisymm (firstGE_le _ _) hp
        have hall : ∀ e ∈ b.ents, ikLt e.k t = true := by
          intro e he
          obtain ⟨i, hi, rfl⟩ := List.mem_iff_getElem.mp he
          obtain ⟨e', he', hlt⟩ := firstGE_before b.ents t i (by omega)
          rw [List.getElem?_eq_getElem hi] at he'
          cases he'; exact hlt
        rw [firstGE_append_all_lt _ _ _ hall, hp']
        cases rest with
        | nil => simp [flatOf, firstGE]
        | cons b' rest' =>
          obtain ⟨f, l, hf, _, hlt, _⟩ := hw.next b' rest' rfl
          have hfge : ikLt f.k t = false := by
            cases hc : ikLt f.k t with
            | false => rfl
            | true => have := ikLt_trans hlt hc; rw [hsep'] at this; cases this
          rw [firstGE_head_ge _ t f (flatOf_head b' rest' f hf) hfge]; omega

/-! ### point lookup -/

/-- flat-list form of `Table::get` -/
def flatGet (bs : List PBlock) (k : List Nat) (s : Nat) : Option Ent :=
  let t : IKey := ⟨k, s⟩
  match bs[firstGEk (bs.map (·.sep)) t]? with
  | none => none
  | some b =>
    match b.ents[firstGE b.ents t]? with
    | some e => if e.k.uk = k then some e else none
    | none => none

def posGet (es : List Ent) (k : List Nat) (s : Nat) : Option Ent :=
  match es[firstGE es ⟨k, s⟩]? with
  | some e => if e.k.uk = k then some e else none
  | none => none

theorem lt_target_pred_false (e : Ent) (k : List Nat) (s : Nat) (h : ikLt e.k ⟨k, s⟩ = true) :
    (e.k.uk = k && decide (e.k.seq ≤ s)) = false := by
  rw [ikLt_iff] at h
  rcases h with h | ⟨h1, h2⟩
  · have : e.k.uk ≠ k := fun he => by rw [he] at h; exact List.lt_irrefl _ h
    simp [this]
  · simp only [Bool.and_eq_false_iff, decide_eq_false_iff_not]
    right; simp at h2; omega

/-- on a sorted list the specification of a point lookup is the entry at the seek position, if it
has the right user key -/
theorem specGet_eq_posGet (es : List Ent) (hs : sortedEnts es = true) (k : List Nat) (s : Nat) :
    specGet es k s = posGet es k s := by
  induction es with
  | nil => simp [specGet, posGet]
  | cons x xs ih =>
    unfold specGet posGet
    rw [firstGE_cons]
    by_cases hx : ikLt x.k ⟨k, s⟩ = true
    · rw [if_pos hx, List.find?_cons, lt_target_pred_false x k s hx]
      simp only [List.getElem?_cons_succ]
      exact ih (sortedEnts_cons hs)
    · rw [if_neg hx]
      simp only [List.getElem?_cons_zero]
      have hx' : ikLt x.k ⟨k, s⟩ = false := by simpa using hx
      by_cases hk : x.k.uk = k
      · rw [if_pos hk, List.find?_cons]
        have : decide (x.k.seq ≤ s) = true := by
          cases hd : decide (x.k.seq ≤ s) with
          | true => rfl
          | false =>
            have hgt : s < x.k.seq := by simp at hd; omega
            have : ikLt x.k ⟨k, s⟩ = true := (ikLt_iff _ _).mpr (Or.inr ⟨hk, hgt⟩)
            rw [hx'] at this; cases this
        simp [hk, this]
      · rw [if_neg hk]
        apply List.find?_eq_none.mpr
        intro e he
        rcases List.mem_cons.mp he with he | he
        · subst he; simp [hk]
        · have hlt := sortedEnts_head_lt hs e he
          -- k < x.uk ≤ e.uk
          have hkx : k < x.k.uk := by
            rcases uk_trichotomy x.k.uk k with h | h | h
            · have : ikLt x.k ⟨k, s⟩ = true := (ikLt_iff _ _).mpr (Or.inl h)
              rw [hx'] at this; cases this
            · exact absurd h hk
            · exact h
          have : e.k.uk ≠ k := by
            intro hek
            rw [ikLt_iff] at hlt
            rcases hlt with h | ⟨h, _⟩
            · rw [hek] at h; exact List.lt_asymm hkx h
            · rw [h, hek] at hkx; exact List.lt_irrefl _ hkx
          simp [this]

theorem flatGet_eq (bs : List PBlock) (h : blocksWF bs = true) (k : List Nat) (s : Nat) :
    flatGet bs k s = posGet (flatOf bs) k s := by
  induction bs with
  | nil => simp [flatGet, posGet, flatOf, firstGEk]
  | cons b rest ih =>
    have hw := blocksWF_cons b rest h
    rw [flatOf_cons]
    unfold flatGet posGet
    simp only [List.map_cons]
    rw [firstGEk_cons]
    by_cases hsep : ikLt b.sep ⟨k, s⟩ = true
    · rw [if_pos hsep]
      have hall : ∀ e ∈ b.ents, ikLt e.k ⟨k, s⟩ = true := fun e he => ikLt_of_le_of_lt (hw.allLe e he) hsep
      rw [firstGE_append_all_lt _ _ _ hall]
      simp only [List.getElem?_cons_succ]
      have := ih hw.tail
      unfold flatGet posGet at this
      rw [this, List.getElem?_append_right (by omega)]
      simp
    · rw [if_neg hsep]
      simp only [List.getElem?_cons_zero]
      have hsep' : ikLt b.sep ⟨k, s⟩ = false := by simpa using hsep
      rcases Nat.lt_or_ge (firstGE b.ents ⟨k, s⟩) b.ents.length with hp | hp
      · rw [firstGE_append_stop _ _ _ hp, List.getElem?_append_left hp]
      · have hp' : firstGE b.ents ⟨k, s⟩ = b.ents.length := Nat.le_antisymm (firstGE_le _ _) hp
        have hall : ∀ e ∈ b.ents, ikLt e.k ⟨k, s⟩ = true := by
          intro e he
          obtain ⟨i, hi, rfl⟩ := List.mem_iff_getElem.mp he
          obtain ⟨e', he', hlt⟩ := firstGE_before b.ents ⟨k, s⟩ i (by omega)
          rw [List.getElem?_eq_getElem hi] at he'
          cases he'; exact hlt
        rw [hp', List.getElem?_eq_none (Nat.le_refl _), firstGE_append_all_lt _ _ _ hall]
        cases rest with
        | nil => simp [flatOf, firstGE]
        | cons b' rest' =>
          obtain ⟨f, l, hf, hl, hlt, hgap⟩ := hw.next b' rest' rfl
          have hfge : ikLt f.k ⟨k, s⟩ = false := by
            cases hc : ikLt f.k ⟨k, s⟩ with
            | false => rfl
            | true => have := ikLt_trans hlt hc; rw [hsep'] at this; cases this
          have hhead := flatOf_head b' rest' f hf
          rw [firstGE_head_ge _ _ f hhead hfge, Nat.add_zero, List.getElem?_append_right (Nat.le_refl _), Nat.sub_self]
          have h0 : (flatOf (b' :: rest'))[0]? = some f := by
            rw [← List.head?_eq_getElem?]; exact hhead
          rw [h0]
          -- the next block starts with another user key
          have hne : f.k.uk ≠ k := by
            rcases hgap with hg | hg
            · -- separator = last key of the block, which is below the target: impossible
              have hlmem : l ∈ b.ents := List.mem_of_getLast? hl
              have := hall l hlmem
              rw [← hg, hsep'] at this; cases this
            · intro hfk
              -- ¬ sep < (k,s) gives k ≤ sep.uk < f.uk = k
              have : ¬ b.sep.uk < k := by
                intro hh
                have : ikLt b.sep ⟨k, s⟩ = true := (ikLt_iff _ _).mpr (Or.inl hh)
                rw [hsep'] at this; cases this
              have hle : k ≤ b.sep.uk := List.not_lt.mp this
              rw [hfk] at hg
              exact absurd (List.lt_of_le_of_lt hle hg) (List.lt_irrefl _)
          simp [hne]
