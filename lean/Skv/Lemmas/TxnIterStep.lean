import Skv.Lemmas.TxnIter

/-! `next` of the transaction range cursor: the forward step from a positioned state -/

/-- the cursor sits on the element with key `k` -/
def At (key : α → Nat) (xs : List α) (k : Nat) (pos : Option (List α × α × List α)) : Prop :=
  ∃ l x r, pos = some (l, x, r) ∧ key x = k ∧ xs = l.reverse ++ x :: r

theorem At_FSplit {key : α → Nat} {xs : List α} {k : Nat} {pos : Option (List α × α × List α)}
    (hs : SortedBy key xs) (h : At key xs k pos) : FSplit key xs k pos := by
  obtain ⟨l, x, r, rfl, hk, hxs⟩ := h
  obtain ⟨h1, _, _, _⟩ := sorted_split hs hxs
  exact ⟨hxs, fun a ha => by have := h1 a ha; omega, by omega⟩

theorem At_next {key : α → Nat} {xs : List α} {k : Nat} {pos : Option (List α × α × List α)}
    (hs : SortedBy key xs) (h : At key xs k pos) : FSplit key xs (k + 1) (Cur.next ⟨xs, pos⟩).pos := by
  have hf := At_FSplit hs h
  obtain ⟨l, x, r, rfl, hk, hxs⟩ := h
  subst hk
  exact FSplit_next hs hf

theorem At_of_FSplit {key : α → Nat} {xs : List α} {X : Nat} {l : List α} {x : α} {r : List α}
    (h : FSplit key xs X (some (l, x, r))) : At key xs (key x) (some (l, x, r)) :=
  ⟨l, x, r, rfl, rfl, h.1⟩

theorem Cur.next_xs (c : Cur α) : c.next.xs = c.xs := by
  unfold Cur.next; split <;> rfl

theorem Cur.prev_xs (c : Cur α) : c.prev.xs = c.xs := by
  unfold Cur.prev; split <;> rfl

theorem wsRemaining_le {W : List (Nat × Bool)} {X : Nat} (c : Cur (Nat × Bool))
    (h : FSplit Prod.fst W X c.pos) : wsRemaining c ≤ W.length := by
  unfold wsRemaining
  cases hp : c.pos with
  | none => simp
  | some z =>
    obtain ⟨l, x, r⟩ := z
    rw [hp] at h
    have := congrArg List.length h.1
    simp at this ⊢; omega

/-- what `stepFwd` needs: the source(s) about to be advanced sit on `K`, the other is already past it -/
structure MidFwd (S : List Nat) (W : List (Nat × Bool)) (t : TI) (K : Nat) : Prop where
  sxs : t.snap.xs = S
  wxs : t.ws.xs = W
  dir : t.dir = .fwd
  curSome : t.cur ≠ .none
  curSnap : t.cur = .snap → t.eq = false ∧ At id S K t.snap.pos ∧ FSplit Prod.fst W (K + 1) t.ws.pos
  curWs : t.cur = .ws → At Prod.fst W K t.ws.pos ∧
    (t.eq = true → At id S K t.snap.pos) ∧ (t.eq = false → FSplit id S (K + 1) t.snap.pos)

theorem FwdState.mid {S : List Nat} {W : List (Nat × Bool)} {t : TI} {K : Nat} (h : FwdState S W t K) :
    MidFwd S W t K := by
  obtain ⟨⟨sxs, spos⟩, ⟨wxs, wpos⟩, eq, cur, dir⟩ := t
  obtain ⟨hsx, hwx, hdir, hss, hws, hkey, hcs, hcw, hwa, hcn⟩ := h
  simp only at hsx hwx hdir hss hws hcs hcw hwa hcn
  refine ⟨hsx, hwx, hdir, hcn, ?_, ?_⟩
  · intro hc
    obtain ⟨h1, h2⟩ := hcs hc
    have hwa' := hwa hc
    refine ⟨h2, ?_, ?_⟩
    · cases spos with
      | none => simp [Cur.cur?] at h1
      | some z =>
        obtain ⟨l, x, r⟩ := z
        simp [Cur.cur?] at h1
        subst h1
        exact At_of_FSplit (key := id) hss
    · cases wpos with
      | none => exact FSplit_none_mono hws (by omega)
      | some z =>
        obtain ⟨l, e, r⟩ := z
        have := hwa' e (by simp [Cur.cur?])
        exact FSplit_mono hws (by omega) (by omega)
  · intro hc
    obtain ⟨⟨v, h1⟩, h2⟩ := hcw hc
    refine ⟨?_, ?_, ?_⟩
    · cases wpos with
      | none => simp [Cur.cur?] at h1
      | some z =>
        obtain ⟨l, e, r⟩ := z
        simp [Cur.cur?] at h1
        subst h1
        exact At_of_FSplit (key := Prod.fst) hws
    · intro he
      have h3 := h2.mp he
      cases spos with
      | none => simp [Cur.cur?] at h3
      | some z =>
        obtain ⟨l, x, r⟩ := z
        simp [Cur.cur?] at h3
        subst h3
        exact At_of_FSplit (key := id) hss
    · intro he
      have h3 : ¬ (Cur.cur? ⟨sxs, spos⟩ = some K) := fun hh => by
        have h4 := h2.mpr hh
        simp only at he
        rw [he] at h4; cases h4
      cases spos with
      | none => exact FSplit_none_mono hss (by omega)
      | some z =>
        obtain ⟨l, x, r⟩ := z
        have hx : x ≠ K := fun hh => h3 (by simp [Cur.cur?, hh])
        have hge : K ≤ x := hss.2.2
        exact FSplit_mono hss (by omega) (by simp only [id]; omega)

/-- **forward step**: from a state whose current key is `K`, `stepFwd` lands on the least live key above `K` -/
theorem stepFwd_spec (S : List Nat) (W : List (Nat × Bool)) (hS : SortedBy id S) (hW : SortedBy Prod.fst W)
    (t : TI) (K : Nat) (h : MidFwd S W t K) :
    (∃ K', FwdState S W t.stepFwd K' ∧ LeastGE S W (K + 1) (some K')) ∨
    (t.stepFwd.cur = .none ∧ LeastGE S W (K + 1) none) := by
  obtain ⟨⟨sxs, spos⟩, ⟨wxs, wpos⟩, eq, cur, dir⟩ := t
  obtain ⟨hsx, hwx, hdir, hcn, hcs, hcw⟩ := h
  simp only at hsx hwx hdir hcn hcs hcw
  subst hsx hwx hdir
  cases cur with
  | none => exact absurd rfl hcn
  | snap =>
    obtain ⟨he, hat, hwf⟩ := hcs rfl
    subst he
    have hst : TI.stepFwd ⟨⟨sxs, spos⟩, ⟨wxs, wpos⟩, false, .snap, .fwd⟩ =
        TI.posMin (wxs.length + 1) ⟨Cur.next ⟨sxs, spos⟩, ⟨wxs, wpos⟩, false, .snap, .fwd⟩ := by
      simp [TI.stepFwd, TI.fuel]
    rw [hst]
    apply posMin_spec sxs wxs hS hW
    · exact Cur.next_xs _
    · rfl
    · rfl
    · exact At_next hS hat
    · exact hwf
    · exact Nat.lt_succ_of_le (wsRemaining_le _ hwf)
  | ws =>
    obtain ⟨hat, he1, he2⟩ := hcw rfl
    cases eq with
    | true =>
      have hst : TI.stepFwd ⟨⟨sxs, spos⟩, ⟨wxs, wpos⟩, true, .ws, .fwd⟩ =
          TI.posMin (wxs.length + 1) ⟨Cur.next ⟨sxs, spos⟩, Cur.next ⟨wxs, wpos⟩, false, .ws, .fwd⟩ := by
        simp [TI.stepFwd, TI.fuel]
      rw [hst]
      have hwn := At_next hW hat
      apply posMin_spec sxs wxs hS hW
      · exact Cur.next_xs _
      · exact Cur.next_xs _
      · rfl
      · exact At_next hS (he1 rfl)
      · exact hwn
      · exact Nat.lt_succ_of_le (wsRemaining_le _ hwn)
    | false =>
      have hst : TI.stepFwd ⟨⟨sxs, spos⟩, ⟨wxs, wpos⟩, false, .ws, .fwd⟩ =
          TI.posMin (wxs.length + 1) ⟨⟨sxs, spos⟩, Cur.next ⟨wxs, wpos⟩, false, .ws, .fwd⟩ := by
        simp [TI.stepFwd, TI.fuel]
      rw [hst]
      have hwn := At_next hW hat
      apply posMin_spec sxs wxs hS hW
      · rfl
      · exact Cur.next_xs _
      · rfl
      · exact he2 rfl
      · exact hwn
      · exact Nat.lt_succ_of_le (wsRemaining_le _ hwn)
