import Skv.Lemmas.Txn
import Skv.Model.TxnProg
/-!
Simulation between `Txn.step` and `STxn.step` (C08): relation `Sim`, preserved by every
operation with equal outputs.
-/
open Txn

/-- every key bound in the write set has at least one entry (`retain(!is_empty)`) -/
def WsNonempty (ws : List (Key × List Entry)) : Prop := ∀ p ∈ ws, p.2 ≠ []

structure Sim (t : Txn) (s : STxn) : Prop where
  mode : t.mode = s.mode
  closed : t.closed = s.closed
  inv : TxInv t s.spec
  ne : WsNonempty t.ws

theorem sim_start (m : Mode) : Sim (Txn.start m) (STxn.start m) :=
  ⟨rfl, rfl, inv_start m, by intro p hp; simp [Txn.start] at hp⟩

theorem pushRule_ne (e : Entry) (o) : pushRule e o ≠ [] := by
  obtain ⟨pre, h, _⟩ := pushRule_shape e o
  rw [h]; simp

theorem upsert_nonempty (ws : List (Key × List Entry)) (k : Key) (e : Entry)
    (h : WsNonempty ws) : WsNonempty (upsert ws k (pushRule e)) := by
  induction ws with
  | nil => intro p hp; simp [upsert] at hp; subst hp; exact pushRule_ne e none
  | cons q rest ih =>
    obtain ⟨k0, es0⟩ := q
    have hr : WsNonempty rest := fun p hp => h p (List.mem_cons_of_mem _ hp)
    intro p hp
    unfold upsert at hp
    split at hp
    · simp only [List.mem_cons] at hp
      rcases hp with rfl | hp
      · exact pushRule_ne e (some es0)
      · exact hr p hp
    · simp only [List.mem_cons] at hp
      rcases hp with rfl | hp
      · exact h _ (List.mem_cons_self ..)
      · exact ih hr p hp

/-- with non-empty entry lists, the write set is empty iff nothing is pending in the spec -/
theorem ws_empty_iff_log_empty (t : Txn) (s : Spec) (h : TxInv t s) (hne : WsNonempty t.ws) :
    t.ws.isEmpty = s.log.isEmpty := by
  cases hws : t.ws with
  | nil =>
    -- all views are none, so the log has no entry for any key
    simp only [List.isEmpty_nil]
    cases hl : s.log with
    | nil => rfl
    | cons w rest =>
      exfalso
      have hv := h.view 0 (Nat.zero_le _) w.key
      simp only [Nat.sub_zero, List.drop_zero] at hv
      unfold viewUpTo specUpTo entriesOf at hv
      have : s.frames.flatten = w :: rest := hl
      rw [this, hws] at hv
      simp [lookup] at hv
  | cons p rest =>
    simp only [List.isEmpty_cons]
    obtain ⟨k, es⟩ := p
    have hes : es ≠ [] := hne (k, es) (by rw [hws]; exact List.mem_cons_self ..)
    have hv := h.view 0 (Nat.zero_le _) k
    simp only [Nat.sub_zero, List.drop_zero] at hv
    have hent : entriesOf t.ws k = es := by simp [entriesOf, lookup, hws]
    have hall : (entriesOf t.ws k).filter (fun e => e.sp ≤ t.savepoints) = entriesOf t.ws k := by
      apply List.filter_eq_self.mpr
      intro e he; simpa using h.spLe k e he
    unfold viewUpTo at hv
    rw [hall, hent] at hv
    cases hl : s.log with
    | nil =>
      exfalso
      unfold specUpTo at hv
      have : s.frames.flatten = [] := hl
      rw [this] at hv
      cases hg : es.getLast? with
      | none => exact hes (by simpa using hg)
      | some e => rw [hg] at hv; simp at hv
    | cons w r => rfl

theorem inv_cleared (t : Txn) (s : Spec) (h : TxInv t s) :
    TxInv { t with ws := [] } ⟨s.frames.map (fun _ => [])⟩ := by
  refine ⟨by simp, by simpa using h.len, ?_, ?_, ?_⟩
  · intro k e he; simp [entriesOf, lookup] at he
  · intro k; simp [entriesOf, lookup]
  · intro j _ k
    have : ∀ (l : List (List W)), (List.map (fun _ => ([] : List W)) l).flatten = [] := by
      intro l; induction l with
      | nil => rfl
      | cons a l ih => simp [ih]
    simp only [entriesOf, lookup, viewUpTo, specUpTo, List.find?_nil, Option.map_none,
      Option.getD_none, List.filter_nil, List.getLast?_nil]
    rw [← List.map_drop, this]
    simp

theorem rb_nonempty (n : Nat) (ws : List (Key × List Entry)) : WsNonempty (rb n ws) := by
  intro p hp
  unfold rb at hp
  simp only [List.mem_filter] at hp
  intro h; simp [h] at hp

/-- one step: equal outputs, relation preserved -/
theorem sim_step (snap : Key → Option Val) (t : Txn) (s : STxn) (h : Sim t s) (op : TOp) :
    (t.step snap op).2 = (s.step snap op).2 ∧ Sim (t.step snap op).1 (s.step snap op).1 := by
  obtain ⟨hm, hc, hi, hne⟩ := h
  obtain ⟨sm, sc, ss⟩ := s
  simp only at hm hc hi
  subst hm hc
  have hkeep : ∀ n, TxInv { t with writeSeqno := n } ss := fun n =>
    ⟨hi.nodup, hi.len, hi.spLe, hi.sorted, hi.view⟩
  cases op with
  | write k v kind ts =>
    by_cases h1 : t.mode.mutable = true
    · by_cases h2 : t.closed = true
      · have hw : t.step snap (.write k v kind ts) =
            ({ t with writeSeqno := t.writeSeqno + 1 }, .err .closed) := by
          simp [Txn.step, Txn.write, h1, h2, exceptOut]
        have hs : STxn.step snap ⟨t.mode, t.closed, ss⟩ (.write k v kind ts) =
            (⟨t.mode, t.closed, ss⟩, .err .closed) := by simp [STxn.step, h1, h2]
        rw [hw, hs]; exact ⟨rfl, ⟨rfl, rfl, hkeep _, hne⟩⟩
      · have h2 : t.closed = false := by simpa using h2
        by_cases h3 : k.isEmpty = true
        · have hw : t.step snap (.write k v kind ts) =
              ({ t with writeSeqno := t.writeSeqno + 1 }, .err .emptyKey) := by
            simp [Txn.step, Txn.write, h1, h2, h3, exceptOut]
          have hs : STxn.step snap ⟨t.mode, t.closed, ss⟩ (.write k v kind ts) =
              (⟨t.mode, t.closed, ss⟩, .err .emptyKey) := by simp [STxn.step, h1, h2, h3]
          rw [hw, hs]; exact ⟨rfl, ⟨rfl, rfl, hkeep _, hne⟩⟩
        · have h3 : k.isEmpty = false := by simpa using h3
          have hinv := inv_write t ss hi k v kind ts h1 h2 h3
          have hw1 : (t.write k v kind ts) =
              ({ t with writeSeqno := t.writeSeqno + 1,
                        ws := upsert t.ws k (pushRule ⟨k, v, kind, t.savepoints, t.writeSeqno + 1, ts⟩) }, .ok ()) := by
            simp [Txn.write, h1, h2, h3]
          have hw : t.step snap (.write k v kind ts) =
              ({ t with writeSeqno := t.writeSeqno + 1,
                        ws := upsert t.ws k (pushRule ⟨k, v, kind, t.savepoints, t.writeSeqno + 1, ts⟩) }, .ok) := by
            simp [Txn.step, hw1, exceptOut]
          have hs : STxn.step snap ⟨t.mode, t.closed, ss⟩ (.write k v kind ts) =
              (⟨t.mode, t.closed, ss.write ⟨k, v, kind, ts⟩⟩, .ok) := by simp [STxn.step, h1, h2, h3]
          rw [hw1] at hinv
          rw [hw, hs]; exact ⟨rfl, ⟨rfl, rfl, hinv, upsert_nonempty _ _ _ hne⟩⟩
    · have h1 : t.mode.mutable = false := by simpa using h1
      have hw : t.step snap (.write k v kind ts) =
          ({ t with writeSeqno := t.writeSeqno + 1 }, .err .readOnly) := by
        simp [Txn.step, Txn.write, h1, exceptOut]
      have hs : STxn.step snap ⟨t.mode, t.closed, ss⟩ (.write k v kind ts) =
          (⟨t.mode, t.closed, ss⟩, .err .readOnly) := by simp [STxn.step, h1]
      rw [hw, hs]; exact ⟨rfl, ⟨rfl, rfl, hkeep _, hne⟩⟩
  | get k =>
    have hst : (t.step snap (.get k)).1 = t := rfl
    have hss : (STxn.step snap ⟨t.mode, t.closed, ss⟩ (.get k)).1 = ⟨t.mode, t.closed, ss⟩ := by
      simp only [STxn.step]; split <;> (try split) <;> (try split) <;> rfl
    rw [hst, hss]
    refine ⟨?_, ⟨rfl, rfl, hi, hne⟩⟩
    by_cases h2 : t.closed = true
    · simp [Txn.step, STxn.step, Txn.getFull, Txn.get, h2]
    · have h2 : t.closed = false := by simpa using h2
      by_cases h3 : k.isEmpty = true
      · simp [Txn.step, STxn.step, Txn.getFull, Txn.get, h2, h3]
      · have h3 : k.isEmpty = false := by simpa using h3
        by_cases h4 : t.mode = .writeOnly
        · simp [Txn.step, STxn.step, Txn.getFull, Txn.get, h2, h3, h4]
        · have hg := get_refines t ss hi k h2 h3 h4
          have h4' : (t.mode == Mode.writeOnly) = false := beq_eq_false_iff_ne.mpr h4
          simp only [Txn.step, STxn.step, h2, h3, h4', Txn.getFull, hg, Spec.getFull]
          cases ss.get k <;> simp
  | setSp =>
    by_cases h1 : t.mode.mutable = true
    · by_cases h2 : t.closed = true
      · have hw : t.step snap .setSp = (t, .err .closed) := by
          simp [Txn.step, Txn.setSavepoint, h1, h2, exceptOut]
        have hs : STxn.step snap ⟨t.mode, t.closed, ss⟩ .setSp =
            (⟨t.mode, t.closed, ss⟩, .err .closed) := by simp [STxn.step, h1, h2]
        rw [hw, hs]; exact ⟨rfl, ⟨rfl, rfl, hi, hne⟩⟩
      · have h2 : t.closed = false := by simpa using h2
        have hinv := inv_setSavepoint t ss hi h1 h2
        have hw1 : t.setSavepoint = ({ t with savepoints := t.savepoints + 1 }, .ok ()) := by
          simp [Txn.setSavepoint, h1, h2]
        have hw : t.step snap .setSp = ({ t with savepoints := t.savepoints + 1 }, .ok) := by
          simp [Txn.step, hw1, exceptOut]
        have hs : STxn.step snap ⟨t.mode, t.closed, ss⟩ .setSp =
            (⟨t.mode, t.closed, ss.setSavepoint⟩, .ok) := by simp [STxn.step, h1, h2]
        rw [hw1] at hinv
        rw [hw, hs]; exact ⟨rfl, ⟨rfl, rfl, hinv, hne⟩⟩
    · have h1 : t.mode.mutable = false := by simpa using h1
      have hw : t.step snap .setSp = (t, .err .readOnly) := by
        simp [Txn.step, Txn.setSavepoint, h1, exceptOut]
      have hs : STxn.step snap ⟨t.mode, t.closed, ss⟩ .setSp =
          (⟨t.mode, t.closed, ss⟩, .err .readOnly) := by simp [STxn.step, h1]
      rw [hw, hs]; exact ⟨rfl, ⟨rfl, rfl, hi, hne⟩⟩
  | rbSp =>
    by_cases h1 : t.mode.mutable = true
    · by_cases h2 : t.closed = true
      · have hw : t.step snap .rbSp = (t, .err .closed) := by
          simp [Txn.step, Txn.rollbackToSavepoint, h1, h2, exceptOut]
        have hs : STxn.step snap ⟨t.mode, t.closed, ss⟩ .rbSp =
            (⟨t.mode, t.closed, ss⟩, .err .closed) := by simp [STxn.step, h1, h2]
        rw [hw, hs]; exact ⟨rfl, ⟨rfl, rfl, hi, hne⟩⟩
      · have h2 : t.closed = false := by simpa using h2
        by_cases h3 : t.savepoints = 0
        · have hlen := hi.len
          have hnone : ss.rollbackToSavepoint = none := by
            unfold Spec.rollbackToSavepoint
            match hf : ss.frames, hlen with
            | [], _ => rfl
            | [_], _ => rfl
            | _ :: _ :: _, hl => simp [h3] at hl
          have hw : t.step snap .rbSp = (t, .err .noSavepoint) := by
            simp [Txn.step, Txn.rollbackToSavepoint, h1, h2, h3, exceptOut]
          have hs : STxn.step snap ⟨t.mode, t.closed, ss⟩ .rbSp =
              (⟨t.mode, t.closed, ss⟩, .err .noSavepoint) := by simp [STxn.step, h1, h2, hnone]
          rw [hw, hs]; exact ⟨rfl, ⟨rfl, rfl, hi, hne⟩⟩
        · obtain ⟨s', hs', hinv⟩ := inv_rollbackToSavepoint t ss hi h1 h2 (by omega)
          have h3' : (t.savepoints == 0) = false := beq_eq_false_iff_ne.mpr h3
          have hw1 : t.rollbackToSavepoint =
              ({ t with ws := rb t.savepoints t.ws, savepoints := t.savepoints - 1 }, .ok ()) := by
            simp [Txn.rollbackToSavepoint, h1, h2, h3', rb]
          have hw : t.step snap .rbSp =
              ({ t with ws := rb t.savepoints t.ws, savepoints := t.savepoints - 1 }, .ok) := by
            simp [Txn.step, hw1, exceptOut]
          have hs : STxn.step snap ⟨t.mode, t.closed, ss⟩ .rbSp =
              (⟨t.mode, t.closed, s'⟩, .ok) := by simp [STxn.step, h1, h2, hs']
          rw [hw1] at hinv
          rw [hw, hs]; exact ⟨rfl, ⟨rfl, rfl, hinv, rb_nonempty _ _⟩⟩
    · have h1 : t.mode.mutable = false := by simpa using h1
      have hw : t.step snap .rbSp = (t, .err .readOnly) := by
        simp [Txn.step, Txn.rollbackToSavepoint, h1, exceptOut]
      have hs : STxn.step snap ⟨t.mode, t.closed, ss⟩ .rbSp =
          (⟨t.mode, t.closed, ss⟩, .err .readOnly) := by simp [STxn.step, h1]
      rw [hw, hs]; exact ⟨rfl, ⟨rfl, rfl, hi, hne⟩⟩
  | rollback =>
    have hw : t.step snap .rollback = (t.rollback, .ok) := rfl
    have hs : STxn.step snap ⟨t.mode, t.closed, ss⟩ .rollback = (⟨t.mode, true, Spec.start⟩, .ok) := rfl
    rw [hw, hs]
    refine ⟨rfl, ⟨rfl, rfl, ?_, by intro p hp; simp [Txn.rollback] at hp⟩⟩
    refine ⟨by simp [Txn.rollback], rfl, ?_, ?_, ?_⟩
    · intro k e he; simp [Txn.rollback, entriesOf, lookup] at he
    · intro k; simp [Txn.rollback, entriesOf, lookup]
    · intro j hj k
      have : j = 0 := by simpa [Txn.rollback] using hj
      subst this
      simp [Txn.rollback, entriesOf, lookup, viewUpTo, specUpTo, Spec.start]
  | commit okp =>
    by_cases h2 : t.closed = true
    · have hw : t.step snap (.commit okp) = (t, .err .closed) := by
        simp [Txn.step, Txn.commit, h2]
      have hs : STxn.step snap ⟨t.mode, t.closed, ss⟩ (.commit okp) =
          (⟨t.mode, t.closed, ss⟩, .err .closed) := by simp [STxn.step, h2]
      rw [hw, hs]; exact ⟨rfl, ⟨rfl, rfl, hi, hne⟩⟩
    · have h2 : t.closed = false := by simpa using h2
      by_cases h4 : t.mode = .readOnly
      · have hw : t.step snap (.commit okp) = (t, .err .readOnly) := by
          simp [Txn.step, Txn.commit, h2, h4]
        have hs : STxn.step snap ⟨t.mode, t.closed, ss⟩ (.commit okp) =
            (⟨t.mode, t.closed, ss⟩, .err .readOnly) := by simp [STxn.step, h2, h4]
        rw [hw, hs]; exact ⟨rfl, ⟨rfl, rfl, hi, hne⟩⟩
      · have h4' : (t.mode == Mode.readOnly) = false := beq_eq_false_iff_ne.mpr h4
        have hel := ws_empty_iff_log_empty t ss hi hne
        by_cases h5 : t.ws.isEmpty = true
        · have h5' : ss.log.isEmpty = true := by rw [← hel]; exact h5
          have hw : t.step snap (.commit okp) = ({ t with closed := true }, .ok) := by
            simp [Txn.step, Txn.commit, h2, h4', h5]
          have hs : STxn.step snap ⟨t.mode, t.closed, ss⟩ (.commit okp) =
              (⟨t.mode, true, ss⟩, .ok) := by simp [STxn.step, h2, h4', h5']
          rw [hw, hs]
          exact ⟨rfl, ⟨rfl, rfl, ⟨hi.nodup, hi.len, hi.spLe, hi.sorted, hi.view⟩, hne⟩⟩
        · have h5 : t.ws.isEmpty = false := by simpa using h5
          have h5' : ss.log.isEmpty = false := by rw [← hel]; exact h5
          have hb : t.batch.isEmpty = false := by
            cases hws : t.ws with
            | nil => simp [hws] at h5
            | cons p rest =>
              have hp : p.2 ≠ [] := hne p (by rw [hws]; exact List.mem_cons_self ..)
              have key : ∀ (l : List Entry), l ≠ [] → (l.foldr insBySeq []) ≠ [] := by
                intro l hl
                cases l with
                | nil => exact absurd rfl hl
                | cons a l =>
                  simp only [List.foldr_cons]
                  cases (List.foldr insBySeq [] l) with
                  | nil => simp [insBySeq]
                  | cons x xs => simp only [insBySeq]; split <;> simp
              have hfl : (List.flatMap (fun x => x.2) (p :: rest)) ≠ [] := by
                simp only [List.flatMap_cons]
                intro h; exact hp (List.append_eq_nil_iff.mp h).1
              have := key _ hfl
              simp only [Txn.batch, hws]
              cases hh : (List.foldr insBySeq [] (List.flatMap (fun x => x.2) (p :: rest))) with
              | nil => exact absurd hh this
              | cons _ _ => rfl
          have hcl := inv_cleared t ss hi
          cases okp with
          | true =>
            have hw : t.step snap (.commit true) = ({ t with closed := true, ws := [] }, .ok) := by
              simp [Txn.step, Txn.commit, h2, h4', h5]
            have hs : STxn.step snap ⟨t.mode, t.closed, ss⟩ (.commit true) =
                (⟨t.mode, true, ⟨ss.frames.map (fun _ => [])⟩⟩, .ok) := by
              simp [STxn.step, h2, h4', h5']
            rw [hw, hs]
            exact ⟨rfl, ⟨rfl, rfl, ⟨hcl.nodup, hcl.len, hcl.spLe, hcl.sorted, hcl.view⟩,
                   by intro p hp; simp at hp⟩⟩
          | false =>
            have hw : t.step snap (.commit false) = ({ t with ws := [] }, .pipelineErr) := by
              simp [Txn.step, Txn.commit, h2, h4', h5, hb]
            have hs : STxn.step snap ⟨t.mode, t.closed, ss⟩ (.commit false) =
                (⟨t.mode, t.closed, ⟨ss.frames.map (fun _ => [])⟩⟩, .pipelineErr) := by
              simp [STxn.step, h2, h4', h5']
            rw [hw, hs]
            exact ⟨rfl, ⟨rfl, rfl, hcl, by intro p hp; simp at hp⟩⟩

theorem sim_run (snap : Key → Option Val) (ops : List TOp) :
    ∀ (t : Txn) (s : STxn), Sim t s → runProg (Txn.step snap) t ops = runProg (STxn.step snap) s ops := by
  induction ops with
  | nil => intro t s _; rfl
  | cons op ops ih =>
    intro t s h
    obtain ⟨ho, hs⟩ := sim_step snap t s h op
    simp only [runProg, ho, ih _ _ hs]
