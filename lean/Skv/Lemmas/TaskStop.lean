import Skv.Model.TaskStop

/-- once the flag is set and `notify_one` was called afterwards, the task is on its way out:
it is exited, or woken, or a permit waits for it -/
def StopInv (s : TState) : Prop :=
  s.stop = true ∧ (s.phase = .exited ∨ s.phase = .woken ∨ (s.phase = .running ∧ s.permit = true))

theorem stopInv_after (s : TState) : StopInv ((s.step .setStop).step .notifyOne) := by
  obtain ⟨ph, pm, st⟩ := s
  cases ph <;> cases pm <;> simp [StopInv, TState.step]

/-- the environment notifying again, or the task moving, keeps it so -/
theorem stopInv_step (s : TState) (h : StopInv s) (op : TOp) (hop : op ≠ .setStop ∨ True) : StopInv (s.step op) := by
  obtain ⟨ph, pm, st⟩ := s
  obtain ⟨hs, hp⟩ := h
  simp only at hs; subst hs
  cases op <;> cases ph <;> cases pm <;> simp_all [StopInv, TState.step]

theorem settle_exits (s : TState) (h : StopInv s) : s.settle.phase = .exited := by
  obtain ⟨ph, pm, st⟩ := s
  obtain ⟨hs, hp⟩ := h
  simp only at hs; subst hs
  cases ph <;> cases pm <;> simp_all [TState.settle, TState.step]

/-- after `setStop; notifyOne`, whatever else happens, the task exits once it has run -/
theorem task_exits_after_stop (s : TState) (ops : List TOp) :
    (((s.step .setStop).step .notifyOne).run ops).settle.phase = .exited := by
  apply settle_exits
  generalize hs0 : (s.step .setStop).step .notifyOne = s0
  have h0 : StopInv s0 := hs0 ▸ stopInv_after s
  clear hs0
  induction ops generalizing s0 with
  | nil => exact h0
  | cons op ops ih => exact ih _ (stopInv_step s0 h0 op (Or.inr trivial))
