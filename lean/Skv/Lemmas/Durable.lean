import Skv.Model.Durable
/-!
Invariant of the durable-state machine (C02 / C03 / C07): every record of a segment at or above
`log_number` is in a table, or in the memtable paired with that segment, or is the pending batch.
-/

def DState.mems (d : DState) : List Mem := d.imms ++ [d.memActive]

structure DInv (d : DState) : Prop where
  actWal : d.memActive.wal = d.active
  actSeg : ∃ r, (d.active, r) ∈ d.segs
  segLe : ∀ s ∈ d.segs, s.1 ≤ d.active
  immLt : ∀ m ∈ d.imms, m.wal < d.active
  immSorted : (d.imms.map (·.wal)).Pairwise (· < ·)
  logLe : d.logNumber ≤ d.active ∧ ∀ m ∈ d.imms, d.logNumber ≤ m.wal
  recLt : (∀ s ∈ d.segs, ∀ b ∈ s.2, b < d.next) ∧ (∀ b ∈ d.tables, b < d.next) ∧
    (∀ m ∈ d.mems, ∀ b ∈ m.batches, b < d.next) ∧ (∀ b, d.pending = some b → b < d.next)
  pairing : ∀ s ∈ d.segs, s.1 ≥ d.logNumber → ∀ b ∈ s.2,
      b ∈ d.tables ∨ (∃ m ∈ d.mems, m.wal = s.1 ∧ b ∈ m.batches) ∨ (d.pending = some b ∧ s.1 = d.active)
  safe : ∀ b, b < d.next → b ∈ d.tables ∨ ∃ s ∈ d.segs, s.1 ≥ d.logNumber ∧ b ∈ s.2
  ackedOrPending : ∀ b, b < d.next → b ∈ d.acked ∨ d.pending = some b

theorem dinv_init : DInv {} := by
  refine ⟨rfl, ⟨[], by simp⟩, ?_, ?_, by simp, ⟨Nat.le_refl _, by intro m hm; cases hm⟩, ?_, ?_, ?_, ?_⟩
  · intro s hs
    have : s = (0, []) := by simpa using hs
    subst this; exact Nat.le_refl _
  · intro m hm; cases hm
  · refine ⟨?_, ?_, ?_, ?_⟩
    · intro s hs b hb
      have : s = (0, []) := by simpa using hs
      subst this; cases hb
    · intro b hb; cases hb
    · intro m hm b hb
      have : m = ⟨0, []⟩ := by simpa [DState.mems] using hm
      subst this; cases hb
    · intro b hb; cases hb
  · intro s hs _ b hb
    have : s = (0, []) := by simpa using hs
    subst this; cases hb
  · intro b hb; exact absurd hb (Nat.not_lt_zero _)
  · intro b hb; exact absurd hb (Nat.not_lt_zero _)

theorem mem_appendSeg (segs : List (Nat × List Nat)) (id b : Nat) (s : Nat × List Nat)
    (hs : s ∈ appendSeg segs id b) :
    ∃ s0 ∈ segs, s.1 = s0.1 ∧ ((s0.1 = id ∧ s.2 = s0.2 ++ [b]) ∨ (s0.1 ≠ id ∧ s.2 = s0.2)) := by
  unfold appendSeg at hs
  obtain ⟨s0, hs0, rfl⟩ := List.mem_map.mp hs
  refine ⟨s0, hs0, ?_⟩
  by_cases h : s0.1 = id
  · simp [h]
  · simp [h]

theorem appendSeg_of_mem (segs : List (Nat × List Nat)) (id b : Nat) (s0 : Nat × List Nat) (hs0 : s0 ∈ segs) :
    (s0.1, if s0.1 = id then s0.2 ++ [b] else s0.2) ∈ appendSeg segs id b := by
  unfold appendSeg
  refine List.mem_map.mpr ⟨s0, hs0, ?_⟩
  by_cases h : s0.1 = id <;> simp [h]

theorem dinv_step (d : DState) (h : DInv d) (op : DOp) (hns : op = .rotate → d.pending = none) :
    DInv (d.step op) := by
  obtain ⟨h1, h2, h3, h4, h5, h6, h7, h8, h9, h10⟩ := h
  cases op with
  | walAppend =>
    simp only [DState.step]
    cases hp : d.pending with
    | some b => simp only; exact ⟨h1, h2, h3, h4, h5, h6, h7, h8, h9, h10⟩
    | none =>
      simp only
      refine ⟨h1, ?_, ?_, h4, h5, h6, ?_, ?_, ?_, ?_⟩
      · obtain ⟨r, hr⟩ := h2
        have := appendSeg_of_mem d.segs d.active d.next (d.active, r) hr
        exact ⟨_, this⟩
      · intro s hs
        obtain ⟨s0, hs0, e, _⟩ := mem_appendSeg _ _ _ s hs
        rw [e]; exact h3 s0 hs0
      · refine ⟨?_, fun b hb => Nat.lt_succ_of_lt (h7.2.1 b hb),
                fun m hm b hb => Nat.lt_succ_of_lt (h7.2.2.1 m hm b hb), ?_⟩
        · intro s hs b hb
          obtain ⟨s0, hs0, _, hc⟩ := mem_appendSeg _ _ _ s hs
          show b < d.next + 1
          rcases hc with ⟨_, e2⟩ | ⟨_, e2⟩
          · rw [e2] at hb
            rcases List.mem_append.mp hb with hb | hb
            · exact Nat.lt_succ_of_lt (h7.1 s0 hs0 b hb)
            · have : b = d.next := by simpa using hb
              omega
          · rw [e2] at hb; exact Nat.lt_succ_of_lt (h7.1 s0 hs0 b hb)
        · intro b hb
          show b < d.next + 1
          have : b = d.next := by injection hb with hb; exact hb.symm
          omega
      · intro s hs hge b hb
        have hge : s.1 ≥ d.logNumber := hge
        obtain ⟨s0, hs0, e1, hc⟩ := mem_appendSeg _ _ _ s hs
        have hge0 : s0.1 ≥ d.logNumber := by omega
        rcases hc with ⟨e0, e2⟩ | ⟨_, e2⟩
        · rw [e2] at hb
          rcases List.mem_append.mp hb with hb | hb
          · rcases h8 s0 hs0 hge0 b hb with h | h | ⟨h, _⟩
            · exact Or.inl h
            · right; left; obtain ⟨m, hm, e, hbm⟩ := h; exact ⟨m, hm, by omega, hbm⟩
            · rw [hp] at h; cases h
          · have hbn : b = d.next := by simpa using hb
            right; right
            exact ⟨by rw [hbn], by show s.1 = d.active; omega⟩
        · rw [e2] at hb
          rcases h8 s0 hs0 hge0 b hb with h | h | ⟨h, _⟩
          · exact Or.inl h
          · right; left; obtain ⟨m, hm, e, hbm⟩ := h; exact ⟨m, hm, by omega, hbm⟩
          · rw [hp] at h; cases h
      · intro b hb
        have hb : b < d.next + 1 := hb
        by_cases hbn : b = d.next
        · subst hbn
          right
          obtain ⟨r, hr⟩ := h2
          refine ⟨_, appendSeg_of_mem d.segs d.active d.next (d.active, r) hr, h6.1, ?_⟩
          simp
        · have hlt : b < d.next := by omega
          rcases h9 b hlt with h | ⟨s0, hs0, hge, hb0⟩
          · exact Or.inl h
          · right
            refine ⟨_, appendSeg_of_mem d.segs d.active d.next s0 hs0, hge, ?_⟩
            simp only
            split
            · exact List.mem_append_left _ hb0
            · exact hb0
      · intro b hb
        have hb : b < d.next + 1 := hb
        by_cases hbn : b = d.next
        · right; rw [hbn]
        · rcases h10 b (by omega) with h | h
          · exact Or.inl h
          · rw [hp] at h; cases h
  | applyAck =>
    simp only [DState.step]
    cases hp : d.pending with
    | none => simp only; exact ⟨h1, h2, h3, h4, h5, h6, h7, h8, h9, h10⟩
    | some b0 =>
      simp only
      refine ⟨h1, h2, h3, h4, h5, h6, ⟨h7.1, h7.2.1, ?_, by intro b hb; cases hb⟩, ?_, h9, ?_⟩
      · intro m hm b hb
        rcases List.mem_append.mp hm with hmi | hma
        · exact h7.2.2.1 m (List.mem_append_left _ hmi) b hb
        · have : m = { d.memActive with batches := d.memActive.batches ++ [b0] } := by simpa using hma
          subst this
          rcases List.mem_append.mp hb with hb | hb
          · exact h7.2.2.1 d.memActive (List.mem_append_right _ (List.mem_singleton.mpr rfl)) b hb
          · have : b = b0 := by simpa using hb
            subst this; exact h7.2.2.2 b hp
      · intro s hs hge b hb
        rcases h8 s hs hge b hb with h | h | ⟨h, hsa⟩
        · exact Or.inl h
        · right; left
          obtain ⟨m, hm, e, hbm⟩ := h
          rcases List.mem_append.mp hm with hmi | hma
          · exact ⟨m, List.mem_append_left _ hmi, e, hbm⟩
          · have : m = d.memActive := by simpa using hma
            subst this
            exact ⟨_, List.mem_append_right _ (List.mem_singleton.mpr rfl), e, List.mem_append_left _ hbm⟩
        · right; left
          rw [hp] at h; injection h with h; subst h
          exact ⟨_, List.mem_append_right _ (List.mem_singleton.mpr rfl), by simp [h1, hsa], by simp⟩
      · intro b hb
        rcases h10 b hb with h | h
        · exact Or.inl (List.mem_append_left _ h)
        · rw [hp] at h; injection h with h; subst h; exact Or.inl (by simp)
  | rotate =>
    have hpn := hns rfl
    simp only [DState.step]
    refine ⟨rfl, ⟨[], by simp⟩, ?_, ?_, ?_, ?_, ?_, ?_, ?_, ?_⟩
    · intro s hs
      rcases List.mem_append.mp hs with hs | hs
      · exact Nat.le_succ_of_le (h3 s hs)
      · have : s = (d.active + 1, []) := by simpa using hs
        subst this; exact Nat.le_refl _
    · intro m hm
      rcases List.mem_append.mp hm with hm | hm
      · exact Nat.lt_succ_of_lt (h4 m hm)
      · have : m = d.memActive := by simpa using hm
        subst this; rw [h1]; exact Nat.lt_succ_self _
    · rw [List.map_append, List.pairwise_append]
      refine ⟨h5, by simp, ?_⟩
      intro a ha b hb
      have : b = d.memActive.wal := by simpa using hb
      subst this
      obtain ⟨m, hm, rfl⟩ := List.mem_map.mp ha
      rw [h1]; exact h4 m hm
    · refine ⟨Nat.le_succ_of_le h6.1, ?_⟩
      intro m hm
      rcases List.mem_append.mp hm with hm | hm
      · exact h6.2 m hm
      · have : m = d.memActive := by simpa using hm
        subst this; rw [h1]; exact h6.1
    · refine ⟨?_, h7.2.1, ?_, h7.2.2.2⟩
      · intro s hs b hb
        rcases List.mem_append.mp hs with hs | hs
        · exact h7.1 s hs b hb
        · have : s = (d.active + 1, []) := by simpa using hs
          subst this; cases hb
      · intro m hm b hb
        have hm : m ∈ (d.imms ++ [d.memActive]) ++ [⟨d.active + 1, []⟩] := hm
        rcases List.mem_append.mp hm with hm | hm
        · exact h7.2.2.1 m hm b hb
        · have : m = ⟨d.active + 1, []⟩ := by simpa using hm
          subst this; cases hb
    · intro s hs hge b hb
      rcases List.mem_append.mp hs with hs | hs
      · rcases h8 s hs hge b hb with h | h | ⟨h, _⟩
        · exact Or.inl h
        · right; left
          obtain ⟨m, hm, e, hbm⟩ := h
          refine ⟨m, ?_, e, hbm⟩
          -- old mems = imms ++ [memActive] ⊆ new imms
          show m ∈ (d.imms ++ [d.memActive]) ++ [_]
          exact List.mem_append_left _ hm
        · rw [hpn] at h; cases h
      · have : s = (d.active + 1, []) := by simpa using hs
        subst this; cases hb
    · intro b hb
      rcases h9 b hb with h | ⟨s, hs, hge, hbs⟩
      · exact Or.inl h
      · exact Or.inr ⟨s, List.mem_append_left _ hs, hge, hbs⟩
    · exact h10
  | flushOldest =>
    simp only [DState.step]
    cases hi : d.imms with
    | nil => simp only; exact ⟨h1, h2, h3, h4, h5, h6, h7, h8, h9, h10⟩
    | cons m rest =>
      simp only
      rw [hi] at h4 h5 h6
      have hm_lt : m.wal < d.active := h4 m (List.mem_cons_self ..)
      have hsorted : (∀ a ∈ rest.map (·.wal), m.wal < a) ∧ (rest.map (·.wal)).Pairwise (· < ·) := by
        have h5' : (m.wal :: rest.map (·.wal)).Pairwise (· < ·) := by simpa using h5
        exact List.pairwise_cons.mp h5'
      have hrest_gt : ∀ m' ∈ rest, m.wal < m'.wal := by
        intro m' hm'; exact hsorted.1 m'.wal (List.mem_map.mpr ⟨m', hm', rfl⟩)
      refine ⟨h1, h2, h3, fun m' hm' => h4 m' (List.mem_cons_of_mem _ hm'), hsorted.2, ?_, ?_, ?_, ?_, h10⟩
      · exact ⟨by show m.wal + 1 ≤ d.active; omega, fun m' hm' => by have := hrest_gt m' hm'; show m.wal + 1 ≤ m'.wal; omega⟩
      · refine ⟨h7.1, ?_, ?_, h7.2.2.2⟩
        · intro b hb
          rcases List.mem_append.mp hb with hb | hb
          · exact h7.2.1 b hb
          · exact h7.2.2.1 m (by unfold DState.mems; rw [hi]; exact List.mem_append_left _ (List.mem_cons_self ..)) b hb
        · intro m' hm' b hb
          have hm' : m' ∈ rest ++ [d.memActive] := hm'
          refine h7.2.2.1 m' ?_ b hb
          unfold DState.mems; rw [hi]
          rcases List.mem_append.mp hm' with h | h
          · exact List.mem_append_left _ (List.mem_cons_of_mem _ h)
          · exact List.mem_append_right _ h
      · intro s hs hge b hb
        have hge : s.1 ≥ m.wal + 1 := hge
        have hge0 : s.1 ≥ d.logNumber := by have := h6.2 m (List.mem_cons_self ..); omega
        rcases h8 s hs hge0 b hb with h | h | h
        · exact Or.inl (List.mem_append_left _ h)
        · obtain ⟨m', hm', e, hbm⟩ := h
          unfold DState.mems at hm'
          rw [hi] at hm'
          rcases List.mem_append.mp hm' with hm' | hm'
          · rcases List.mem_cons.mp hm' with rfl | hm'
            · omega
            · right; left; exact ⟨m', List.mem_append_left _ hm', e, hbm⟩
          · right; left; exact ⟨m', List.mem_append_right _ hm', e, hbm⟩
        · exact Or.inr (Or.inr h)
      · intro b hb
        rcases h9 b hb with h | ⟨s, hs, hge, hbs⟩
        · exact Or.inl (List.mem_append_left _ h)
        · by_cases hsw : s.1 ≥ m.wal + 1
          · exact Or.inr ⟨s, hs, hsw, hbs⟩
          · left
            rcases h8 s hs hge b hbs with h | h | ⟨h, hsa⟩
            · exact List.mem_append_left _ h
            · obtain ⟨m', hm', e, hbm⟩ := h
              unfold DState.mems at hm'
              rw [hi] at hm'
              rcases List.mem_append.mp hm' with hm' | hm'
              · rcases List.mem_cons.mp hm' with rfl | hm'
                · exact List.mem_append_right _ hbm
                · have := hrest_gt m' hm'; omega
              · have : m' = d.memActive := by simpa using hm'
                subst this; omega
            · omega
  | cleanupWal =>
    simp only [DState.step]
    refine ⟨h1, ?_, ?_, h4, h5, h6, ?_, ?_, ?_, h10⟩
    · obtain ⟨r, hr⟩ := h2
      exact ⟨r, List.mem_filter.mpr ⟨hr, by simpa using h6.1⟩⟩
    · intro s hs; exact h3 s (List.mem_filter.mp hs).1
    · exact ⟨fun s hs => h7.1 s (List.mem_filter.mp hs).1, h7.2⟩
    · intro s hs; exact h8 s (List.mem_filter.mp hs).1
    · intro b hb
      rcases h9 b hb with h | ⟨s, hs, hge, hbs⟩
      · exact Or.inl h
      · exact Or.inr ⟨s, List.mem_filter.mpr ⟨hs, by simpa using hge⟩, hge, hbs⟩
