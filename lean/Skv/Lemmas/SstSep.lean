import Skv.Model.SstSep
import Skv.Lemmas.SstOrder
/-! the separator chosen between two blocks satisfies what `blocksWF` asks of it -/

theorem nat_list_cons_lt {x y : Nat} {a b : List Nat} : x :: a < y :: b ↔ x < y ∨ (x = y ∧ a < b) :=
  List.cons_lt_cons_iff

/-- the bytewise separator stays strictly below the limit -/
theorem bsep_lt (a b : List Nat) (h : a < b) : bsep a b < b := by
  induction a generalizing b with
  | nil =>
    cases b with
    | nil => exact absurd h (List.lt_irrefl _)
    | cons y b => simp [bsep]
  | cons x a ih =>
    cases b with
    | nil => exact absurd h (List.not_lt_nil _)
    | cons y b =>
      rw [nat_list_cons_lt] at h
      simp only [bsep]
      split
      · rename_i hxy
        subst hxy
        rcases h with h | ⟨_, h⟩
        · exact absurd h (Nat.lt_irrefl _)
        · rw [nat_list_cons_lt]; exact Or.inr ⟨rfl, ih b h⟩
      · rename_i hxy
        have hlt : x < y := by
          rcases h with h | ⟨h, _⟩
          · exact h
          · exact absurd h hxy
        split
        · omega
        · split
          · rename_i hc
            rw [nat_list_cons_lt]
            rcases Nat.lt_or_ge (x + 1) y with h1 | h1
            · exact Or.inl h1
            · refine Or.inr ⟨by omega, ?_⟩
              rcases hc with hc | hc
              · cases b with
                | nil => exact absurd rfl hc
                | cons z zs => exact List.nil_lt_cons _ _
              · omega
          · rw [nat_list_cons_lt]; exact Or.inl hlt

/-- **separator between blocks**: for `a < b` with sequence numbers within range, `isep a b` is at
or above `a`, strictly below `b`, and either `a` itself or of a user key strictly below `b`'s -/
theorem isep_wf (m : Nat) (a b : IKey) (h : ikLt a b = true) :
    ikLe a (isep m a b) = true ∧ ikLt (isep m a b) b = true ∧
      (isep m a b = a ∨ (isep m a b).uk < b.uk) := by
  unfold isep
  split
  · exact ⟨ikLe_refl _, h, Or.inl rfl⟩
  · split
    · rename_i hne huk
      simp only
      split
      · rename_i hs
        have hab : a.uk < b.uk := by
          rcases (ikLt_iff a b).mp h with h | ⟨h, _⟩
          · exact h
          · exact absurd h huk
        have hsb := bsep_lt a.uk b.uk hab
        refine ⟨?_, ?_, Or.inr hsb⟩
        · apply ikLe_of_lt; exact (ikLt_iff _ _).mpr (Or.inl hs.2)
        · exact (ikLt_iff _ _).mpr (Or.inl hsb)
      · exact ⟨ikLe_refl _, h, Or.inl rfl⟩
    · exact ⟨ikLe_refl _, h, Or.inl rfl⟩

/-- **separator after the last block** -/
theorem isucc_ge (m : Nat) (a : IKey) : ikLe a (isucc m a) = true := by
  unfold isucc
  simp only
  split
  · rename_i hs; apply ikLe_of_lt; exact (ikLt_iff _ _).mpr (Or.inl hs.2)
  · exact ikLe_refl _

/-- the separator written after the last block: `separator(last, successor(last))` -/
theorem isep_last_ge (m : Nat) (a : IKey) : ikLe a (isep m a (isucc m a)) = true := by
  rcases ikLt_total a (isucc m a) with h | h | h
  · exact (isep_wf m a _ h).1
  · rw [← h]; simp [isep, ikLe_refl]
  · have := isucc_ge m a
    rw [ikLe_iff, h] at this; cases this

/-- a layout whose blocks are sorted, non-empty and consecutive in a sorted list, with separators
computed as the writer does, is well-formed — whatever the block-cutting policy was -/
theorem sepsMatch_blocksWF (m : Nat) (bs : List PBlock)
    (hsorted : ∀ b ∈ bs, sortedEnts b.ents = true)
    (hadj : ∀ (pre : List PBlock) (b b' : PBlock) (post : List PBlock), bs = pre ++ b :: b' :: post →
      ∀ l f, b.ents.getLast? = some l → b'.ents.head? = some f → ikLt l.k f.k = true)
    (hm : sepsMatch m bs = true) : blocksWF bs = true := by
  induction bs with
  | nil => rfl
  | cons b rest ih =>
    cases rest with
    | nil =>
      simp only [sepsMatch] at hm
      simp only [blocksWF, Bool.and_eq_true]
      refine ⟨?_, hsorted b (List.mem_cons_self)⟩
      cases hl : b.ents.getLast? with
      | none => rw [hl] at hm; cases hm
      | some l =>
        rw [hl] at hm
        have : b.sep = isep m l.k (isucc m l.k) := by simpa using hm
        simp only [this]; exact isep_last_ge m l.k
    | cons b' rest' =>
      simp only [sepsMatch, Bool.and_eq_true] at hm
      simp only [blocksWF, Bool.and_eq_true]
      obtain ⟨hm1, hm2⟩ := hm
      refine ⟨⟨?_, hsorted b (List.mem_cons_self)⟩, ?_⟩
      · cases hl : b.ents.getLast? with
        | none => rw [hl] at hm1; cases hm1
        | some l =>
          cases hf : b'.ents.head? with
          | none => rw [hl, hf] at hm1; cases hm1
          | some f =>
            rw [hl, hf] at hm1
            have hsep : b.sep = isep m l.k f.k := by simpa using hm1
            have hlt := hadj [] b b' rest' rfl l f hl hf
            obtain ⟨h1, h2, h3⟩ := isep_wf m l.k f.k hlt
            simp only [hsep, h1, h2, Bool.true_and, Bool.and_true, Bool.or_eq_true, beq_iff_eq,
              decide_eq_true_eq]
            exact h3
      · apply ih (fun x hx => hsorted x (List.mem_cons_of_mem _ hx)) _ hm2
        intro pre x x' post heq l f hl hf
        exact hadj (b :: pre) x x' post (by rw [heq]; rfl) l f hl hf
