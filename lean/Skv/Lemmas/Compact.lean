import Skv.Spec.CompactSpec
/-!
Lemmas for C01 / C06: per-key compaction never changes what any registered snapshot or any
later reader sees (`compactKey_reads_ok`).
-/

/-- versions newest first, strictly -/
def SortedDesc (vs : List Ver) : Prop := vs.Pairwise (fun a b => b.seq < a.seq)
/-- snapshots ascending, strictly -/
def SortedAsc (l : List Nat) : Prop := l.Pairwise (fun a b => a < b)

theorem compactGo_sublist (c : CCfg) (snaps : List Nat) (ldb hr : Bool) :
    ∀ (vs : List Ver) (il : Bool) (nv : Option Vis), (compactGo c snaps ldb hr il nv vs).Sublist vs := by
  intro vs
  induction vs with
  | nil => intro il nv; exact List.Sublist.slnil
  | cons v vs ih =>
    intro il nv
    simp only [compactGo]
    split
    · exact (ih _ _).cons₂ v
    · exact (ih _ _).cons v

/-- in an ascending list, the first snapshot at or above `x` is at most any snapshot at or above `x` -/
theorem find_le (snaps : List Nat) (hs : SortedAsc snaps) (x s : Nat) (hmem : s ∈ snaps) (hx : x ≤ s) :
    ∃ s', snaps.find? (fun y => decide (x ≤ y)) = some s' ∧ x ≤ s' ∧ s' ≤ s := by
  induction snaps with
  | nil => cases hmem
  | cons a r ih =>
    have hp := List.pairwise_cons.mp hs
    by_cases ha : x ≤ a
    · refine ⟨a, by simp [List.find?_cons, ha], ha, ?_⟩
      rcases List.mem_cons.mp hmem with rfl | hm
      · exact Nat.le_refl _
      · exact Nat.le_of_lt (hp.1 s hm)
    · have hne : s ≠ a := by intro h; subst h; exact ha hx
      have hm : s ∈ r := by
        rcases List.mem_cons.mp hmem with h | h
        · exact absurd h hne
        · exact h
      obtain ⟨s', h1, h2, h3⟩ := ih hp.2 hm
      exact ⟨s', by simp [List.find?_cons, ha, h1], h2, h3⟩

theorem earliest_bounded_le (snaps : List Nat) (hs : SortedAsc snaps) (x s : Nat) (hmem : s ∈ snaps) (hx : x ≤ s) :
    ∃ s', earliest snaps x = .bounded s' ∧ x ≤ s' ∧ s' ≤ s := by
  obtain ⟨s', h1, h2, h3⟩ := find_le snaps hs x s hmem hx
  refine ⟨s', ?_, h2, h3⟩
  unfold earliest
  cases snaps with
  | nil => cases hmem
  | cons a r => simp only [h1]

/-- the boundary of a version is a snapshot at or above it (or none) -/
theorem earliest_ge (snaps : List Nat) (x : Nat) (b : Nat) (h : earliest snaps x = .bounded b) : x ≤ b := by
  unfold earliest at h
  cases snaps with
  | nil => cases h
  | cons a r =>
    dsimp only at h
    cases hf : List.find? (fun s => decide (x ≤ s)) (a :: r) with
    | none => rw [hf] at h; cases h
    | some s' =>
      rw [hf] at h
      have := List.find?_some hf
      injection h with h; subst h
      simpa using this

/-- a version visible to snapshot `s` whose newer neighbour is not visible to `s` is not superseded,
is required, and is output (as long as the whole key is not being dropped) -/
theorem keepVer_visible (c : CCfg) (snaps : List Nat) (hs : SortedAsc snaps) (hr il : Bool) (nv : Option Vis)
    (v : Ver) (s : Nat) (hmem : s ∈ snaps) (hv : v.seq ≤ s)
    (hnv : ∀ x, nv = some x → ∃ p, x = earliest snaps p ∧ s < p) :
    (keepVer c snaps false hr il nv v).1 = true := by
  obtain ⟨s', he, h1, h2⟩ := earliest_bounded_le snaps hs v.seq s hmem hv
  have hsup : superseded c il nv (Vis.bounded s') = false := by
    cases nv with
    | none => rfl
    | some x =>
      obtain ⟨p, hx, hp⟩ := hnv x rfl
      have hsb : sameBoundary x (Vis.bounded s') = false := by
        rw [hx]
        cases hep : earliest snaps p with
        | bounded b =>
          have := earliest_ge snaps p b hep
          simp only [sameBoundary, beq_eq_false_iff_ne, ne_eq]
          omega
        | noSnaps => rfl
        | newer => rfl
      simp [superseded, hsb]
  unfold keepVer
  simp only [he, hsup]
  simp

/-- the newest version of a key is output unless the whole key is dropped at the bottom -/
theorem keepVer_latest (c : CCfg) (snaps : List Nat) (hr : Bool) (v : Ver) :
    (keepVer c snaps false hr true none v).1 = true := by
  unfold keepVer
  cases hk : v.kind <;> cases hcur : earliest snaps v.seq <;> simp [VKind.isHard, superseded]

theorem keepVer_snd (c : CCfg) (snaps : List Nat) (ldb hr il : Bool) (nv : Option Vis) (v : Ver) :
    (keepVer c snaps ldb hr il nv v).2 = earliest snaps v.seq := rfl

/-- the newest version visible at horizon `s` -/
def topOf (s : Nat) (vs : List Ver) : Option Ver := vs.find? (fun v => decide (v.seq ≤ s))

/-- the top version for snapshot `s` survives `compactGo` (no wholesale drop) -/
theorem compactGo_keeps_top (c : CCfg) (snaps : List Nat) (hs : SortedAsc snaps) (hr : Bool) (s : Nat)
    (hmem : s ∈ snaps) :
    ∀ (vs : List Ver) (il : Bool) (nv : Option Vis),
      (∀ x, nv = some x → ∃ p, x = earliest snaps p ∧ s < p) →
      ∀ t, topOf s vs = some t → t ∈ compactGo c snaps false hr il nv vs := by
  intro vs
  induction vs with
  | nil => intro il nv _ t ht; simp [topOf] at ht
  | cons v vs ih =>
    intro il nv hnv t ht
    simp only [compactGo]
    by_cases hvs : v.seq ≤ s
    · have hvt : v = t := by simpa [topOf, List.find?_cons, hvs] using ht
      subst hvt
      have hk := keepVer_visible c snaps hs hr il nv v s hmem hvs hnv
      simp only [hk, if_true]
      exact List.mem_cons_self ..
    · have ht' : topOf s vs = some t := by simpa [topOf, List.find?_cons, hvs] using ht
      have hvs : s < v.seq := by omega
      have hrec := ih false (some (keepVer c snaps false hr il nv v).2)
        (by
          intro x hx
          injection hx with hx
          exact ⟨v.seq, by rw [← hx, keepVer_snd], hvs⟩)
        t ht'
      split
      · exact List.mem_cons_of_mem _ hrec
      · exact hrec

theorem topOf_none_sublist (s : Nat) (out vs : List Ver) (h : out.Sublist vs) (hn : topOf s vs = none) :
    topOf s out = none := by
  unfold topOf at *
  rw [List.find?_eq_none] at hn ⊢
  intro x hx; exact hn x (h.subset hx)

/-- a sublist that still contains the top version has the same top -/
theorem topOf_sublist (s : Nat) : ∀ (vs out : List Ver), SortedDesc vs → out.Sublist vs →
    ∀ t, topOf s vs = some t → t ∈ out → topOf s out = some t := by
  intro vs
  induction vs with
  | nil => intro out _ _ t ht; simp [topOf] at ht
  | cons v vs ih =>
    intro out hsd hsub t ht hmem
    have hp := List.pairwise_cons.mp hsd
    cases hsub with
    | cons _ hsub' =>
      -- v dropped
      by_cases hvs : v.seq ≤ s
      · have hvt : v = t := by simpa [topOf, List.find?_cons, hvs] using ht
        subst hvt
        have : v ∈ vs := hsub'.subset hmem
        have := hp.1 v this
        omega
      · have ht' : topOf s vs = some t := by simpa [topOf, List.find?_cons, hvs] using ht
        exact ih _ hp.2 hsub' t ht' hmem
    | cons_cons _ hsub' =>
      rename_i out'
      by_cases hvs : v.seq ≤ s
      · have hvt : v = t := by simpa [topOf, List.find?_cons, hvs] using ht
        subst hvt
        simp [topOf, List.find?_cons, hvs]
      · have ht' : topOf s vs = some t := by simpa [topOf, List.find?_cons, hvs] using ht
        have hm' : t ∈ out' := by
          rcases List.mem_cons.mp hmem with h | h
          · subst h
            have := List.find?_some ht'
            simp at this; omega
          · exact h
        have := ih _ hp.2 hsub' t ht' hm'
        simpa [topOf, List.find?_cons, hvs] using this

theorem head_visOf_some (s : Nat) (vs : List Ver) : (visOf (some s) vs).head? = topOf s vs := by
  unfold visOf topOf
  induction vs with
  | nil => rfl
  | cons v vs ih =>
    by_cases hvs : v.seq ≤ s
    · simp [List.filter_cons, List.find?_cons, hvs]
    · simp only [List.filter_cons, List.find?_cons, hvs, decide_false, Bool.false_eq_true, if_false]
      exact ih

theorem compactGo_ldb_nil (c : CCfg) (snaps : List Nat) (hr : Bool) :
    ∀ (vs : List Ver) (il : Bool) (nv : Option Vis), compactGo c snaps true hr il nv vs = [] := by
  intro vs
  induction vs with
  | nil => intro il nv; rfl
  | cons v vs ih =>
    intro il nv
    simp only [compactGo]
    have : (keepVer c snaps true hr il nv v).1 = false := by
      unfold keepVer; simp
    simp [this, ih]

theorem topValue_eq_of_head (a b : List Ver) (h : a.head? = b.head?) : topValue a = topValue b := by
  unfold topValue; rw [h]

theorem sorted_last_le (vs : List Ver) (hsd : SortedDesc vs) (o : Ver) (ho : vs.getLast? = some o) :
    ∀ u ∈ vs, o.seq ≤ u.seq := by
  induction vs with
  | nil => intro u hu; cases hu
  | cons v r ih =>
    intro u hu
    have hp := List.pairwise_cons.mp hsd
    cases r with
    | nil =>
      simp at ho hu; subst ho hu; exact Nat.le_refl _
    | cons w r' =>
      have ho' : (w :: r').getLast? = some o := by simpa [List.getLast?_cons_cons] using ho
      rcases List.mem_cons.mp hu with rfl | hu
      · have hom : o ∈ (w :: r') := List.mem_of_getLast? ho'
        exact Nat.le_of_lt (hp.1 o hom)
      · exact ih hp.2 ho' u hu

/-- **per-key compaction never changes what a registered snapshot or a later reader sees** -/
theorem compactKey_reads_ok (c : CCfg) (snaps : List Nat) (vs : List Ver)
    (hs : SortedAsc snaps) (hsd : SortedDesc vs) :
    readsOK c snaps vs (compactKey c snaps vs) = true := by
  have hsub : (compactKey c snaps vs).Sublist vs := compactGo_sublist c snaps _ _ vs _ _
  have hcont : (compactKey c snaps vs).all (fun v => vs.contains v) = true := by
    simp only [List.all_eq_true, List.contains_eq_mem, decide_eq_true_eq]
    intro x hx; exact hsub.subset hx
  unfold readsOK
  simp only [hcont, Bool.and_true, List.all_eq_true]
  intro ob hob
  cases hldb : latestDeleteAtBottom c snaps vs with
  | true =>
    -- the whole key is dropped: every observer saw nothing
    have hout : compactKey c snaps vs = [] := by unfold compactKey; rw [hldb]; exact compactGo_ldb_nil c snaps _ vs _ _
    cases vs with
    | nil => simp [latestDeleteAtBottom] at hldb
    | cons v rest =>
      simp only [latestDeleteAtBottom, Bool.and_eq_true, Bool.not_eq_true'] at hldb
      obtain ⟨⟨hb, hhard⟩, hold⟩ := hldb
      have htomb : v.kind.isTomb = true := by cases hk : v.kind <;> simp_all [VKind.isHard, VKind.isTomb]
      unfold topOk
      simp only [hb, if_true, hout]
      have hnone : topValue (visOf ob (v :: rest)) = none := by
        cases ob with
        | none => simp [visOf, topValue, htomb]
        | some s =>
          have hsm : s ∈ snaps := by
            simp only [observers, List.mem_cons, List.mem_map] at hob
            rcases hob with h | ⟨x, hx, h⟩
            · cases h
            · injection h with h; subst h; exact hx
          by_cases hvs : v.seq ≤ s
          · simp [visOf, List.filter_cons, hvs, topValue, htomb]
          · -- s below the delete: nothing at all may be visible
            have hall : ∀ u ∈ (v :: rest), ¬ u.seq ≤ s := by
              intro u hu
              cases hgl : rest.getLast? with
              | none =>
                have : rest = [] := by simpa using hgl
                subst this; simp at hu; subst hu; exact hvs
              | some o =>
                rw [hgl] at hold
                simp only [List.any_eq_false] at hold
                have h1 := hold s hsm
                simp only [Bool.and_eq_true, decide_eq_true_eq, not_and] at h1
                have h2 : ¬ s ≥ o.seq := h1 (by omega)
                have hp := List.pairwise_cons.mp hsd
                have hle : o.seq ≤ u.seq := by
                  rcases List.mem_cons.mp hu with rfl | hu
                  · exact Nat.le_of_lt (hp.1 o (List.mem_of_getLast? hgl))
                  · exact sorted_last_le rest hp.2 o hgl u hu
                omega
            have : visOf (some s) (v :: rest) = [] := by
              unfold visOf
              rw [List.filter_eq_nil_iff]
              intro u hu; simpa using hall u hu
            rw [this]; rfl
      rw [hnone]
      cases ob <;> simp [visOf, topValue]
  | false =>
    -- every observer's newest visible version is kept
    have hhead : (visOf ob vs).head? = (visOf ob (compactKey c snaps vs)).head? := by
      cases ob with
      | none =>
        cases vs with
        | nil => simp [visOf, compactKey, compactGo]
        | cons v rest =>
          have hk := keepVer_latest c snaps (List.any (v :: rest) fun v => v.kind == VKind.replace) v
          simp only [visOf, compactKey, hldb, compactGo, hk, if_true, List.head?_cons]
      | some s =>
        have hsm : s ∈ snaps := by
          simp only [observers, List.mem_cons, List.mem_map] at hob
          rcases hob with h | ⟨x, hx, h⟩
          · cases h
          · injection h with h; subst h; exact hx
        rw [head_visOf_some, head_visOf_some]
        cases ht : topOf s vs with
        | none => exact (topOf_none_sublist s _ vs hsub ht).symm
        | some t =>
          have hmem : t ∈ compactKey c snaps vs := by
            unfold compactKey; rw [hldb]
            exact compactGo_keeps_top c snaps hs _ s hsm vs true none (by intro x hx; cases hx) t ht
          exact (topOf_sublist s vs _ hsd hsub t ht hmem).symm
    unfold topOk
    split
    · simp only [beq_iff_eq]; exact topValue_eq_of_head _ _ hhead
    · simp only [beq_iff_eq]; exact hhead
