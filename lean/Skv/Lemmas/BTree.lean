import Skv.Model.BTree

/-! ### association-list facts -/

theorem lookup_append_left (l1 l2 : List (Nat × Nat)) (k : Nat) (h : ∀ e ∈ l2, e.1 ≠ k) :
    lookup (l1 ++ l2) k = lookup l1 k := by
  unfold lookup
  rw [List.find?_append]
  cases h1 : l1.find? (fun p => p.1 == k) with
  | some x => simp
  | none =>
    have : l2.find? (fun p => p.1 == k) = none := by
      apply List.find?_eq_none.mpr
      intro e he; simpa using h e he
    simp [this]

theorem lookup_append_right (l1 l2 : List (Nat × Nat)) (k : Nat) (h : ∀ e ∈ l1, e.1 ≠ k) :
    lookup (l1 ++ l2) k = lookup l2 k := by
  unfold lookup
  rw [List.find?_append]
  have : l1.find? (fun p => p.1 == k) = none := by
    apply List.find?_eq_none.mpr
    intro e he; simpa using h e he
  simp [this]

theorem listInsert_keys (l : List (Nat × Nat)) (k v : Nat) (e : Nat × Nat) (he : e ∈ listInsert l k v) :
    e.1 = k ∨ e ∈ l := by
  induction l with
  | nil => simp [listInsert] at he; left; rw [he]
  | cons x xs ih =>
    simp only [listInsert] at he
    split at he
    · rcases List.mem_cons.mp he with h | h
      · left; rw [h]
      · right; exact List.mem_cons_of_mem _ h
    · split at he
      · rcases List.mem_cons.mp he with h | h
        · left; rw [h]
        · right; exact h
      · rcases List.mem_cons.mp he with h | h
        · right; rw [h]; exact List.mem_cons_self
        · rcases ih h with h' | h'
          · left; exact h'
          · right; exact List.mem_cons_of_mem _ h'

theorem listInsert_sorted (l : List (Nat × Nat)) (k v : Nat) (h : l.Pairwise (fun a b => a.1 < b.1)) :
    (listInsert l k v).Pairwise (fun a b => a.1 < b.1) := by
  induction l with
  | nil => simp [listInsert]
  | cons x xs ih =>
    rw [List.pairwise_cons] at h
    simp only [listInsert]
    split
    · rename_i hk
      rw [List.pairwise_cons]
      exact ⟨fun a ha => by have := h.1 a ha; simp only [hk]; exact this, h.2⟩
    · split
      · rename_i hne hlt
        rw [List.pairwise_cons]
        refine ⟨?_, List.pairwise_cons.mpr h⟩
        intro a ha
        rcases List.mem_cons.mp ha with h1 | h1
        · rw [h1]; exact hlt
        · have := h.1 a h1; simp only; omega
      · rename_i hne hnlt
        rw [List.pairwise_cons]
        refine ⟨?_, ih h.2⟩
        intro a ha
        rcases listInsert_keys xs k v a ha with h1 | h1
        · rw [h1]; omega
        · exact h.1 a h1

/-- inserting a key below everything in `l2` stays within `l1` -/
theorem listInsert_append_left (l1 l2 : List (Nat × Nat)) (k v : Nat) (h : ∀ e ∈ l2, k < e.1) :
    listInsert (l1 ++ l2) k v = listInsert l1 k v ++ l2 := by
  induction l1 with
  | nil =>
    cases l2 with
    | nil => rfl
    | cons y ys =>
      have := h y List.mem_cons_self
      simp only [List.nil_append, listInsert]
      rw [if_neg (by omega), if_pos this]
      rfl
  | cons x xs ih =>
    simp only [List.cons_append, listInsert]
    split
    · rfl
    · split
      · rfl
      · rw [ih]; rfl

/-- inserting a key above everything in `l1` happens in `l2` -/
theorem listInsert_append_right (l1 l2 : List (Nat × Nat)) (k v : Nat) (h : ∀ e ∈ l1, e.1 < k) :
    listInsert (l1 ++ l2) k v = l1 ++ listInsert l2 k v := by
  induction l1 with
  | nil => rfl
  | cons x xs ih =>
    have hx := h x List.mem_cons_self
    simp only [List.cons_append, listInsert]
    rw [if_neg (by omega), if_neg (by omega), ih (fun e he => h e (List.mem_cons_of_mem _ he))]

/-! ### bounds of a well-formed tree -/

theorem inBs_inB {lo hi : Option Nat} {k : Nat} (h : inBs lo hi k) : inB lo hi k :=
  ⟨fun l hl => Nat.le_of_lt (h.1 l hl), h.2⟩

theorem inB_weaken_hi {lo hi : Option Nat} {k s : Nat} (h : inB lo (some s) k) (hs : inB lo hi s) : inB lo hi k := by
  refine ⟨h.1, ?_⟩
  intro hh hhi
  have := h.2 s rfl
  have := hs.2 hh hhi
  omega

theorem inB_weaken_lo {lo hi : Option Nat} {k s : Nat} (h : inB (some s) hi k) (hs : inB lo hi s) : inB lo hi k := by
  refine ⟨?_, h.2⟩
  intro l hl
  have := h.1 s rfl
  have := hs.1 l hl
  omega

mutual
theorem BT.keys_inB : ∀ (t : BT) (lo hi : Option Nat), t.wf lo hi → ∀ e ∈ t.toList, inB lo hi e.1
  | .leaf es, lo, hi, h => by
    simp only [BT.wf] at h; simpa [BT.toList] using h.2
  | .node c rest, lo, hi, h => by
    simp only [BT.wf] at h
    intro e he
    simp only [BT.toList, List.mem_append] at he
    rcases he with he | he
    · have := BT.keys_inB c lo (rest.firstSepOr hi) h.1 e he
      cases rest with
      | nil => simpa [Kids.firstSepOr] using this
      | cons sep c' rest' =>
        simp only [Kids.wf] at h
        exact inB_weaken_hi (by simpa [Kids.firstSepOr] using this) (inBs_inB h.2.1)
    · exact Kids.keys_inB rest lo hi h.2 e he
theorem Kids.keys_inB : ∀ (r : Kids) (lo hi : Option Nat), r.wf lo hi → ∀ e ∈ r.toList, inB lo hi e.1
  | .nil, _, _, _ => by intro e he; simp [Kids.toList] at he
  | .cons sep c rest, lo, hi, h => by
    simp only [Kids.wf] at h
    intro e he
    simp only [Kids.toList, List.mem_append] at he
    rcases he with he | he
    · have := BT.keys_inB c (some sep) (rest.firstSepOr hi) h.2.1 e he
      apply inB_weaken_lo _ (inBs_inB h.1)
      cases rest with
      | nil => simpa [Kids.firstSepOr] using this
      | cons sep' c' rest' =>
        simp only [Kids.wf] at h
        have hs' : inB (some sep) hi sep' := inBs_inB h.2.2.1.1
        exact inB_weaken_hi (by simpa [Kids.firstSepOr] using this) hs'
    · exact inB_weaken_lo (Kids.keys_inB rest (some sep) hi h.2.2.1 e he) (inBs_inB h.1)
end

/-- everything under `rest` is at or above its first separator -/
theorem Kids.keys_ge_first (sep : Nat) (c : BT) (rest : Kids) (lo hi : Option Nat)
    (h : (Kids.cons sep c rest).wf lo hi) : ∀ e ∈ (Kids.cons sep c rest).toList, sep ≤ e.1 := by
  intro e he
  have hw := h
  simp only [Kids.wf] at h
  simp only [Kids.toList, List.mem_append] at he
  rcases he with he | he
  · exact (BT.keys_inB c _ _ h.2.1 e he).1 sep rfl
  · exact (Kids.keys_inB rest _ _ h.2.2.1 e he).1 sep rfl

/-- keys of the child left of `rest` are below its first separator -/
theorem BT.keys_lt_first (c : BT) (lo : Option Nat) (sep : Nat) (h : c.wf lo (some sep)) :
    ∀ e ∈ c.toList, e.1 < sep := fun e he => (BT.keys_inB c _ _ h e he).2 sep rfl

/-! ### lookups -/

mutual
theorem BT.get_eq : ∀ (t : BT) (lo hi : Option Nat), t.wf lo hi → ∀ k, t.get k = lookup t.toList k
  | .leaf es, _, _, _ => by intro k; rfl
  | .node c rest, lo, hi, h => by
    intro k
    simp only [BT.wf] at h
    simp only [BT.get, BT.toList]
    have hr := Kids.route_eq rest lo hi h.2 k
    cases hrt : rest.route k with
    | none =>
      rw [hrt] at hr
      simp only
      rw [BT.get_eq c lo _ h.1 k, lookup_append_left]
      intro e he; have := hr e he; omega
    | some v =>
      rw [hrt] at hr
      simp only
      obtain ⟨hv, sep, hfs, hle⟩ := hr
      rw [hv, lookup_append_right]
      intro e he
      have hc : c.wf lo (some sep) := by rw [hfs] at h; exact h.1
      have := BT.keys_lt_first c lo sep hc e he
      omega
/-- `none`: every key under `r` is above `k`; `some v`: `v` is the answer of `r`'s entries and `k` is
at or above the first separator -/
theorem Kids.route_eq : ∀ (r : Kids) (lo hi : Option Nat), r.wf lo hi → ∀ k,
    match r.route k with
    | none => ∀ e ∈ r.toList, k < e.1
    | some v => v = lookup r.toList k ∧ ∃ sep, r.firstSepOr hi = some sep ∧ sep ≤ k
  | .nil, _, _, _ => by intro k; simp [Kids.route, Kids.toList]
  | .cons sep c rest, lo, hi, h => by
    intro k
    have hw := h
    simp only [Kids.wf] at h
    simp only [Kids.route]
    by_cases hk : k < sep
    · simp only [hk, if_true]
      intro e he
      have := Kids.keys_ge_first sep c rest lo hi hw e he
      omega
    · simp only [hk, if_false]
      have hr := Kids.route_eq rest (some sep) hi h.2.2.1 k
      cases hrt : rest.route k with
      | none =>
        rw [hrt] at hr
        simp only
        refine ⟨?_, sep, rfl, by omega⟩
        simp only [Kids.toList]
        rw [BT.get_eq c _ _ h.2.1 k, lookup_append_left]
        intro e he; have := hr e he; omega
      | some v =>
        rw [hrt] at hr
        simp only
        obtain ⟨hv, sep', hfs, hle⟩ := hr
        refine ⟨?_, sep, rfl, by omega⟩
        simp only [Kids.toList]
        rw [hv, lookup_append_right]
        intro e he
        have hc : c.wf (some sep) (some sep') := by rw [hfs] at h; exact h.2.1
        have := BT.keys_lt_first c _ sep' hc e he
        omega
end
