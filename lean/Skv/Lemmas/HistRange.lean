import Skv.Lemmas.History
/-!
# History with a timestamp range

With the `fix:` commit a version above the range goes through the barrier logic unlisted, and the cut
below the range ends the key.  Under timestamps that do not increase towards older versions the ranged
loop is the unranged loop followed by the range filter; the unranged theorems then carry over.
-/

def inR (a b : Nat) (v : HVer) : Bool := decide (a ≤ v.ts) && decide (v.ts ≤ b)

def TsNonInc (l : List HVer) : Prop := l.Pairwise (fun x y => y.ts ≤ x.ts)

theorem histKeyFwd_mem (tombs : Bool) (snap : Nat) : ∀ (vs : List HVer) (fs lh bs : Bool) (x : HVer),
    x ∈ histKeyFwd tombs none snap fs lh bs vs → x ∈ vs := by
  intro vs
  induction vs with
  | nil => intro fs lh bs x hx; simp [histKeyFwd] at hx
  | cons v rest ih =>
    intro fs lh bs x hx
    by_cases h : v.seq > snap
    · simp only [histKeyFwd, h, if_true] at hx
      exact List.mem_cons_of_mem _ (ih _ _ _ x hx)
    · simp only [histKeyFwd, h, if_false, histStep] at hx
      split at hx
      · exact List.mem_cons_of_mem _ (ih _ _ _ x hx)
      · split at hx
        · exact List.mem_cons_of_mem _ (ih _ _ _ x hx)
        · split at hx
          · exact List.mem_cons_of_mem _ (ih _ _ _ x hx)
          · split at hx
            · exact List.mem_cons_of_mem _ (ih _ _ _ x hx)
            · split at hx
              · exact List.mem_cons_of_mem _ (ih _ _ _ x hx)
              · rcases List.mem_cons.mp hx with rfl | hx
                · exact List.mem_cons_self
                · exact List.mem_cons_of_mem _ (ih _ _ _ x hx)

/-- **the ranged loop is the unranged loop followed by the range filter** -/
theorem histKeyFwd_range (tombs : Bool) (a b snap : Nat) : ∀ (vs : List HVer), TsNonInc vs → ∀ (fs lh bs : Bool),
    histKeyFwd tombs (some (a, b)) snap fs lh bs vs = (histKeyFwd tombs none snap fs lh bs vs).filter (inR a b) := by
  intro vs
  induction vs with
  | nil => intro _ fs lh bs; simp [histKeyFwd]
  | cons v rest ih =>
    intro hd fs lh bs
    have hp := List.pairwise_cons.mp hd
    have ih' := ih hp.2
    by_cases h : v.seq > snap
    · simp only [histKeyFwd, h, if_true]; exact ih' _ _ _
    · by_cases hab : v.ts > b
      · have hv : inR a b v = false := by simp [inR]; omega
        simp only [histKeyFwd, h, if_false, hab, if_true, histStep, histStepAbove]
        split
        · exact ih' _ _ _
        · split
          · exact ih' _ _ _
          · split
            · exact ih' _ _ _
            · split
              · exact ih' _ _ _
              · split
                · exact ih' _ _ _
                · rw [List.filter_cons, hv]; exact ih' _ _ _
      · by_cases hlo : v.ts < a
        · simp only [histKeyFwd, h, if_false, hab, hlo, if_true]
          symm
          rw [List.filter_eq_nil_iff]
          intro x hx
          have hm := histKeyFwd_mem tombs snap (v :: rest) fs lh bs x (by simpa [histKeyFwd, h] using hx)
          have : x.ts ≤ v.ts := by
            rcases List.mem_cons.mp hm with rfl | hm
            · exact Nat.le_refl _
            · exact hp.1 x hm
          simp [inR]; omega
        · have hv : inR a b v = true := by simp [inR]; omega
          simp only [histKeyFwd, h, if_false, hab, hlo, histStep]
          split
          · exact ih' _ _ _
          · split
            · exact ih' _ _ _
            · split
              · exact ih' _ _ _
              · split
                · exact ih' _ _ _
                · split
                  · exact ih' _ _ _
                  · rw [List.filter_cons, hv]; simp only [if_true]; rw [ih' _ _ _]

theorem specKey_range (o : HOpts) (a b snap : Nat) (vs : List HVer) :
    specKey { o with range := some (a, b) } snap vs = (specKey { o with range := none } snap vs).filter (inR a b) := by
  unfold specKey
  rw [List.filter_filter]
  apply List.filter_congr
  intro v _
  simp only [inRangeTs, inR, Bool.and_true]
  cases (o.tombs || !v.kind.isTomb) <;> simp

/-- **forward history of one key with any timestamp range is the property** -/
theorem histKeyFwd_eq_spec_range (o : HOpts) (snap : Nat) (vs : List HVer) (hd : TsNonInc vs) :
    histKeyFwd o.tombs o.range snap false false false vs = specKey o snap vs := by
  cases hr : o.range with
  | none => rw [← hr]; exact histKeyFwd_eq_spec o hr snap vs
  | some p =>
    obtain ⟨a, b⟩ := p
    rw [histKeyFwd_range o.tombs a b snap vs hd]
    have h1 := histKeyFwd_eq_spec { o with range := none } rfl snap vs
    simp only at h1
    rw [h1]
    have h2 := specKey_range o a b snap vs
    have : ({ o with range := some (a, b) } : HOpts) = o := by cases o; simp_all
    rw [this] at h2
    exact h2.symm

theorem histFwd_eq_spec_range (o : HOpts) (snap : Nat) (keys : List (Nat × List HVer))
    (hd : ∀ kv ∈ keys, TsNonInc kv.2) : histFwd o snap keys = specHistory o snap keys := by
  unfold histFwd specHistory
  congr 1
  apply flatMap_congr'
  intro kv hkv
  rw [histKeyFwd_eq_spec_range o snap kv.2 (hd kv hkv)]

/-- backward: the range is applied to what the barrier search left -/
theorem histKeyBwd_range (tombs : Bool) (range : Option (Nat × Nat)) (snap : Nat) (vs : List HVer) :
    histKeyBwd tombs range snap vs = (histKeyBwd tombs none snap vs).filter (inRangeOpt range) := by
  unfold histKeyBwd
  simp only
  split
  · rfl
  · split
    · rfl
    · rw [List.filter_filter]
      apply List.filter_congr
      intro v _
      simp only [inRangeOpt]
      cases (!v.kind.isHard) <;> cases (tombs || !v.kind.isTomb) <;> cases range <;> simp

theorem histKeyBwd_eq_spec_range (o : HOpts) (snap : Nat) (vs : List HVer) :
    histKeyBwd o.tombs o.range snap vs = (specKey o snap vs).reverse := by
  rw [histKeyBwd_range, histKeyBwd_eq_spec, List.filter_reverse]
  congr 1
  unfold specKey
  rw [List.filter_filter]
  apply List.filter_congr
  intro v _
  simp only [inRangeTs, inRangeOpt]
  cases o.range with
  | none => simp
  | some p => simp only [Bool.and_true]; exact Bool.and_comm _ _

theorem histBwd_eq_spec_range (o : HOpts) (snap : Nat) (keys : List (Nat × List HVer)) :
    histBwd o snap keys =
      applyLimit o ((keys.flatMap (fun kv => (specKey o snap kv.2).map (fun v => (kv.1, v)))).reverse) := by
  unfold histBwd
  congr 1
  rw [reverse_flatMap']
  apply flatMap_congr'
  intro kv _
  rw [histKeyBwd_eq_spec_range, List.map_reverse]

/-- the forward loop as it was before the `fix:` commit: a version above the range was skipped before
the barrier logic saw it -/
def histKeyFwdOld (tombs : Bool) (range : Option (Nat × Nat)) (snap : Nat) : Bool → Bool → Bool → List HVer → List HVer
  | _, _, _, [] => []
  | fs, lh, bs, v :: rest =>
    if v.seq > snap then histKeyFwdOld tombs range snap fs lh bs rest
    else
      match range with
      | some (a, b) =>
        if v.ts > b then histKeyFwdOld tombs range snap fs lh bs rest
        else if v.ts < a then []
        else histStep tombs fs lh bs v (fun fs lh bs => histKeyFwdOld tombs range snap fs lh bs rest)
      | none => histStep tombs fs lh bs v (fun fs lh bs => histKeyFwdOld tombs range snap fs lh bs rest)
