import Skv.Model.BgWork

/-- enough L0 tables to compact ⇒ the compaction task has been notified -/
def BgInv (s : BgState) : Prop := s.trigger ≤ s.l0 → s.scheduled = true

theorem bg_step_consts (wake : Bool) (s : BgState) (op : BgOp) :
    (s.step wake op).trigger = s.trigger ∧ (s.step wake op).stallAt = s.stallAt := by
  cases op <;> simp [BgState.step] <;> split <;> simp

theorem bginv_step (s : BgState) (op : BgOp) (ht : 0 < s.trigger) (h : BgInv s) : BgInv (s.step true op) := by
  cases op with
  | bgFlush => intro _; rfl
  | fgFlush => intro _; simp [BgState.step]
  | compactRun =>
    unfold BgInv at h ⊢
    simp only [BgState.step]
    split
    · simp only
      split
      · intro hc; omega
      · rename_i hlt; intro hc; exact absurd hc hlt
    · exact h

theorem bginv_run (ops : List BgOp) (s : BgState) (ht : 0 < s.trigger) (h : BgInv s) :
    BgInv (s.run true ops) ∧ (s.run true ops).trigger = s.trigger ∧ (s.run true ops).stallAt = s.stallAt := by
  induction ops generalizing s with
  | nil => exact ⟨h, rfl, rfl⟩
  | cons op ops ih =>
    have hc := bg_step_consts true s op
    have := ih (s.step true op) (by rw [hc.1]; exact ht) (bginv_step s op ht h)
    exact ⟨this.1, by rw [← hc.1]; exact this.2.1, by rw [← hc.2]; exact this.2.2⟩
