import Skv.Model.LockOrder

theorem exists_max {α : Type} (S : List α) (f : α → Nat) (h : S ≠ []) :
    ∃ x ∈ S, ∀ y ∈ S, f y ≤ f x := by
  induction S with
  | nil => exact absurd rfl h
  | cons a rest ih =>
    cases rest with
    | nil => exact ⟨a, List.mem_cons_self, fun y hy => by simp at hy; subst hy; exact Nat.le_refl _⟩
    | cons b rest' =>
      obtain ⟨x, hx, hmax⟩ := ih (by simp)
      by_cases hc : f a ≤ f x
      · refine ⟨x, List.mem_cons_of_mem _ hx, ?_⟩
        intro y hy
        rcases List.mem_cons.mp hy with h1 | h1
        · subst h1; exact hc
        · exact hmax y h1
      · refine ⟨a, List.mem_cons_self, ?_⟩
        intro y hy
        rcases List.mem_cons.mp hy with h1 | h1
        · subst h1; exact Nat.le_refl _
        · have := hmax y h1; omega

/-- what the discipline gives at position `n`: the requested lock is above everything held there -/
theorem disciplinedFrom_at (p : List LAct) (acc : List LReq) (hd : disciplinedFrom p acc = true)
    (n : Nat) (r : LReq) (g : Bool) (hn : p[n]? = some (.acq r g)) :
    ∀ h ∈ heldOf (p.take n) acc, h.lock < r.lock := by
  induction p generalizing acc n with
  | nil => simp at hn
  | cons a rest ih =>
    cases n with
    | zero =>
      have : a = .acq r g := by simpa using hn
      subst this
      simp only [disciplinedFrom, Bool.and_eq_true, List.all_eq_true, decide_eq_true_eq] at hd
      simpa [heldOf] using hd.1
    | succ n =>
      have hn' : rest[n]? = some (.acq r g) := by simpa using hn
      cases a with
      | acq r0 g0 =>
        simp only [disciplinedFrom, Bool.and_eq_true] at hd
        simpa [heldOf] using ih (acc ++ [r0]) hd.2 n hn'
      | rel l =>
        simp only [disciplinedFrom] at hd
        simpa [heldOf] using ih _ hd n hn'

/-- **no circular wait under the discipline**: there is no non-empty set of threads each of which
waits for a lock that a member of the set holds -/
theorem no_stuck_set (s : LSys) (hr : ∀ t ∈ s, disciplined t.prog = true) (S : List Nat) (hne : S ≠ [])
    (hS : ∀ i ∈ S, ∃ (t : LThread) (r : LReq), s[i]? = some t ∧ t.next = some r ∧
      ∃ j ∈ S, ∃ (u : LThread) (h : LReq), s[j]? = some u ∧ h ∈ u.held ∧ h.lock = r.lock) : False := by
  let f : Nat → Nat := fun i => match s[i]? with
    | some t => match t.next with | some r => r.lock | none => 0
    | none => 0
  obtain ⟨i, hi, hmax⟩ := exists_max S f hne
  obtain ⟨t, r, ht, hnext, j, hj, u, h, hu, hheld, hlock⟩ := hS i hi
  obtain ⟨u', r', hu', hnext', _⟩ := hS j hj
  rw [hu] at hu'; cases hu'
  have hur : disciplined u.prog = true := hr u (List.mem_of_getElem? hu)
  have hlt : h.lock < r'.lock := by
    unfold LThread.held at hheld
    unfold LThread.next at hnext'
    split at hheld
    · cases hheld
    · split at hnext'
      · rename_i r0 g0 hp
        cases hnext'
        exact disciplinedFrom_at u.prog [] hur u.pc r' g0 hp h hheld
      · cases hnext'
  have hfi : f i = r.lock := by simp [f, ht, hnext]
  have hfj : f j = r'.lock := by simp [f, hu, hnext']
  have := hmax j hj
  omega

/-- a blocked thread waits for a lock held by another thread -/
theorem blocked_has_holder (s : LSys) (i : Nat) (r : LReq) (hb : canGrant s i r = false) :
    ∃ j, j ≠ i ∧ ∃ (u : LThread) (h : LReq), s[j]? = some u ∧ h ∈ u.held ∧ h.lock = r.lock := by
  unfold canGrant at hb
  rw [List.all_eq_false] at hb
  obtain ⟨j, hj, hbad⟩ := hb
  simp only [Bool.or_eq_true, beq_iff_eq, not_or] at hbad
  obtain ⟨hji, hbad⟩ := hbad
  cases hu : s[j]? with
  | none => simp [hu] at hbad
  | some u =>
    simp only [hu, Option.map_some, Option.getD_some, Bool.not_eq_true] at hbad
    rw [List.all_eq_false] at hbad
    obtain ⟨h, hh, hc⟩ := hbad
    refine ⟨j, hji, u, h, hu, hh, ?_⟩
    simp only [compatible, Bool.or_eq_true, bne_iff_ne, ne_eq, Bool.and_eq_true, beq_iff_eq, not_or,
      Decidable.not_not] at hc
    exact hc.1.symm

/-- **progress**: if every operation is disciplined and some thread has not finished, some
unfinished thread is not blocked -/
theorem some_thread_can_step (s : LSys) (hr : ∀ t ∈ s, disciplined t.prog = true)
    (hlive : ∃ (i : Nat) (t : LThread), s[i]? = some t ∧ t.done = false) :
    ∃ (i : Nat) (t : LThread), s[i]? = some t ∧ t.done = false ∧ blocked s i = false := by
  apply Classical.byContradiction
  intro hno
  have hall : ∀ (i : Nat) (t : LThread), s[i]? = some t → t.done = false → blocked s i = true := by
    intro i t ht hd
    cases hb : blocked s i with
    | true => rfl
    | false => exact absurd ⟨i, t, ht, hd, hb⟩ hno
  let S := (List.range s.length).filter (fun i => match s[i]? with | some t => !t.done | none => false)
  obtain ⟨i0, t0, ht0, hd0⟩ := hlive
  have hi0 : i0 ∈ S := by
    simp only [S, List.mem_filter, List.mem_range]
    refine ⟨?_, by simp [ht0, hd0]⟩
    rcases Nat.lt_or_ge i0 s.length with h | h
    · exact h
    · rw [List.getElem?_eq_none h] at ht0; cases ht0
  apply no_stuck_set s hr S (List.ne_nil_of_mem hi0)
  intro i hi
  simp only [S, List.mem_filter, List.mem_range] at hi
  obtain ⟨hlen, hlv⟩ := hi
  cases ht : s[i]? with
  | none => simp [ht] at hlv
  | some t =>
    have hd : t.done = false := by simpa [ht] using hlv
    have hb := hall i t ht hd
    unfold blocked at hb
    simp only [ht] at hb
    cases hn : t.next with
    | none => simp [hn] at hb
    | some r =>
      simp only [hn, Bool.not_eq_true'] at hb
      obtain ⟨j, _, u, h, hu, hh, hl⟩ := blocked_has_holder s i r hb
      refine ⟨t, r, rfl, hn, j, ?_, u, h, hu, hh, hl⟩
      simp only [S, List.mem_filter, List.mem_range]
      have hjlen : j < s.length := by
        rcases Nat.lt_or_ge j s.length with h' | h'
        · exact h'
        · rw [List.getElem?_eq_none h'] at hu; cases hu
      refine ⟨hjlen, ?_⟩
      have : u.done = false := by
        cases hdone : u.done with
        | false => rfl
        | true => simp [LThread.held, hdone] at hh
      simp [hu, this]
