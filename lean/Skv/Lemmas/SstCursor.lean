import Skv.Lemmas.SstIndex
/-! the bounded table cursor lands where the flat-list specification says -/

/-- characterisation of `takeWhile` length by the entries before and at a position -/
theorem takeWhile_length_eq (l : List Ent) (P : Ent → Bool) (n : Nat)
    (h1 : ∀ i, i < n → ∃ e, l[i]? = some e ∧ P e = true)
    (h2 : ∀ e, l[n]? = some e → P e = false) : (l.takeWhile P).length = n := by
  induction l generalizing n with
  | nil =>
    cases n with
    | zero => rfl
    | succ n => obtain ⟨e, he, _⟩ := h1 0 (by omega); simp at he
  | cons x xs ih =>
    rw [List.takeWhile_cons]
    cases n with
    | zero =>
      have := h2 x (by simp)
      simp [this]
    | succ n =>
      obtain ⟨e, he, hp⟩ := h1 0 (by omega)
      have : x = e := by simpa using he
      subst this
      have : (List.takeWhile P xs).length = n := by
        apply ih
        · intro i hi
          obtain ⟨e, he, hp⟩ := h1 (i + 1) (by omega)
          exact ⟨e, by simpa using he, hp⟩
        · intro e he; exact h2 e (by simpa using he)
      simp [hp, this]

theorem takeWhile_const_true (l : List Ent) : l.takeWhile (fun _ => true) = l := by
  induction l with
  | nil => rfl
  | cons x xs ih => simp [List.takeWhile_cons, ih]

theorem takeWhile_const_false (l : List Ent) : l.takeWhile (fun _ => false) = [] := by
  cases l <;> simp [List.takeWhile_cons]

def seqBounded (es : List Ent) (m : Nat) : Prop := ∀ e ∈ es, e.k.seq ≤ m

/-- entries strictly after a position in a sorted list have larger keys -/
theorem sorted_succ_lt (es : List Ent) (hs : sortedEnts es = true) (i : Nat) (a b : Ent)
    (ha : es[i]? = some a) (hb : es[i + 1]? = some b) : ikLt a.k b.k = true := by
  induction es generalizing i with
  | nil => simp at ha
  | cons x xs ih =>
    cases i with
    | zero =>
      have : x = a := by simpa using ha
      subst this
      exact sortedEnts_head_lt hs b (List.mem_of_getElem? (by simpa using hb))
    | succ i => exact ih (sortedEnts_cons hs) i (by simpa using ha) (by simpa using hb)

/-- number of entries whose user key is below `k` = seek position of `(k, maxSeq)` -/
theorem count_uk_lt (es : List Ent) (k : List Nat) (m : Nat) (hm : seqBounded es m) :
    (es.takeWhile (fun e => decide (e.k.uk < k))).length = firstGE es ⟨k, m⟩ := by
  apply takeWhile_length_eq
  · intro i hi
    obtain ⟨e, he, hlt⟩ := firstGE_before es ⟨k, m⟩ i hi
    refine ⟨e, he, ?_⟩
    rw [ikLt_iff] at hlt
    rcases hlt with h | ⟨_, h⟩
    · simpa using h
    · have := hm e (List.mem_of_getElem? he); simp at h; omega
  · intro e he
    have := firstGE_at es ⟨k, m⟩ e he
    cases hd : decide (e.k.uk < k) with
    | false => rfl
    | true =>
      have : ikLt e.k ⟨k, m⟩ = true := (ikLt_iff _ _).mpr (Or.inl (by simpa using hd))
      simp_all

/-- number of entries whose user key is at most `k`: the seek position of `(k, 0)`, plus one when
that entry is `(k, 0)` itself -/
theorem count_uk_le (es : List Ent) (hs : sortedEnts es = true) (k : List Nat) :
    (es.takeWhile (fun e => !decide (k < e.k.uk))).length =
      (match es[firstGE es ⟨k, 0⟩]? with
       | some e => if e.k.uk = k then firstGE es ⟨k, 0⟩ + 1 else firstGE es ⟨k, 0⟩
       | none => firstGE es ⟨k, 0⟩) := by
  have hbefore : ∀ i, i < firstGE es ⟨k, 0⟩ → ∃ e, es[i]? = some e ∧ (!decide (k < e.k.uk)) = true := by
    intro i hi
    obtain ⟨e, he, hlt⟩ := firstGE_before es ⟨k, 0⟩ i hi
    refine ⟨e, he, ?_⟩
    rw [ikLt_iff] at hlt
    rcases hlt with h | ⟨h, _⟩
    · have : ¬ k < e.k.uk := fun h' => List.lt_asymm h h'
      simp [this]
    · have : ¬ k < e.k.uk := by rw [h]; exact List.lt_irrefl _
      simp [this]
  cases hp : es[firstGE es ⟨k, 0⟩]? with
  | none =>
    simp only
    apply takeWhile_length_eq _ _ _ hbefore
    intro e he; rw [hp] at he; cases he
  | some e =>
    simp only
    have hge := firstGE_at es ⟨k, 0⟩ e hp
    by_cases hk : e.k.uk = k
    · rw [if_pos hk]
      apply takeWhile_length_eq
      · intro i hi
        rcases Nat.lt_or_ge i (firstGE es ⟨k, 0⟩) with h | h
        · exact hbefore i h
        · have : i = firstGE es ⟨k, 0⟩ := by omega
          subst this
          have hnk : ¬ k < e.k.uk := by rw [hk]; exact List.lt_irrefl _
          exact ⟨e, hp, by simp [hnk]⟩
      · intro e' he'
        have hlt := sorted_succ_lt es hs _ e e' hp he'
        -- e = (k, 0): its seq is not above 0
        have hseq : e.k.seq = 0 := by
          cases hz : e.k.seq with
          | zero => rfl
          | succ n =>
            have : ikLt e.k ⟨k, 0⟩ = true := (ikLt_iff _ _).mpr (Or.inr ⟨hk, by simp [hz]⟩)
            rw [hge] at this; cases this
        rw [ikLt_iff] at hlt
        rcases hlt with h | ⟨_, h⟩
        · rw [hk] at h; simpa using h
        · rw [hseq] at h; simp at h
    · rw [if_neg hk]
      apply takeWhile_length_eq _ _ _ hbefore
      intro e' he'
      rw [hp] at he'; cases he'
      rcases uk_trichotomy e.k.uk k with h | h | h
      · have : ikLt e.k ⟨k, 0⟩ = true := (ikLt_iff _ _).mpr (Or.inl h)
        rw [hge] at this; cases this
      · exact absurd h hk
      · simpa using h

theorem mkPos_eq (c : TblCtx) (p : Nat) : c.mkPos p = if p < c.flat.length then some p else none := rfl

theorem checkUpper_mkPos (c : TblCtx) (p : Nat) : c.checkUpper (c.mkPos p) = landUpper c.flat c.hi p := by
  unfold TblCtx.checkUpper TblCtx.mkPos landUpper TblCtx.at?
  by_cases h : p < c.flat.length
  · simp [h]
  · simp [h, List.getElem?_eq_none (Nat.le_of_not_lt h)]

theorem checkLower_eq (c : TblCtx) (p : Option Nat) (h : ∀ i, p = some i → i < c.flat.length) :
    c.checkLower p = landLower c.flat c.lo p := by
  unfold TblCtx.checkLower landLower TblCtx.at?
  cases p with
  | none => rfl
  | some i =>
    rfl

/-- **seek_to_first is exact** -/
theorem seekFirst_eq (c : TblCtx) (hw : layoutWF c.L = true) (hm : seqBounded c.flat c.maxSeq) :
    c.seekFirst = specSeekFirst c.flat c.lo c.hi := by
  unfold TblCtx.seekFirst specSeekFirst
  rw [checkUpper_mkPos]
  congr 1
  unfold TblCtx.seekFirstPos
  have hsorted : sortedEnts c.flat = true := flat_sorted _ (layoutWF_blocks _ hw)
  cases hlo : c.lo with
  | unb => simp [satLower, takeWhile_const_false]
  | incl k =>
    simp only [satLower, Bool.not_not]
    rw [tblSeek_eq _ hw]
    exact (count_uk_lt c.flat k c.maxSeq hm).symm
  | excl k =>
    simp only [satLower]
    rw [tblSeek_eq _ hw]
    exact (count_uk_le c.flat hsorted k).symm

theorem lastPosOf_lt (n : Nat) (i : Nat) (h : lastPosOf n = some i) : i < n := by
  unfold lastPosOf at h; split at h
  · cases h
  · cases h; omega

/-- **seek_to_last is exact** -/
theorem seekLast_eq (c : TblCtx) (hw : layoutWF c.L = true) (hm : seqBounded c.flat c.maxSeq) :
    c.seekLast = specSeekLast c.flat c.lo c.hi := by
  have hsorted : sortedEnts c.flat = true := flat_sorted _ (layoutWF_blocks _ hw)
  have hpos : c.seekLastPos = lastPosOf (c.flat.takeWhile (fun e => satUpper c.hi e.k.uk)).length := by
    unfold TblCtx.seekLastPos
    cases hhi : c.hi with
    | unb =>
      simp only [satUpper, takeWhile_const_true]
    | incl k =>
      simp only [satUpper]
      rw [tblSeek_eq _ hw, count_uk_le c.flat hsorted k]
      unfold TblCtx.at?
      show (match c.flat[firstGE c.flat ⟨k, 0⟩]? with
        | none => lastPosOf c.flat.length
        | some e => if k < e.k.uk then lastPosOf (firstGE c.flat ⟨k, 0⟩) else some (firstGE c.flat ⟨k, 0⟩)) = _
      cases hp : c.flat[firstGE c.flat ⟨k, 0⟩]? with
      | none =>
        simp only
        have : c.flat.length ≤ firstGE c.flat ⟨k, 0⟩ := by
          rcases Nat.lt_or_ge (firstGE c.flat ⟨k, 0⟩) c.flat.length with h | h
          · rw [List.getElem?_eq_getElem h] at hp; cases hp
          · exact h
        have := Nat.le_antisymm (firstGE_le c.flat ⟨k, 0⟩) this
        rw [this]
      | some e =>
        simp only
        have hge := firstGE_at c.flat ⟨k, 0⟩ e hp
        by_cases hk : k < e.k.uk
        · have hne : e.k.uk ≠ k := fun h => by rw [h] at hk; exact List.lt_irrefl _ hk
          rw [if_pos hk, if_neg hne]
        · rw [if_neg hk]
          have hek : e.k.uk = k := by
            rcases uk_trichotomy e.k.uk k with h | h | h
            · have : ikLt e.k ⟨k, 0⟩ = true := (ikLt_iff _ _).mpr (Or.inl h)
              rw [hge] at this; cases this
            · exact h
            · exact absurd h hk
          rw [if_pos hek]
          simp [lastPosOf]
    | excl k =>
      simp only [satUpper]
      rw [tblSeek_eq _ hw, count_uk_lt c.flat k c.maxSeq hm]
      unfold TblCtx.at?
      show (match (match c.flat[firstGE c.flat ⟨k, c.maxSeq⟩]? with
              | none => lastPosOf c.flat.length
              | some _ => some (firstGE c.flat ⟨k, c.maxSeq⟩)) with
            | none => none
            | some q => match c.flat[q]? with
              | some e => if (!decide (e.k.uk < k)) = true then lastPosOf q else some q
              | none => none) = _
      cases hp : c.flat[firstGE c.flat ⟨k, c.maxSeq⟩]? with
      | none =>
        have hlen : firstGE c.flat ⟨k, c.maxSeq⟩ = c.flat.length := by
          rcases Nat.lt_or_ge (firstGE c.flat ⟨k, c.maxSeq⟩) c.flat.length with h | h
          · rw [List.getElem?_eq_getElem h] at hp; cases hp
          · exact Nat.le_antisymm (firstGE_le _ _) h
        rw [hlen]
        cases hl : lastPosOf c.flat.length with
        | none => rfl
        | some q =>
          have hq := lastPosOf_lt _ _ hl
          -- every entry is below the target, in particular the last one has a user key below k
          obtain ⟨e, he, hlt⟩ := firstGE_before c.flat ⟨k, c.maxSeq⟩ q (by omega)
          have hek : e.k.uk < k := by
            rw [ikLt_iff] at hlt
            rcases hlt with h | ⟨_, h⟩
            · exact h
            · have := hm _ (List.mem_of_getElem? he); simp at h; omega
          simp only [he]
          simp [hek]
      | some e =>
        have hge := firstGE_at c.flat ⟨k, c.maxSeq⟩ e hp
        have hnk : ¬ e.k.uk < k := by
          intro h
          have : ikLt e.k ⟨k, c.maxSeq⟩ = true := (ikLt_iff _ _).mpr (Or.inl h)
          rw [hge] at this; cases this
        simp only [hp]
        simp [hnk]
  unfold TblCtx.seekLast specSeekLast
  rw [checkLower_eq, hpos]
  intro i hi
  rw [hpos] at hi
  have := lastPosOf_lt _ _ hi
  have hle : (c.flat.takeWhile (fun e => satUpper c.hi e.k.uk)).length ≤ c.flat.length := by
    have := List.takeWhile_sublist (fun e => satUpper c.hi e.k.uk) (l := c.flat)
    exact this.length_le
  omega

/-- **seek(target) is exact** -/
theorem seek_eq (c : TblCtx) (hw : layoutWF c.L = true) (t : IKey) :
    c.seek t = specSeek c.flat c.hi t := by
  unfold TblCtx.seek specSeek
  rw [checkUpper_mkPos, tblSeek_eq _ hw]
  rfl

theorem next_eq (c : TblCtx) (hw : layoutWF c.L = true) (hm : seqBounded c.flat c.maxSeq) (s : TCur) :
    c.next s = specNext c.flat c.lo c.hi s := by
  unfold TblCtx.next specNext
  cases hp : s.pos with
  | none => simp only; rw [seekFirst_eq c hw hm]
  | some p =>
    simp only [TblCtx.mkPos, TblCtx.at?]
    by_cases h : p + 1 < c.flat.length
    · simp only [h, if_true]
    · simp only [h, if_false]
      rw [List.getElem?_eq_none (Nat.le_of_not_lt h)]

theorem prev_eq (c : TblCtx) (hw : layoutWF c.L = true) (hm : seqBounded c.flat c.maxSeq) (s : TCur) :
    c.prev s = specPrev c.flat c.lo c.hi s := by
  unfold TblCtx.prev specPrev
  cases hp : s.pos with
  | none => simp only; rw [seekLast_eq c hw hm]
  | some p => rfl

/-- cursor operations -/
inductive COp
  | first | last | next | prev | seek (t : IKey)
  deriving Repr

def TblCtx.apply (c : TblCtx) (s : TCur) : COp → TCur
  | .first => c.seekFirst | .last => c.seekLast | .next => c.next s | .prev => c.prev s | .seek t => c.seek t

def specApply (es : List Ent) (lo hi : Bnd) (s : TCur) : COp → TCur
  | .first => specSeekFirst es lo hi | .last => specSeekLast es lo hi
  | .next => specNext es lo hi s | .prev => specPrev es lo hi s | .seek t => specSeek es hi t

theorem apply_eq (c : TblCtx) (hw : layoutWF c.L = true) (hm : seqBounded c.flat c.maxSeq) (s : TCur) (op : COp) :
    c.apply s op = specApply c.flat c.lo c.hi s op := by
  cases op with
  | first => exact seekFirst_eq c hw hm
  | last => exact seekLast_eq c hw hm
  | next => exact next_eq c hw hm s
  | prev => exact prev_eq c hw hm s
  | seek t => exact seek_eq c hw t
