import Skv.Lemmas.SstSeek
/-! key-range shortcuts never hide an entry that lies in the range -/

theorem uk_le_of_ikLe {a b : IKey} (h : ikLe a b = true) : a.uk ≤ b.uk := by
  rw [ikLe_iff] at h
  apply List.not_lt.mp
  intro hlt
  have : ikLt b a = true := (ikLt_iff _ _).mpr (Or.inl hlt)
  rw [h] at this; cases this

theorem nl_lt_of_lt_of_le {a b c : List Nat} (h1 : a < b) (h2 : b ≤ c) : a < c := by
  rcases List.le_iff_lt_or_eq.mp h2 with h | h
  · exact List.lt_trans h1 h
  · exact h ▸ h1

theorem range_sound (es : List Ent) (hs : sortedEnts es = true) (f l e : Ent)
    (hf : es.head? = some f) (hl : es.getLast? = some l) (he : e ∈ es) (lo hi : Bnd)
    (hin : inRange lo hi e = true) :
    isBeforeRange l.k.uk lo = false ∧ isAfterRange f.k.uk hi = false ∧
      overlapsRange f.k.uk l.k.uk lo hi = true := by
  have hle : e.k.uk ≤ l.k.uk := uk_le_of_ikLe (sorted_le_last es hs l hl e he)
  have hfe : f.k.uk ≤ e.k.uk := by
    cases es with
    | nil => cases he
    | cons x xs =>
      have : x = f := by simpa using hf
      subst this
      rcases List.mem_cons.mp he with h | h
      · subst h; exact List.le_refl _
      · exact uk_le_of_ikLe (ikLe_of_lt (sortedEnts_head_lt hs e h))
  simp only [inRange, Bool.and_eq_true] at hin
  obtain ⟨hlo, hhi⟩ := hin
  have hb : isBeforeRange l.k.uk lo = false := by
    cases lo with
    | unb => rfl
    | incl k =>
      simp only [satLower, Bool.not_eq_true', decide_eq_false_iff_not] at hlo
      simp only [isBeforeRange, decide_eq_false_iff_not]
      intro h
      exact hlo (List.lt_of_le_of_lt hle h)
    | excl k =>
      simp only [satLower, decide_eq_true_eq] at hlo
      simp only [isBeforeRange, Bool.not_eq_false', decide_eq_true_eq]
      exact nl_lt_of_lt_of_le hlo hle
  have ha : isAfterRange f.k.uk hi = false := by
    cases hi with
    | unb => rfl
    | incl k =>
      simp only [satUpper, Bool.not_eq_true', decide_eq_false_iff_not] at hhi
      simp only [isAfterRange, decide_eq_false_iff_not]
      intro h
      exact hhi (nl_lt_of_lt_of_le h hfe)
    | excl k =>
      simp only [satUpper, decide_eq_true_eq] at hhi
      simp only [isAfterRange, Bool.not_eq_false', decide_eq_true_eq]
      exact List.lt_of_le_of_lt hfe hhi
  exact ⟨hb, ha, by simp [overlapsRange, hb, ha]⟩
