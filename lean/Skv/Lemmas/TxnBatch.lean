import Skv.Lemmas.TxnSim
/-!
The batch `commit` builds (C08, last sentence): sorted by issue number, a permutation of the
surviving entries, and per key it ends with the entry `get` would return.
-/
open Txn

theorem insBySeq_perm (e : Entry) (xs : List Entry) : (insBySeq e xs).Perm (e :: xs) := by
  induction xs with
  | nil => exact List.Perm.refl _
  | cons x xs ih =>
    unfold insBySeq
    split
    · exact List.Perm.refl _
    · exact (List.Perm.cons x ih).trans (List.Perm.swap e x xs)

theorem sortBySeq_perm (l : List Entry) : (l.foldr insBySeq []).Perm l := by
  induction l with
  | nil => exact List.Perm.refl _
  | cons a l ih => exact (insBySeq_perm a _).trans (List.Perm.cons a ih)

theorem insBySeq_sorted (e : Entry) (xs : List Entry)
    (h : xs.Pairwise (fun a b => a.seqno ≤ b.seqno)) :
    (insBySeq e xs).Pairwise (fun a b => a.seqno ≤ b.seqno) := by
  induction xs with
  | nil => simp [insBySeq]
  | cons x xs ih =>
    unfold insBySeq
    have hx := List.pairwise_cons.mp h
    split
    · rename_i hlt
      refine List.pairwise_cons.mpr ⟨?_, h⟩
      intro b hb
      rcases List.mem_cons.mp hb with rfl | hb
      · omega
      · have := hx.1 b hb; omega
    · rename_i hge
      refine List.pairwise_cons.mpr ⟨?_, ih hx.2⟩
      intro b hb
      have hb' := (insBySeq_perm e xs).subset hb
      rcases List.mem_cons.mp hb' with rfl | hb'
      · omega
      · exact hx.1 b hb'

theorem sortBySeq_sorted (l : List Entry) :
    (l.foldr insBySeq []).Pairwise (fun a b => a.seqno ≤ b.seqno) := by
  induction l with
  | nil => simp
  | cons a l ih => exact insBySeq_sorted a _ ih

theorem insBySeq_lt_all (e : Entry) (ys : List Entry) (h : ∀ y ∈ ys, e.seqno < y.seqno) :
    insBySeq e ys = e :: ys := by
  cases ys with
  | nil => rfl
  | cons y ys => simp [insBySeq, h y (List.mem_cons_self ..)]

theorem filter_insBySeq (p : Entry → Bool) (e : Entry) (xs : List Entry)
    (hs : xs.Pairwise (fun a b => a.seqno ≤ b.seqno)) :
    (insBySeq e xs).filter p = if p e then insBySeq e (xs.filter p) else xs.filter p := by
  induction xs with
  | nil => by_cases hpe : p e = true <;> simp [insBySeq, hpe]
  | cons x xs ih =>
    have hx := List.pairwise_cons.mp hs
    have ih := ih hx.2
    by_cases hlt : e.seqno < x.seqno
    · have h1 : insBySeq e (x :: xs) = e :: x :: xs := by simp [insBySeq, hlt]
      rw [h1]
      by_cases hpe : p e = true
      · have hall : ∀ y ∈ (x :: xs).filter p, e.seqno < y.seqno := by
          intro y hy
          have hy' := (List.mem_filter.mp hy).1
          rcases List.mem_cons.mp hy' with rfl | hy'
          · exact hlt
          · have := hx.1 y hy'; omega
        rw [insBySeq_lt_all e _ hall]
        simp [List.filter_cons, hpe]
      · simp [List.filter_cons, hpe]
    · have h1 : insBySeq e (x :: xs) = x :: insBySeq e xs := by simp [insBySeq, hlt]
      rw [h1]
      by_cases hpx : p x = true
      · simp only [List.filter_cons, hpx, if_true, ih]
        by_cases hpe : p e = true
        · simp [hpe, insBySeq, hlt]
        · simp [hpe]
      · simp only [List.filter_cons, hpx, ih]
        simp

theorem filter_sortBySeq (p : Entry → Bool) (l : List Entry) :
    (l.foldr insBySeq []).filter p = (l.filter p).foldr insBySeq [] := by
  induction l with
  | nil => rfl
  | cons a l ih =>
    simp only [List.foldr_cons]
    rw [filter_insBySeq p a _ (sortBySeq_sorted l), ih]
    by_cases hpa : p a = true <;> simp [List.filter_cons, hpa]

theorem sortBySeq_id (l : List Entry) (h : l.Pairwise (fun a b => a.seqno < b.seqno)) :
    l.foldr insBySeq [] = l := by
  induction l with
  | nil => rfl
  | cons a l ih =>
    have ha := List.pairwise_cons.mp h
    simp only [List.foldr_cons, ih ha.2]
    exact insBySeq_lt_all a l ha.1

/-- well-formedness of the write set with respect to issue numbers -/
structure WsWf (t : Txn) : Prop where
  keyed : ∀ p ∈ t.ws, ∀ e ∈ p.2, e.key = p.1
  bound : ∀ p ∈ t.ws, ∀ e ∈ p.2, e.seqno ≤ t.writeSeqno
  inc : ∀ p ∈ t.ws, p.2.Pairwise (fun a b => a.seqno < b.seqno)
  nodup : (t.ws.map (·.1)).Nodup

theorem wswf_start (m : Mode) : WsWf (Txn.start m) :=
  ⟨by intro p hp; simp [Txn.start] at hp, by intro p hp; simp [Txn.start] at hp,
   by intro p hp; simp [Txn.start] at hp, by simp [Txn.start]⟩

/-- entries of `k` among the flattened write set -/
theorem flat_filter_key (ws : List (Key × List Entry)) (k : Key)
    (hkeyed : ∀ p ∈ ws, ∀ e ∈ p.2, e.key = p.1) (hnd : (ws.map (·.1)).Nodup) :
    (ws.flatMap (·.2)).filter (fun e => e.key == k) = entriesOf ws k := by
  induction ws with
  | nil => simp [entriesOf, lookup]
  | cons p rest ih =>
    obtain ⟨k0, es0⟩ := p
    simp only [List.map_cons, List.nodup_cons] at hnd
    have hk0 : ∀ e ∈ es0, e.key = k0 := hkeyed (k0, es0) (List.mem_cons_self ..)
    have ih := ih (fun p hp => hkeyed p (List.mem_cons_of_mem _ hp)) hnd.2
    simp only [List.flatMap_cons, List.filter_append, ih]
    by_cases hk : k0 = k
    · subst hk
      have h1 : es0.filter (fun e => e.key == k0) = es0 :=
        List.filter_eq_self.mpr (fun e he => by simp [hk0 e he])
      have h2 : entriesOf rest k0 = [] := by
        simp [entriesOf, lookup_none_of_not_mem rest k0 hnd.1]
      rw [h1, h2]; simp [entriesOf, lookup]
    · have hne : (k0 == k) = false := beq_eq_false_iff_ne.mpr hk
      have h1 : es0.filter (fun e => e.key == k) = [] :=
        List.filter_eq_nil_iff.mpr (fun e he => by simp [hk0 e he, hk])
      simp [h1, entriesOf, lookup, hne]

/-- per key, the batch restricted to the key is exactly the key's entry list -/
theorem batch_filter_key (t : Txn) (h : WsWf t) (k : Key) :
    t.batch.filter (fun e => e.key == k) = entriesOf t.ws k := by
  unfold Txn.batch
  rw [filter_sortBySeq, flat_filter_key _ _ h.keyed h.nodup]
  apply sortBySeq_id
  unfold entriesOf
  cases hl : lookup t.ws k with
  | none => simp
  | some es =>
    simp only [Option.getD_some]
    unfold lookup at hl
    cases hf : t.ws.find? (fun p => p.1 == k) with
    | none => simp [hf] at hl
    | some p =>
      simp only [hf, Option.map_some, Option.some.injEq] at hl
      subst hl
      exact h.inc p (List.mem_of_find?_eq_some hf)

theorem mem_upsert (ws : List (Key × List Entry)) (k : Key) (f) (p : Key × List Entry)
    (hp : p ∈ upsert ws k f) :
    (p.1 = k ∧ (p.2 = f none ∨ ∃ es, (k, es) ∈ ws ∧ p.2 = f (some es))) ∨ p ∈ ws := by
  induction ws with
  | nil => simp [upsert] at hp; subst hp; exact Or.inl ⟨rfl, Or.inl rfl⟩
  | cons q rest ih =>
    obtain ⟨k0, es0⟩ := q
    unfold upsert at hp
    split at hp
    · rename_i hk
      have hk : k0 = k := by simpa using hk
      subst hk
      rcases List.mem_cons.mp hp with rfl | hp
      · exact Or.inl ⟨rfl, Or.inr ⟨es0, List.mem_cons_self .., rfl⟩⟩
      · exact Or.inr (List.mem_cons_of_mem _ hp)
    · rcases List.mem_cons.mp hp with rfl | hp
      · exact Or.inr (List.mem_cons_self ..)
      · rcases ih hp with ⟨h1, h2⟩ | h
        · refine Or.inl ⟨h1, ?_⟩
          rcases h2 with h2 | ⟨es, hes, h2⟩
          · exact Or.inl h2
          · exact Or.inr ⟨es, List.mem_cons_of_mem _ hes, h2⟩
        · exact Or.inr (List.mem_cons_of_mem _ h)

theorem wswf_write (t : Txn) (h : WsWf t) (k : Key) (v : Option Val) (kind : Kind) (ts : Nat) :
    WsWf (t.write k v kind ts).1 := by
  have hbump : WsWf { t with writeSeqno := t.writeSeqno + 1 } :=
    ⟨h.keyed, fun p hp e he => Nat.le_succ_of_le (h.bound p hp e he), h.inc, h.nodup⟩
  unfold Txn.write
  simp only
  split
  · exact hbump
  · split
    · exact hbump
    · split
      · exact hbump
      · -- successful write
        generalize he : (⟨k, v, kind, t.savepoints, t.writeSeqno + 1, ts⟩ : Entry) = e
        have hek : e.key = k := by rw [← he]
        have hes : e.seqno = t.writeSeqno + 1 := by rw [← he]
        -- facts about a list produced by the push rule from an old list of this key
        have hpush : ∀ (o : Option (List Entry)), (∀ x ∈ o.getD [], x.key = k ∧ x.seqno ≤ t.writeSeqno) →
            (o.getD []).Pairwise (fun a b => a.seqno < b.seqno) →
            (∀ x ∈ pushRule e o, x.key = k ∧ x.seqno ≤ t.writeSeqno + 1) ∧
            (pushRule e o).Pairwise (fun a b => a.seqno < b.seqno) := by
          intro o hold hinc
          obtain ⟨pre, hpr, hp⟩ := pushRule_shape e o
          have hpre_sub : ∀ x ∈ pre, x ∈ o.getD [] := by
            intro x hx
            rcases hp with hp | ⟨l, hp, _⟩
            · simpa [hp] using hx
            · rw [hp]; simp [hx]
          have hpre_inc : pre.Pairwise (fun a b => a.seqno < b.seqno) := by
            rcases hp with hp | ⟨l, hp, _⟩
            · simpa [hp] using hinc
            · rw [hp] at hinc; exact (List.pairwise_append.mp hinc).1
          refine ⟨?_, ?_⟩
          · intro x hx
            rcases pushRule_mem e o x hx with rfl | hx
            · exact ⟨hek, by omega⟩
            · have := hold x hx; exact ⟨this.1, by omega⟩
          · rw [hpr]
            refine List.pairwise_append.mpr ⟨hpre_inc, by simp, ?_⟩
            intro a ha b hb
            simp at hb; subst hb
            have := (hold a (hpre_sub a ha)).2; omega
        refine ⟨?_, ?_, ?_, upsert_keys_nodup _ _ _ h.nodup⟩
        · intro p hp x hx
          rcases mem_upsert _ _ _ p hp with ⟨hk, hp2⟩ | hp
          · rcases hp2 with hp2 | ⟨es, hes, hp2⟩
            · rw [hp2] at hx
              exact ((hpush none (by simp) (by simp)).1 x hx).1.trans hk.symm
            · rw [hp2] at hx
              have := hpush (some es)
                (fun y hy => ⟨h.keyed (k, es) hes y hy, h.bound (k, es) hes y hy⟩) (h.inc (k, es) hes)
              exact (this.1 x hx).1.trans hk.symm
          · exact h.keyed p hp x hx
        · intro p hp x hx
          rcases mem_upsert _ _ _ p hp with ⟨hk, hp2⟩ | hp
          · rcases hp2 with hp2 | ⟨es, hes, hp2⟩
            · rw [hp2] at hx
              exact ((hpush none (by simp) (by simp)).1 x hx).2
            · rw [hp2] at hx
              have := hpush (some es)
                (fun y hy => ⟨h.keyed (k, es) hes y hy, h.bound (k, es) hes y hy⟩) (h.inc (k, es) hes)
              exact (this.1 x hx).2
          · exact Nat.le_succ_of_le (h.bound p hp x hx)
        · intro p hp
          rcases mem_upsert _ _ _ p hp with ⟨hk, hp2⟩ | hp
          · rcases hp2 with hp2 | ⟨es, hes, hp2⟩
            · rw [hp2]; exact (hpush none (by simp) (by simp)).2
            · rw [hp2]
              exact (hpush (some es)
                (fun y hy => ⟨h.keyed (k, es) hes y hy, h.bound (k, es) hes y hy⟩) (h.inc (k, es) hes)).2
          · exact h.inc p hp

theorem wswf_rbSp (t : Txn) (h : WsWf t) : WsWf (t.rollbackToSavepoint).1 := by
  unfold Txn.rollbackToSavepoint
  split
  · exact h
  · split
    · exact h
    · split
      · exact h
      · have hmem : ∀ p ∈ rb t.savepoints t.ws, ∃ q ∈ t.ws, p.1 = q.1 ∧ p.2.Sublist q.2 := by
          intro p hp
          unfold rb at hp
          simp only [List.mem_filter, List.mem_map] at hp
          obtain ⟨⟨q, hq, rfl⟩, _⟩ := hp
          exact ⟨q, hq, rfl, List.filter_sublist⟩
        have hnd : ((rb t.savepoints t.ws).map (·.1)).Nodup := by
          have hsub : List.Sublist ((rb t.savepoints t.ws).map (·.1)) (t.ws.map (·.1)) := by
            unfold rb
            have h1 : (t.ws.map (fun (p : Key × List Entry) => (p.1, p.2.filter (fun e => e.sp != t.savepoints)))).map (·.1)
                = t.ws.map (·.1) := by simp [List.map_map, Function.comp_def]
            rw [← h1]
            exact (List.filter_sublist).map _
          exact hsub.nodup h.nodup
        refine ⟨?_, ?_, ?_, hnd⟩
        · intro p hp e he
          obtain ⟨q, hq, h1, h2⟩ := hmem p hp
          rw [h1]; exact h.keyed q hq e (h2.subset he)
        · intro p hp e he
          obtain ⟨q, hq, _, h2⟩ := hmem p hp
          exact h.bound q hq e (h2.subset he)
        · intro p hp
          obtain ⟨q, hq, _, h2⟩ := hmem p hp
          exact (h.inc q hq).sublist h2

theorem wswf_empty (t : Txn) (c : Bool) (n sp : Nat) :
    WsWf { t with closed := c, ws := [], writeSeqno := n, savepoints := sp } :=
  ⟨by intro p hp; simp at hp, by intro p hp; simp at hp, by intro p hp; simp at hp, by simp⟩

theorem wswf_step (snap : Key → Option Val) (t : Txn) (h : WsWf t) (op : TOp) :
    WsWf (t.step snap op).1 := by
  cases op with
  | write k v kind ts => exact wswf_write t h k v kind ts
  | get k => exact h
  | setSp =>
    simp only [Txn.step, Txn.setSavepoint]
    split
    · exact h
    · split
      · exact h
      · exact ⟨h.keyed, h.bound, h.inc, h.nodup⟩
  | rbSp => exact wswf_rbSp t h
  | rollback => exact wswf_empty t true 0 0
  | commit okp =>
    simp only [Txn.step, Txn.commit]
    split
    · exact h
    · split
      · exact h
      · split
        · exact ⟨h.keyed, h.bound, h.inc, h.nodup⟩
        · split
          · exact wswf_empty t true t.writeSeqno t.savepoints
          · exact wswf_empty t t.closed t.writeSeqno t.savepoints
