import Skv.Lemmas.PipeLive
/-!
# Every effective step of the commit pipeline brings the calls in progress closer to their end (C17)

`measure` adds up, over the threads, how far each is from the end of its `commit()` call, plus twice
the queue length (a publisher that takes one more batch off the queue goes one place back in its own
loop).  Every step that changes the state — other than the overflow panic, which
`C17_queue_never_overflows` excludes — decreases it.
-/
open PState

def Pc.rank (n : Nat) : Pc → Nat
  | .ready => 0
  | .waiting _ => 1
  | .afterPublish _ _ => 2
  | .pubVisible .. => 3
  | .pubDequeued .. => 4
  | .afterMark .. => 5
  | .walFailed _ => 5
  | .afterApply .. => 6
  | .applying _ c j => 7 + (c - j)
  | .havePermit _ => 10 + n
  | .begun _ => 11 + n

def Thread.rank (t : Thread) : Nat := t.pc.rank t.req.keys.length

def msr (ths : List Thread) (qlen : Nat) : Nat := (ths.map Thread.rank).sum + 2 * qlen

def PState.measure (s : PState) : Nat := msr s.threads s.queue.length

theorem sum_map_set {α : Type} (f : α → Nat) : ∀ (l : List α) (i : Nat) (x old : α), l[i]? = some old →
    ((l.set i x).map f).sum + f old = (l.map f).sum + f x := by
  intro l
  induction l with
  | nil => intro i x old h; cases h
  | cons y ys ih =>
    intro i x old h
    cases i with
    | zero => simp at h; subst h; simp; omega
    | succ n =>
      simp at h
      have := ih n x old h
      simp only [List.set_cons_succ, List.map_cons, List.sum_cons]
      omega

theorem msr_set (ths : List Thread) (i : Nat) (t0 t' : Thread) (q q' : Nat) (h : ths[i]? = some t0) :
    msr (ths.set i t') q' + t0.rank + 2 * q = msr ths q + t'.rank + 2 * q' := by
  have := sum_map_set Thread.rank ths i t' t0 h
  unfold msr
  omega

theorem measure_of (s s' : PState) (i : Nat) (t0 t' : Thread) (h : s.threads[i]? = some t0)
    (hth : s'.threads = s.threads.set i t') :
    s'.measure + t0.rank + 2 * s.queue.length = s.measure + t'.rank + 2 * s'.queue.length := by
  unfold PState.measure
  rw [hth]
  exact msr_set s.threads i t0 t' _ _ h

theorem publishTop_measure (s : PState) (i : Nat) (t t0 : Thread) (f : Nat) (k : FK)
    (h : s.threads[i]? = some t0) : (s.publishTop i t f k).measure + t0.rank ≤ s.measure + 2 := by
  have hleave : (if (k == FK.wal) = true then s.finish i t CRes.errWal (some f)
      else s.setThread i { t with pc := .afterPublish f k }).measure + t0.rank ≤ s.measure + 2 := by
    split
    · have := measure_of s (s.finish i t CRes.errWal (some f)) i t0 _ h (finish_threads s i t _ _)
      simp only [finish_queue] at this
      simp only [Thread.rank, Pc.rank] at this ⊢
      omega
    · have := measure_of s (s.setThread i { t with pc := .afterPublish f k }) i t0 _ h rfl
      simp only [setThread_queue] at this
      simp only [Thread.rank, Pc.rank] at this ⊢
      omega
  unfold PState.publishTop
  cases hq : s.queue with
  | nil => simpa [hq] using hleave
  | cons b rest =>
    simp only
    split
    · have := measure_of s ({ (s.setThread i { t with pc := .pubDequeued b f k }) with queue := rest }) i t0
        { t with pc := .pubDequeued b f k } h rfl
      simp only [hq, List.length_cons] at this
      simp only [Thread.rank, Pc.rank] at this ⊢
      omega
    · simpa [hq] using hleave

theorem measure_lt_of (s s' : PState) (i : Nat) (t0 t' : Thread) (q' : Nat) (h : s.threads[i]? = some t0)
    (hth : s'.threads = s.threads.set i t') (hq : s'.queue.length = q')
    (hlt : t'.rank + 2 * q' < t0.rank + 2 * s.queue.length) : s'.measure < s.measure := by
  have := measure_of s s' i t0 t' h hth
  omega

/-- **every effective step decreases the measure** (the overflow panic aside) -/
theorem step_decreases (s : PState) (i : Nat) (hne : s.stepThread i ≠ s)
    (hnp : (s.stepThread i).panicked = false) : (s.stepThread i).measure < s.measure := by
  have hp : s.panicked = false := by
    cases hpp : s.panicked with
    | false => rfl
    | true => exact absurd (stepThread_panicked s i hpp) hne
  cases ht : s.threads[i]? with
  | none => exact absurd (stepThread_none s i ht) hne
  | some t =>
    rw [stepThread_eq s i t hp ht] at hne hnp ⊢
    obtain ⟨pc, req, results⟩ := t
    cases pc with
    | ready => exact absurd rfl hne
    | begun st =>
      simp only at hne hnp ⊢
      split
      · refine measure_lt_of s _ i _ { pc := .ready, req := req, results := .ok :: results } s.queue.length ht rfl rfl ?_
        simp only [Thread.rank, Pc.rank]; omega
      · split
        · refine measure_lt_of s _ i _ { pc := .havePermit st, req := req, results := results } s.queue.length ht rfl rfl ?_
          simp only [Thread.rank, Pc.rank]; omega
        · rename_i h1 h2
          simp only [h1, h2, if_false] at hne
          exact absurd rfl hne
    | havePermit st =>
      simp only at hne hnp ⊢
      split
      · refine measure_lt_of s _ i _ _ s.queue.length ht (finish_threads s i _ _ _) (by simp) ?_
        simp only [Thread.rank, Pc.rank]; omega
      · refine measure_lt_of s _ i _ _ s.queue.length ht (finish_threads s i _ _ _) (by simp) ?_
        simp only [Thread.rank, Pc.rank]; omega
      · rename_i hcheck
        rw [hcheck] at hnp
        simp only at hnp
        split
        · rename_i hcap
          simp only [hcap, if_true] at hnp
          cases hnp
        · split
          · refine measure_lt_of s _ i _ { pc := .walFailed s.logSeq, req := req, results := results }
              (s.queue.length + 1) ht (by simp) (by simp) ?_
            simp only [Thread.rank, Pc.rank]; omega
          · refine measure_lt_of s _ i _ { pc := .applying s.logSeq req.keys.length 0, req := req, results := results }
              (s.queue.length + 1) ht (by simp) (by simp) ?_
            simp only [Thread.rank, Pc.rank]; omega
    | applying f c j =>
      simp only at hne hnp ⊢
      split
      · refine measure_lt_of s _ i _ { pc := .afterApply f c true, req := req, results := results }
          s.queue.length ht (by simp) (by simp) ?_
        simp only [Thread.rank, Pc.rank]; omega
      · split
        · refine measure_lt_of s _ i _ { pc := .applying f c (j + 1), req := req, results := results }
            s.queue.length ht (by simp) (by simp) ?_
          simp only [Thread.rank, Pc.rank]; omega
        · refine measure_lt_of s _ i _ { pc := .afterApply f c false, req := req, results := results }
            s.queue.length ht (by simp) (by simp) ?_
          simp only [Thread.rank, Pc.rank]; omega
    | afterApply f c failed =>
      simp only at hne hnp ⊢
      refine measure_lt_of s _ i _ { pc := .afterMark f (if failed then .apply else .none), req := req, results := results }
        s.queue.length ht (by cases failed <;> simp) (by cases failed <;> simp) ?_
      simp only [Thread.rank, Pc.rank]; omega
    | afterMark f k =>
      simp only at hne hnp ⊢
      have := publishTop_measure s i { pc := .afterMark f k, req := req, results := results } _ f k ht
      simp only [Thread.rank, Pc.rank] at this
      omega
    | walFailed f =>
      simp only at hne hnp ⊢
      have := publishTop_measure s i { pc := .walFailed f, req := req, results := results } _ f .wal ht
      simp only [Thread.rank, Pc.rank] at this
      omega
    | pubDequeued b f k =>
      simp only at hne hnp ⊢
      refine measure_lt_of s _ i _ { pc := .pubVisible b f k, req := req, results := results }
        s.queue.length ht rfl rfl ?_
      simp only [Thread.rank, Pc.rank]; omega
    | pubVisible b f k =>
      simp only at hne hnp ⊢
      have := publishTop_measure ((s.complete b.first .ok).dropBatch b.first) i
        { pc := .pubVisible b f k, req := req, results := results } _ f k (by simpa using ht)
      have hm : ((s.complete b.first .ok).dropBatch b.first).measure = s.measure := by
        simp [PState.measure]
      simp only [Thread.rank, Pc.rank] at this
      omega
    | afterPublish f k =>
      simp only at hne hnp ⊢
      split
      · refine measure_lt_of s _ i _ _ s.queue.length ht (finish_threads s i _ _ _) (by simp) ?_
        simp only [Thread.rank, Pc.rank]; omega
      · split
        · refine measure_lt_of s _ i _ _ s.queue.length ht (finish_threads s i _ _ _) (by simp) ?_
          simp only [Thread.rank, Pc.rank]; omega
        · refine measure_lt_of s _ i _ { pc := .waiting f, req := req, results := results }
            s.queue.length ht rfl rfl ?_
          simp only [Thread.rank, Pc.rank]; omega
    | waiting f =>
      simp only at hne hnp ⊢
      split
      · refine measure_lt_of s _ i _ _ s.queue.length ht (finish_threads s i _ _ _) (by simp) ?_
        simp only [Thread.rank, Pc.rank]; omega
      · rename_i h1
        simp only [h1] at hne
        exact absurd rfl hne
