import Skv.Model.TxnIter

/-! refinement proof for the repaired TxnIter, order-theoretic formulation -/

/-- forward split of a strictly sorted list at frontier `X` -/
def FSplit (key : α → Nat) (xs : List α) (X : Nat) : Option (List α × α × List α) → Prop
  | none => ∀ a ∈ xs, key a < X
  | some (l, x, r) => xs = l.reverse ++ x :: r ∧ (∀ a ∈ l, key a < X) ∧ X ≤ key x

/-- backward split at the exclusive bound `Y`: current is the greatest element `< Y` -/
def BSplit (key : α → Nat) (xs : List α) (Y : Nat) : Option (List α × α × List α) → Prop
  | none => ∀ a ∈ xs, Y ≤ key a
  | some (l, x, r) => xs = l.reverse ++ x :: r ∧ (∀ a ∈ r, Y ≤ key a) ∧ key x < Y

def SortedBy (key : α → Nat) (xs : List α) : Prop := xs.Pairwise (fun a b => key a < key b)

theorem sorted_split {key : α → Nat} {xs : List α} {l : List α} {x : α} {r : List α}
    (hs : SortedBy key xs) (h : xs = l.reverse ++ x :: r) :
    (∀ a ∈ l, key a < key x) ∧ (∀ b ∈ r, key x < key b) ∧ SortedBy key r ∧ SortedBy key l.reverse := by
  subst h
  unfold SortedBy at hs ⊢
  rw [List.pairwise_append] at hs
  obtain ⟨h1, h2, h3⟩ := hs
  rw [List.pairwise_cons] at h2
  refine ⟨fun a ha => h3 a (by simpa using ha) x (by simp), h2.1, h2.2, h1⟩

/-- advancing past the current element keeps a forward split, at frontier `key x + 1` -/
theorem FSplit_next {key : α → Nat} {xs : List α} {X : Nat} {l : List α} {x : α} {r : List α}
    (hs : SortedBy key xs) (h : FSplit key xs X (some (l, x, r))) :
    FSplit key xs (key x + 1) ((Cur.next ⟨xs, some (l, x, r)⟩).pos) := by
  obtain ⟨hxs, hl, hx⟩ := h
  obtain ⟨h1, h2, _, _⟩ := sorted_split hs hxs
  cases r with
  | nil =>
    simp only [Cur.next, FSplit]
    intro a ha
    rw [hxs] at ha
    simp at ha
    rcases ha with ha | ha
    · have := h1 a ha; omega
    · subst ha; omega
  | cons y r' =>
    simp only [Cur.next, FSplit]
    refine ⟨by rw [hxs]; simp, ?_, ?_⟩
    · intro a ha
      simp at ha
      rcases ha with ha | ha
      · subst ha; omega
      · have := h1 a ha; omega
    · have := h2 y (by simp); omega

/-- raising the frontier up to the current key keeps the split -/
theorem FSplit_mono {key : α → Nat} {xs : List α} {X X' : Nat} {l : List α} {x : α} {r : List α}
    (h : FSplit key xs X (some (l, x, r))) (h1 : X ≤ X') (h2 : X' ≤ key x) :
    FSplit key xs X' (some (l, x, r)) := by
  obtain ⟨hxs, hl, hx⟩ := h
  exact ⟨hxs, fun a ha => Nat.lt_of_lt_of_le (hl a ha) h1, h2⟩

theorem FSplit_none_mono {key : α → Nat} {xs : List α} {X X' : Nat}
    (h : FSplit key xs X none) (h1 : X ≤ X') : FSplit key xs X' none :=
  fun a ha => Nat.lt_of_lt_of_le (h a ha) h1

/-- key `k` is live in the overlay of write set `W` on snapshot keys `S` -/
def Live (S : List Nat) (W : List (Nat × Bool)) (k : Nat) : Prop :=
  (k ∈ S ∧ ∀ e ∈ W, e.1 ≠ k) ∨ (k, false) ∈ W

def LeastGE (S : List Nat) (W : List (Nat × Bool)) (X : Nat) : Option Nat → Prop
  | none => ∀ k, Live S W k → k < X
  | some K => Live S W K ∧ X ≤ K ∧ ∀ k, Live S W k → X ≤ k → K ≤ k

/-- remaining write-set entries at or after the cursor -/
def wsRemaining (c : Cur (Nat × Bool)) : Nat :=
  match c.pos with
  | none => 0
  | some (_, _, r) => r.length + 1

structure FwdState (S : List Nat) (W : List (Nat × Bool)) (t : TI) (K : Nat) : Prop where
  sxs : t.snap.xs = S
  wxs : t.ws.xs = W
  dir : t.dir = .fwd
  ssplit : FSplit id S K t.snap.pos
  wsplit : FSplit Prod.fst W K t.ws.pos
  key : t.key = some K
  curSnap : t.cur = .snap → t.snap.cur? = some K ∧ t.eq = false
  curWs : t.cur = .ws → (∃ v, t.ws.cur? = some (K, v)) ∧ (t.eq = true ↔ t.snap.cur? = some K)
  wsAhead : t.cur = .snap → ∀ e, t.ws.cur? = some e → K < e.1
  curSome : t.cur ≠ .none

theorem mem_of_split {xs : List α} {l : List α} {x : α} {r : List α} (h : xs = l.reverse ++ x :: r) : x ∈ xs := by
  subst h; simp

/-- entries of a sorted write set have distinct keys -/
theorem sorted_key_unique {W : List (Nat × Bool)} (hs : SortedBy Prod.fst W) {a b : Nat × Bool}
    (ha : a ∈ W) (hb : b ∈ W) (h : a.1 = b.1) : a = b := by
  unfold SortedBy at hs
  induction W with
  | nil => cases ha
  | cons w ws ih =>
    rw [List.pairwise_cons] at hs
    rcases List.mem_cons.mp ha with rfl | ha' <;> rcases List.mem_cons.mp hb with rfl | hb'
    · rfl
    · have := hs.1 b hb'; omega
    · have := hs.1 a ha'; omega
    · exact ih hs.2 ha' hb'


/-- if no key in `[X, X')` is live, least-≥ answers at `X'` are answers at `X` -/
theorem LeastGE_shift {S W} {X X' : Nat} {r : Option Nat} (hle : X ≤ X')
    (hgap : ∀ k, Live S W k → X ≤ k → X' ≤ k) (h : LeastGE S W X' r) : LeastGE S W X r := by
  cases r with
  | none =>
    intro k hk
    have := h k hk
    by_cases hx : X ≤ k
    · have := hgap k hk hx; omega
    · omega
  | some K =>
    obtain ⟨h1, h2, h3⟩ := h
    exact ⟨h1, by omega, fun k hk hx => h3 k hk (hgap k hk hx)⟩

/-- a member of a forward-split list that is ≥ the frontier is the current element or lies after it -/
theorem mem_split_ge {key : α → Nat} {xs : List α} {X : Nat} {l : List α} {x : α} {r : List α}
    (h : FSplit key xs X (some (l, x, r))) {a : α} (ha : a ∈ xs) (hx : X ≤ key a) : a = x ∨ a ∈ r := by
  obtain ⟨hxs, hl, _⟩ := h
  rw [hxs] at ha
  simp at ha
  rcases ha with ha | ha | ha
  · have := hl a ha; omega
  · exact Or.inl ha
  · exact Or.inr ha

theorem posMin_spec (S : List Nat) (W : List (Nat × Bool)) (hS : SortedBy id S) (hW : SortedBy Prod.fst W)
    (fuel : Nat) : ∀ (t : TI) (X : Nat),
    t.snap.xs = S → t.ws.xs = W → t.dir = .fwd →
    FSplit id S X t.snap.pos → FSplit Prod.fst W X t.ws.pos →
    wsRemaining t.ws < fuel →
    (∃ K, FwdState S W (TI.posMin fuel t) K ∧ LeastGE S W X (some K)) ∨
    ((TI.posMin fuel t).cur = .none ∧ LeastGE S W X none) := by
  induction fuel with
  | zero => intro t X _ _ _ _ _ h; omega
  | succ f ih =>
    intro t X hsx hwx hdir hss hws hfuel
    obtain ⟨snap, ws, eq, cur, dir⟩ := t
    obtain ⟨sxs, spos⟩ := snap
    obtain ⟨wxs, wpos⟩ := ws
    simp only at hsx hwx hdir hss hws hfuel
    subst hsx hwx hdir
    cases spos with
    | none =>
      cases wpos with
      | none =>
        right
        refine ⟨by simp [TI.posMin, Cur.valid], ?_⟩
        intro k hk
        rcases hk with ⟨hk, _⟩ | hk
        · exact hss k hk
        · exact hws (k, false) hk
      | some wz =>
        obtain ⟨wl, ⟨wk, tb⟩, wr⟩ := wz
        obtain ⟨hwxs, hwl, hwx⟩ := hws
        obtain ⟨hw1, hw2, _, _⟩ := sorted_split hW hwxs
        simp only at hwx hw1 hw2
        cases tb with
        | true =>
          -- tombstone with nothing on the snapshot side: skip it
          have hstep : TI.posMin (f + 1) ⟨⟨sxs, none⟩, ⟨wxs, some (wl, (wk, true), wr)⟩, eq, cur, .fwd⟩ =
              TI.posMin f ⟨⟨sxs, none⟩, Cur.next ⟨wxs, some (wl, (wk, true), wr)⟩, eq, cur, .fwd⟩ := by
            simp [TI.posMin, Cur.valid, TI.wsTomb, Cur.cur?]
          rw [hstep]
          have hnext := FSplit_next hW (show FSplit Prod.fst wxs X (some (wl, (wk, true), wr)) from ⟨hwxs, hwl, hwx⟩)
          have hrem : wsRemaining (Cur.next ⟨wxs, some (wl, (wk, true), wr)⟩) < f := by
            simp only [wsRemaining] at hfuel
            cases wr with
            | nil => simp [Cur.next, wsRemaining]; omega
            | cons y r' => simp [Cur.next, wsRemaining] at hfuel ⊢; omega
          have hres := ih ⟨⟨sxs, none⟩, Cur.next ⟨wxs, some (wl, (wk, true), wr)⟩, eq, cur, .fwd⟩ (wk + 1)
            rfl (by cases wr <;> rfl) rfl (FSplit_none_mono hss (by omega)) hnext hrem
          have hgap : ∀ k, Live sxs wxs k → X ≤ k → wk + 1 ≤ k := by
            intro k hk hx
            rcases hk with ⟨hk, _⟩ | hk
            · have : k < X := hss k hk
              omega
            · rcases mem_split_ge (key := Prod.fst) ⟨hwxs, hwl, hwx⟩ hk hx with h | h
              · cases h
              · have : wk < k := hw2 (k, false) h
                omega
          rcases hres with ⟨K, hK, hL⟩ | ⟨hc, hL⟩
          · exact Or.inl ⟨K, hK, LeastGE_shift (by omega) hgap hL⟩
          · exact Or.inr ⟨hc, LeastGE_shift (by omega) hgap hL⟩
        | false =>
          left
          refine ⟨wk, ?_, ?_⟩
          · have hst : TI.posMin (f + 1) ⟨⟨sxs, none⟩, ⟨wxs, some (wl, (wk, false), wr)⟩, eq, cur, .fwd⟩ =
                ⟨⟨sxs, none⟩, ⟨wxs, some (wl, (wk, false), wr)⟩, false, .ws, .fwd⟩ := by
              simp [TI.posMin, Cur.valid, TI.wsTomb, Cur.cur?]
            rw [hst]
            exact {
              sxs := rfl, wxs := rfl, dir := rfl
              ssplit := FSplit_none_mono hss hwx
              wsplit := ⟨hwxs, fun a ha => hw1 a ha, Nat.le_refl _⟩
              key := by simp [TI.key, Cur.cur?]
              curSnap := by intro h; cases h
              curWs := by
                intro _
                exact ⟨⟨false, by simp [Cur.cur?]⟩, by simp [Cur.cur?]⟩
              wsAhead := by intro h; cases h
              curSome := by simp }
          · refine ⟨Or.inr (mem_of_split hwxs), hwx, ?_⟩
            intro k hk hx
            rcases hk with ⟨hk, _⟩ | hk
            · have : k < X := hss k hk
              omega
            · rcases mem_split_ge (key := Prod.fst) ⟨hwxs, hwl, hwx⟩ hk hx with h | h
              · cases h; exact Nat.le_refl _
              · have : wk < k := hw2 (k, false) h
                omega
    | some sz =>
      obtain ⟨sl, sk, sr⟩ := sz
      obtain ⟨hsxs, hsl, hsx⟩ := hss
      obtain ⟨hs1, hs2, _, _⟩ := sorted_split hS hsxs
      simp only [id] at hsx hs1 hs2 hsl
      have hsmem : sk ∈ sxs := mem_of_split hsxs
      have hSge : ∀ k, k ∈ sxs → X ≤ k → sk ≤ k := by
        intro k hk hx
        rcases mem_split_ge (key := id) ⟨hsxs, hsl, hsx⟩ hk hx with h | h
        · omega
        · have := hs2 k h; omega
      cases wpos with
      | none =>
        left
        refine ⟨sk, ?_, ?_⟩
        · have hst : TI.posMin (f + 1) ⟨⟨sxs, some (sl, sk, sr)⟩, ⟨wxs, none⟩, eq, cur, .fwd⟩ =
              ⟨⟨sxs, some (sl, sk, sr)⟩, ⟨wxs, none⟩, false, .snap, .fwd⟩ := by
            simp [TI.posMin, Cur.valid]
          rw [hst]
          exact {
            sxs := rfl, wxs := rfl, dir := rfl
            ssplit := ⟨hsxs, fun a ha => hs1 a ha, Nat.le_refl _⟩
            wsplit := FSplit_none_mono hws hsx
            key := by simp [TI.key, Cur.cur?]
            curSnap := by intro _; simp [Cur.cur?]
            curWs := by intro h; cases h
            wsAhead := by intro _ e he; simp [Cur.cur?] at he
            curSome := by simp }
        · refine ⟨Or.inl ⟨hsmem, ?_⟩, hsx, ?_⟩
          · intro e he heq
            have : e.1 < X := hws e he
            omega
          · intro k hk hx
            rcases hk with ⟨hk, _⟩ | hk
            · exact hSge k hk hx
            · have : k < X := hws (k, false) hk
              omega
      | some wz =>
        obtain ⟨wl, ⟨wk, tb⟩, wr⟩ := wz
        obtain ⟨hwxs, hwl, hwx⟩ := hws
        obtain ⟨hw1, hw2, _, _⟩ := sorted_split hW hwxs
        simp only at hwx hw1 hw2
        have hwmem : (wk, tb) ∈ wxs := mem_of_split hwxs
        have hWge : ∀ e, e ∈ wxs → X ≤ e.1 → e = (wk, tb) ∨ wk < e.1 := by
          intro e he hx
          rcases mem_split_ge (key := Prod.fst) ⟨hwxs, hwl, hwx⟩ he hx with h | h
          · exact Or.inl h
          · exact Or.inr (hw2 e h)
        by_cases hlt : sk < wk
        · -- snapshot key first
          left
          refine ⟨sk, ?_, ?_⟩
          · have hst : TI.posMin (f + 1) ⟨⟨sxs, some (sl, sk, sr)⟩, ⟨wxs, some (wl, (wk, tb), wr)⟩, eq, cur, .fwd⟩ =
                ⟨⟨sxs, some (sl, sk, sr)⟩, ⟨wxs, some (wl, (wk, tb), wr)⟩, false, .snap, .fwd⟩ := by
              simp [TI.posMin, Cur.valid, TI.snapKey, TI.wsKey, Cur.cur?, hlt]
            rw [hst]
            exact {
              sxs := rfl, wxs := rfl, dir := rfl
              ssplit := ⟨hsxs, fun a ha => hs1 a ha, Nat.le_refl _⟩
              wsplit := ⟨hwxs, fun a ha => Nat.lt_of_lt_of_le (hwl a ha) hsx, by simp; omega⟩
              key := by simp [TI.key, Cur.cur?]
              curSnap := by intro _; simp [Cur.cur?]
              curWs := by intro h; cases h
              wsAhead := by intro _ e he; simp [Cur.cur?] at he; subst he; simp only; omega
              curSome := by simp }
          · refine ⟨Or.inl ⟨hsmem, ?_⟩, hsx, ?_⟩
            · intro e he heq
              by_cases hx : X ≤ e.1
              · rcases hWge e he hx with h | h
                · subst h; simp at heq; omega
                · omega
              · omega
            · intro k hk hx
              rcases hk with ⟨hk, _⟩ | hk
              · exact hSge k hk hx
              · rcases hWge (k, false) hk hx with h | h
                · cases h; omega
                · simp at h; omega
        · by_cases hgt : sk > wk
          · cases tb with
            | true =>
              have hstep : TI.posMin (f + 1) ⟨⟨sxs, some (sl, sk, sr)⟩, ⟨wxs, some (wl, (wk, true), wr)⟩, eq, cur, .fwd⟩ =
                  TI.posMin f ⟨⟨sxs, some (sl, sk, sr)⟩, Cur.next ⟨wxs, some (wl, (wk, true), wr)⟩, eq, cur, .fwd⟩ := by
                simp [TI.posMin, Cur.valid, TI.snapKey, TI.wsKey, TI.wsTomb, Cur.cur?, hlt, hgt]
              rw [hstep]
              have hnext := FSplit_next hW (show FSplit Prod.fst wxs X (some (wl, (wk, true), wr)) from ⟨hwxs, hwl, hwx⟩)
              have hrem : wsRemaining (Cur.next ⟨wxs, some (wl, (wk, true), wr)⟩) < f := by
                simp only [wsRemaining] at hfuel
                cases wr with
                | nil => simp [Cur.next, wsRemaining]; omega
                | cons y r' => simp [Cur.next, wsRemaining] at hfuel ⊢; omega
              have hres := ih ⟨⟨sxs, some (sl, sk, sr)⟩, Cur.next ⟨wxs, some (wl, (wk, true), wr)⟩, eq, cur, .fwd⟩ (wk + 1)
                rfl (by cases wr <;> rfl) rfl ⟨hsxs, fun a ha => by have := hsl a ha; simp only [id]; omega, by simp only [id]; omega⟩ hnext hrem
              have hgap : ∀ k, Live sxs wxs k → X ≤ k → wk + 1 ≤ k := by
                intro k hk hx
                rcases hk with ⟨hk, _⟩ | hk
                · have := hSge k hk hx; omega
                · rcases hWge (k, false) hk hx with h | h
                  · cases h
                  · simp at h; omega
              rcases hres with ⟨K, hK, hL⟩ | ⟨hc, hL⟩
              · exact Or.inl ⟨K, hK, LeastGE_shift (by omega) hgap hL⟩
              · exact Or.inr ⟨hc, LeastGE_shift (by omega) hgap hL⟩
            | false =>
              left
              refine ⟨wk, ?_, ?_⟩
              · have hst : TI.posMin (f + 1) ⟨⟨sxs, some (sl, sk, sr)⟩, ⟨wxs, some (wl, (wk, false), wr)⟩, eq, cur, .fwd⟩ =
                    ⟨⟨sxs, some (sl, sk, sr)⟩, ⟨wxs, some (wl, (wk, false), wr)⟩, false, .ws, .fwd⟩ := by
                  simp [TI.posMin, Cur.valid, TI.snapKey, TI.wsKey, TI.wsTomb, Cur.cur?, hlt, hgt]
                rw [hst]
                exact {
                  sxs := rfl, wxs := rfl, dir := rfl
                  ssplit := ⟨hsxs, fun a ha => by have := hsl a ha; simp only [id]; omega, by simp only [id]; omega⟩
                  wsplit := ⟨hwxs, fun a ha => hw1 a ha, Nat.le_refl _⟩
                  key := by simp [TI.key, Cur.cur?]
                  curSnap := by intro h; cases h
                  curWs := by
                    intro _
                    refine ⟨⟨false, by simp [Cur.cur?]⟩, ?_⟩
                    simp [Cur.cur?]; omega
                  wsAhead := by intro h; cases h
                  curSome := by simp }
              · refine ⟨Or.inr hwmem, hwx, ?_⟩
                intro k hk hx
                rcases hk with ⟨hk, _⟩ | hk
                · have := hSge k hk hx; omega
                · rcases hWge (k, false) hk hx with h | h
                  · cases h; exact Nat.le_refl _
                  · simp at h; omega
          · -- equal keys
            have heq : sk = wk := by omega
            subst heq
            cases tb with
            | true =>
              have hstep : TI.posMin (f + 1) ⟨⟨sxs, some (sl, sk, sr)⟩, ⟨wxs, some (wl, (sk, true), wr)⟩, eq, cur, .fwd⟩ =
                  TI.posMin f ⟨Cur.next ⟨sxs, some (sl, sk, sr)⟩, Cur.next ⟨wxs, some (wl, (sk, true), wr)⟩, eq, cur, .fwd⟩ := by
                simp [TI.posMin, Cur.valid, TI.snapKey, TI.wsKey, TI.wsTomb, Cur.cur?]
              rw [hstep]
              have hnextW := FSplit_next hW (show FSplit Prod.fst wxs X (some (wl, (sk, true), wr)) from ⟨hwxs, hwl, hwx⟩)
              have hnextS := FSplit_next hS (show FSplit id sxs X (some (sl, sk, sr)) from ⟨hsxs, hsl, hsx⟩)
              have hrem : wsRemaining (Cur.next ⟨wxs, some (wl, (sk, true), wr)⟩) < f := by
                simp only [wsRemaining] at hfuel
                cases wr with
                | nil => simp [Cur.next, wsRemaining]; omega
                | cons y r' => simp [Cur.next, wsRemaining] at hfuel ⊢; omega
              have hres := ih ⟨Cur.next ⟨sxs, some (sl, sk, sr)⟩, Cur.next ⟨wxs, some (wl, (sk, true), wr)⟩, eq, cur, .fwd⟩ (sk + 1)
                (by cases sr <;> rfl) (by cases wr <;> rfl) rfl hnextS hnextW hrem
              have hgap : ∀ k, Live sxs wxs k → X ≤ k → sk + 1 ≤ k := by
                intro k hk hx
                rcases hk with ⟨hk, hnw⟩ | hk
                · have h1 := hSge k hk hx
                  have h2 : k ≠ sk := fun h => hnw (sk, true) hwmem (by simp [h])
                  omega
                · rcases hWge (k, false) hk hx with h | h
                  · cases h
                  · simp at h; omega
              rcases hres with ⟨K, hK, hL⟩ | ⟨hc, hL⟩
              · exact Or.inl ⟨K, hK, LeastGE_shift (by omega) hgap hL⟩
              · exact Or.inr ⟨hc, LeastGE_shift (by omega) hgap hL⟩
            | false =>
              left
              refine ⟨sk, ?_, ?_⟩
              · have hst : TI.posMin (f + 1) ⟨⟨sxs, some (sl, sk, sr)⟩, ⟨wxs, some (wl, (sk, false), wr)⟩, eq, cur, .fwd⟩ =
                    ⟨⟨sxs, some (sl, sk, sr)⟩, ⟨wxs, some (wl, (sk, false), wr)⟩, true, .ws, .fwd⟩ := by
                  simp [TI.posMin, Cur.valid, TI.snapKey, TI.wsKey, TI.wsTomb, Cur.cur?]
                rw [hst]
                exact {
                  sxs := rfl, wxs := rfl, dir := rfl
                  ssplit := ⟨hsxs, fun a ha => hs1 a ha, Nat.le_refl _⟩
                  wsplit := ⟨hwxs, fun a ha => hw1 a ha, Nat.le_refl _⟩
                  key := by simp [TI.key, Cur.cur?]
                  curSnap := by intro h; cases h
                  curWs := by
                    intro _
                    exact ⟨⟨false, by simp [Cur.cur?]⟩, by simp [Cur.cur?]⟩
                  wsAhead := by intro h; cases h
                  curSome := by simp }
              · refine ⟨Or.inr hwmem, hwx, ?_⟩
                intro k hk hx
                rcases hk with ⟨hk, _⟩ | hk
                · exact hSge k hk hx
                · rcases hWge (k, false) hk hx with h | h
                  · cases h; exact Nat.le_refl _
                  · simp at h; omega
