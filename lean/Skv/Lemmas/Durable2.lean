import Skv.Model.Durable2
import Skv.Lemmas.Durable

def D2.mems (d : D2) : List Mem := d.imms ++ [d.memActive]

structure Inv2 (d : D2) : Prop where
  actWal : d.memActive.wal = d.active
  actSeg : ∃ r, (d.active, r) ∈ d.segs
  segLe : ∀ s ∈ d.segs, s.1 ≤ d.active
  immLt : ∀ m ∈ d.imms, m.wal < d.active
  immSorted : (d.imms.map (·.wal)).Pairwise (· < ·)
  logLe : d.logNumber ≤ d.active ∧ ∀ m ∈ d.imms, d.logNumber ≤ m.wal
  memLogged : ∀ m ∈ d.mems, ∀ b ∈ m.batches, ∃ s ∈ d.segs, s.1 = m.wal ∧ b ∈ s.2
  ackedSomewhere : ∀ b ∈ d.acked, b ∈ d.tables ∨ ∃ m ∈ d.mems, b ∈ m.batches
  pendLogged : ∀ b, d.pending = some b → d.pendSeg ≤ d.active ∧
    (d.pendSeg = d.active → ∃ s ∈ d.segs, s.1 = d.active ∧ b ∈ s.2)
  written : (∀ s ∈ d.segs, ∀ b ∈ s.2, b < d.next) ∧ (∀ b ∈ d.tables, b < d.next) ∧
    (∀ m ∈ d.mems, ∀ b ∈ m.batches, b < d.next) ∧ (∀ b, d.pending = some b → b < d.next)
  ackedOrPending : ∀ b, b < d.next → b ∈ d.acked ∨ d.pending = some b

theorem inv2_init : Inv2 {} := by
  refine ⟨rfl, ⟨[], by simp⟩, ?_, ?_, by simp, ⟨Nat.le_refl _, by intro m hm; cases hm⟩, ?_, ?_, ?_, ?_, ?_⟩
  · intro s hs
    have : s = (0, []) := by simpa using hs
    subst this; exact Nat.le_refl _
  · intro m hm; cases hm
  · intro m hm b hb
    have : m = ⟨0, []⟩ := by simpa [D2.mems] using hm
    subst this; cases hb
  · intro b hb; cases hb
  · intro b hb; cases hb
  · refine ⟨?_, ?_, ?_, ?_⟩
    · intro s hs b hb
      have : s = (0, []) := by simpa using hs
      subst this; cases hb
    · intro b hb; cases hb
    · intro m hm b hb
      have : m = ⟨0, []⟩ := by simpa [D2.mems] using hm
      subst this; cases hb
    · intro b hb; cases hb
  · intro b hb; exact absurd hb (Nat.not_lt_zero _)

/-- appending to a segment keeps every record where it was -/
theorem appendSeg_keeps (segs : List (Nat × List Nat)) (id b : Nat) (s : Nat × List Nat) (hs : s ∈ segs)
    (x : Nat) (hx : x ∈ s.2) : ∃ s' ∈ appendSeg segs id b, s'.1 = s.1 ∧ x ∈ s'.2 := by
  refine ⟨_, appendSeg_of_mem segs id b s hs, rfl, ?_⟩
  simp only
  split
  · exact List.mem_append_left _ hx
  · exact hx

theorem appendSeg_adds (segs : List (Nat × List Nat)) (id b : Nat) (r : List Nat) (hs : (id, r) ∈ segs) :
    ∃ s' ∈ appendSeg segs id b, s'.1 = id ∧ b ∈ s'.2 := by
  refine ⟨_, appendSeg_of_mem segs id b (id, r) hs, rfl, ?_⟩
  simp

theorem appendSeg_ids (segs : List (Nat × List Nat)) (id b : Nat) (s : Nat × List Nat)
    (hs : s ∈ appendSeg segs id b) : ∃ s0 ∈ segs, s.1 = s0.1 ∧ ∀ x ∈ s.2, x ∈ s0.2 ∨ x = b := by
  obtain ⟨s0, hs0, e, hc⟩ := mem_appendSeg segs id b s hs
  refine ⟨s0, hs0, e, ?_⟩
  intro x hx
  rcases hc with ⟨_, e2⟩ | ⟨_, e2⟩
  · rw [e2] at hx
    rcases List.mem_append.mp hx with h | h
    · exact Or.inl h
    · exact Or.inr (by simpa using h)
  · rw [e2] at hx; exact Or.inl hx

theorem inv2_step (d : D2) (h : Inv2 d) (op : DOp) : Inv2 (d.step op) := by
  obtain ⟨h1, h2, h3, h4, h5, h6, h7, h8, h9, h10, h11⟩ := h
  cases op with
  | walAppend =>
    simp only [D2.step]
    cases hp : d.pending with
    | some b => simp only; exact ⟨h1, h2, h3, h4, h5, h6, h7, h8, h9, h10, h11⟩
    | none =>
      simp only
      obtain ⟨r, hr⟩ := h2
      refine ⟨h1, ?_, ?_, h4, h5, h6, ?_, h8, ?_, ?_, ?_⟩
      · exact ⟨_, appendSeg_of_mem d.segs d.active d.next (d.active, r) hr⟩
      · intro s hs
        obtain ⟨s0, hs0, e, _⟩ := appendSeg_ids _ _ _ s hs
        rw [e]; exact h3 s0 hs0
      · intro m hm b hb
        obtain ⟨s, hs, e, hbs⟩ := h7 m hm b hb
        obtain ⟨s', hs', e', hb'⟩ := appendSeg_keeps d.segs d.active d.next s hs b hbs
        exact ⟨s', hs', by rw [e', e], hb'⟩
      · intro b hb
        have : b = d.next := by injection hb with hb; exact hb.symm
        subst this
        refine ⟨Nat.le_refl _, fun _ => ?_⟩
        obtain ⟨s', hs', e', hb'⟩ := appendSeg_adds d.segs d.active d.next r hr
        exact ⟨s', hs', e', hb'⟩
      · refine ⟨?_, fun b hb => Nat.lt_succ_of_lt (h10.2.1 b hb),
                fun m hm b hb => Nat.lt_succ_of_lt (h10.2.2.1 m hm b hb), ?_⟩
        · intro s hs b hb
          obtain ⟨s0, hs0, _, hc⟩ := appendSeg_ids _ _ _ s hs
          show b < d.next + 1
          rcases hc b hb with h | h
          · exact Nat.lt_succ_of_lt (h10.1 s0 hs0 b h)
          · omega
        · intro b hb
          show b < d.next + 1
          have : b = d.next := by injection hb with hb; exact hb.symm
          omega
      · intro b hb
        have hb : b < d.next + 1 := hb
        by_cases hbn : b = d.next
        · right; rw [hbn]
        · rcases h11 b (by omega) with h | h
          · exact Or.inl h
          · rw [hp] at h; cases h
  | applyAck =>
    simp only [D2.step]
    cases hp : d.pending with
    | none => simp only; exact ⟨h1, h2, h3, h4, h5, h6, h7, h8, h9, h10, h11⟩
    | some b0 =>
      simp only
      obtain ⟨r, hr⟩ := h2
      obtain ⟨hple, hpeq⟩ := h9 b0 hp
      -- the segments after the (possible) second logging
      have hkeep : ∀ s ∈ d.segs, ∀ x ∈ s.2, ∃ s' ∈ (if d.pendSeg < d.memActive.wal then appendSeg d.segs d.active b0 else d.segs),
          s'.1 = s.1 ∧ x ∈ s'.2 := by
        intro s hs x hx
        split
        · exact appendSeg_keeps d.segs d.active b0 s hs x hx
        · exact ⟨s, hs, rfl, hx⟩
      have hb0 : ∃ s' ∈ (if d.pendSeg < d.memActive.wal then appendSeg d.segs d.active b0 else d.segs),
          s'.1 = d.active ∧ b0 ∈ s'.2 := by
        split
        · exact appendSeg_adds d.segs d.active b0 r hr
        · rename_i hnl
          have : d.pendSeg = d.active := by rw [h1] at hnl; omega
          exact hpeq this
      have hids : ∀ s ∈ (if d.pendSeg < d.memActive.wal then appendSeg d.segs d.active b0 else d.segs),
          ∃ s0 ∈ d.segs, s.1 = s0.1 ∧ ∀ x ∈ s.2, x ∈ s0.2 ∨ x = b0 := by
        intro s hs
        split at hs
        · exact appendSeg_ids _ _ _ s hs
        · exact ⟨s, hs, rfl, fun x hx => Or.inl hx⟩
      refine ⟨h1, ?_, ?_, h4, h5, h6, ?_, ?_, ?_, ?_, ?_⟩
      · split
        · exact ⟨_, appendSeg_of_mem d.segs d.active b0 (d.active, r) hr⟩
        · exact ⟨r, hr⟩
      · intro s hs
        obtain ⟨s0, hs0, e, _⟩ := hids s hs
        rw [e]; exact h3 s0 hs0
      · intro m hm b hb
        have hm : m ∈ d.imms ++ [{ d.memActive with batches := d.memActive.batches ++ [b0] }] := hm
        rcases List.mem_append.mp hm with hmi | hma
        · obtain ⟨s, hs, e, hbs⟩ := h7 m (List.mem_append_left _ hmi) b hb
          obtain ⟨s', hs', e', hb'⟩ := hkeep s hs b hbs
          exact ⟨s', hs', by rw [e', e], hb'⟩
        · have : m = { d.memActive with batches := d.memActive.batches ++ [b0] } := by simpa using hma
          subst this
          rcases List.mem_append.mp hb with hb | hb
          · obtain ⟨s, hs, e, hbs⟩ := h7 d.memActive (List.mem_append_right _ (List.mem_singleton.mpr rfl)) b hb
            obtain ⟨s', hs', e', hb'⟩ := hkeep s hs b hbs
            exact ⟨s', hs', by rw [e', e], hb'⟩
          · have : b = b0 := by simpa using hb
            subst this
            obtain ⟨s', hs', e', hb'⟩ := hb0
            exact ⟨s', hs', by rw [e']; exact h1.symm, hb'⟩
      · intro b hb
        rcases List.mem_append.mp hb with hb | hb
        · rcases h8 b hb with h | ⟨m, hm, hbm⟩
          · exact Or.inl h
          · right
            rcases List.mem_append.mp hm with hmi | hma
            · exact ⟨m, List.mem_append_left _ hmi, hbm⟩
            · have : m = d.memActive := by simpa using hma
              subst this
              exact ⟨_, List.mem_append_right _ (List.mem_singleton.mpr rfl), List.mem_append_left _ hbm⟩
        · have : b = b0 := by simpa using hb
          subst this
          exact Or.inr ⟨_, List.mem_append_right _ (List.mem_singleton.mpr rfl), by simp⟩
      · intro b hb; cases hb
      · refine ⟨?_, h10.2.1, ?_, by intro b hb; cases hb⟩
        · intro s hs b hb
          obtain ⟨s0, hs0, _, hc⟩ := hids s hs
          rcases hc b hb with h | h
          · exact h10.1 s0 hs0 b h
          · subst h; exact h10.2.2.2 b hp
        · intro m hm b hb
          have hm : m ∈ d.imms ++ [{ d.memActive with batches := d.memActive.batches ++ [b0] }] := hm
          rcases List.mem_append.mp hm with hmi | hma
          · exact h10.2.2.1 m (List.mem_append_left _ hmi) b hb
          · have : m = { d.memActive with batches := d.memActive.batches ++ [b0] } := by simpa using hma
            subst this
            rcases List.mem_append.mp hb with hb | hb
            · exact h10.2.2.1 d.memActive (List.mem_append_right _ (List.mem_singleton.mpr rfl)) b hb
            · have : b = b0 := by simpa using hb
              subst this; exact h10.2.2.2 b hp
      · intro b hb
        rcases h11 b hb with h | h
        · exact Or.inl (List.mem_append_left _ h)
        · rw [hp] at h; injection h with h; subst h; exact Or.inl (by simp)
  | rotate =>
    simp only [D2.step]
    refine ⟨rfl, ⟨[], by simp⟩, ?_, ?_, ?_, ?_, ?_, ?_, ?_, ?_, h11⟩
    · intro s hs
      rcases List.mem_append.mp hs with hs | hs
      · exact Nat.le_succ_of_le (h3 s hs)
      · have : s = (d.active + 1, []) := by simpa using hs
        subst this; exact Nat.le_refl _
    · intro m hm
      rcases List.mem_append.mp hm with hm | hm
      · exact Nat.lt_succ_of_lt (h4 m hm)
      · have : m = d.memActive := by simpa using hm
        subst this; rw [h1]; exact Nat.lt_succ_self _
    · rw [List.map_append, List.pairwise_append]
      refine ⟨h5, by simp, ?_⟩
      intro a ha b hb
      have : b = d.memActive.wal := by simpa using hb
      subst this
      obtain ⟨m, hm, rfl⟩ := List.mem_map.mp ha
      rw [h1]; exact h4 m hm
    · refine ⟨Nat.le_succ_of_le h6.1, ?_⟩
      intro m hm
      rcases List.mem_append.mp hm with hm | hm
      · exact h6.2 m hm
      · have : m = d.memActive := by simpa using hm
        subst this; rw [h1]; exact h6.1
    · intro m hm b hb
      have hm : m ∈ (d.imms ++ [d.memActive]) ++ [⟨d.active + 1, []⟩] := hm
      rcases List.mem_append.mp hm with hm | hm
      · obtain ⟨s, hs, e, hbs⟩ := h7 m hm b hb
        exact ⟨s, List.mem_append_left _ hs, e, hbs⟩
      · have : m = ⟨d.active + 1, []⟩ := by simpa using hm
        subst this; cases hb
    · intro b hb
      rcases h8 b hb with h | ⟨m, hm, hbm⟩
      · exact Or.inl h
      · right
        refine ⟨m, ?_, hbm⟩
        show m ∈ (d.imms ++ [d.memActive]) ++ [_]
        exact List.mem_append_left _ hm
    · intro b hb
      obtain ⟨hle, _⟩ := h9 b hb
      refine ⟨Nat.le_succ_of_le hle, fun he => ?_⟩
      have he : d.pendSeg = d.active + 1 := he
      omega
    · refine ⟨?_, h10.2.1, ?_, h10.2.2.2⟩
      · intro s hs b hb
        rcases List.mem_append.mp hs with hs | hs
        · exact h10.1 s hs b hb
        · have : s = (d.active + 1, []) := by simpa using hs
          subst this; cases hb
      · intro m hm b hb
        have hm : m ∈ (d.imms ++ [d.memActive]) ++ [⟨d.active + 1, []⟩] := hm
        rcases List.mem_append.mp hm with hm | hm
        · exact h10.2.2.1 m hm b hb
        · have : m = ⟨d.active + 1, []⟩ := by simpa using hm
          subst this; cases hb
  | flushOldest =>
    simp only [D2.step]
    cases hi : d.imms with
    | nil => simp only; exact ⟨h1, h2, h3, h4, h5, h6, h7, h8, h9, h10, h11⟩
    | cons m rest =>
      simp only
      rw [hi] at h4 h5 h6
      have hm_lt : m.wal < d.active := h4 m (List.mem_cons_self ..)
      have hsorted : (∀ a ∈ rest.map (·.wal), m.wal < a) ∧ (rest.map (·.wal)).Pairwise (· < ·) := by
        have h5' : (m.wal :: rest.map (·.wal)).Pairwise (· < ·) := by simpa using h5
        exact List.pairwise_cons.mp h5'
      have hrest_gt : ∀ m' ∈ rest, m.wal < m'.wal := by
        intro m' hm'; exact hsorted.1 m'.wal (List.mem_map.mpr ⟨m', hm', rfl⟩)
      have hsub : ∀ m', m' ∈ rest ++ [d.memActive] → m' ∈ d.mems := by
        intro m' hm'
        unfold D2.mems; rw [hi]
        rcases List.mem_append.mp hm' with h | h
        · exact List.mem_append_left _ (List.mem_cons_of_mem _ h)
        · exact List.mem_append_right _ h
      refine ⟨h1, h2, h3, fun m' hm' => h4 m' (List.mem_cons_of_mem _ hm'), hsorted.2, ?_, ?_, ?_, h9, ?_, h11⟩
      · exact ⟨by show m.wal + 1 ≤ d.active; omega,
          fun m' hm' => by have := hrest_gt m' hm'; show m.wal + 1 ≤ m'.wal; omega⟩
      · intro m' hm' b hb; exact h7 m' (hsub m' hm') b hb
      · intro b hb
        rcases h8 b hb with h | ⟨m', hm', hbm⟩
        · exact Or.inl (List.mem_append_left _ h)
        · unfold D2.mems at hm'
          rw [hi] at hm'
          rcases List.mem_append.mp hm' with hm' | hm'
          · rcases List.mem_cons.mp hm' with rfl | hm'
            · exact Or.inl (List.mem_append_right _ hbm)
            · exact Or.inr ⟨m', List.mem_append_left _ hm', hbm⟩
          · exact Or.inr ⟨m', List.mem_append_right _ hm', hbm⟩
      · refine ⟨h10.1, ?_, fun m' hm' b hb => h10.2.2.1 m' (hsub m' hm') b hb, h10.2.2.2⟩
        intro b hb
        rcases List.mem_append.mp hb with hb | hb
        · exact h10.2.1 b hb
        · exact h10.2.2.1 m (by unfold D2.mems; rw [hi]; exact List.mem_append_left _ (List.mem_cons_self ..)) b hb
  | cleanupWal =>
    simp only [D2.step]
    obtain ⟨r, hr⟩ := h2
    refine ⟨h1, ⟨r, List.mem_filter.mpr ⟨hr, by simpa using h6.1⟩⟩, fun s hs => h3 s (List.mem_filter.mp hs).1,
      h4, h5, h6, ?_, h8, ?_, ⟨fun s hs => h10.1 s (List.mem_filter.mp hs).1, h10.2⟩, h11⟩
    · intro m hm b hb
      obtain ⟨s, hs, e, hbs⟩ := h7 m hm b hb
      refine ⟨s, List.mem_filter.mpr ⟨hs, ?_⟩, e, hbs⟩
      have hge : d.logNumber ≤ m.wal := by
        unfold D2.mems at hm
        rcases List.mem_append.mp hm with hmi | hma
        · exact h6.2 m hmi
        · have : m = d.memActive := by simpa using hma
          subst this; rw [h1]; exact h6.1
      simpa [e] using hge
    · intro b hb
      obtain ⟨hle, heq⟩ := h9 b hb
      refine ⟨hle, fun he => ?_⟩
      obtain ⟨s, hs, e, hbs⟩ := heq he
      exact ⟨s, List.mem_filter.mpr ⟨hs, by simpa [e] using h6.1⟩, e, hbs⟩

theorem inv2_run (ops : List DOp) (d : D2) (h : Inv2 d) : Inv2 (d.run ops) := by
  induction ops generalizing d with
  | nil => exact h
  | cons op ops ih => exact ih _ (inv2_step d h op)

theorem acked_recoverable (d : D2) (h : Inv2 d) (b : Nat) (hb : b ∈ d.acked) : b ∈ d.recover := by
  unfold D2.recover
  rcases h.ackedSomewhere b hb with ht | ⟨m, hm, hbm⟩
  · exact List.mem_append_left _ ht
  · obtain ⟨s, hs, e, hbs⟩ := h.memLogged m hm b hbm
    apply List.mem_append_right
    simp only [List.mem_flatMap, List.mem_filter, decide_eq_true_eq]
    refine ⟨s, ⟨hs, ?_⟩, hbs⟩
    rw [e]
    unfold D2.mems at hm
    rcases List.mem_append.mp hm with hmi | hma
    · exact h.logLe.2 m hmi
    · have : m = d.memActive := by simpa using hma
      subst this; rw [h.actWal]; exact h.logLe.1

/-- recovery that leaves `log_number` alone while the last segment is only partly flushed keeps
everything that was recoverable -/
theorem reopen_keeps (d : D2) (h : Inv2 d) (k : Nat) (b : Nat) (hb : b ∈ d.recover) :
    b ∈ (d.reopen false k).recover := by
  unfold D2.recover at hb ⊢
  simp only [D2.reopen, Bool.false_and, Bool.false_eq_true, if_false]
  rcases List.mem_append.mp hb with hb | hb
  · exact List.mem_append_left _ (List.mem_append_left _ (List.mem_append_left _ hb))
  · simp only [List.mem_flatMap, List.mem_filter, decide_eq_true_eq] at hb
    obtain ⟨s, ⟨hs, hge⟩, hbs⟩ := hb
    have hle := h.segLe s hs
    by_cases hlt : s.1 < d.active
    · apply List.mem_append_left
      apply List.mem_append_left
      apply List.mem_append_right
      simp only [List.mem_flatMap, List.mem_filter, decide_eq_true_eq]
      exact ⟨s, ⟨⟨hs, hge⟩, hlt⟩, hbs⟩
    · apply List.mem_append_right
      simp only [List.mem_flatMap, List.mem_filter, decide_eq_true_eq]
      refine ⟨s, ⟨hs, ?_⟩, hbs⟩
      have := h.logLe.1
      omega

/-- recovery adds nothing: what can be rebuilt after a reopen (however far its replay got before the next
crash) could be rebuilt before it -/
theorem reopen_adds_nothing (d : D2) (k : Nat) (b : Nat) (hb : b ∈ (d.reopen false k).recover) :
    b ∈ d.recover := by
  unfold D2.recover at hb ⊢
  simp only [D2.reopen, Bool.false_and, Bool.false_eq_true, if_false] at hb
  rcases List.mem_append.mp hb with hb | hb
  · rcases List.mem_append.mp hb with hb | hb
    · rcases List.mem_append.mp hb with hb | hb
      · exact List.mem_append_left _ hb
      · apply List.mem_append_right
        simp only [List.mem_flatMap, List.mem_filter, decide_eq_true_eq] at hb ⊢
        obtain ⟨s, ⟨⟨hs, hge⟩, _⟩, hbs⟩ := hb
        exact ⟨s, ⟨hs, hge⟩, hbs⟩
    · apply List.mem_append_right
      have hb' := List.mem_of_mem_take hb
      simp only [List.mem_flatMap, List.mem_filter, decide_eq_true_eq] at hb' ⊢
      obtain ⟨s, ⟨⟨hs, hge⟩, _⟩, hbs⟩ := hb'
      exact ⟨s, ⟨hs, hge⟩, hbs⟩
  · apply List.mem_append_right
    simp only [List.mem_flatMap, List.mem_filter, decide_eq_true_eq] at hb ⊢
    obtain ⟨s, ⟨hs, hge⟩, hbs⟩ := hb
    refine ⟨s, ⟨hs, ?_⟩, hbs⟩
    omega
