import Skv.Model.Bloom

theorem setBits_length (bits : List Bool) (ps : List Nat) : (setBits bits ps).length = bits.length := by
  unfold setBits
  induction ps generalizing bits with
  | nil => rfl
  | cons p ps ih => simp only [List.foldl_cons]; rw [ih]; simp

/-- a set bit stays set -/
theorem setBits_mono (bits : List Bool) (ps : List Nat) (i : Nat) (h : bits[i]?.getD false = true) :
    (setBits bits ps)[i]?.getD false = true := by
  unfold setBits
  induction ps generalizing bits with
  | nil => exact h
  | cons p ps ih =>
    simp only [List.foldl_cons]
    apply ih
    rw [List.getElem?_set]
    split
    · split <;> simp_all
    · exact h

theorem setBits_sets (bits : List Bool) (ps : List Nat) (hn : 0 < bits.length) (p : Nat) (hp : p ∈ ps) :
    (setBits bits ps)[p % bits.length]?.getD false = true := by
  induction ps generalizing bits with
  | nil => cases hp
  | cons q qs ih =>
    have hlen : (bits.set (q % bits.length) true).length = bits.length := by simp
    rcases List.mem_cons.mp hp with h | h
    · subst h
      show (setBits (bits.set (p % bits.length) true) qs)[p % bits.length]?.getD false = true
      apply setBits_mono
      rw [List.getElem?_set]
      simp [Nat.mod_lt _ hn]
    · show (setBits (bits.set (q % bits.length) true) qs)[p % bits.length]?.getD false = true
      have := ih (bits.set (q % bits.length) true) (by rw [hlen]; exact hn) h
      rw [hlen] at this; exact this

theorem buildFilter_aux {α : Type} (probes : α → List Nat) (keys : List α) (bits : List Bool) :
    (keys.foldl (fun b k => setBits b (probes k)) bits).length = bits.length := by
  induction keys generalizing bits with
  | nil => rfl
  | cons k ks ih => simp only [List.foldl_cons]; rw [ih, setBits_length]

theorem fold_mono {α : Type} (probes : α → List Nat) (keys : List α) (bits : List Bool) (i : Nat)
    (h : bits[i]?.getD false = true) :
    (keys.foldl (fun b k => setBits b (probes k)) bits)[i]?.getD false = true := by
  induction keys generalizing bits with
  | nil => exact h
  | cons k ks ih => simp only [List.foldl_cons]; exact ih _ (setBits_mono _ _ _ h)

/-- **no false negatives** -/
theorem bloom_no_false_negative {α : Type} (nbits : Nat) (hn : 0 < nbits) (probes : α → List Nat)
    (keys : List α) (k : α) (hk : k ∈ keys) : mayContain (buildFilter nbits probes keys) probes k = true := by
  unfold mayContain buildFilter
  rw [List.all_eq_true]
  intro p hp
  rw [buildFilter_aux]
  simp only [List.length_replicate]
  generalize hb : List.replicate nbits false = bits
  have hlen : bits.length = nbits := by rw [← hb]; simp
  clear hb
  induction keys generalizing bits with
  | nil => cases hk
  | cons x xs ih =>
    simp only [List.foldl_cons]
    rcases List.mem_cons.mp hk with h | h
    · subst h
      apply fold_mono
      have := setBits_sets bits (probes k) (by omega) p hp
      rw [hlen] at this; exact this
    · exact ih h _ (by rw [setBits_length]; exact hlen)
