import Skv.Lemmas.BTree
/-! insertion with splits refines ordered-map insertion, for every split policy -/

theorem inB_none_hi_of {lo : Option Nat} {k : Nat} (h : ∀ l, lo = some l → l ≤ k) : inB lo none k :=
  ⟨h, fun _ hh => by cases hh⟩

/-! ### leaves -/

theorem splitLeaf_spec (p : Policy) (es : List (Nat × Nat)) (lo hi : Option Nat)
    (hs : es.Pairwise (fun a b => a.1 < b.1)) (hb : ∀ e ∈ es, inB lo hi e.1) :
    (splitLeaf p es).toList = es ∧ (splitLeaf p es).wf lo hi := by
  unfold splitLeaf
  cases hp : p.leaf es with
  | none => exact ⟨rfl, by simp only [Ins.wf, BT.wf]; exact ⟨hs, hb⟩⟩
  | some n =>
    simp only
    cases hd : es.drop n with
    | nil => exact ⟨rfl, by simp only [Ins.wf, BT.wf]; exact ⟨hs, hb⟩⟩
    | cons sv right =>
      obtain ⟨s, v⟩ := sv
      simp only
      by_cases hn : n = 0
      · simp only [hn, if_true]; exact ⟨rfl, by simp only [Ins.wf, BT.wf]; exact ⟨hs, hb⟩⟩
      · simp only [hn, if_false]
        have hsplit : es = es.take n ++ (s, v) :: right := by rw [← hd, List.take_append_drop]
        have hs' := hs
        rw [hsplit, List.pairwise_append] at hs'
        obtain ⟨hl, hr, hlr⟩ := hs'
        refine ⟨by simp only [Ins.toList, BT.toList]; exact hsplit.symm, ?_⟩
        simp only [Ins.wf, BT.wf]
        have hsmem : (s, v) ∈ es := by rw [hsplit]; simp
        -- the left part is not empty (n ≠ 0 and there is an entry at position n): s is strictly above the lower bound
        have hne : es.take n ≠ [] := by
          intro he
          have hlen : (es.take n).length = 0 := by rw [he]; rfl
          have hdl : (es.drop n).length = right.length + 1 := by rw [hd]; rfl
          simp only [List.length_take, List.length_drop] at hlen hdl
          omega
        obtain ⟨e0, he0⟩ := List.exists_mem_of_ne_nil _ hne
        have hs_strict : inBs lo hi s := by
          refine ⟨fun l hl' => ?_, (hb _ hsmem).2⟩
          have a1 := (hb e0 (List.mem_of_mem_take he0)).1 l hl'
          have a2 := hlr e0 he0 (s, v) List.mem_cons_self
          simp only at a2
          omega
        refine ⟨hs_strict, ⟨hl, ?_⟩, ⟨hr, ?_⟩⟩
        · intro e he
          have hem : e ∈ es := List.mem_of_mem_take he
          exact ⟨(hb e hem).1, fun h hh => by cases hh; exact hlr e he (s, v) List.mem_cons_self⟩
        · intro e he
          have hem : e ∈ es := by rw [hsplit]; exact List.mem_append_right _ he
          refine ⟨fun l hl' => ?_, (hb e hem).2⟩
          cases hl'
          rcases List.mem_cons.mp he with h1 | h1
          · rw [h1]; exact Nat.le_refl _
          · rw [List.pairwise_cons] at hr
            exact Nat.le_of_lt (hr.1 e h1)

/-! ### cutting a child list -/

theorem Kids.take_drop_toList : ∀ (r : Kids) (n : Nat), (r.take n).toList ++ (r.drop n).toList = r.toList
  | .nil, n => by cases n <;> simp [Kids.take, Kids.drop, Kids.toList]
  | .cons s c rest, 0 => by simp [Kids.take, Kids.drop, Kids.toList]
  | .cons s c rest, n + 1 => by
    simp only [Kids.take, Kids.drop, Kids.toList, List.append_assoc]
    rw [Kids.take_drop_toList rest n]

/-- the lower bound of a child list only constrains its first separator -/
theorem Kids.wf_change_lo : ∀ (r : Kids) (lo lo' hi : Option Nat), r.wf lo hi →
    (∀ s1, r.firstSepOr none = some s1 → ∀ l', lo' = some l' → l' < s1) → r.wf lo' hi
  | .nil, _, _, _, _, _ => by simp [Kids.wf]
  | .cons s c rest, lo, lo', hi, h, hl => by
    simp only [Kids.wf] at h ⊢
    exact ⟨⟨fun l' hl' => hl s rfl l' hl', h.1.2⟩, h.2⟩

/-- the upper bound of a child list only constrains separators (strictly below) and the last child -/
theorem Kids.first_lt_hi (s : Nat) (c : BT) (rest : Kids) (lo hi : Option Nat)
    (h : (Kids.cons s c rest).wf lo hi) : ∀ hh, hi = some hh → s < hh := by
  simp only [Kids.wf] at h; exact h.1.2

theorem Kids.split_wf : ∀ (r : Kids) (n : Nat) (lo hi : Option Nat) (s : Nat) (c' : BT) (right : Kids),
    r.wf lo hi → r.drop n = .cons s c' right →
    (r.take n).wf lo (some s) ∧ inBs lo hi s ∧ c'.wf (some s) (right.firstSepOr hi) ∧ right.wf (some s) hi ∧
      (∀ s', right.firstSepOr none = some s' → s < s') ∧
      (r.take n).firstSepOr (some s) = r.firstSepOr hi ∧
      (∀ s0, r.firstSepOr none = some s0 → s0 ≤ s ∧ (0 < n → s0 < s))
  | .nil, n, _, _, _, _, _, _, hd => by cases n <;> simp [Kids.drop] at hd
  | .cons s0 c0 rest0, 0, lo, hi, s, c', right, h, hd => by
    simp only [Kids.drop, Kids.cons.injEq] at hd
    obtain ⟨rfl, rfl, rfl⟩ := hd
    simp only [Kids.wf] at h
    refine ⟨by simp [Kids.take, Kids.wf], h.1, h.2.1, h.2.2.1, h.2.2.2, by simp [Kids.take, Kids.firstSepOr], ?_⟩
    intro s1 hs1
    simp only [Kids.firstSepOr, Option.some.injEq] at hs1
    subst hs1; exact ⟨Nat.le_refl _, fun h0 => absurd h0 (Nat.lt_irrefl _)⟩
  | .cons s0 c0 rest0, n + 1, lo, hi, s, c', right, h, hd => by
    simp only [Kids.drop] at hd
    simp only [Kids.wf] at h
    obtain ⟨h1, h2, h3, h4⟩ := h
    obtain ⟨i1, i2, i3, i4, i5, i6, i7⟩ := Kids.split_wf rest0 n (some s0) hi s c' right h3 hd
    -- s0 is strictly below s
    have hlt : s0 < s := by
      cases rest0 with
      | nil => cases n <;> simp [Kids.drop] at hd
      | cons s1 c1 rest1 =>
        have := h4 s1 (by simp [Kids.firstSepOr])
        have := (i7 s1 (by simp [Kids.firstSepOr])).1
        omega
    refine ⟨?_, ⟨fun l hl => by have := h1.1 l hl; omega, i2.2⟩, i3, i4, i5, by simp [Kids.take, Kids.firstSepOr], ?_⟩
    · simp only [Kids.take, Kids.wf]
      refine ⟨⟨h1.1, fun hh hhh => by cases hhh; exact hlt⟩, ?_, i1, ?_⟩
      · rw [i6]; exact h2
      · intro s' hs'
        -- first separator of the kept part is the first separator of rest0
        cases rest0 with
        | nil => cases n <;> simp [Kids.take, Kids.firstSepOr] at hs'
        | cons s1 c1 rest1 =>
          cases n with
          | zero => simp [Kids.take, Kids.firstSepOr] at hs'
          | succ m =>
            simp only [Kids.take, Kids.firstSepOr, Option.some.injEq] at hs'
            subst hs'; exact h4 s1 (by simp [Kids.firstSepOr])
    · intro s1 hs1
      simp only [Kids.firstSepOr, Option.some.injEq] at hs1
      subst hs1; exact ⟨Nat.le_of_lt hlt, fun _ => hlt⟩

theorem splitNode_spec (p : Policy) (c : BT) (rest : Kids) (lo hi : Option Nat)
    (h : (BT.node c rest).wf lo hi) :
    (splitNode p c rest).toList = c.toList ++ rest.toList ∧ (splitNode p c rest).wf lo hi := by
  unfold splitNode
  cases hp : p.node rest.length with
  | none => exact ⟨rfl, h⟩
  | some n =>
    simp only
    cases hd : rest.drop n with
    | nil => exact ⟨rfl, h⟩
    | cons s c' right =>
      simp only
      simp only [BT.wf] at h
      obtain ⟨i1, i2, i3, i4, i5, i6, _⟩ := Kids.split_wf rest n lo hi s c' right h.2 hd
      constructor
      · simp only [Ins.toList, BT.toList, List.append_assoc]
        have := Kids.take_drop_toList rest n
        rw [hd] at this
        simp only [Kids.toList] at this
        rw [← this]
      · simp only [Ins.wf, BT.wf]
        refine ⟨i2, ⟨?_, i1⟩, i3, i4⟩
        rw [i6]; exact h.1

/-! ### the recursion -/

theorem Kids.firstSepOr_some_of_none (r : Kids) (hi : Option Nat) (s : Nat)
    (h : r.firstSepOr none = some s) : r.firstSepOr hi = some s := by
  cases r with
  | nil => simp [Kids.firstSepOr] at h
  | cons s' c rest => simpa [Kids.firstSepOr] using h

mutual
theorem BT.ins_spec (p : Policy) : ∀ (t : BT) (lo hi : Option Nat) (k v : Nat), t.wf lo hi → inB lo hi k →
    (t.ins p k v).toList = listInsert t.toList k v ∧ (t.ins p k v).wf lo hi
  | .leaf es, lo, hi, k, v, h, hk => by
    simp only [BT.wf] at h
    simp only [BT.ins, BT.toList]
    apply splitLeaf_spec p _ lo hi (listInsert_sorted es k v h.1)
    intro e he
    rcases listInsert_keys es k v e he with h1 | h1
    · rw [h1]; exact hk
    · exact h.2 e h1
  | .node c rest, lo, hi, k, v, h, hk => by
    have hw := h
    simp only [BT.wf] at h
    have hr := Kids.ins_spec p rest lo hi k v h.2 hk
    simp only [BT.ins, BT.toList]
    cases hri : rest.ins p k v with
    | some rest' =>
      rw [hri] at hr
      simp only
      obtain ⟨ht, hwf, hfs, hge⟩ := hr
      have hnode : (BT.node c rest').wf lo hi := by
        simp only [BT.wf]; exact ⟨by rw [hfs]; exact h.1, hwf⟩
      obtain ⟨t1, t2⟩ := splitNode_spec p c rest' lo hi hnode
      refine ⟨?_, t2⟩
      rw [t1, ht, listInsert_append_right]
      intro e he
      obtain ⟨s, hs, hsk⟩ := hge
      have hc : c.wf lo (some s) := by
        rw [Kids.firstSepOr_some_of_none rest hi s hs] at h; exact h.1
      have := BT.keys_lt_first c lo s hc e he
      omega
    | none =>
      rw [hri] at hr
      simp only
      obtain ⟨habove, hfirst⟩ := hr
      -- the key belongs to the first child
      have hkc : inB lo (rest.firstSepOr hi) k := by
        refine ⟨hk.1, ?_⟩
        intro hh hhh
        cases rest with
        | nil => exact hk.2 hh (by simpa [Kids.firstSepOr] using hhh)
        | cons s c1 rest1 =>
          simp only [Kids.firstSepOr, Option.some.injEq] at hhh
          subst hhh; exact hfirst s (by simp [Kids.firstSepOr])
      obtain ⟨ct, cw⟩ := BT.ins_spec p c lo (rest.firstSepOr hi) k v h.1 hkc
      cases hci : c.ins p k v with
      | one c' =>
        rw [hci] at ct cw
        simp only
        simp only [Ins.toList] at ct
        simp only [Ins.wf] at cw
        have hnode : (BT.node c' rest).wf lo hi := by simp only [BT.wf]; exact ⟨cw, h.2⟩
        obtain ⟨t1, t2⟩ := splitNode_spec p c' rest lo hi hnode
        refine ⟨?_, t2⟩
        rw [t1, ct, listInsert_append_left _ _ _ _ habove]
      | two l s r =>
        rw [hci] at ct cw
        simp only
        simp only [Ins.toList] at ct
        simp only [Ins.wf] at cw
        obtain ⟨cs, cl, cr⟩ := cw
        have hs_hi : inBs lo hi s := by
          refine ⟨cs.1, ?_⟩
          intro hh hhh
          cases rest with
          | nil => exact cs.2 hh (by simpa [Kids.firstSepOr] using hhh)
          | cons s1 c1 rest1 =>
            have h1 := cs.2 s1 (by simp [Kids.firstSepOr])
            have h2 := Kids.first_lt_hi s1 c1 rest1 lo hi h.2 hh hhh
            omega
        have hnode : (BT.node l (.cons s r rest)).wf lo hi := by
          simp only [BT.wf, Kids.firstSepOr, Kids.wf]
          refine ⟨cl, hs_hi, cr, ?_, ?_⟩
          · apply Kids.wf_change_lo rest lo (some s) hi h.2
            intro s1 hs1 l' hl'
            cases hl'
            exact cs.2 s1 (Kids.firstSepOr_some_of_none rest hi s1 hs1)
          · intro s' hs'
            exact cs.2 s' (Kids.firstSepOr_some_of_none rest hi s' hs')
        obtain ⟨t1, t2⟩ := splitNode_spec p l (.cons s r rest) lo hi hnode
        refine ⟨?_, t2⟩
        rw [t1]
        simp only [Kids.toList]
        rw [← List.append_assoc, ct, listInsert_append_left _ _ _ _ habove]
/-- `none`: every key under `r` and its first separator are above `k`; `some r'`: `r'` is `r` with the
key inserted, same bounds, same first separator, which is at or below `k` -/
theorem Kids.ins_spec (p : Policy) : ∀ (r : Kids) (lo hi : Option Nat) (k v : Nat), r.wf lo hi → inB lo hi k →
    match r.ins p k v with
    | none => (∀ e ∈ r.toList, k < e.1) ∧ (∀ s, r.firstSepOr none = some s → k < s)
    | some r' => r'.toList = listInsert r.toList k v ∧ r'.wf lo hi ∧ r'.firstSepOr hi = r.firstSepOr hi ∧
        ∃ s, r.firstSepOr none = some s ∧ s ≤ k
  | .nil, _, _, _, _, _, _ => by simp [Kids.ins, Kids.toList, Kids.firstSepOr]
  | .cons sep c rest, lo, hi, k, v, h, hk => by
    have hw := h
    simp only [Kids.wf] at h
    obtain ⟨h1, h2, h3, h4⟩ := h
    simp only [Kids.ins]
    by_cases hks : k < sep
    · simp only [hks, if_true]
      refine ⟨?_, fun s hs => by simp only [Kids.firstSepOr, Option.some.injEq] at hs; omega⟩
      intro e he
      have := Kids.keys_ge_first sep c rest lo hi hw e he
      omega
    · simp only [hks, if_false]
      have hk' : inB (some sep) hi k := ⟨fun l hl => by cases hl; omega, hk.2⟩
      have hr := Kids.ins_spec p rest (some sep) hi k v h3 hk'
      cases hri : rest.ins p k v with
      | some rest' =>
        rw [hri] at hr
        simp only
        obtain ⟨ht, hwf, hfs, s1, hs1, hs1k⟩ := hr
        refine ⟨?_, ?_, by simp [Kids.firstSepOr], sep, by simp [Kids.firstSepOr], by omega⟩
        · simp only [Kids.toList]
          rw [ht, listInsert_append_right]
          intro e he
          have hc : c.wf (some sep) (some s1) := by
            rw [Kids.firstSepOr_some_of_none rest hi s1 hs1] at h2; exact h2
          have := BT.keys_lt_first c _ s1 hc e he
          omega
        · simp only [Kids.wf]
          refine ⟨h1, by rw [hfs]; exact h2, hwf, ?_⟩
          intro s' hs'
          -- the first separator of rest' is that of rest
          have e1 : rest'.firstSepOr hi = some s' := Kids.firstSepOr_some_of_none rest' hi s' hs'
          rw [hfs, Kids.firstSepOr_some_of_none rest hi s1 hs1] at e1
          cases e1
          exact h4 s1 hs1
      | none =>
        rw [hri] at hr
        simp only
        obtain ⟨habove, hfirst⟩ := hr
        have hkc : inB (some sep) (rest.firstSepOr hi) k := by
          refine ⟨hk'.1, ?_⟩
          intro hh hhh
          cases rest with
          | nil => exact hk.2 hh (by simpa [Kids.firstSepOr] using hhh)
          | cons s1 c1 rest1 =>
            simp only [Kids.firstSepOr, Option.some.injEq] at hhh
            subst hhh; exact hfirst s1 (by simp [Kids.firstSepOr])
        obtain ⟨ct, cw⟩ := BT.ins_spec p c (some sep) (rest.firstSepOr hi) k v h2 hkc
        cases hci : c.ins p k v with
        | one c' =>
          rw [hci] at ct cw
          simp only
          simp only [Ins.toList] at ct
          simp only [Ins.wf] at cw
          refine ⟨?_, ?_, by simp [Kids.firstSepOr], sep, by simp [Kids.firstSepOr], by omega⟩
          · simp only [Kids.toList]
            rw [ct, listInsert_append_left _ _ _ _ habove]
          · simp only [Kids.wf]; exact ⟨h1, cw, h3, h4⟩
        | two l s r =>
          rw [hci] at ct cw
          simp only
          simp only [Ins.toList] at ct
          simp only [Ins.wf] at cw
          obtain ⟨cs, cl, cr⟩ := cw
          have hsep_s : sep < s := cs.1 sep rfl
          have hs_hi : inBs (some sep) hi s := by
            refine ⟨cs.1, ?_⟩
            intro hh hhh
            cases rest with
            | nil => exact cs.2 hh (by simpa [Kids.firstSepOr] using hhh)
            | cons s1 c1 rest1 =>
              have a1 := cs.2 s1 (by simp [Kids.firstSepOr])
              have a2 := Kids.first_lt_hi s1 c1 rest1 (some sep) hi h3 hh hhh
              omega
          refine ⟨?_, ?_, by simp [Kids.firstSepOr], sep, by simp [Kids.firstSepOr], by omega⟩
          · simp only [Kids.toList]
            rw [← List.append_assoc, ct, listInsert_append_left _ _ _ _ habove]
          · -- sep < s: the left part `l` is bounded by [sep, s) and `s` came from a key at or above sep;
            -- strictness needs a key of `l`… it is not needed: the strict chain asks sep < s only
            simp only [Kids.wf, Kids.firstSepOr]
            refine ⟨h1, cl, ⟨hs_hi, cr, ?_, ?_⟩, ?_⟩
            · apply Kids.wf_change_lo rest (some sep) (some s) hi h3
              intro s1 hs1 l' hl'
              cases hl'
              exact cs.2 s1 (Kids.firstSepOr_some_of_none rest hi s1 hs1)
            · intro s' hs'
              exact cs.2 s' (Kids.firstSepOr_some_of_none rest hi s' hs')
            · intro s' hs'
              simp only [Option.some.injEq] at hs'
              subst hs'
              exact hsep_s
end
