import Skv.Model.Lock

/-- the invariant: an opener is in a live phase exactly when it owns the OS lock, and every
data mutation so far was made by the lock owner of that moment. -/
structure LInv (s : LState) : Prop where
  liveIff : ∀ i, (s.phase i).live = true ↔ s.holder = some i
  touched : ∀ t ∈ s.touches, t.2 = some t.1

theorem linv_init : LInv {} := by
  constructor
  · intro i; simp [LPhase.live]
  · intro t ht; cases ht

@[simp] theorem setPhase_phase (s : LState) (i j : Nat) (p : LPhase) :
    (s.setPhase i p).phase j = if j = i then p else s.phase j := rfl
@[simp] theorem setPhase_holder (s : LState) (i : Nat) (p : LPhase) : (s.setPhase i p).holder = s.holder := rfl
@[simp] theorem setPhase_touches (s : LState) (i : Nat) (p : LPhase) : (s.setPhase i p).touches = s.touches := rfl
@[simp] theorem setPhase_dataVer (s : LState) (i : Nat) (p : LPhase) : (s.setPhase i p).dataVer = s.dataVer := rfl
@[simp] theorem setPhase_lockTxt (s : LState) (i : Nat) (p : LPhase) : (s.setPhase i p).lockTxt = s.lockTxt := rfl
@[simp] theorem dropLock_phase (s : LState) (i : Nat) : (s.dropLock i).phase = s.phase := rfl
@[simp] theorem dropLock_touches (s : LState) (i : Nat) : (s.dropLock i).touches = s.touches := rfl
@[simp] theorem dropLock_holder (s : LState) (i : Nat) :
    (s.dropLock i).holder = if s.holder = some i then none else s.holder := rfl

/-- changing the phase of `i` between two non-live phases, or between two live phases, keeps `liveIff` -/
theorem liveIff_setPhase_same (s : LState) (h : LInv s) (i : Nat) (p : LPhase)
    (hp : p.live = (s.phase i).live) : LInv (s.setPhase i p) := by
  constructor
  · intro j
    simp only [setPhase_phase, setPhase_holder]
    by_cases hj : j = i
    · subst hj; simp only [if_true, hp]; exact h.liveIff j
    · simp only [hj, if_false]; exact h.liveIff j
  · exact h.touched

theorem linv_step (s : LState) (h : LInv s) (op : LOp) : LInv (s.step op) := by
  cases op with
  | begin i =>
    simp only [LState.step]
    split
    · rename_i hp; exact liveIff_setPhase_same s h i _ (by rw [hp]; rfl)
    · rename_i hp; exact liveIff_setPhase_same s h i _ (by rw [hp]; rfl)
    · rename_i hp; exact liveIff_setPhase_same s h i _ (by rw [hp]; rfl)
    · rename_i hp; exact liveIff_setPhase_same s h i _ (by rw [hp]; rfl)
    · exact h
  | tryLock i =>
    simp only [LState.step]
    split
    · rename_i hp
      split
      · rename_i hh
        constructor
        · intro j
          show ((s.setPhase i .recovering).phase j).live = true ↔ some i = some j
          simp only [setPhase_phase]
          by_cases hj : j = i
          · subst hj; simp [LPhase.live]
          · simp only [hj, if_false]
            constructor
            · intro hl; have := (h.liveIff j).mp hl; rw [hh] at this; cases this
            · intro he; exact absurd (Option.some.inj he).symm hj
        · exact h.touched
      · exact liveIff_setPhase_same s h i _ (by rw [hp]; rfl)
    · exact h
  | touch i =>
    simp only [LState.step]
    split
    · rename_i hl
      constructor
      · exact h.liveIff
      · intro t ht
        rcases List.mem_append.mp ht with ht | ht
        · exact h.touched t ht
        · have : t = (i, s.holder) := by simpa using ht
          subst this; exact (h.liveIff i).mp hl
    · exact h
  | finishOpen i =>
    simp only [LState.step]
    split
    · rename_i hp; exact liveIff_setPhase_same s h i _ (by rw [hp]; rfl)
    · exact h
  | beginClose i =>
    simp only [LState.step]
    split
    · rename_i hp; exact liveIff_setPhase_same s h i _ (by rw [hp]; rfl)
    · exact h
  | release i =>
    simp only [LState.step]
    split
    · rename_i hp
      have hi : s.holder = some i := (h.liveIff i).mp (by rw [hp]; rfl)
      constructor
      · intro j
        simp only [setPhase_phase, setPhase_holder, dropLock_phase, dropLock_holder, hi, if_true]
        by_cases hj : j = i
        · subst hj; simp [LPhase.live]
        · simp only [hj, if_false]
          constructor
          · intro hl; have := (h.liveIff j).mp hl; rw [hi] at this
            exact absurd (Option.some.inj this).symm hj
          · intro he; cases he
      · exact h.touched
    · exact h
  | failOpen i =>
    simp only [LState.step]
    split
    · rename_i hp
      have hi : s.holder = some i := (h.liveIff i).mp (by rw [hp]; rfl)
      constructor
      · intro j
        simp only [setPhase_phase, setPhase_holder, dropLock_phase, dropLock_holder, hi, if_true]
        by_cases hj : j = i
        · subst hj; simp [LPhase.live]
        · simp only [hj, if_false]
          constructor
          · intro hl; have := (h.liveIff j).mp hl; rw [hi] at this
            exact absurd (Option.some.inj this).symm hj
          · intro he; cases he
      · exact h.touched
    · exact h
  | crash i =>
    simp only [LState.step]
    constructor
    · intro j
      simp only [setPhase_phase, setPhase_holder, dropLock_phase, dropLock_holder]
      by_cases hj : j = i
      · subst hj
        simp only [if_true, LPhase.live]
        constructor
        · intro hf; cases hf
        · intro he; split at he
          · cases he
          · rename_i hne; exact absurd he hne
      · simp only [hj, if_false]
        by_cases hh : s.holder = some i
        · simp only [hh, if_true]
          constructor
          · intro hl; have := (h.liveIff j).mp hl; rw [hh] at this
            exact absurd (Option.some.inj this).symm hj
          · intro he; cases he
        · simp only [hh, if_false]; exact h.liveIff j
    · exact h.touched

theorem linv_run (ops : List LOp) : ∀ s : LState, LInv s → LInv (s.run ops) := by
  induction ops with
  | nil => intro s h; exact h
  | cons op ops ih => intro s h; exact ih _ (linv_step s h op)
