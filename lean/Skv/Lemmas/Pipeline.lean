import Skv.Model.Pipeline
/-!
Lemmas for C05 / C15 / C17: projections of the step helpers, and invariants of the commit
pipeline transition system.
-/
open PState

inductive POp
  | begin (i : Nat) (req : CommitReq)
  | step (i : Nat)
deriving Repr

def PState.apply (s : PState) : POp → PState
  | .begin i req => s.begin i req
  | .step i => s.stepThread i

def PState.run (s : PState) : List POp → PState
  | [] => s
  | op :: ops => PState.run (s.apply op) ops

/-! ### projections -/
section proj
variable (s : PState) (i : Nat) (t : Thread) (f : Nat) (r : CRes)

@[simp] theorem setThread_visible : (s.setThread i t).visible = s.visible := rfl
@[simp] theorem setThread_queue : (s.setThread i t).queue = s.queue := rfl
@[simp] theorem setThread_mem : (s.setThread i t).mem = s.mem := rfl
@[simp] theorem setThread_batches : (s.setThread i t).batches = s.batches := rfl
@[simp] theorem setThread_completed : (s.setThread i t).completed = s.completed := rfl
@[simp] theorem setThread_logSeq : (s.setThread i t).logSeq = s.logSeq := rfl
@[simp] theorem setThread_permits : (s.setThread i t).permits = s.permits := rfl
@[simp] theorem setThread_cap : (s.setThread i t).cap = s.cap := rfl
@[simp] theorem setThread_panicked : (s.setThread i t).panicked = s.panicked := rfl
@[simp] theorem setThread_threads : (s.setThread i t).threads = s.threads.set i t := rfl

@[simp] theorem release_visible (o : Own) : (s.release o).visible = s.visible := by unfold release; split <;> rfl
@[simp] theorem release_queue (o : Own) : (s.release o).queue = s.queue := by unfold release; split <;> rfl
@[simp] theorem release_mem (o : Own) : (s.release o).mem = s.mem := by unfold release; split <;> rfl
@[simp] theorem release_batches (o : Own) : (s.release o).batches = s.batches := by unfold release; split <;> rfl
@[simp] theorem release_completed (o : Own) : (s.release o).completed = s.completed := by unfold release; split <;> rfl
@[simp] theorem release_logSeq (o : Own) : (s.release o).logSeq = s.logSeq := by unfold release; split <;> rfl
@[simp] theorem release_threads (o : Own) : (s.release o).threads = s.threads := by unfold release; split <;> rfl
@[simp] theorem release_cap (o : Own) : (s.release o).cap = s.cap := by unfold release; split <;> rfl
@[simp] theorem release_panicked (o : Own) : (s.release o).panicked = s.panicked := by unfold release; split <;> rfl
@[simp] theorem release_returned (o : Own) : (s.release o).returned = s.returned := by unfold release; split <;> rfl
@[simp] theorem release_dropped (o : Own) : (s.release o).dropped = s.dropped := by unfold release; split <;> rfl

theorem finish_unfold (fo : Option Nat) : ∃ s1 : PState, s.finish i t r fo = s1 ∧
    s1.visible = s.visible ∧ s1.queue = s.queue ∧ s1.mem = s.mem ∧ s1.batches = s.batches ∧
    s1.completed = s.completed ∧ s1.logSeq = s.logSeq ∧ s1.cap = s.cap ∧ s1.panicked = s.panicked ∧
    s1.threads = s.threads.set i { t with pc := .ready, results := r :: t.results } := by
  refine ⟨_, rfl, ?_⟩
  unfold finish; dsimp only
  split
  · simp
  · split
    · simp
    · exact ⟨rfl, rfl, rfl, rfl, rfl, rfl, rfl, rfl, rfl⟩

variable (fo : Option Nat)
@[simp] theorem finish_visible : (s.finish i t r fo).visible = s.visible := by
  obtain ⟨_, rfl, h⟩ := finish_unfold s i t r fo; exact h.1
@[simp] theorem finish_queue : (s.finish i t r fo).queue = s.queue := by
  obtain ⟨_, rfl, h⟩ := finish_unfold s i t r fo; exact h.2.1
@[simp] theorem finish_mem : (s.finish i t r fo).mem = s.mem := by
  obtain ⟨_, rfl, h⟩ := finish_unfold s i t r fo; exact h.2.2.1
@[simp] theorem finish_batches : (s.finish i t r fo).batches = s.batches := by
  obtain ⟨_, rfl, h⟩ := finish_unfold s i t r fo; exact h.2.2.2.1
@[simp] theorem finish_completed : (s.finish i t r fo).completed = s.completed := by
  obtain ⟨_, rfl, h⟩ := finish_unfold s i t r fo; exact h.2.2.2.2.1
@[simp] theorem finish_logSeq : (s.finish i t r fo).logSeq = s.logSeq := by
  obtain ⟨_, rfl, h⟩ := finish_unfold s i t r fo; exact h.2.2.2.2.2.1
@[simp] theorem finish_cap : (s.finish i t r fo).cap = s.cap := by
  obtain ⟨_, rfl, h⟩ := finish_unfold s i t r fo; exact h.2.2.2.2.2.2.1
@[simp] theorem finish_panicked : (s.finish i t r fo).panicked = s.panicked := by
  obtain ⟨_, rfl, h⟩ := finish_unfold s i t r fo; exact h.2.2.2.2.2.2.2.1
@[simp] theorem finish_threads :
    (s.finish i t r fo).threads = s.threads.set i { t with pc := .ready, results := r :: t.results } := by
  obtain ⟨_, rfl, h⟩ := finish_unfold s i t r fo; exact h.2.2.2.2.2.2.2.2

@[simp] theorem dropBatch_visible : (s.dropBatch f).visible = s.visible := by unfold dropBatch; split <;> simp
@[simp] theorem dropBatch_queue : (s.dropBatch f).queue = s.queue := by unfold dropBatch; split <;> simp
@[simp] theorem dropBatch_mem : (s.dropBatch f).mem = s.mem := by unfold dropBatch; split <;> simp
@[simp] theorem dropBatch_batches : (s.dropBatch f).batches = s.batches := by unfold dropBatch; split <;> simp
@[simp] theorem dropBatch_completed : (s.dropBatch f).completed = s.completed := by unfold dropBatch; split <;> simp
@[simp] theorem dropBatch_logSeq : (s.dropBatch f).logSeq = s.logSeq := by unfold dropBatch; split <;> simp
@[simp] theorem dropBatch_threads : (s.dropBatch f).threads = s.threads := by unfold dropBatch; split <;> simp
@[simp] theorem dropBatch_cap : (s.dropBatch f).cap = s.cap := by unfold dropBatch; split <;> simp
@[simp] theorem dropBatch_panicked : (s.dropBatch f).panicked = s.panicked := by unfold dropBatch; split <;> simp

@[simp] theorem complete_visible : (s.complete f r).visible = s.visible := by unfold complete; split <;> rfl
@[simp] theorem complete_queue : (s.complete f r).queue = s.queue := by unfold complete; split <;> rfl
@[simp] theorem complete_mem : (s.complete f r).mem = s.mem := by unfold complete; split <;> rfl
@[simp] theorem complete_batches : (s.complete f r).batches = s.batches := by unfold complete; split <;> rfl
@[simp] theorem complete_logSeq : (s.complete f r).logSeq = s.logSeq := by unfold complete; split <;> rfl
@[simp] theorem complete_threads : (s.complete f r).threads = s.threads := by unfold complete; split <;> rfl
@[simp] theorem complete_cap : (s.complete f r).cap = s.cap := by unfold complete; split <;> rfl
@[simp] theorem complete_permits : (s.complete f r).permits = s.permits := by unfold complete; split <;> rfl

@[simp] theorem markApplied_visible : (s.markApplied f).visible = s.visible := rfl
@[simp] theorem markApplied_mem : (s.markApplied f).mem = s.mem := rfl
@[simp] theorem markApplied_batches : (s.markApplied f).batches = s.batches := rfl
@[simp] theorem markApplied_completed : (s.markApplied f).completed = s.completed := rfl
@[simp] theorem markApplied_logSeq : (s.markApplied f).logSeq = s.logSeq := rfl
@[simp] theorem markApplied_threads : (s.markApplied f).threads = s.threads := rfl
@[simp] theorem markApplied_queue : (s.markApplied f).queue =
    s.queue.map (fun b => if b.first == f then { b with applied := true } else b) := rfl

@[simp] theorem markFailed_visible : (s.markFailed f).visible = s.visible := rfl
@[simp] theorem markFailed_mem : (s.markFailed f).mem = s.mem := rfl
@[simp] theorem markFailed_queue : (s.markFailed f).queue = s.queue := rfl
@[simp] theorem markFailed_completed : (s.markFailed f).completed = s.completed := rfl
@[simp] theorem markFailed_logSeq : (s.markFailed f).logSeq = s.logSeq := rfl
@[simp] theorem markFailed_threads : (s.markFailed f).threads = s.threads := rfl
@[simp] theorem markFailed_batches : (s.markFailed f).batches =
    s.batches.map (fun b => if b.1 == f then (b.1, b.2.1, true) else b) := rfl
@[simp] theorem setThread_owners : (s.setThread i t).owners = s.owners := rfl
@[simp] theorem setThread_dropped : (s.setThread i t).dropped = s.dropped := rfl
@[simp] theorem setThread_returned : (s.setThread i t).returned = s.returned := rfl
@[simp] theorem complete_owners : (s.complete f r).owners = s.owners := by unfold complete; split <;> rfl
@[simp] theorem complete_dropped : (s.complete f r).dropped = s.dropped := by unfold complete; split <;> rfl
@[simp] theorem complete_returned : (s.complete f r).returned = s.returned := by unfold complete; split <;> rfl
@[simp] theorem complete_panicked : (s.complete f r).panicked = s.panicked := by unfold complete; split <;> rfl
@[simp] theorem markApplied_permits : (s.markApplied f).permits = s.permits := rfl
@[simp] theorem markApplied_owners : (s.markApplied f).owners = s.owners := rfl
@[simp] theorem markApplied_dropped : (s.markApplied f).dropped = s.dropped := rfl
@[simp] theorem markApplied_panicked : (s.markApplied f).panicked = s.panicked := rfl
@[simp] theorem markFailed_permits : (s.markFailed f).permits = s.permits := rfl
@[simp] theorem markFailed_owners : (s.markFailed f).owners = s.owners := rfl
@[simp] theorem markFailed_dropped : (s.markFailed f).dropped = s.dropped := rfl
@[simp] theorem markFailed_panicked : (s.markFailed f).panicked = s.panicked := rfl
@[simp] theorem markApplied_cap : (s.markApplied f).cap = s.cap := rfl
@[simp] theorem markFailed_cap : (s.markFailed f).cap = s.cap := rfl
end proj

/-- `publishTop` touches only threads, queue, permits -/
theorem publishTop_visible (s : PState) (i : Nat) (t : Thread) (f : Nat) (k : FK) :
    (s.publishTop i t f k).visible = s.visible := by
  unfold publishTop; dsimp only; split
  · split
    · rfl
    · split <;> simp
  · split <;> simp

theorem publishTop_mem (s : PState) (i : Nat) (t : Thread) (f : Nat) (k : FK) :
    (s.publishTop i t f k).mem = s.mem := by
  unfold publishTop; dsimp only; split
  · split
    · rfl
    · split <;> simp
  · split <;> simp

theorem publishTop_batches (s : PState) (i : Nat) (t : Thread) (f : Nat) (k : FK) :
    (s.publishTop i t f k).batches = s.batches := by
  unfold publishTop; dsimp only; split
  · split
    · rfl
    · split <;> simp
  · split <;> simp

theorem publishTop_completed (s : PState) (i : Nat) (t : Thread) (f : Nat) (k : FK) :
    (s.publishTop i t f k).completed = s.completed := by
  unfold publishTop; dsimp only; split
  · split
    · rfl
    · split <;> simp
  · split <;> simp

theorem publishTop_logSeq (s : PState) (i : Nat) (t : Thread) (f : Nat) (k : FK) :
    (s.publishTop i t f k).logSeq = s.logSeq := by
  unfold publishTop; dsimp only; split
  · split
    · rfl
    · split <;> simp
  · split <;> simp

/-- the queue after `publishTop`: unchanged, or its tail when the head was applied -/
theorem publishTop_queue (s : PState) (i : Nat) (t : Thread) (f : Nat) (k : FK) :
    (s.publishTop i t f k).queue = s.queue ∨
    ∃ b rest, s.queue = b :: rest ∧ b.applied = true ∧ (s.publishTop i t f k).queue = rest := by
  unfold publishTop; dsimp only; split
  · rename_i b rest hq
    split
    · rename_i ha; right; exact ⟨b, rest, hq, ha, rfl⟩
    · left; split <;> simp [hq]
  · left; split <;> simp_all

theorem stepThread_eq (s : PState) (i : Nat) (t : Thread) (hp : s.panicked = false)
    (ht : s.threads[i]? = some t) :
    s.stepThread i =
    match t.pc with
    | .ready => s
    | .begun start =>
      if t.req.keys.isEmpty then s.setThread i { t with pc := .ready, results := .ok :: t.results }
      else if s.permits > 0 then
        { (s.setThread i { t with pc := .havePermit start }) with permits := s.permits - 1,
                                                                    owners := .thr i :: s.owners }
      else s
    | .havePermit start =>
      match s.oracle.check t.req.keys start with
      | .error .conflict => s.finish i t .conflict
      | .error .retry => s.finish i t .retry
      | .ok _ =>
        let count := t.req.keys.length
        let first := s.logSeq
        let o := s.oracle.publish s.gc t.req.keys first count 0
        if s.queue.length ≥ s.cap then { s with panicked := true }
        else
          let s := { s with logSeq := s.logSeq + count, oracle := o,
                            queue := s.queue ++ [(⟨first, count, false⟩ : QB)],
                            batches := (first, count, false) :: s.batches,
                            owners := .bat first :: s.owners.erase (.thr i) }
          if t.req.failWal then
            let s := { s with oracle := s.oracle.rollback t.req.keys (first + count - 1) }
            let s := (s.complete first .errWal).markApplied first |>.markFailed first
            s.setThread i { t with pc := .walFailed first }
          else s.setThread i { t with pc := .applying first count 0 }
    | .applying first count j =>
      if t.req.failApplyAt == some j then (s.markFailed first).setThread i { t with pc := .afterApply first count true }
      else
        let s := { s with mem := (first + j) :: s.mem }
        if j + 1 < count then s.setThread i { t with pc := .applying first count (j + 1) }
        else s.setThread i { t with pc := .afterApply first count false }
    | .afterApply first count failed =>
      let s := if failed then
          let s := { s with oracle := s.oracle.rollback t.req.keys (first + count - 1) }
          s.complete first .errApply
        else s
      (s.markApplied first).setThread i { t with pc := .afterMark first (if failed then .apply else .none) }
    | .afterMark first failed => s.publishTop i t first failed
    | .walFailed first => s.publishTop i t first .wal
    | .pubDequeued b first failed =>
      { (s.setThread i { t with pc := .pubVisible b first failed }) with visible := max s.visible b.last }
    | .pubVisible b first failed =>
      let s := (s.complete b.first .ok).dropBatch b.first
      s.publishTop i t first failed
    | .afterPublish first failed =>
      if failed != .none then s.finish i t .errApply (some first)
      else
        match s.completedRes first with
        | some r => s.finish i t r (some first)
        | none => s.setThread i { t with pc := .waiting first }
    | .waiting first =>
      match s.completedRes first with
      | some r => s.finish i t r (some first)
      | none => s := by
  unfold stepThread
  split
  · rename_i h; simp [hp] at h
  · split
    · rename_i h; rw [ht] at h; cases h
    · rename_i t' h; rw [ht] at h; cases h; rfl

theorem stepThread_panicked (s : PState) (i : Nat) (hp : s.panicked = true) : s.stepThread i = s := by
  unfold stepThread; simp [hp]

theorem stepThread_none (s : PState) (i : Nat) (ht : s.threads[i]? = none) : s.stepThread i = s := by
  unfold stepThread; split
  · rfl
  · simp [ht]

/-- **C05.1** the visibility horizon never moves backwards -/
theorem visible_mono_step (s : PState) (i : Nat) : s.visible ≤ (s.stepThread i).visible := by
  by_cases hp : s.panicked = true
  · rw [stepThread_panicked s i hp]; exact Nat.le_refl _
  · have hp : s.panicked = false := by simpa using hp
    cases ht : s.threads[i]? with
    | none => rw [stepThread_none s i ht]; exact Nat.le_refl _
    | some t =>
      rw [stepThread_eq s i t hp ht]
      cases hpc : t.pc with
      | ready => exact Nat.le_refl _
      | begun start => dsimp only; split <;> (try split) <;> exact Nat.le_refl _
      | havePermit start =>
        dsimp only
        split
        · simp
        · simp
        · split
          · exact Nat.le_refl _
          · split <;> simp
      | applying f c j =>
        dsimp only
        split
        · simp
        · split <;> simp
      | afterApply f c failed => dsimp only; split <;> simp
      | afterMark f k => dsimp only; rw [publishTop_visible]; exact Nat.le_refl _
      | walFailed f => dsimp only; rw [publishTop_visible]; exact Nat.le_refl _
      | pubDequeued b f k => dsimp only; exact Nat.le_max_left _ _
      | pubVisible b f k => dsimp only; rw [publishTop_visible]; simp
      | afterPublish f k =>
        dsimp only
        split
        · simp
        · split <;> simp
      | waiting f => dsimp only; split <;> simp

/-! ### the structural invariant -/

/-- the queue holds consecutive sequence ranges from `a` up to `z` -/
def QChain : Nat → List QB → Nat → Prop
  | a, [], z => a = z
  | a, b :: r, z => b.first = a ∧ 1 ≤ b.count ∧ QChain (a + b.count) r z

theorem qchain_le : ∀ (q : List QB) (a z : Nat), QChain a q z → a ≤ z := by
  intro q; induction q with
  | nil => intro a z h; simp [QChain] at h; omega
  | cons b r ih => intro a z h; obtain ⟨_, _, h3⟩ := h; have := ih _ _ h3; omega

theorem qchain_first_ge : ∀ (q : List QB) (a z : Nat), QChain a q z → ∀ qb ∈ q, a ≤ qb.first := by
  intro q; induction q with
  | nil => intro a z _ qb hq; simp at hq
  | cons b r ih =>
    intro a z h qb hq
    obtain ⟨h1, h2, h3⟩ := h
    rcases List.mem_cons.mp hq with rfl | hq
    · omega
    · have := ih _ _ h3 qb hq; omega

theorem qchain_append : ∀ (q : List QB) (a z c : Nat), QChain a q z → 1 ≤ c →
    QChain a (q ++ [(⟨z, c, false⟩ : QB)]) (z + c) := by
  intro q; induction q with
  | nil => intro a z c h hc; simp only [QChain] at h; subst h; exact ⟨rfl, hc, rfl⟩
  | cons b r ih => intro a z c h hc; obtain ⟨h1, h2, h3⟩ := h; exact ⟨h1, h2, ih _ _ _ h3 hc⟩

theorem qchain_map_applied (f : Nat) : ∀ (q : List QB) (a z : Nat), QChain a q z →
    QChain a (q.map (fun b => if b.first == f then { b with applied := true } else b)) z := by
  intro q; induction q with
  | nil => intro a z h; exact h
  | cons b r ih =>
    intro a z h
    obtain ⟨h1, h2, h3⟩ := h
    simp only [List.map_cons, QChain]
    split <;> exact ⟨h1, h2, ih _ _ h3⟩

def bmem (s : PState) (f c : Nat) : Prop := ∀ j, j < c → f + j ∈ s.mem
def inB (s : PState) (f c : Nat) : Prop := ∃ fl, (f, c, fl) ∈ s.batches
def failedB (s : PState) (f : Nat) : Prop := ∃ c, (f, c, true) ∈ s.batches

def PcOk (s : PState) : Pc → Prop
  | .applying f c j => inB s f c ∧ j < c ∧ (∀ j', j' < j → f + j' ∈ s.mem)
  | .afterApply f c failed => inB s f c ∧ (if failed then failedB s f else bmem s f c)
  | .pubDequeued b _ _ => inB s b.first b.count ∧ b.last < s.logSeq ∧ ∀ qb ∈ s.queue, b.last < qb.first
  | .pubVisible b _ _ => inB s b.first b.count ∧ b.last ≤ s.visible
  | _ => True

structure PInv (s : PState) : Prop where
  chain : ∃ a, s.visible < a ∧ QChain a s.queue s.logSeq
  bok : ∀ f c fl, (f, c, fl) ∈ s.batches → 1 ≤ c ∧ f + c ≤ s.logSeq
  bsorted : s.batches.Pairwise (fun n o => o.1 + o.2.1 ≤ n.1)
  qin : ∀ qb ∈ s.queue, inB s qb.first qb.count
  qapplied : ∀ qb ∈ s.queue, qb.applied = true → failedB s qb.first ∨ bmem s qb.first qb.count
  settled : ∀ f c fl, (f, c, fl) ∈ s.batches → (∃ qb ∈ s.queue, qb.first = f) ∨ fl = true ∨ bmem s f c
  noInside : ∀ f c fl, (f, c, fl) ∈ s.batches → s.visible < f ∨ f + c - 1 ≤ s.visible
  pcs : ∀ (i : Nat) (t : Thread), s.threads[i]? = some t → PcOk s t.pc
  compl : ∀ f, (f, CRes.ok) ∈ s.completed → ∃ c fl, (f, c, fl) ∈ s.batches ∧ f + c - 1 ≤ s.visible

/-- what may change between two states without hurting anybody's `PcOk` -/
structure Grows (s s' : PState) : Prop where
  mem : ∀ x, x ∈ s.mem → x ∈ s'.mem
  inb : ∀ f c, inB s f c → inB s' f c
  failed : ∀ f, failedB s f → failedB s' f
  vis : s.visible ≤ s'.visible
  ls : s.logSeq ≤ s'.logSeq
  q : ∀ qb' ∈ s'.queue, (∃ qb ∈ s.queue, qb.first = qb'.first) ∨ s.logSeq ≤ qb'.first

theorem grows_refl (s : PState) : Grows s s :=
  ⟨fun _ h => h, fun _ _ h => h, fun _ h => h, Nat.le_refl _, Nat.le_refl _, fun qb h => Or.inl ⟨qb, h, rfl⟩⟩

theorem pcOk_mono (s s' : PState) (g : Grows s s') (pc : Pc) (h : PcOk s pc) : PcOk s' pc := by
  cases pc with
  | applying f c j => exact ⟨g.inb _ _ h.1, h.2.1, fun j' hj => g.mem _ (h.2.2 j' hj)⟩
  | afterApply f c failed =>
    refine ⟨g.inb _ _ h.1, ?_⟩
    have h2 := h.2
    cases failed with
    | true => simp only [if_true] at h2 ⊢; exact g.failed _ h2
    | false => simp only [Bool.false_eq_true, if_false] at h2 ⊢; exact fun j hj => g.mem _ (h2 j hj)
  | pubDequeued b _ _ =>
    refine ⟨g.inb _ _ h.1, Nat.lt_of_lt_of_le h.2.1 g.ls, ?_⟩
    intro qb' hq
    rcases g.q qb' hq with ⟨qb, hqb, he⟩ | hl
    · rw [← he]; exact h.2.2 qb hqb
    · exact Nat.lt_of_lt_of_le h.2.1 hl
  | pubVisible b _ _ => exact ⟨g.inb _ _ h.1, Nat.le_trans h.2 g.vis⟩
  | _ => trivial

/-- threads after replacing thread `i`: everybody keeps `PcOk`, given it holds for the new pc -/
theorem pcs_set (s s' : PState) (i : Nat) (t' : Thread) (g : Grows s s')
    (hth : s'.threads = s.threads.set i t')
    (hold : ∀ (j : Nat) (t : Thread), s.threads[j]? = some t → PcOk s t.pc)
    (hnew : PcOk s' t'.pc) :
    ∀ (j : Nat) (t : Thread), s'.threads[j]? = some t → PcOk s' t.pc := by
  intro j t hj
  rw [hth] at hj
  by_cases hij : i = j
  · subst hij
    rw [List.getElem?_set_self'] at hj
    cases hs : s.threads[i]? with
    | none => simp [hs] at hj
    | some t0 => simp [hs] at hj; subst hj; exact hnew
  · rw [List.getElem?_set_ne hij] at hj
    exact pcOk_mono s s' g _ (hold j t hj)

theorem pcs_same (s s' : PState) (g : Grows s s') (hth : s'.threads = s.threads)
    (hold : ∀ (j : Nat) (t : Thread), s.threads[j]? = some t → PcOk s t.pc) :
    ∀ (j : Nat) (t : Thread), s'.threads[j]? = some t → PcOk s' t.pc := by
  intro j t hj; rw [hth] at hj; exact pcOk_mono s s' g _ (hold j t hj)

theorem mem_complete (s : PState) (f : Nat) (r : CRes) (x : Nat × CRes)
    (hx : x ∈ (s.complete f r).completed) : x ∈ s.completed ∨ x = (f, r) := by
  unfold complete at hx
  split at hx
  · exact Or.inl hx
  · rcases List.mem_cons.mp hx with rfl | hx
    · exact Or.inr rfl
    · exact Or.inl hx

/-- a step that leaves the core (horizon, queue, log counter, batches, memtable, completions) alone -/
theorem pinv_core_same (s s' : PState) (h : PInv s)
    (hv : s'.visible = s.visible) (hq : s'.queue = s.queue) (hl : s'.logSeq = s.logSeq)
    (hb : s'.batches = s.batches) (hm : s'.mem = s.mem) (hc : s'.completed = s.completed)
    (hp : ∀ (i : Nat) (t : Thread), s'.threads[i]? = some t → PcOk s' t.pc) : PInv s' := by
  obtain ⟨h1, h2, h3, h4, h5, h6, h7, _, h9⟩ := h
  refine ⟨?_, ?_, ?_, ?_, ?_, ?_, ?_, hp, ?_⟩
  · rw [hv, hq, hl]; exact h1
  · rw [hb, hl]; exact h2
  · rw [hb]; exact h3
  · intro qb hqb; rw [hq] at hqb; unfold inB; rw [hb]; exact h4 qb hqb
  · intro qb hqb ha; rw [hq] at hqb; unfold failedB bmem; rw [hb, hm]; exact h5 qb hqb ha
  · intro f c fl hf; rw [hb] at hf; unfold bmem; rw [hq, hm]; exact h6 f c fl hf
  · intro f c fl hf; rw [hb] at hf; rw [hv]; exact h7 f c fl hf
  · intro f hf; rw [hc] at hf; rw [hb, hv]; exact h9 f hf

theorem grows_core_same (s s' : PState) (hv : s'.visible = s.visible) (hb : s'.batches = s.batches)
    (hm : s'.mem = s.mem) (hl : s'.logSeq = s.logSeq) (hq : ∀ qb ∈ s'.queue, qb ∈ s.queue) : Grows s s' :=
  ⟨fun x h => by rw [hm]; exact h, fun f c h => by unfold inB at *; rw [hb]; exact h,
   fun f h => by unfold failedB at *; rw [hb]; exact h, by rw [hv]; exact Nat.le_refl _,
   by rw [hl]; exact Nat.le_refl _, fun qb h => Or.inl ⟨qb, hq qb h, rfl⟩⟩

/-- entries of `batches` are determined by their first sequence number -/
theorem batch_unique : ∀ (l : List (Nat × Nat × Bool)), l.Pairwise (fun n o => o.1 + o.2.1 ≤ n.1) →
    ∀ x y, x ∈ l → y ∈ l → x.1 = y.1 → 1 ≤ x.2.1 → 1 ≤ y.2.1 → x = y := by
  intro l hl
  induction l with
  | nil => intro x y hx; simp at hx
  | cons z zs ih =>
    intro x y hx hy hxy hx1 hy1
    have hz := List.pairwise_cons.mp hl
    rcases List.mem_cons.mp hx with hxz | hx
    · rcases List.mem_cons.mp hy with hyz | hy
      · rw [hxz, hyz]
      · have := hz.1 y hy; rw [hxz] at hxy; omega
    · rcases List.mem_cons.mp hy with hyz | hy
      · have := hz.1 x hx; rw [hyz] at hxy; omega
      · exact ih hz.2 x y hx hy hxy hx1 hy1

/-- finishing a call (or any pure thread update) preserves the invariant -/
theorem pinv_setThread (s : PState) (h : PInv s) (i : Nat) (t' : Thread) (hpc : PcOk s t'.pc) :
    PInv (s.setThread i t') := by
  apply pinv_core_same s (s.setThread i t') h rfl rfl rfl rfl rfl rfl
  exact pcs_set s _ i t' (grows_core_same s _ rfl rfl rfl rfl (fun _ h => h)) rfl h.pcs
    (pcOk_mono s _ (grows_core_same s _ rfl rfl rfl rfl (fun _ h => h)) _ hpc)

theorem pinv_finish (s : PState) (h : PInv s) (i : Nat) (t : Thread) (r : CRes) (fo : Option Nat := none) :
    PInv (s.finish i t r fo) := by
  apply pinv_core_same s (s.finish i t r fo) h (by simp) (by simp) (by simp) (by simp) (by simp) (by simp)
  exact pcs_set s _ i { t with pc := .ready, results := r :: t.results }
    (grows_core_same s _ (by simp) (by simp) (by simp) (by simp) (fun _ h => by simpa using h))
    (finish_threads s i t r fo) h.pcs trivial

theorem pinv_dropBatch (s : PState) (h : PInv s) (f : Nat) : PInv (s.dropBatch f) :=
  pinv_core_same s _ h (by simp) (by simp) (by simp) (by simp) (by simp) (by simp)
    (pcs_same s _ (grows_core_same s _ (by simp) (by simp) (by simp) (by simp) (fun _ h => by simpa using h))
      (by simp) h.pcs)

/-- dequeuing the applied head of the queue -/
theorem pinv_dequeue (s : PState) (h : PInv s) (b : QB) (rest : List QB) (hq : s.queue = b :: rest)
    (ha : b.applied = true) (i : Nat) (t' : Thread)
    (hpc : inB s b.first b.count → PcOk { (s.setThread i t') with queue := rest } t'.pc) :
    PInv { (s.setThread i t') with queue := rest } := by
  obtain ⟨a, hva, hch⟩ := h.chain
  rw [hq] at hch
  obtain ⟨hb1, hb2, hb3⟩ := hch
  have hbq : b ∈ s.queue := by rw [hq]; exact List.mem_cons_self ..
  have hrest : ∀ qb, qb ∈ rest → qb ∈ s.queue := fun qb hqb => by rw [hq]; exact List.mem_cons_of_mem _ hqb
  have g : Grows s { (s.setThread i t') with queue := rest } := grows_core_same s _ rfl rfl rfl rfl hrest
  refine ⟨⟨a + b.count, ?_, hb3⟩, h.bok, h.bsorted, ?_, ?_, ?_, h.noInside, ?_, h.compl⟩
  · show s.visible < a + b.count; omega
  · intro qb hqb; exact h.qin qb (hrest qb hqb)
  · intro qb hqb hap; exact h.qapplied qb (hrest qb hqb) hap
  · intro f' c' fl hf
    have hf : (f', c', fl) ∈ s.batches := hf
    show (∃ qb ∈ rest, qb.first = f') ∨ fl = true ∨ bmem s f' c'
    rcases h.settled f' c' fl hf with ⟨qb, hqb, hqf⟩ | hs
    · rw [hq] at hqb
      rcases List.mem_cons.mp hqb with rfl | hqb
      · -- the dequeued batch itself: it was applied
        right
        have hb' := h.bok f' c' fl hf
        rcases h.qapplied qb hbq ha with ⟨c2, hfail⟩ | hbm
        · left
          have hb2' := h.bok qb.first c2 true hfail
          have hsame := batch_unique _ h.bsorted (f', c', fl) (qb.first, c2, true) hf hfail hqf.symm hb'.1 hb2'.1
          exact (Prod.mk.inj (Prod.mk.inj hsame).2).2
        · right
          obtain ⟨fl2, hin⟩ := h.qin qb hbq
          have hb2' := h.bok qb.first qb.count fl2 hin
          have hsame := batch_unique _ h.bsorted (f', c', fl) (qb.first, qb.count, fl2) hf hin hqf.symm hb'.1 hb2'.1
          have hc' : c' = qb.count := (Prod.mk.inj (Prod.mk.inj hsame).2).1
          have hf' : f' = qb.first := (Prod.mk.inj hsame).1
          rw [hc', hf']; exact hbm
      · left; exact ⟨qb, hqb, hqf⟩
    · right; exact hs
  · exact pcs_set s _ i t' g rfl h.pcs (hpc (h.qin b hbq))

/-- leaving or continuing the publish loop -/
theorem pinv_publishTop (s : PState) (h : PInv s) (i : Nat) (t : Thread) (f : Nat) (k : FK) :
    PInv (s.publishTop i t f k) := by
  unfold publishTop
  dsimp only
  split
  · rename_i b rest hq
    split
    · rename_i ha
      refine pinv_dequeue s h b rest hq ha i _ (fun hin => ⟨hin, ?_, ?_⟩)
      · -- b.last < logSeq
        obtain ⟨a, _, hch⟩ := h.chain
        rw [hq] at hch
        obtain ⟨hb1, hb2, hb3⟩ := hch
        have := qchain_le _ _ _ hb3
        show b.first + b.count - 1 < s.logSeq
        omega
      · intro qb hqb
        obtain ⟨a, _, hch⟩ := h.chain
        rw [hq] at hch
        obtain ⟨hb1, hb2, hb3⟩ := hch
        have := qchain_first_ge _ _ _ hb3 qb hqb
        show b.first + b.count - 1 < qb.first
        omega
    · split
      · exact pinv_finish s h i t .errWal _
      · exact pinv_setThread s h i _ trivial
  · split
    · exact pinv_finish s h i t .errWal _
    · exact pinv_setThread s h i _ trivial

theorem batch_trichotomy : ∀ (l : List (Nat × Nat × Bool)), l.Pairwise (fun n o => o.1 + o.2.1 ≤ n.1) →
    ∀ x y, x ∈ l → y ∈ l → x = y ∨ x.1 + x.2.1 ≤ y.1 ∨ y.1 + y.2.1 ≤ x.1 := by
  intro l hl
  induction l with
  | nil => intro x y hx; simp at hx
  | cons z zs ih =>
    intro x y hx hy
    have hz := List.pairwise_cons.mp hl
    rcases List.mem_cons.mp hx with hxz | hx
    · rcases List.mem_cons.mp hy with hyz | hy
      · left; rw [hxz, hyz]
      · right; right; rw [hxz]; exact hz.1 y hy
    · rcases List.mem_cons.mp hy with hyz | hy
      · right; left; rw [hyz]; exact hz.1 x hx
      · exact ih hz.2 x y hx hy

/-- recording a non-ok completion -/
theorem pinv_complete_err (s : PState) (h : PInv s) (f : Nat) (r : CRes) (hr : r ≠ .ok) :
    PInv (s.complete f r) := by
  have g : Grows s (s.complete f r) :=
    grows_core_same s _ (by simp) (by simp) (by simp) (by simp) (by simp)
  obtain ⟨h1, h2, h3, h4, h5, h6, h7, h8, h9⟩ := h
  refine ⟨by simpa using h1, by simpa using h2, by simpa using h3, ?_, ?_, ?_, by simpa using h7,
          pcs_same s _ g (by simp) h8, ?_⟩
  · intro qb hqb; simp only [complete_queue] at hqb; unfold inB; simp only [complete_batches]; exact h4 qb hqb
  · intro qb hqb ha; simp only [complete_queue] at hqb; unfold failedB bmem
    simp only [complete_batches, complete_mem]; exact h5 qb hqb ha
  · intro f' c fl hf; simp only [complete_batches] at hf; unfold bmem
    simp only [complete_queue, complete_mem]; exact h6 f' c fl hf
  · intro f' hf
    simp only [complete_batches, complete_visible]
    rcases mem_complete s f r _ hf with hf | hf
    · exact h9 f' hf
    · exact absurd (Prod.mk.inj hf).2.symm hr

/-- recording the ok completion of a published batch -/
theorem pinv_complete_ok (s : PState) (h : PInv s) (f : Nat)
    (hf : ∃ c fl, (f, c, fl) ∈ s.batches ∧ f + c - 1 ≤ s.visible) : PInv (s.complete f .ok) := by
  have g : Grows s (s.complete f .ok) :=
    grows_core_same s _ (by simp) (by simp) (by simp) (by simp) (by simp)
  obtain ⟨h1, h2, h3, h4, h5, h6, h7, h8, h9⟩ := h
  refine ⟨by simpa using h1, by simpa using h2, by simpa using h3, ?_, ?_, ?_, by simpa using h7,
          pcs_same s _ g (by simp) h8, ?_⟩
  · intro qb hqb; simp only [complete_queue] at hqb; unfold inB; simp only [complete_batches]; exact h4 qb hqb
  · intro qb hqb ha; simp only [complete_queue] at hqb; unfold failedB bmem
    simp only [complete_batches, complete_mem]; exact h5 qb hqb ha
  · intro f' c fl hf'; simp only [complete_batches] at hf'; unfold bmem
    simp only [complete_queue, complete_mem]; exact h6 f' c fl hf'
  · intro f' hf'
    simp only [complete_batches, complete_visible]
    rcases mem_complete s f .ok _ hf' with hf' | hf'
    · exact h9 f' hf'
    · have : f' = f := (Prod.mk.inj hf').1
      rw [this]; exact hf

/-- the oracle is not part of the invariant -/
theorem pinv_setOracle (s : PState) (h : PInv s) (o : Oracle) : PInv { s with oracle := o } :=
  pinv_core_same s _ h rfl rfl rfl rfl rfl rfl
    (pcs_same s _ (grows_core_same s _ rfl rfl rfl rfl (fun _ h => h)) rfl h.pcs)

/-- flagging a batch as failed -/
theorem pinv_markFailed (s : PState) (h : PInv s) (f : Nat) : PInv (s.markFailed f) := by
  have hmem : ∀ x, x ∈ (s.markFailed f).batches → ∃ y ∈ s.batches, x.1 = y.1 ∧ x.2.1 = y.2.1 ∧ (x = y ∨ x.2.2 = true) := by
    intro x hx
    simp only [markFailed_batches, List.mem_map] at hx
    obtain ⟨y, hy, rfl⟩ := hx
    refine ⟨y, hy, ?_⟩
    split <;> simp
  have hfwd : ∀ y, y ∈ s.batches → ∃ fl, (y.1, y.2.1, fl) ∈ (s.markFailed f).batches ∧ (y.2.2 = true → fl = true) := by
    intro y hy
    simp only [markFailed_batches, List.mem_map]
    by_cases hc : y.1 = f
    · exact ⟨true, ⟨y, hy, by simp [hc]⟩, fun _ => rfl⟩
    · exact ⟨y.2.2, ⟨y, hy, by simp [hc]⟩, fun h => h⟩
  have g : Grows s (s.markFailed f) := by
    refine ⟨fun x hx => hx, ?_, ?_, Nat.le_refl _, Nat.le_refl _, fun qb hq => Or.inl ⟨qb, hq, rfl⟩⟩
    · intro f' c ⟨fl, hin⟩
      obtain ⟨fl', h1, _⟩ := hfwd _ hin
      exact ⟨fl', h1⟩
    · intro f' ⟨c, hin⟩
      obtain ⟨fl', h1, h2⟩ := hfwd _ hin
      have : fl' = true := h2 rfl
      subst this
      exact ⟨c, h1⟩
  obtain ⟨h1, h2, h3, h4, h5, h6, h7, h8, h9⟩ := h
  refine ⟨h1, ?_, ?_, ?_, ?_, ?_, ?_, pcs_same s _ g rfl h8, ?_⟩
  · intro f' c fl hf
    obtain ⟨y, hy, e1, e2, _⟩ := hmem _ hf
    have := h2 y.1 y.2.1 y.2.2 hy
    simp only at e1 e2; rw [e1, e2]; exact this
  · simp only [markFailed_batches]
    rw [List.pairwise_map]
    refine h3.imp ?_
    intro a b hab
    split <;> split <;> exact hab
  · intro qb hqb; exact g.inb _ _ (h4 qb hqb)
  · intro qb hqb ha
    rcases h5 qb hqb ha with hf | hb
    · exact Or.inl (g.failed _ hf)
    · exact Or.inr hb
  · intro f' c fl hf
    obtain ⟨y, hy, e1, e2, e3⟩ := hmem _ hf
    simp only at e1 e2
    rcases e3 with e3 | e3
    · subst e3; exact h6 _ _ _ hy
    · right; left; exact e3
  · intro f' c fl hf
    obtain ⟨y, hy, e1, e2, _⟩ := hmem _ hf
    simp only at e1 e2; rw [e1, e2]; exact h7 _ _ _ hy
  · intro f' hf
    obtain ⟨c, fl, hin, hle⟩ := h9 f' hf
    obtain ⟨fl', h1', _⟩ := hfwd _ hin
    exact ⟨c, fl', h1', hle⟩

/-- applying one more entry to the memtable -/
theorem pinv_addMem (s : PState) (h : PInv s) (x : Nat) : PInv { s with mem := x :: s.mem } := by
  have g : Grows s { s with mem := x :: s.mem } :=
    ⟨fun y hy => List.mem_cons_of_mem _ hy, fun _ _ h => h, fun _ h => h, Nat.le_refl _, Nat.le_refl _,
     fun qb hq => Or.inl ⟨qb, hq, rfl⟩⟩
  obtain ⟨h1, h2, h3, h4, h5, h6, h7, h8, h9⟩ := h
  refine ⟨h1, h2, h3, h4, ?_, ?_, h7, pcs_same s _ g rfl h8, h9⟩
  · intro qb hqb ha
    rcases h5 qb hqb ha with hf | hb
    · exact Or.inl hf
    · exact Or.inr (fun j hj => List.mem_cons_of_mem _ (hb j hj))
  · intro f c fl hf
    rcases h6 f c fl hf with hq | hfl | hb
    · exact Or.inl hq
    · exact Or.inr (Or.inl hfl)
    · exact Or.inr (Or.inr (fun j hj => List.mem_cons_of_mem _ (hb j hj)))

/-- `mark_applied` of a batch that is failed or fully in the memtable -/
theorem pinv_markApplied (s : PState) (h : PInv s) (f : Nat)
    (hf : failedB s f ∨ ∃ c, inB s f c ∧ bmem s f c) : PInv (s.markApplied f) := by
  have hqm : ∀ qb', qb' ∈ (s.markApplied f).queue → ∃ qb ∈ s.queue, qb'.first = qb.first ∧ qb'.count = qb.count ∧
      (qb' = qb ∨ qb.first = f) := by
    intro qb' hq
    simp only [markApplied_queue, List.mem_map] at hq
    obtain ⟨qb, hqb, rfl⟩ := hq
    refine ⟨qb, hqb, ?_⟩
    split
    · rename_i hc; exact ⟨rfl, rfl, Or.inr (by simpa using hc)⟩
    · exact ⟨rfl, rfl, Or.inl rfl⟩
  have g : Grows s (s.markApplied f) :=
    ⟨fun _ h => h, fun _ _ h => h, fun _ h => h, Nat.le_refl _, Nat.le_refl _,
     fun qb' hq => by obtain ⟨qb, hqb, e, _⟩ := hqm qb' hq; exact Or.inl ⟨qb, hqb, e.symm⟩⟩
  obtain ⟨h1, h2, h3, h4, h5, h6, h7, h8, h9⟩ := h
  refine ⟨?_, h2, h3, ?_, ?_, ?_, h7, pcs_same s _ g rfl h8, h9⟩
  · obtain ⟨a, ha, hch⟩ := h1
    exact ⟨a, ha, qchain_map_applied f _ _ _ hch⟩
  · intro qb' hq
    obtain ⟨qb, hqb, e1, e2, _⟩ := hqm qb' hq
    rw [e1, e2]; exact h4 qb hqb
  · intro qb' hq ha
    obtain ⟨qb, hqb, e1, e2, e3⟩ := hqm qb' hq
    rw [e1, e2]
    rcases e3 with e3 | e3
    · subst e3; exact h5 qb' hqb ha
    · rcases hf with hf | ⟨c, hin, hb⟩
      · left; rw [e3]; exact hf
      · right
        obtain ⟨fl1, hin1⟩ := hin
        obtain ⟨fl2, hin2⟩ := h4 qb hqb
        have hu := batch_unique _ h3 (f, c, fl1) (qb.first, qb.count, fl2) hin1 hin2 e3.symm
          (h2 _ _ _ hin1).1 (h2 _ _ _ hin2).1
        have hc : c = qb.count := (Prod.mk.inj (Prod.mk.inj hu).2).1
        rw [← hc, e3]; exact hb
  · intro f' c fl hf'
    rcases h6 f' c fl hf' with ⟨qb, hqb, e⟩ | hr
    · left
      simp only [markApplied_queue, List.mem_map]
      refine ⟨_, ⟨qb, hqb, rfl⟩, ?_⟩
      split <;> exact e
    · right; exact hr

/-- allocating a sequence range and enqueuing the batch -/
def enq (s : PState) (c : Nat) (o : Oracle) (ow : List Own) : PState :=
  { s with logSeq := s.logSeq + c, oracle := o,
           queue := s.queue ++ [(⟨s.logSeq, c, false⟩ : QB)],
           batches := (s.logSeq, c, false) :: s.batches, owners := ow }

theorem pinv_enqueue (s : PState) (h : PInv s) (c : Nat) (hc : 1 ≤ c) (o : Oracle) (ow : List Own) :
    PInv (enq s c o ow) := by
  have g : Grows s (enq s c o ow) := by
    refine ⟨fun _ h => h, ?_, ?_, Nat.le_refl _, Nat.le_add_right _ _, ?_⟩
    · intro f c' ⟨fl, hin⟩; exact ⟨fl, List.mem_cons_of_mem _ hin⟩
    · intro f ⟨c', hin⟩; exact ⟨c', List.mem_cons_of_mem _ hin⟩
    · intro qb' hq
      rcases List.mem_append.mp hq with hq | hq
      · exact Or.inl ⟨qb', hq, rfl⟩
      · simp at hq; subst hq; exact Or.inr (Nat.le_refl _)
  obtain ⟨h1, h2, h3, h4, h5, h6, h7, h8, h9⟩ := h
  obtain ⟨a, hva, hch⟩ := h1
  have hale := qchain_le _ _ _ hch
  refine ⟨⟨a, hva, qchain_append _ _ _ _ hch hc⟩, ?_, ?_, ?_, ?_, ?_, ?_, pcs_same s _ g rfl h8, ?_⟩
  · intro f c' fl hf
    rcases List.mem_cons.mp hf with hf | hf
    · have e1 : f = s.logSeq := (Prod.mk.inj hf).1
      have e2 : c' = c := (Prod.mk.inj (Prod.mk.inj hf).2).1
      subst e1 e2; exact ⟨hc, Nat.le_refl _⟩
    · have := h2 f c' fl hf; exact ⟨this.1, by show f + c' ≤ s.logSeq + c; omega⟩
  · refine List.pairwise_cons.mpr ⟨?_, h3⟩
    intro o' ho; exact (h2 o'.1 o'.2.1 o'.2.2 ho).2
  · intro qb hq
    rcases List.mem_append.mp hq with hq | hq
    · exact g.inb _ _ (h4 qb hq)
    · simp at hq; subst hq; exact ⟨false, List.mem_cons_self ..⟩
  · intro qb hq ha
    rcases List.mem_append.mp hq with hq | hq
    · rcases h5 qb hq ha with hf | hb
      · exact Or.inl (g.failed _ hf)
      · exact Or.inr hb
    · simp at hq; subst hq; simp at ha
  · intro f c' fl hf
    rcases List.mem_cons.mp hf with hf | hf
    · left
      have e1 : f = s.logSeq := (Prod.mk.inj hf).1
      exact ⟨⟨s.logSeq, c, false⟩, List.mem_append_right _ (List.mem_singleton.mpr rfl), e1.symm⟩
    · rcases h6 f c' fl hf with ⟨qb, hqb, e⟩ | hr
      · exact Or.inl ⟨qb, List.mem_append_left _ hqb, e⟩
      · exact Or.inr hr
  · intro f c' fl hf
    rcases List.mem_cons.mp hf with hf | hf
    · have e1 : f = s.logSeq := (Prod.mk.inj hf).1
      left; show s.visible < f; omega
    · exact h7 f c' fl hf
  · intro f hf
    obtain ⟨c', fl, hin, hle⟩ := h9 f hf
    exact ⟨c', fl, List.mem_cons_of_mem _ hin, hle⟩

/-- publishing a dequeued batch's last sequence number -/
theorem pinv_setVisible (s : PState) (h : PInv s) (b : QB) (hin : inB s b.first b.count)
    (hls : b.last < s.logSeq) (hq : ∀ qb ∈ s.queue, b.last < qb.first) :
    PInv { s with visible := max s.visible b.last } := by
  have g : Grows s { s with visible := max s.visible b.last } :=
    ⟨fun _ h => h, fun _ _ h => h, fun _ h => h, Nat.le_max_left _ _, Nat.le_refl _,
     fun qb hq => Or.inl ⟨qb, hq, rfl⟩⟩
  obtain ⟨h1, h2, h3, h4, h5, h6, h7, h8, h9⟩ := h
  obtain ⟨a, hva, hch⟩ := h1
  refine ⟨⟨a, ?_, hch⟩, h2, h3, h4, h5, h6, ?_, pcs_same s _ g rfl h8, ?_⟩
  · show max s.visible b.last < a
    have : b.last < a := by
      cases hqq : s.queue with
      | nil => rw [hqq] at hch; simp only [QChain] at hch; omega
      | cons qb r =>
        rw [hqq] at hch
        have := hq qb (by rw [hqq]; exact List.mem_cons_self ..)
        have := hch.1; omega
    omega
  · intro f c fl hf
    show max s.visible b.last < f ∨ f + c - 1 ≤ max s.visible b.last
    obtain ⟨flb, hinb⟩ := hin
    have hcb := (h2 _ _ _ hinb).1
    have hcf := (h2 _ _ _ hf).1
    have hb : b.last = b.first + b.count - 1 := rfl
    rcases h7 f c fl hf with hlt | hge
    · rcases batch_trichotomy _ h3 (f, c, fl) (b.first, b.count, flb) hf hinb with he | hle | hle
      · have e1 : f = b.first := (Prod.mk.inj he).1
        have e2 : c = b.count := (Prod.mk.inj (Prod.mk.inj he).2).1
        right; omega
      · simp only at hle; right; omega
      · simp only at hle; left; omega
    · right; omega
  · intro f hf
    obtain ⟨c, fl, hin', hle⟩ := h9 f hf
    exact ⟨c, fl, hin', Nat.le_trans hle (Nat.le_max_left _ _)⟩

theorem pinv_init (n : Nat) : PInv (PState.init n) := by
  refine ⟨⟨1, by simp [PState.init], by simp [PState.init, QChain]⟩, ?_, by simp [PState.init], ?_, ?_, ?_, ?_, ?_, ?_⟩
  · intro f c fl h; simp [PState.init] at h
  · intro qb h; simp [PState.init] at h
  · intro qb h; simp [PState.init] at h
  · intro f c fl h; simp [PState.init] at h
  · intro f c fl h; simp [PState.init] at h
  · intro i t h
    simp only [PState.init] at h
    have : t = {} := by
      rw [List.getElem?_replicate] at h
      split at h
      · exact (Option.some.inj h).symm
      · cases h
    subst this; trivial
  · intro f h; simp [PState.init] at h

theorem pinv_begin (s : PState) (h : PInv s) (i : Nat) (req : CommitReq) : PInv (s.begin i req) := by
  unfold PState.begin
  split
  · split
    · exact pinv_setThread s h i _ trivial
    · exact h
  · exact h

/-- a thread holding a permit has a non-empty batch (`commit` returns early on an empty one) -/
def ReqInv (s : PState) : Prop :=
  ∀ (i : Nat) (t : Thread), s.threads[i]? = some t → ∀ st, t.pc = .havePermit st → 1 ≤ t.req.keys.length

theorem reqInv_set (s : PState) (ths : List Thread) (i : Nat) (t' : Thread) (h : ReqInv s)
    (hth : ths = s.threads.set i t') (hnew : ∀ st, t'.pc = .havePermit st → 1 ≤ t'.req.keys.length) :
    ∀ (j : Nat) (t : Thread), ths[j]? = some t → ∀ st, t.pc = .havePermit st → 1 ≤ t.req.keys.length := by
  intro j t hj st hst
  rw [hth] at hj
  by_cases hij : i = j
  · subst hij
    rw [List.getElem?_set_self'] at hj
    cases hs : s.threads[i]? with
    | none => simp [hs] at hj
    | some t0 => simp [hs] at hj; subst hj; exact hnew st hst
  · rw [List.getElem?_set_ne hij] at hj
    exact h j t hj st hst

theorem publishTop_threads (s : PState) (i : Nat) (t : Thread) (f : Nat) (k : FK) :
    ∃ t', (s.publishTop i t f k).threads = s.threads.set i t' ∧ t'.req = t.req ∧ ∀ st, t'.pc ≠ .havePermit st := by
  unfold publishTop; dsimp only; split
  · split
    · exact ⟨_, rfl, rfl, fun st h => by cases h⟩
    · split
      · exact ⟨_, finish_threads _ _ _ _ _, rfl, fun st h => by cases h⟩
      · exact ⟨_, rfl, rfl, fun st h => by cases h⟩
  · split
    · exact ⟨_, finish_threads _ _ _ _ _, rfl, fun st h => by cases h⟩
    · exact ⟨_, rfl, rfl, fun st h => by cases h⟩

theorem reqInv_init (n : Nat) : ReqInv (PState.init n) := by
  intro i t h st hst
  simp only [PState.init] at h
  rw [List.getElem?_replicate] at h
  split at h
  · have := (Option.some.inj h).symm; subst this; cases hst
  · cases h

theorem reqInv_begin (s : PState) (h : ReqInv s) (i : Nat) (req : CommitReq) : ReqInv (s.begin i req) := by
  unfold PState.begin
  split
  · split
    · exact reqInv_set s _ i _ h rfl (fun st hst => by cases hst)
    · exact h
  · exact h

theorem reqInv_step (s : PState) (h : ReqInv s) (i : Nat) : ReqInv (s.stepThread i) := by
  by_cases hp : s.panicked = true
  · rw [stepThread_panicked s i hp]; exact h
  · have hp : s.panicked = false := by simpa using hp
    cases ht : s.threads[i]? with
    | none => rw [stepThread_none s i ht]; exact h
    | some t =>
      rw [stepThread_eq s i t hp ht]
      cases hpc : t.pc with
      | ready => exact h
      | begun start =>
        dsimp only
        split
        · exact reqInv_set s _ i _ h rfl (fun st hst => by cases hst)
        · rename_i hne
          split
          · refine reqInv_set s _ i _ h rfl (fun st _ => ?_)
            have : t.req.keys ≠ [] := by intro h0; simp [h0] at hne
            exact List.length_pos_iff.mpr this
          · exact h
      | havePermit start =>
        dsimp only
        split
        · exact reqInv_set s _ i _ h (finish_threads s i t _ _) (fun st hst => by cases hst)
        · exact reqInv_set s _ i _ h (finish_threads s i t _ _) (fun st hst => by cases hst)
        · split
          · exact h
          · split
            · exact reqInv_set s _ i _ h (by simp <;> rfl) (fun st hst => by cases hst)
            · exact reqInv_set s _ i _ h rfl (fun st hst => by cases hst)
      | applying f c j =>
        dsimp only
        split
        · exact reqInv_set s _ i _ h (by simp <;> rfl) (fun st hst => by cases hst)
        · split
          · exact reqInv_set s _ i _ h rfl (fun st hst => by cases hst)
          · exact reqInv_set s _ i _ h rfl (fun st hst => by cases hst)
      | afterApply f c failed =>
        dsimp only
        split
        · exact reqInv_set s _ i _ h (by simp <;> rfl) (fun st hst => by cases hst)
        · exact reqInv_set s _ i _ h (by simp <;> rfl) (fun st hst => by cases hst)
      | afterMark f k =>
        obtain ⟨t', hth, _, hne⟩ := publishTop_threads s i t f k
        exact reqInv_set s _ i t' h hth (fun st hst => absurd hst (hne st))
      | walFailed f =>
        obtain ⟨t', hth, _, hne⟩ := publishTop_threads s i t f .wal
        exact reqInv_set s _ i t' h hth (fun st hst => absurd hst (hne st))
      | pubDequeued b f k =>
        exact reqInv_set s _ i _ h rfl (fun st hst => by cases hst)
      | pubVisible b f k =>
        obtain ⟨t', hth, _, hne⟩ := publishTop_threads ((s.complete b.first .ok).dropBatch b.first) i t f k
        exact reqInv_set s _ i t' h (by rw [hth]; simp) (fun st hst => absurd hst (hne st))
      | afterPublish f k =>
        dsimp only
        split
        · exact reqInv_set s _ i _ h (finish_threads s i t _ _) (fun st hst => by cases hst)
        · split
          · exact reqInv_set s _ i _ h (finish_threads s i t _ _) (fun st hst => by cases hst)
          · exact reqInv_set s _ i _ h rfl (fun st hst => by cases hst)
      | waiting f =>
        dsimp only
        split
        · exact reqInv_set s _ i _ h (finish_threads s i t _ _) (fun st hst => by cases hst)
        · exact h

/-- every step of every thread preserves the invariant -/
theorem pinv_step (s : PState) (h : PInv s) (hr : ReqInv s) (i : Nat) : PInv (s.stepThread i) := by
  by_cases hp : s.panicked = true
  · rw [stepThread_panicked s i hp]; exact h
  · have hp : s.panicked = false := by simpa using hp
    cases ht : s.threads[i]? with
    | none => rw [stepThread_none s i ht]; exact h
    | some t =>
      have hpcok := h.pcs i t ht
      rw [stepThread_eq s i t hp ht]
      cases hpc : t.pc with
      | ready => exact h
      | begun start =>
        dsimp only
        split
        · exact pinv_setThread s h i _ trivial
        · split
          · exact pinv_core_same s _ h rfl rfl rfl rfl rfl rfl
              (pinv_setThread s h i { t with pc := .havePermit start } trivial).pcs
          · exact h
      | havePermit start =>
        dsimp only
        split
        · exact pinv_finish s h i t _
        · exact pinv_finish s h i t _
        · split
          · -- panic: nothing but the flag changes
            exact pinv_core_same s _ h rfl rfl rfl rfl rfl rfl
              (pcs_same s _ (grows_core_same s _ rfl rfl rfl rfl (fun _ h => h)) rfl h.pcs)
          · rename_i hcap
            -- the batch is non-empty: `begun` filters empty key lists; we only need 1 ≤ count when it matters
            have hc : 1 ≤ t.req.keys.length := hr i t ht start hpc
            · have he := pinv_enqueue s h t.req.keys.length hc
                (s.oracle.publish s.gc t.req.keys s.logSeq t.req.keys.length 0)
                (.bat s.logSeq :: s.owners.erase (.thr i))
              split
              · -- WAL failure
                have h1 := pinv_setOracle _ he
                  ((s.oracle.publish s.gc t.req.keys s.logSeq t.req.keys.length 0).rollback t.req.keys
                    (s.logSeq + t.req.keys.length - 1))
                have h2 := pinv_complete_err _ h1 s.logSeq .errWal (by decide)
                have hfail : failedB ((({ enq s t.req.keys.length
                    (s.oracle.publish s.gc t.req.keys s.logSeq t.req.keys.length 0)
                    (.bat s.logSeq :: s.owners.erase (.thr i)) with
                    oracle := (s.oracle.publish s.gc t.req.keys s.logSeq t.req.keys.length 0).rollback t.req.keys
                      (s.logSeq + t.req.keys.length - 1) } : PState).complete s.logSeq .errWal).markFailed s.logSeq)
                    s.logSeq := by
                  refine ⟨t.req.keys.length, ?_⟩
                  simp [enq]
                have h3 := pinv_markFailed _ h2 s.logSeq
                have h4 := pinv_markApplied _ h3 s.logSeq (Or.inl hfail)
                exact pinv_setThread _ h4 i _ trivial
              · refine pinv_setThread _ he i _ ⟨⟨false, List.mem_cons_self ..⟩, hc, ?_⟩
                intro j' hj'; omega
      | applying f c j =>
        rw [hpc] at hpcok
        obtain ⟨hin, hjc, hpre⟩ := hpcok
        dsimp only
        split
        · have h1 := pinv_markFailed s h f
          refine pinv_setThread _ h1 i _ ⟨?_, ?_⟩
          · obtain ⟨fl, hfl⟩ := hin
            simp only [inB, markFailed_batches, List.mem_map]
            exact ⟨true, (f, c, fl), hfl, by simp⟩
          · simp only [if_true]
            obtain ⟨fl, hfl⟩ := hin
            simp only [failedB, markFailed_batches, List.mem_map]
            exact ⟨c, (f, c, fl), hfl, by simp⟩
        · have h1 := pinv_addMem s h (f + j)
          split
          · refine pinv_setThread _ h1 i _ ⟨hin, by omega, ?_⟩
            intro j' hj'
            by_cases hjj : j' = j
            · subst hjj; exact List.mem_cons_self ..
            · exact List.mem_cons_of_mem _ (hpre j' (by omega))
          · refine pinv_setThread _ h1 i _ ⟨hin, ?_⟩
            simp only [Bool.false_eq_true, if_false]
            intro j' hj'
            by_cases hjj : j' = j
            · subst hjj; exact List.mem_cons_self ..
            · exact List.mem_cons_of_mem _ (hpre j' (by omega))
      | afterApply f c failed =>
        rw [hpc] at hpcok
        obtain ⟨hin, hst⟩ := hpcok
        dsimp only
        cases failed with
        | true =>
          simp only [if_true] at hst ⊢
          have h1 := pinv_setOracle s h (s.oracle.rollback t.req.keys (f + c - 1))
          have h2 := pinv_complete_err _ h1 f .errApply (by decide)
          have h3 := pinv_markApplied _ h2 f (Or.inl (by
            obtain ⟨c', hc'⟩ := hst
            exact ⟨c', by simpa using hc'⟩))
          exact pinv_setThread _ h3 i _ trivial
        | false =>
          simp only [Bool.false_eq_true, if_false] at hst ⊢
          have h3 := pinv_markApplied s h f (Or.inr ⟨c, hin, hst⟩)
          exact pinv_setThread _ h3 i _ trivial
      | afterMark f k => exact pinv_publishTop s h i t f k
      | walFailed f => exact pinv_publishTop s h i t f .wal
      | pubDequeued b f k =>
        rw [hpc] at hpcok
        obtain ⟨hin, hls, hq⟩ := hpcok
        dsimp only
        have h1 := pinv_setVisible s h b hin hls hq
        have h2 := pinv_setThread _ h1 i { t with pc := .pubVisible b f k }
          ⟨hin, Nat.le_max_right _ _⟩
        exact h2
      | pubVisible b f k =>
        rw [hpc] at hpcok
        obtain ⟨⟨fl, hin⟩, hle⟩ := hpcok
        dsimp only
        have h1 := pinv_complete_ok s h b.first ⟨b.count, fl, hin, hle⟩
        exact pinv_publishTop _ (pinv_dropBatch _ h1 b.first) i t f k
      | afterPublish f k =>
        dsimp only
        split
        · exact pinv_finish s h i t _ _
        · split
          · exact pinv_finish s h i t _ _
          · exact pinv_setThread s h i _ trivial
      | waiting f =>
        dsimp only
        split
        · exact pinv_finish s h i t _ _
        · exact h
