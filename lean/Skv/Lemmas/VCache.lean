import Skv.Model.VCache

/-- everything cached passed verification and is what is on disk -/
def CacheOk (raw : Nat → List Nat) (ok : Nat → Bool) (c : VCache) : Prop :=
  ∀ e ∈ c.entries, ok e.1 = true ∧ e.2 = raw e.1

theorem lookup_ok {raw ok} {c : VCache} (h : CacheOk raw ok c) {id : Nat} {v : List Nat}
    (hl : c.lookup id = some v) : ok id = true ∧ v = raw id := by
  unfold VCache.lookup at hl
  cases hf : c.entries.find? (fun e => e.1 == id) with
  | none => simp [hf] at hl
  | some e =>
    simp [hf] at hl
    have hm := List.mem_of_find?_eq_some hf
    have he : e.1 = id := by simpa using List.find?_some hf
    have := h e hm
    subst hl
    rw [← he]; exact this

theorem get_ok {raw ok} (c : VCache) (h : CacheOk raw ok c) (id : Nat) :
    CacheOk raw ok (c.get raw ok id).1 ∧ ∀ v, (c.get raw ok id).2 = some v → ok id = true ∧ v = raw id := by
  unfold VCache.get
  cases hl : c.lookup id with
  | some v =>
    simp only
    exact ⟨h, fun v' hv => by cases hv; exact lookup_ok h hl⟩
  | none =>
    simp only
    by_cases hok : ok id = true
    · rw [if_pos hok]
      refine ⟨?_, fun v hv => by cases hv; exact ⟨hok, rfl⟩⟩
      intro e he
      rcases List.mem_cons.mp he with rfl | he
      · exact ⟨hok, rfl⟩
      · exact h e he
    · rw [if_neg hok]
      exact ⟨h, fun v hv => by cases hv⟩

theorem gets_ok {raw ok} : ∀ (ids : List Nat) (c : VCache), CacheOk raw ok c →
    ∀ r ∈ VCache.gets raw ok c ids, ∀ v, r.2 = some v → ok r.1 = true ∧ v = raw r.1 := by
  intro ids
  induction ids with
  | nil => intro c _ r hr; cases hr
  | cons id ids ih =>
    intro c h r hr
    simp only [VCache.gets] at hr
    have hg := get_ok c h id
    rcases List.mem_cons.mp hr with rfl | hr
    · exact hg.2
    · exact ih _ hg.1 r hr
