import Skv.Model.Txn
import Skv.Spec.Overlay
/-!
Helper lemmas for C08: the write set simulates the frame stack (`TxInv`), preserved by every
successful operation; `get_refines`.
-/

open Txn
def entryView (e : Entry) : Option Val := if e.kind.isTomb then none else e.value
def wView (w : W) : Option Val := if w.kind.isTomb then none else w.value

/-- what a read of `k` would see if only savepoint levels `≤ d` existed -/
def viewUpTo (es : List Entry) (d : Nat) : Option (Option Val) :=
  ((es.filter (fun e => e.sp ≤ d)).getLast?).map entryView

def specUpTo (frames : List (List W)) (k : Key) : Option (Option Val) :=
  (frames.flatten.find? (fun w => w.key == k)).map wView

def entriesOf (ws : List (Key × List Entry)) (k : Key) : List Entry := (lookup ws k).getD []

/-- keys of the association list are distinct -/
def KeysNodup (ws : List (Key × List Entry)) : Prop := (ws.map (·.1)).Nodup

theorem lookup_upsert (ws : List (Key × List Entry)) (k k' : Key) (f) :
    lookup (upsert ws k f) k' = if k' = k then some (f (lookup ws k)) else lookup ws k' := by
  induction ws with
  | nil =>
    by_cases h : k' = k
    · subst h; simp [upsert, lookup]
    · have : (k == k') = false := beq_eq_false_iff_ne.mpr (Ne.symm h)
      simp [upsert, lookup, h, this]
  | cons p rest ih =>
    obtain ⟨k0, es0⟩ := p
    unfold upsert
    by_cases h0 : k0 = k
    · subst h0
      by_cases h : k' = k0
      · subst h; simp [lookup]
      · have : (k0 == k') = false := beq_eq_false_iff_ne.mpr (Ne.symm h)
        simp [lookup, h, this]
    · have hne : (k0 == k) = false := beq_eq_false_iff_ne.mpr h0
      simp only [hne, Bool.false_eq_true, if_false]
      by_cases h : k' = k
      · subst h
        have : (k0 == k') = false := hne
        simp only [lookup, List.find?_cons, this] at ih ⊢
        simpa using ih
      · by_cases h1 : k0 = k'
        · subst h1; simp [lookup, h]
        · have : (k0 == k') = false := beq_eq_false_iff_ne.mpr h1
          simp only [lookup, List.find?_cons, this, h, if_false] at ih ⊢
          simpa [h] using ih

theorem entriesOf_upsert (ws : List (Key × List Entry)) (k k' : Key) (f) :
    entriesOf (upsert ws k f) k' = if k' = k then f (lookup ws k) else entriesOf ws k' := by
  unfold entriesOf
  rw [lookup_upsert]
  split <;> simp


/-- characterisation of the replace-or-push rule: result is `pre ++ [e]` where `pre` is the old
    list, possibly without its last element, and that element (if dropped) has `sp = e.sp` -/
theorem pushRule_shape (e : Entry) (o : Option (List Entry)) :
    ∃ pre, pushRule e o = pre ++ [e] ∧
      (pre = o.getD [] ∨ ∃ l, o.getD [] = pre ++ [l] ∧ l.sp = e.sp) := by
  unfold pushRule
  cases o with
  | none => exact ⟨[], by simp, Or.inl (by simp)⟩
  | some es =>
    simp only [Option.getD_some]
    cases hl : es.getLast? with
    | none =>
      have : es = [] := by simpa using hl
      subst this
      exact ⟨[], by simp, Or.inl rfl⟩
    | some last =>
      obtain ⟨ys, rfl⟩ := List.getLast?_eq_some_iff.mp hl
      simp only
      by_cases hsp : last.sp = e.sp
      · simp only [hsp, beq_self_eq_true, if_true]
        split
        · exact ⟨ys ++ [last], by simp, Or.inl rfl⟩
        · exact ⟨ys, by simp, Or.inr ⟨last, rfl, hsp⟩⟩
      · have : (last.sp == e.sp) = false := beq_eq_false_iff_ne.mpr hsp
        simp only [this, Bool.false_eq_true, if_false]
        exact ⟨ys ++ [last], by simp, Or.inl rfl⟩

theorem pushRule_last (e : Entry) (o) : (pushRule e o).getLast? = some e := by
  obtain ⟨pre, h, _⟩ := pushRule_shape e o
  simp [h]

theorem pushRule_mem (e : Entry) (o) (x : Entry) (hx : x ∈ pushRule e o) :
    x = e ∨ x ∈ o.getD [] := by
  obtain ⟨pre, h, hp⟩ := pushRule_shape e o
  rw [h] at hx
  simp at hx
  rcases hx with hx | hx
  · right
    rcases hp with hp | ⟨l, hp, _⟩
    · simpa [hp] using hx
    · rw [hp]; simp [hx]
  · left; exact hx

theorem pushRule_filter_lt (e : Entry) (o) (d : Nat) (hd : d < e.sp) :
    (pushRule e o).filter (fun x => x.sp ≤ d) = (o.getD []).filter (fun x => x.sp ≤ d) := by
  obtain ⟨pre, h, hp⟩ := pushRule_shape e o
  have he : decide (e.sp ≤ d) = false := by simp; omega
  rcases hp with hp | ⟨l, hp, hl⟩
  · rw [h, ← hp]; simp [List.filter_append, he]
  · have hl' : decide (l.sp ≤ d) = false := by simp; omega
    rw [h, hp]; simp [List.filter_append, he, hl']

theorem pushRule_filter_ge (e : Entry) (o) (d : Nat) (hd : e.sp ≤ d)
    (hle : ∀ x ∈ o.getD [], x.sp ≤ e.sp) :
    ((pushRule e o).filter (fun x => x.sp ≤ d)).getLast? = some e := by
  have : (pushRule e o).filter (fun x => x.sp ≤ d) = pushRule e o := by
    apply List.filter_eq_self.mpr
    intro x hx
    rcases pushRule_mem e o x hx with rfl | hx
    · simpa using hd
    · have := hle x hx; simp; omega
  rw [this, pushRule_last]

theorem pushRule_sorted (e : Entry) (o)
    (hle : ∀ x ∈ o.getD [], x.sp ≤ e.sp)
    (hs : (o.getD []).Pairwise (fun a b => a.sp ≤ b.sp)) :
    (pushRule e o).Pairwise (fun a b => a.sp ≤ b.sp) := by
  obtain ⟨pre, h, hp⟩ := pushRule_shape e o
  rw [h]
  have hpre : ∀ x ∈ pre, x ∈ o.getD [] := by
    intro x hx
    rcases hp with hp | ⟨l, hp, _⟩
    · simpa [hp] using hx
    · rw [hp]; simp [hx]
  have hsp : pre.Pairwise (fun a b => a.sp ≤ b.sp) := by
    rcases hp with hp | ⟨l, hp, _⟩
    · simpa [hp] using hs
    · rw [hp] at hs; exact (List.pairwise_append.mp hs).1
  refine List.pairwise_append.mpr ⟨hsp, by simp, ?_⟩
  intro a ha b hb
  simp at hb; subst hb
  exact hle a (hpre a ha)

theorem upsert_keys_nodup (ws : List (Key × List Entry)) (k : Key) (f)
    (h : (ws.map (·.1)).Nodup) : ((upsert ws k f).map (·.1)).Nodup := by
  induction ws with
  | nil => simp [upsert]
  | cons p rest ih =>
    obtain ⟨k0, es0⟩ := p
    simp only [List.map_cons, List.nodup_cons] at h
    unfold upsert
    by_cases hk : k0 = k
    · subst hk; simp [h.1, h.2]
    · have hne : (k0 == k) = false := beq_eq_false_iff_ne.mpr hk
      simp only [hne, Bool.false_eq_true, if_false, List.map_cons, List.nodup_cons]
      refine ⟨?_, ih h.2⟩
      intro hm
      -- keys of `upsert rest k f` are keys of rest plus possibly k
      have : ∀ ws : List (Key × List Entry), ∀ x, x ∈ (upsert ws k f).map (·.1) → x = k ∨ x ∈ ws.map (·.1) := by
        intro ws
        induction ws with
        | nil => intro x hx; simp [upsert] at hx; exact Or.inl hx
        | cons q r ihr =>
          intro x hx
          unfold upsert at hx
          split at hx
          · simp at hx ⊢; rcases hx with hx | hx
            · exact Or.inr (Or.inl hx)
            · exact Or.inr (Or.inr hx)
          · simp only [List.map_cons, List.mem_cons] at hx ⊢
            rcases hx with hx | hx
            · exact Or.inr (Or.inl hx)
            · rcases ihr x hx with h1 | h1
              · exact Or.inl h1
              · exact Or.inr (Or.inr h1)
      rcases this rest k0 hm with h1 | h1
      · exact hk h1
      · exact h.1 h1

structure TxInv (t : Txn) (s : Spec) : Prop where
  nodup : (t.ws.map (·.1)).Nodup
  len : s.frames.length = t.savepoints + 1
  spLe : ∀ k e, e ∈ entriesOf t.ws k → e.sp ≤ t.savepoints
  sorted : ∀ k, (entriesOf t.ws k).Pairwise (fun a b => a.sp ≤ b.sp)
  view : ∀ j, j ≤ t.savepoints → ∀ k,
    viewUpTo (entriesOf t.ws k) (t.savepoints - j) = specUpTo (s.frames.drop j) k

theorem inv_start (m : Mode) : TxInv (Txn.start m) Spec.start := by
  refine ⟨by simp [Txn.start], rfl, ?_, ?_, ?_⟩
  · intro k e h; simp [Txn.start, entriesOf, lookup] at h
  · intro k; simp [Txn.start, entriesOf, lookup]
  · intro j hj k
    have : j = 0 := by simpa [Txn.start] using hj
    subst this
    simp [Txn.start, entriesOf, lookup, viewUpTo, specUpTo, Spec.start]

/-- a successful write preserves the invariant -/
theorem inv_write (t : Txn) (s : Spec) (h : TxInv t s) (k : Key) (v : Option Val) (kind : Kind) (ts : Nat)
    (hm : t.mode.mutable = true) (hc : t.closed = false) (hk : k.isEmpty = false) :
    TxInv (t.write k v kind ts).1 (s.write ⟨k, v, kind, ts⟩) := by
  have hw : (t.write k v kind ts).1 =
      { t with writeSeqno := t.writeSeqno + 1,
               ws := upsert t.ws k (pushRule ⟨k, v, kind, t.savepoints, t.writeSeqno + 1, ts⟩) } := by
    simp [Txn.write, hm, hc, hk]
  rw [hw]
  obtain ⟨e, he⟩ : ∃ e : Entry, e = ⟨k, v, kind, t.savepoints, t.writeSeqno + 1, ts⟩ := ⟨_, rfl⟩
  rw [← he]
  have hesp : e.sp = t.savepoints := by rw [he]
  obtain ⟨f, fs, hfr⟩ : ∃ f fs, s.frames = f :: fs := by
    cases hf : s.frames with
    | nil => have := h.len; simp [hf] at this
    | cons f fs => exact ⟨f, fs, rfl⟩
  have hsw : (s.write ⟨k, v, kind, ts⟩).frames = (⟨k, v, kind, ts⟩ :: f) :: fs := by
    simp [Spec.write, hfr]
  have hold : ∀ x ∈ (lookup t.ws k).getD [], x.sp ≤ e.sp := fun x hx => hesp ▸ h.spLe k x hx
  refine ⟨upsert_keys_nodup _ _ _ h.nodup, ?_, ?_, ?_, ?_⟩
  · simp [hsw]; have := h.len; simp [hfr] at this; exact this
  · intro k' x hx
    simp only [entriesOf_upsert] at hx
    split at hx
    · rcases pushRule_mem e _ x hx with rfl | hx
      · exact Nat.le_of_eq hesp
      · exact hesp ▸ hold x hx
    · exact h.spLe k' x hx
  · intro k'
    simp only [entriesOf_upsert]
    split
    · exact pushRule_sorted e _ hold (h.sorted k)
    · exact h.sorted k'
  · intro j hj k'
    dsimp only at hj ⊢
    simp only [entriesOf_upsert]
    by_cases hkk : k' = k
    · subst hkk
      simp only [if_true]
      by_cases hj0 : j = 0
      · subst hj0
        simp only [Nat.sub_zero, List.drop_zero, hsw]
        unfold viewUpTo specUpTo
        rw [pushRule_filter_ge e _ _ (Nat.le_of_eq hesp) hold]
        simp [entryView, wView, he]
      · have hlt : t.savepoints - j < e.sp := by rw [hesp]; omega
        unfold viewUpTo
        rw [pushRule_filter_lt e _ _ hlt]
        have := h.view j hj k'
        unfold viewUpTo entriesOf at this
        rw [this]
        obtain ⟨j', rfl⟩ : ∃ j', j = j' + 1 := ⟨j - 1, by omega⟩
        simp [hsw, hfr]
    · simp only [hkk, if_false]
      have := h.view j hj k'
      rw [this]
      by_cases hj0 : j = 0
      · subst hj0
        have hne : (k == k') = false := beq_eq_false_iff_ne.mpr (Ne.symm hkk)
        simp [specUpTo, hsw, hfr, hne]
      · obtain ⟨j', rfl⟩ : ∃ j', j = j' + 1 := ⟨j - 1, by omega⟩
        simp [hsw, hfr]

theorem inv_setSavepoint (t : Txn) (s : Spec) (h : TxInv t s)
    (hm : t.mode.mutable = true) (hc : t.closed = false) :
    TxInv (t.setSavepoint).1 s.setSavepoint := by
  have hw : (t.setSavepoint).1 = { t with savepoints := t.savepoints + 1 } := by
    simp [Txn.setSavepoint, hm, hc]
  rw [hw]
  refine ⟨h.nodup, ?_, ?_, ?_, ?_⟩
  · simp [Spec.setSavepoint, h.len]
  · intro k e he; exact Nat.le_succ_of_le (h.spLe k e he)
  · exact h.sorted
  · intro j hj k
    dsimp only at hj ⊢
    by_cases hj0 : j = 0
    · subst hj0
      -- nothing has sp = savepoints+1 yet, so the view equals the view at `savepoints`
      have hfil : (entriesOf t.ws k).filter (fun e => e.sp ≤ t.savepoints + 1 - 0)
          = (entriesOf t.ws k).filter (fun e => e.sp ≤ t.savepoints - 0) := by
        apply List.filter_congr
        intro e he
        have := h.spLe k e he
        simp; omega
      have := h.view 0 (Nat.zero_le _) k
      unfold viewUpTo at this ⊢
      rw [hfil, this]
      simp [Spec.setSavepoint, specUpTo]
    · obtain ⟨j', rfl⟩ : ∃ j', j = j' + 1 := ⟨j - 1, by omega⟩
      have := h.view j' (by omega) k
      have he : t.savepoints + 1 - (j' + 1) = t.savepoints - j' := by omega
      rw [he, this]
      simp [Spec.setSavepoint]


/-- lookup of a key not bound in the list -/
theorem lookup_none_of_not_mem (ws : List (Key × List Entry)) (k : Key)
    (h : k ∉ ws.map (·.1)) : lookup ws k = none := by
  induction ws with
  | nil => simp [lookup]
  | cons p rest ih =>
    simp only [List.map_cons, List.mem_cons, not_or] at h
    have hne : (p.1 == k) = false := beq_eq_false_iff_ne.mpr (Ne.symm h.1)
    have := ih h.2
    simp only [lookup, List.find?_cons, hne] at this ⊢
    exact this

def rb (n : Nat) (ws : List (Key × List Entry)) : List (Key × List Entry) :=
  (ws.map (fun (p : Key × List Entry) => (p.1, p.2.filter (fun e => e.sp != n)))).filter
    (fun p => !p.2.isEmpty)

theorem rb_keys_subset (n : Nat) (ws : List (Key × List Entry)) (k : Key)
    (h : k ∈ (rb n ws).map (·.1)) : k ∈ ws.map (·.1) := by
  unfold rb at h
  simp only [List.mem_map, List.mem_filter] at h ⊢
  obtain ⟨p, ⟨⟨q, hq, rfl⟩, _⟩, rfl⟩ := h
  exact ⟨q, hq, rfl⟩

/-- entries of a key after rollback_to_savepoint (keys of the association list distinct) -/
theorem entriesOf_rb (ws : List (Key × List Entry)) (n : Nat) (k : Key)
    (hnd : (ws.map (·.1)).Nodup) :
    entriesOf (rb n ws) k = (entriesOf ws k).filter (fun e => e.sp != n) := by
  induction ws with
  | nil => simp [rb, entriesOf, lookup]
  | cons p rest ih =>
    obtain ⟨k0, es0⟩ := p
    simp only [List.map_cons, List.nodup_cons] at hnd
    have ih := ih hnd.2
    have hrb : rb n ((k0, es0) :: rest) =
        if (es0.filter (fun e => e.sp != n)).isEmpty then rb n rest
        else (k0, es0.filter (fun e => e.sp != n)) :: rb n rest := by
      simp only [rb, List.map_cons, List.filter_cons]
      split <;> simp_all
    rw [hrb]
    by_cases hk : k0 = k
    · subst hk
      have hnone : lookup (rb n rest) k0 = none :=
        lookup_none_of_not_mem _ _ (fun hm => hnd.1 (rb_keys_subset n rest k0 hm))
      by_cases hem : (es0.filter (fun e => e.sp != n)).isEmpty = true
      · simp only [hem, if_true]
        have : es0.filter (fun e => e.sp != n) = [] := by simpa using hem
        have h2 : entriesOf (rb n rest) k0 = [] := by simp [entriesOf, hnone]
        rw [h2]; simp [entriesOf, lookup, this]
      · simp [hem, entriesOf, lookup]
    · have hne : (k0 == k) = false := beq_eq_false_iff_ne.mpr hk
      by_cases hem : (es0.filter (fun e => e.sp != n)).isEmpty = true
      · simp only [hem, if_true]
        rw [ih]; simp [entriesOf, lookup, hne]
      · simp only [hem, Bool.false_eq_true, if_false]
        simp only [entriesOf, lookup, List.find?_cons, hne] at ih ⊢
        exact ih


theorem inv_rollbackToSavepoint (t : Txn) (s : Spec) (h : TxInv t s)
    (hm : t.mode.mutable = true) (hc : t.closed = false) (hsp : 0 < t.savepoints) :
    ∃ s', s.rollbackToSavepoint = some s' ∧ TxInv (t.rollbackToSavepoint).1 s' := by
  have hw : (t.rollbackToSavepoint).1 =
      { t with ws := rb t.savepoints t.ws, savepoints := t.savepoints - 1 } := by
    have : (t.savepoints == 0) = false := beq_eq_false_iff_ne.mpr (by omega)
    simp [Txn.rollbackToSavepoint, hm, hc, this, rb]
  obtain ⟨f0, f1, fs, hfr⟩ : ∃ f0 f1 fs, s.frames = f0 :: f1 :: fs := by
    have := h.len
    match hf : s.frames, this with
    | [], hl => simp at hl
    | [_], hl => simp at hl; omega
    | f0 :: f1 :: fs, _ => exact ⟨f0, f1, fs, rfl⟩
  refine ⟨⟨f1 :: fs⟩, by simp [Spec.rollbackToSavepoint, hfr], ?_⟩
  rw [hw]
  have hnd' : ((rb t.savepoints t.ws).map (·.1)).Nodup := by
    have hsub : List.Sublist ((rb t.savepoints t.ws).map (·.1)) (t.ws.map (·.1)) := by
      unfold rb
      have h1 : (t.ws.map (fun (p : Key × List Entry) => (p.1, p.2.filter (fun e => e.sp != t.savepoints)))).map (·.1)
          = t.ws.map (·.1) := by simp [List.map_map, Function.comp_def]
      rw [← h1]
      exact (List.filter_sublist).map _
    exact hsub.nodup h.nodup
  refine ⟨hnd', ?_, ?_, ?_, ?_⟩
  · have := h.len; simp [hfr] at this ⊢; omega
  · intro k e he
    dsimp only at he ⊢
    rw [entriesOf_rb _ _ _ h.nodup] at he
    simp only [List.mem_filter] at he
    have h1 := h.spLe k e he.1
    have h2 : e.sp ≠ t.savepoints := by simpa using he.2
    omega
  · intro k
    dsimp only
    rw [entriesOf_rb _ _ _ h.nodup]
    exact (h.sorted k).sublist List.filter_sublist
  · intro j hj k
    dsimp only at hj ⊢
    rw [entriesOf_rb _ _ _ h.nodup]
    have hv := h.view (j + 1) (by omega) k
    have hd : t.savepoints - (j + 1) = t.savepoints - 1 - j := by omega
    rw [hd] at hv
    unfold viewUpTo at hv ⊢
    have hfil : ((entriesOf t.ws k).filter (fun e => e.sp != t.savepoints)).filter
          (fun e => e.sp ≤ t.savepoints - 1 - j)
        = (entriesOf t.ws k).filter (fun e => e.sp ≤ t.savepoints - 1 - j) := by
      rw [List.filter_filter]
      apply List.filter_congr
      intro e _
      by_cases hle : e.sp ≤ t.savepoints - 1 - j
      · have : e.sp ≠ t.savepoints := by omega
        simp [hle, this]
      · simp [hle]
    rw [hfil, hv]
    simp [hfr]

/-- read-your-writes: the write-set part of `get` equals the spec's view of the pending log -/
theorem get_refines (t : Txn) (s : Spec) (h : TxInv t s) (k : Key)
    (hc : t.closed = false) (hk : k.isEmpty = false) (hm : t.mode ≠ .writeOnly) :
    t.get k = .ok (s.get k) := by
  have hv := h.view 0 (Nat.zero_le _) k
  simp only [Nat.sub_zero, List.drop_zero] at hv
  have hall : (entriesOf t.ws k).filter (fun e => e.sp ≤ t.savepoints) = entriesOf t.ws k := by
    apply List.filter_eq_self.mpr
    intro e he; simpa using h.spLe k e he
  unfold viewUpTo at hv
  rw [hall] at hv
  have hmo : (t.mode == Mode.writeOnly) = false := beq_eq_false_iff_ne.mpr hm
  unfold Txn.get
  simp only [hc, hk, hmo, Bool.false_eq_true, if_false]
  have hlk : (lookup t.ws k).bind (·.getLast?) = (entriesOf t.ws k).getLast? := by
    unfold entriesOf; cases lookup t.ws k <;> simp
  rw [hlk]
  unfold Spec.get Spec.log
  unfold specUpTo at hv
  cases hl : (entriesOf t.ws k).getLast? with
  | none =>
    rw [hl] at hv
    cases hf : List.find? (fun w => w.key == k) s.frames.flatten with
    | none => simp
    | some w => rw [hf] at hv; simp at hv
  | some e =>
    rw [hl] at hv
    cases hf : List.find? (fun w => w.key == k) s.frames.flatten with
    | none => rw [hf] at hv; simp at hv
    | some w =>
      rw [hf] at hv
      simp only [Option.map_some, Option.some.injEq] at hv
      unfold entryView wView at hv
      by_cases h1 : e.kind.isTomb = true <;> by_cases h2 : w.kind.isTomb = true <;> simp_all

