import Skv.Model.Arena

theorem node_le_max (c : ArenaCfg) (h : Nat) (hh : h ≤ c.maxH) : c.node h ≤ c.nodeMax := by
  unfold ArenaCfg.node ArenaCfg.nodeMax
  have : (h - 1) * c.link ≤ (c.maxH - 1) * c.link := Nat.mul_le_mul_right _ (by omega)
  omega

theorem min_le_node (c : ArenaCfg) (h : Nat) : c.nodeMin ≤ c.node h := by
  unfold ArenaCfg.node; omega

theorem arenaSizeFor_mono (c : ArenaCfg) : ∀ (ds : List Nat) (u : Nat), u ≤ arenaSizeFor c u ds := by
  intro ds
  induction ds with
  | nil => intro u; exact Nat.le_refl _
  | cons d rest ih => intro u; simp only [arenaSizeFor]; have := ih (u + c.nodeMax + d + 7); omega

theorem arenaSizeFor_le (c : ArenaCfg) : ∀ (ds : List Nat) (u v : Nat), u ≤ v → arenaSizeFor c u ds ≤ arenaSizeFor c v ds := by
  intro ds
  induction ds with
  | nil => intro u v h; exact h
  | cons d rest ih => intro u v h; simp only [arenaSizeFor]; exact ih _ _ (by omega)

/-- **a memtable sized by `arena_size_for` takes the batch whatever heights are drawn** -/
theorem addAll_sized (c : ArenaCfg) : ∀ (es : List (Nat × Nat)) (n cap : Nat),
    (∀ e ∈ es, e.2 ≤ c.maxH) → arenaSizeFor c n (es.map (·.1)) ≤ cap → (addAll c cap n es).isSome = true := by
  intro es
  induction es with
  | nil => intro n cap _ _; rfl
  | cons e rest ih =>
    intro n cap hh hcap
    obtain ⟨data, h⟩ := e
    simp only [List.map_cons, arenaSizeFor] at hcap
    have hm := arenaSizeFor_mono c (rest.map (·.1)) (n + c.nodeMax + data + 7)
    simp only [addAll]
    rw [if_pos (by omega)]
    apply ih _ _ (fun e he => hh e (List.mem_cons_of_mem _ he))
    have hn := node_le_max c h (hh (data, h) List.mem_cons_self)
    have := arenaSizeFor_le c (rest.map (·.1)) (n + c.node h + data + 7) (n + c.nodeMax + data + 7) (by omega)
    omega

/-- the bump pointer after the entries, with towers of height one, is at most what any other heights give -/
theorem addAll_refused (c : ArenaCfg) : ∀ (es : List (Nat × Nat)) (n u cap : Nat), u ≤ n →
    fitsEmpty c cap u (es.map (·.1)) = false → addAll c cap n es = none := by
  intro es
  induction es with
  | nil => intro n u cap _ h; simp [fitsEmpty] at h
  | cons e rest ih =>
    intro n u cap hun hf
    obtain ⟨data, h⟩ := e
    simp only [List.map_cons, fitsEmpty, Bool.and_eq_false_iff, decide_eq_false_iff_not] at hf
    simp only [addAll]
    by_cases hfit : n + c.nodeMax + data + 7 ≤ cap
    · rw [if_pos hfit]
      rcases hf with hf | hf
      · omega
      · exact ih _ _ cap (by have := min_le_node c h; omega) hf
    · rw [if_neg hfit]

/-- and what the check admits does fit when every tower has height one -/
theorem addAll_admitted (c : ArenaCfg) : ∀ (ds : List Nat) (n cap : Nat),
    fitsEmpty c cap n ds = true → (addAll c cap n (ds.map (fun d => (d, 1)))).isSome = true := by
  intro ds
  induction ds with
  | nil => intro n cap _; rfl
  | cons d rest ih =>
    intro n cap hf
    simp only [fitsEmpty, Bool.and_eq_true, decide_eq_true_eq] at hf
    simp only [List.map_cons, addAll]
    rw [if_pos hf.1]
    have : c.node 1 = c.nodeMin := by simp [ArenaCfg.node]
    rw [this]
    exact ih _ cap hf.2
