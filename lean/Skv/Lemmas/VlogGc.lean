import Skv.Model.VlogGc

theorem foldl_min_le_init (l : List Nat) (a : Nat) : l.foldl min a ≤ a := by
  induction l generalizing a with
  | nil => exact Nat.le_refl _
  | cons x xs ih => exact Nat.le_trans (ih (min a x)) (Nat.min_le_left a x)

theorem foldl_min_le_mem (l : List Nat) (a x : Nat) (hx : x ∈ l) : l.foldl min a ≤ x := by
  induction l generalizing a with
  | nil => cases hx
  | cons y ys ih =>
    rcases List.mem_cons.mp hx with h | h
    · subst h; exact Nat.le_trans (foldl_min_le_init ys (min a x)) (Nat.min_le_right a x)
    · exact ih (min a y) h

theorem foldl_min_pos (l : List Nat) (a : Nat) (ha : 0 < a) (hl : ∀ x ∈ l, 0 < x) : 0 < l.foldl min a := by
  induction l generalizing a with
  | nil => exact ha
  | cons y ys ih =>
    apply ih
    · have := hl y List.mem_cons_self
      omega
    · exact fun x hx => hl x (List.mem_cons_of_mem _ hx)

/-- the recorded oldest id is at or below every pointer of the table, and set when file ids are positive -/
theorem tabOldest_le (ptrs : List Nat) (p : Nat) (hp : p ∈ ptrs) : tabOldest ptrs ≤ p := by
  cases ptrs with
  | nil => cases hp
  | cons x xs =>
    rcases List.mem_cons.mp hp with h | h
    · subst h; exact foldl_min_le_init xs p
    · exact foldl_min_le_mem xs x p h

theorem tabOldest_pos (ptrs : List Nat) (hne : ptrs ≠ []) (hpos : ∀ p ∈ ptrs, 0 < p) : 0 < tabOldest ptrs := by
  cases ptrs with
  | nil => exact absurd rfl hne
  | cons x xs => exact foldl_min_pos xs x (hpos x List.mem_cons_self) (fun y hy => hpos y (List.mem_cons_of_mem _ hy))

/-- the manifest minimum is at or below the oldest id of every table that has one -/
theorem minOldest_le (ts : List VTab) (t : VTab) (ht : t ∈ ts) (hpos : 0 < t.oldest) : minOldest ts ≤ t.oldest := by
  unfold minOldest
  have hm : t.oldest ∈ (ts.map (·.oldest)).filter (· > 0) := by
    simp only [List.mem_filter, List.mem_map, decide_eq_true_eq]
    exact ⟨⟨t, ht, rfl⟩, hpos⟩
  cases hl : (ts.map (·.oldest)).filter (· > 0) with
  | nil => rw [hl] at hm; cases hm
  | cons x xs =>
    rw [hl] at hm
    simp only
    rcases List.mem_cons.mp hm with h | h
    · rw [h]; exact foldl_min_le_init xs x
    · exact foldl_min_le_mem xs x _ h

/-- **clean-up never removes a file a live table leads to** -/
theorem cleanup_inv (s : VS) (h : s.inv) : s.cleanup.inv := by
  intro t ht p hp
  obtain ⟨h1, h2, h3⟩ := h t ht p hp
  refine ⟨?_, h2, h3⟩
  unfold VS.cleanup
  simp only [List.mem_filter, Bool.not_eq_true', Bool.and_eq_false_iff, decide_eq_false_iff_not]
  refine ⟨h1, Or.inl ?_⟩
  have := minOldest_le s.tables t ht h2
  omega

theorem addTable_inv (s : VS) (h : s.inv) (id : Nat) (ptrs : List Nat)
    (hex : ∀ p ∈ ptrs, p ∈ s.files) (hpos : ∀ p ∈ ptrs, 0 < p) : (s.addTable id ptrs).inv := by
  intro t ht p hp
  rcases List.mem_cons.mp ht with h1 | h1
  · subst h1
    have hne : ptrs ≠ [] := by intro hn; rw [hn] at hp; cases hp
    exact ⟨hex p hp, tabOldest_pos ptrs hne hpos, tabOldest_le ptrs p hp⟩
  · exact h t h1 p hp

theorem dropTables_inv (s : VS) (h : s.inv) (ids : List Nat) : (s.dropTables ids).inv := by
  intro t ht p hp
  exact h t (List.mem_filter.mp ht).1 p hp

theorem newFile_inv (s : VS) (h : s.inv) (f : Nat) : (s.newFile f).inv := by
  intro t ht p hp
  obtain ⟨h1, h2, h3⟩ := h t ht p hp
  exact ⟨List.mem_cons_of_mem _ h1, h2, h3⟩

/-- witness (the seeded change: oldest = FIRST pointer seen instead of the minimum): a compaction
output whose first pointer is the newest file records a too high id, and the clean-up removes a
file the table still leads to -/
theorem first_pointer_is_not_oldest :
    let s : VS := { files := [1, 2, 3], active := 3,
                    tables := [{ id := 9, ptrs := [3, 1], oldest := 3 }] }   -- 3 = first pointer, not min
    (1 : Nat) ∉ s.cleanup.files := by decide

/-! ### compaction in progress -/

theorem act2_inv (x : VS2) (h : x.s.inv) (a : VAct2)
    (hok : ∀ id ptrs, a = .flush id ptrs → (∀ p ∈ ptrs, p ∈ x.s.files) ∧ (∀ p ∈ ptrs, 0 < p)) :
    (x.act false a).s.inv := by
  cases a with
  | newFile f => exact newFile_inv x.s h f
  | flush id ptrs => exact addTable_inv x.s h id ptrs (hok id ptrs rfl).1 (hok id ptrs rfl).2
  | cleanup => simpa [VS2.act] using cleanup_inv x.s h
  | hide ids => exact h
  | finish newId =>
    simp only [VS2.act]
    apply dropTables_inv
    apply addTable_inv x.s h
    · intro p hp
      obtain ⟨t, ht, hpt⟩ := List.mem_flatMap.mp hp
      exact (h t (List.mem_filter.mp ht).1 p hpt).1
    · intro p hp
      obtain ⟨t, ht, hpt⟩ := List.mem_flatMap.mp hp
      have := h t (List.mem_filter.mp ht).1 p hpt
      omega
