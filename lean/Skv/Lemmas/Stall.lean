import Skv.Model.Stall

structure SInv (s : SState) : Prop where
  regLe : ∀ i g, s.phase i = .registered g → g ≤ s.gen
  decLe : ∀ i g, s.phase i = .decided g → g ≤ s.gen
  dec : ∀ i g, s.phase i = .decided g → g < s.gen ∨ 0 < s.owed ∨ (s.stalled = true ∧ s.shutdown = false)
  noPark : ∀ i g, s.phase i ≠ .parked g

theorem sinv_init : SInv {} := by
  refine ⟨?_, ?_, ?_, ?_⟩ <;> intro i g h <;> cases h

@[simp] theorem SState.setPhase_same (s : SState) (i : Nat) (p : WPhase) : (s.setPhase i p).phase i = p := by
  simp [SState.setPhase]

theorem SState.setPhase_other (s : SState) (i j : Nat) (p : WPhase) (h : j ≠ i) :
    (s.setPhase i p).phase j = s.phase j := by
  simp [SState.setPhase, h]

/-- the invariant survives setting one committer's phase, when the new phase meets its clauses -/
theorem sinv_setPhase {s : SState} (h : SInv s) (i : Nat) (p : WPhase)
    (h1 : ∀ g, p = .registered g → g ≤ s.gen)
    (h2 : ∀ g, p = .decided g → g ≤ s.gen ∧ (g < s.gen ∨ 0 < s.owed ∨ (s.stalled = true ∧ s.shutdown = false)))
    (h3 : ∀ g, p ≠ .parked g) : SInv (s.setPhase i p) := by
  refine ⟨?_, ?_, ?_, ?_⟩
  · intro j g hj
    by_cases hji : j = i
    · subst hji; rw [SState.setPhase_same] at hj; exact h1 g hj
    · rw [SState.setPhase_other _ _ _ _ hji] at hj; exact h.regLe j g hj
  · intro j g hj
    by_cases hji : j = i
    · subst hji; rw [SState.setPhase_same] at hj; exact (h2 g hj).1
    · rw [SState.setPhase_other _ _ _ _ hji] at hj; exact h.decLe j g hj
  · intro j g hj
    by_cases hji : j = i
    · subst hji; rw [SState.setPhase_same] at hj; exact (h2 g hj).2
    · rw [SState.setPhase_other _ _ _ _ hji] at hj; exact h.dec j g hj
  · intro j g hj
    by_cases hji : j = i
    · subst hji; rw [SState.setPhase_same] at hj; exact h3 g hj
    · rw [SState.setPhase_other _ _ _ _ hji] at hj; exact h.noPark j g hj

theorem sinv_step (s : SState) (op : SOp) (h : SInv s) : SInv (s.step op) := by
  cases op with
  | register i =>
    simp only [SState.step]
    split
    · exact sinv_setPhase h i _ (fun g hg => by cases hg; exact Nat.le_refl _) (fun g hg => by cases hg)
        (fun g hg => by cases hg)
    · exact h
  | read i =>
    simp only [SState.step]
    split
    · rename_i g hp
      split
      · exact sinv_setPhase h i _ (fun g hg => by cases hg) (fun g hg => by cases hg) (fun g hg => by cases hg)
      · split
        · exact sinv_setPhase h i _ (fun g hg => by cases hg) (fun g hg => by cases hg) (fun g hg => by cases hg)
        · rename_i hsd hst
          refine sinv_setPhase h i _ (fun g hg => by cases hg) ?_ (fun g hg => by cases hg)
          intro g' hg'
          cases hg'
          refine ⟨h.regLe i g hp, Or.inr (Or.inr ⟨?_, ?_⟩)⟩
          · cases hs : s.stalled with
            | true => rfl
            | false => simp [hs] at hst
          · cases hs : s.shutdown with
            | true => simp [hs] at hsd
            | false => rfl
    · exact h
  | await i =>
    simp only [SState.step]
    split
    · split
      · exact sinv_setPhase h i _ (fun g hg => by cases hg) (fun g hg => by cases hg) (fun g hg => by cases hg)
      · exact h
    · exact h
  | stall =>
    refine ⟨h.regLe, h.decLe, ?_, h.noPark⟩
    intro i g hp
    rcases h.dec i g hp with h1 | h1 | h1
    · exact Or.inl h1
    · exact Or.inr (Or.inl h1)
    · exact Or.inr (Or.inr ⟨rfl, h1.2⟩)
  | clear =>
    refine ⟨h.regLe, h.decLe, ?_, h.noPark⟩
    intro i g hp
    exact Or.inr (Or.inl (Nat.succ_pos _))
  | signal =>
    refine ⟨?_, ?_, ?_, h.noPark⟩
    · intro i g hp; exact Nat.le_succ_of_le (h.regLe i g hp)
    · intro i g hp; exact Nat.le_succ_of_le (h.decLe i g hp)
    · intro i g hp; exact Or.inl (Nat.lt_succ_of_le (h.decLe i g hp))
  | shutdown =>
    refine ⟨h.regLe, h.decLe, ?_, h.noPark⟩
    intro i g hp
    exact Or.inr (Or.inl (Nat.succ_pos _))

theorem sinv_run (ops : List SOp) (s : SState) (h : SInv s) : SInv (s.run ops) := by
  induction ops generalizing s with
  | nil => exact h
  | cons op ops ih => exact ih _ (sinv_step s op h)

@[simp] theorem SState.setPhase_shutdown (s : SState) (i : Nat) (p : WPhase) : (s.setPhase i p).shutdown = s.shutdown := rfl
@[simp] theorem SState.setPhase_stalled (s : SState) (i : Nat) (p : WPhase) : (s.setPhase i p).stalled = s.stalled := rfl
@[simp] theorem SState.setPhase_gen (s : SState) (i : Nat) (p : WPhase) : (s.setPhase i p).gen = s.gen := rfl
@[simp] theorem SState.setPhase_owed (s : SState) (i : Nat) (p : WPhase) : (s.setPhase i p).owed = s.owed := rfl

theorem SState.await_of_lt (s : SState) (i g : Nat) (hp : s.phase i = .decided g) (hlt : g < s.gen) :
    (s.step (.await i)).phase i = .idle := by
  simp only [SState.step, hp]
  rw [if_pos hlt]
  simp
