import Skv.Model.BtOverflow

theorem get_alloc_self (st : ChainStore) (b : List Nat) : (st.alloc b).1.get (st.alloc b).2 = some b := by
  simp [ChainStore.alloc, ChainStore.get]

/-- a consistent slot survives write + reload: the page decodes to the key -/
theorem decode_prepare (loc : Nat) (st : ChainStore) (s : Slot) (h : slotConsistent loc st s) :
    decodeSlot loc (prepareSlot loc st s).1 (prepareSlot loc st s).2 = some s.key := by
  unfold prepareSlot decodeSlot
  by_cases hn : needsOvf loc s.key = true
  · simp only [hn, if_true]
    cases ho : s.ovf with
    | some c =>
      simp only [ho]
      unfold slotConsistent at h
      rw [ho] at h
      simp [hn, h.2, List.take_append_drop]
    | none =>
      simp only
      simp [hn, ChainStore.alloc, ChainStore.get, List.take_append_drop]
  · have hn' : needsOvf loc s.key = false := by simpa using hn
    simp [hn']

/-- the slot written by `prepareSlot` is consistent again, whatever it was before, provided a recorded
chain was consistent -/
theorem prepare_consistent (loc : Nat) (st : ChainStore) (s : Slot) (h : slotConsistent loc st s) :
    slotConsistent loc (prepareSlot loc st s).1 (prepareSlot loc st s).2 := by
  unfold prepareSlot
  by_cases hn : needsOvf loc s.key = true
  · simp only [hn, if_true]
    cases ho : s.ovf with
    | some c => simp only; exact h
    | none =>
      simp only [slotConsistent, ChainStore.alloc]
      exact ⟨hn, by simp [ChainStore.get]⟩
  · have hn' : needsOvf loc s.key = false := by simpa using hn
    simp [hn', slotConsistent]

/-- **the repaired replacement keeps the invariant** for any new key -/
theorem replaceSeparator_consistent (loc : Nat) (st : ChainStore) (s : Slot) (k : List Nat) :
    slotConsistent loc (replaceSeparator st s k).1 (replaceSeparator st s k).2 := by
  unfold replaceSeparator
  cases s.ovf <;> simp [slotConsistent]

/-- and frees exactly the chain of the old key -/
theorem replaceSeparator_frees (st : ChainStore) (s : Slot) (k : List Nat) (c : Nat) (h : s.ovf = some c) :
    (replaceSeparator st s k).1.get c = none := by
  unfold replaceSeparator
  rw [h]
  simp only [ChainStore.free, ChainStore.get]
  rw [List.find?_eq_none.mpr]
  · rfl
  · intro e he
    have := (List.mem_filter.mp he).2
    simpa using this

/-- witness of the defect: before the repair, replacing a long separator by another long one and
writing the node makes the page decode to a different key (old tail reused) -/
theorem old_replacement_corrupts :
    let loc := 2
    let st0 : ChainStore := {}
    let (st1, s1) := prepareSlot loc st0 { key := [1, 2, 3, 4, 5], ovf := none }
    let (st2, s2) := replaceSeparatorOld st1 s1 [7, 8, 9]
    let (st3, s3) := prepareSlot loc st2 s2
    decodeSlot loc st1 s1 = some [1, 2, 3, 4, 5] ∧ decodeSlot loc st3 s3 = some [7, 8, 3, 4, 5] := by decide

/-- and replacing it by a short one drops the pointer without freeing the chain (leak) -/
theorem old_replacement_leaks :
    let loc := 2
    let st0 : ChainStore := {}
    let (st1, s1) := prepareSlot loc st0 { key := [1, 2, 3, 4, 5], ovf := none }
    let (st2, s2) := replaceSeparatorOld st1 s1 [7]
    let (st3, s3) := prepareSlot loc st2 s2
    s3.ovf = none ∧ st3.chains.length = 1 := by decide
