import Skv.Model.BtOverflow

theorem get_alloc_self (st : ChainStore) (b : List Nat) : (st.alloc b).1.get (st.alloc b).2 = some b := by
  simp [ChainStore.alloc, ChainStore.get]

/-- a consistent slot survives write + reload: the page decodes to the key -/
theorem decode_prepare (loc : Nat) (st : ChainStore) (s : Slot) (h : slotConsistent loc st s) :
    decodeSlot loc (prepareSlot loc st s).1 (prepareSlot loc st s).2 = some s.key := by
  unfold prepareSlot decodeSlot
  by_cases hn : needsOvf loc s.key = true
  · simp only [hn, if_true]
    cases ho : s.ovf with
    | some c =>
      simp only [ho]
      unfold slotConsistent at h
      rw [ho] at h
      simp [hn, h.2, List.take_append_drop]
    | none =>
      simp only
      simp [hn, ChainStore.alloc, ChainStore.get, List.take_append_drop]
  · have hn' : needsOvf loc s.key = false := by simpa using hn
    simp [hn']

/-- the slot written by `prepareSlot` is consistent again, whatever it was before, provided a recorded
chain was consistent -/
theorem prepare_consistent (loc : Nat) (st : ChainStore) (s : Slot) (h : slotConsistent loc st s) :
    slotConsistent loc (prepareSlot loc st s).1 (prepareSlot loc st s).2 := by
  unfold prepareSlot
  by_cases hn : needsOvf loc s.key = true
  · simp only [hn, if_true]
    cases ho : s.ovf with
    | some c => simp only; exact h
    | none =>
      simp only [slotConsistent, ChainStore.alloc]
      exact ⟨hn, by simp [ChainStore.get]⟩
  · have hn' : needsOvf loc s.key = false := by simpa using hn
    simp [hn', slotConsistent]

/-- **the repaired replacement keeps the invariant** for any new key -/
theorem replaceSeparator_consistent (loc : Nat) (st : ChainStore) (s : Slot) (k : List Nat) :
    slotConsistent loc (replaceSeparator st s k).1 (replaceSeparator st s k).2 := by
  unfold replaceSeparator
  cases s.ovf <;> simp [slotConsistent]

/-- and frees exactly the chain of the old key -/
theorem replaceSeparator_frees (st : ChainStore) (s : Slot) (k : List Nat) (c : Nat) (h : s.ovf = some c) :
    (replaceSeparator st s k).1.get c = none := by
  unfold replaceSeparator
  rw [h]
  simp only [ChainStore.free, ChainStore.get]
  rw [List.find?_eq_none.mpr]
  · rfl
  · intro e he
    have := (List.mem_filter.mp he).2
    simpa using this

/-- witness of the defect: before the repair, replacing a long separator by another long one and
writing the node makes the page decode to a different key (old tail reused) -/
theorem old_replacement_corrupts :
    let loc := 2
    let st0 : ChainStore := {}
    let (st1, s1) := prepareSlot loc st0 { key := [1, 2, 3, 4, 5], ovf := none }
    let (st2, s2) := replaceSeparatorOld st1 s1 [7, 8, 9]
    let (st3, s3) := prepareSlot loc st2 s2
    decodeSlot loc st1 s1 = some [1, 2, 3, 4, 5] ∧ decodeSlot loc st3 s3 = some [7, 8, 3, 4, 5] := by decide

/-- and replacing it by a short one drops the pointer without freeing the chain (leak) -/
theorem old_replacement_leaks :
    let loc := 2
    let st0 : ChainStore := {}
    let (st1, s1) := prepareSlot loc st0 { key := [1, 2, 3, 4, 5], ovf := none }
    let (st2, s2) := replaceSeparatorOld st1 s1 [7]
    let (st3, s3) := prepareSlot loc st2 s2
    s3.ovf = none ∧ st3.chains.length = 1 := by decide

/-! ### ownership across internal rebalancing -/

theorem rotRight_slots (t t' : Trio) (h : rotRight t = some t') : t'.slots = t.slots := by
  obtain ⟨l, p, r⟩ := t
  unfold rotRight at h
  simp only at h
  cases hl : l.getLast? with
  | none => rw [hl] at h; cases h
  | some x =>
    rw [hl] at h
    cases h
    simp only [Trio.slots]
    have : l = l.dropLast ++ [x] := by
      have hne : l ≠ [] := by intro h0; subst h0; simp at hl
      rw [List.getLast?_eq_some_getLast hne] at hl
      cases hl
      exact (List.dropLast_concat_getLast hne).symm
    conv => rhs; rw [this]
    simp

theorem rotLeft_slots (t t' : Trio) (h : rotLeft t = some t') : t'.slots = t.slots := by
  obtain ⟨l, p, r⟩ := t
  unfold rotLeft at h
  simp only at h
  cases r with
  | nil => cases h
  | cons x rs => cases h; simp [Trio.slots]

theorem get_free_ne (st : ChainStore) (c d : Nat) (h : d ≠ c) : (st.free c).get d = st.get d := by
  simp only [ChainStore.free, ChainStore.get]
  congr 1
  induction st.chains with
  | nil => rfl
  | cons p ps ih =>
    simp only [List.filter_cons, List.find?_cons]
    by_cases hp : p.1 = c
    · have hd : p.1 ≠ d := by omega
      have h1 : (p.1 != c) = false := by simp [hp]
      have h2 : (p.1 == d) = false := by simp [hd]
      rw [h1, h2]
      simpa using ih
    · have h1 : (p.1 != c) = true := by simp [hp]
      rw [h1]
      simp only [if_true, List.find?_cons]
      cases (p.1 == d)
      · simpa using ih
      · rfl

/-- **leaf merge**: dropping the separator and freeing its chain keeps every other slot intact, leaves
no chain with two owners and leaks nothing -/
theorem dropSeparator_owned (loc : Nat) (st : ChainStore) (before after : List Slot) (sep : Slot)
    (h : Owned loc st (before ++ sep :: after)) : Owned loc (dropSeparator st sep) (before ++ after) := by
  obtain ⟨hc, hn, hl⟩ := h
  have hmem : ∀ s ∈ before ++ after, s ∈ before ++ sep :: after := by
    intro s hs
    rcases List.mem_append.mp hs with h1 | h1
    · exact List.mem_append_left _ h1
    · exact List.mem_append_right _ (List.mem_cons_of_mem _ h1)
  cases ho : sep.ovf with
  | none =>
    have hfm : (before ++ sep :: after).filterMap (·.ovf) = (before ++ after).filterMap (·.ovf) := by
      simp [List.filterMap_append, ho]
    simp only [dropSeparator, ho]
    exact ⟨fun s hs => hc s (hmem s hs), hfm ▸ hn, fun p hp => hfm ▸ hl p hp⟩
  | some c =>
    have hfm : (before ++ sep :: after).filterMap (·.ovf) =
        before.filterMap (·.ovf) ++ c :: after.filterMap (·.ovf) := by
      simp [List.filterMap_append, ho]
    rw [hfm] at hn hl
    have hn' := List.nodup_append.mp hn
    have hcnot : c ∉ (before ++ after).filterMap (·.ovf) := by
      intro hin
      rw [List.filterMap_append] at hin
      rcases List.mem_append.mp hin with h1 | h1
      · exact hn'.2.2 c h1 c List.mem_cons_self rfl
      · exact (List.nodup_cons.mp hn'.2.1).1 h1
    simp only [dropSeparator, ho]
    refine ⟨?_, ?_, ?_⟩
    · intro s hs
      have h1 := hc s (hmem s hs)
      unfold slotConsistent at h1 ⊢
      cases hso : s.ovf with
      | none => trivial
      | some d =>
        rw [hso] at h1
        have hdc : d ≠ c := by
          intro hdc; subst hdc
          exact hcnot (List.mem_filterMap.mpr ⟨s, hs, hso⟩)
        simp only
        exact ⟨h1.1, by rw [get_free_ne _ _ _ hdc]; exact h1.2⟩
    · rw [List.filterMap_append]
      refine List.nodup_append.mpr ⟨hn'.1, (List.nodup_cons.mp hn'.2.1).2, ?_⟩
      intro a ha b hb
      exact hn'.2.2 a ha b (List.mem_cons_of_mem _ hb)
    · intro p hp
      simp only [ChainStore.free] at hp
      have hp' := List.mem_filter.mp hp
      have hne : p.1 ≠ c := by simpa using hp'.2
      have := hl p hp'.1
      rw [List.filterMap_append]
      rcases List.mem_append.mp this with h1 | h1
      · exact List.mem_append_left _ h1
      · rcases List.mem_cons.mp h1 with h2 | h2
        · exact absurd h2 hne
        · exact List.mem_append_right _ h2

/-- witness for the seeded change: routing the rotation's parent update through `replace_separator`
frees the chain that moved down with the old separator — the right child's first slot no longer
decodes — and the chain that came up is dropped from the parent slot -/
theorem rotRightBad_breaks :
    let loc := 2
    let st0 : ChainStore := {}
    let (st1, a) := prepareSlot loc st0 { key := [1, 1, 1, 1], ovf := none }   -- left's last key
    let (st2, p) := prepareSlot loc st1 { key := [5, 5, 5, 5], ovf := none }   -- the separator
    let r := rotRightBad st2 ([a], p, [])
    decodeSlot loc st2 p = some [5, 5, 5, 5] ∧
      r.map (fun x => x.2.2.2.head?.bind (decodeSlot loc x.1)) = some none ∧
      r.map (fun x => x.2.2.1.ovf) = some none ∧ r.map (fun x => x.1.chains.length) = some 1 := by decide
