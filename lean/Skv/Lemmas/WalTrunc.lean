import Skv.Lemmas.Wal
/-!
Reading a prefix of what the writer produced (a log cut by a crash at any byte): the reader returns
a prefix of the records written, never another record and never a later one (C12, used by C02/C03).
Everything here holds for any reader fuel: running out of fuel ends the output, it never adds to it.
-/

/-- `s` is a prefix of `A ++ Z` and shorter than `A`: it is a prefix of `A` -/
theorem prefix_short {α : Type} (s A Z t : List α) (h : s ++ t = A ++ Z) (hl : s.length < A.length) :
    s = A.take s.length := by
  have := congrArg (List.take s.length) h
  rw [List.take_left' rfl, List.take_append_of_le_length (Nat.le_of_lt hl)] at this
  exact this

/-- `s` is a prefix of `A ++ Z` and at least as long as `A`: it starts with `A`, the rest is a prefix of `Z` -/
theorem prefix_long {α : Type} (s A Z t : List α) (h : s ++ t = A ++ Z) (hl : A.length ≤ s.length) :
    ∃ s2, s = A ++ s2 ∧ s2 ++ t = Z := by
  refine ⟨s.drop A.length, ?_, ?_⟩
  · have h1 := congrArg (List.take A.length) h
    rw [List.take_append_of_le_length hl, List.take_left' rfl] at h1
    conv => lhs; rw [← List.take_append_drop A.length s]
    rw [h1]
  · have h2 := congrArg (List.drop A.length) h
    rw [List.drop_append_of_le_length hl, List.drop_left' rfl] at h2
    exact h2

/-- fewer than a header's worth of bytes, all inside the current block: nothing is returned -/
theorem read_short (P : Params) (rf : Nat) (s acc : Bytes) (k idx : Nat) (hs : s.length < 7) (hk : s.length ≤ k) :
    (readGo P rf s k idx acc false).1 = [] := by
  cases rf with
  | zero => rfl
  | succ rf =>
    rw [readGo]
    have h1 : min k s.length < 7 := by omega
    simp only [h1, if_true, hk]
    split <;> rfl

/-- a fragment whose data is cut short: the reader reports corruption, nothing is returned -/
theorem read_cut_frag (P : Params) (rf : Nat) (ty : UInt8) (d acc : Bytes) (k idx j : Nat)
    (hj7 : 7 ≤ j) (hj : j < 7 + d.length) (hk : 7 + d.length ≤ k) (hd : d.length < 65536)
    (hty : ty = tyFull ∨ ty = tyFirst ∨ ty = tyMiddle ∨ ty = tyLast)
    (hidx : (ty = tyFull ∨ ty = tyFirst) ↔ idx = 0) :
    (readGo P rf ((phys P ty d).take j) k idx acc false).1 = [] := by
  cases rf with
  | zero => rfl
  | succ rf =>
    obtain ⟨c0, c1, c2, c3, hc⟩ := list_len4 (P.crc ty d) (P.crc_len ty d)
    have hbe : be16 d.length = [UInt8.ofNat (d.length / 256), UInt8.ofNat (d.length % 256)] := rfl
    have hs : (phys P ty d).take j =
        c0 :: c1 :: c2 :: c3 :: UInt8.ofNat (d.length / 256) :: UInt8.ofNat (d.length % 256) :: ty :: d.take (j - 7) := by
      obtain ⟨j', rfl⟩ : ∃ j', j = j' + 7 := ⟨j - 7, by omega⟩
      simp [phys, hc, hbe]
    have hlen : ((phys P ty d).take j).length = j := by
      simp [List.length_take, phys_length]; omega
    rw [readGo]
    have hrem : ¬ (min k ((phys P ty d).take j).length < 7) := by rw [hlen]; omega
    simp only [hrem, if_false]
    have htake4 : ((phys P ty d).take j).take 4 = P.crc ty d := by rw [hs, hc]; rfl
    have hdrop4 : de16 (((phys P ty d).take j).drop 4) = d.length := by
      rw [hs]; simp only [List.drop_succ_cons, List.drop_zero]
      have := de16_be16 d.length hd
      rw [hbe] at this
      simpa [de16] using this
    have hget6 : ((phys P ty d).take j).getD 6 0 = ty := by rw [hs]; rfl
    rw [htake4, hdrop4, hget6]
    have hty0 : (ty == 0) = false := by
      rcases hty with h | h | h | h <;> subst h <;> decide
    have hty9 : (ty == tySetCompression) = false := by
      rcases hty with h | h | h | h <;> subst h <;> decide
    simp only [hty0, hty9, Bool.false_eq_true, if_false]
    have hvalid : (ty != tyFull && ty != tyFirst && ty != tyMiddle && ty != tyLast) = false := by
      rcases hty with h | h | h | h <;> subst h <;> decide
    simp only [hvalid, Bool.false_eq_true, if_false]
    have hseq : (if (ty == tyFull || ty == tyFirst) = true then idx != 0 else idx == 0) = false := by
      by_cases h0 : idx = 0
      · have := hidx.mpr h0
        rcases this with h | h <;> subst h <;> simp [h0] <;> decide
      · have hn : ¬ (ty = tyFull ∨ ty = tyFirst) := fun h => h0 (hidx.mp h)
        have h1 : (ty == tyFull) = false := by simpa using fun h => hn (Or.inl h)
        have h2 : (ty == tyFirst) = false := by simpa using fun h => hn (Or.inr h)
        simp [h1, h2, h0]
    simp only [hseq, Bool.false_eq_true, if_false]
    have hlen2 : d.length > min k ((phys P ty d).take j).length - 7 := by rw [hlen]; omega
    simp only [hlen2, if_true]

/-- across the padding the writer puts before a fragment when fewer than 7 bytes are left in the block -/
theorem read_pad_prefix (P : Params) (rf : Nat) (s t F acc : Bytes) (off idx : Nat) (hoff : off ≤ P.B)
    (h : s ++ t = List.replicate (padLen P off) (0 : UInt8) ++ F) :
    (readGo P rf s (P.B - off) idx acc false).1 = [] ∨
    ∃ s1 rf1, s1 ++ t = F ∧
      readGo P rf s (P.B - off) idx acc false = readGo P rf1 s1 (P.B - normOff P off) idx acc false := by
  by_cases hp : P.B - off < 7
  · have h1 : padLen P off = P.B - off := by simp [padLen, hp]
    have h2 : normOff P off = 0 := by simp [normOff, hp]
    rw [h1] at h
    rw [h2]
    by_cases hl : s.length ≤ P.B - off
    · exact Or.inl (read_short P rf s acc _ idx (by omega) hl)
    · obtain ⟨s1, hs, hs1⟩ := prefix_long s (List.replicate (P.B - off) (0 : UInt8)) F t h (by simp; omega)
      have hne : s1 ≠ [] := by
        intro he; subst he
        have := congrArg List.length hs
        simp at this; omega
      cases rf with
      | zero => exact Or.inl rfl
      | succ rf =>
        right
        refine ⟨s1, rf, hs1, ?_⟩
        rw [hs]
        have := read_pad P rf (P.B - off) s1 acc idx hp hne
        simpa using this
  · have h1 : padLen P off = 0 := by simp [padLen, hp]
    have h2 : normOff P off = off := by simp [normOff, hp]
    rw [h1] at h
    exact Or.inr ⟨s, rf, by simpa using h, by rw [h2]⟩

/-- one fragment (whole, or cut anywhere) at the head of the stream -/
theorem read_frag_prefix (P : Params) (rf : Nat) (ty : UInt8) (d acc Z s t : Bytes) (k idx : Nat)
    (hk : 7 + d.length ≤ k) (hd : d.length < 65536)
    (hty : ty = tyFull ∨ ty = tyFirst ∨ ty = tyMiddle ∨ ty = tyLast)
    (hidx : (ty = tyFull ∨ ty = tyFirst) ↔ idx = 0)
    (h : s ++ t = phys P ty d ++ Z) :
    (readGo P rf s k idx acc false).1 = [] ∨
    ∃ s2 rf', s2 ++ t = Z ∧
      readGo P rf s k idx acc false =
        if ty = tyLast ∨ ty = tyFull then
          (let r := readGo P rf' s2 (k - (7 + d.length)) 0 [] false; ((acc ++ d) :: r.1, r.2))
        else readGo P rf' s2 (k - (7 + d.length)) (idx + 1) (acc ++ d) false := by
  by_cases hl : s.length < (phys P ty d).length
  · left
    have hs := prefix_short s (phys P ty d) Z t h hl
    rw [phys_length] at hl
    by_cases h7 : s.length < 7
    · exact read_short P rf s acc k idx h7 (by omega)
    · rw [hs]
      exact read_cut_frag P rf ty d acc k idx s.length (by omega) hl hk hd hty hidx
  · obtain ⟨s2, hs, hs2⟩ := prefix_long s (phys P ty d) Z t h (by omega)
    cases rf with
    | zero => exact Or.inl rfl
    | succ rf =>
      right
      refine ⟨s2, rf, hs2, ?_⟩
      rw [hs]
      exact read_frag P rf ty d s2 acc k idx hk hd hty hidx

/-- **one record, cut anywhere or whole**: the reader returns nothing, or this record followed by what it
reads from the rest -/
theorem read_record_prefix (P : Params) (fuelW : Nat) :
    ∀ (off : Nat) (begin : Bool) (d acc Z s t : Bytes) (idx rf : Nat),
    off ≤ P.B → d.length + (if P.B - normOff P off - 7 = 0 then 1 else 0) < fuelW → (begin = true ↔ idx = 0) →
    s ++ t = (addGo P fuelW off begin d).1 ++ Z →
    (readGo P rf s (P.B - off) idx acc false).1 = [] ∨
    ∃ s' rf', s' ++ t = Z ∧
      readGo P rf s (P.B - off) idx acc false =
        (let r := readGo P rf' s' (P.B - (addGo P fuelW off begin d).2) 0 [] false; ((acc ++ d) :: r.1, r.2)) := by
  induction fuelW with
  | zero => intro off begin d acc Z s t idx rf _ hd; omega
  | succ f ih =>
    intro off begin d acc Z s t idx rf hoff hd hbi h
    rw [addGo] at h ⊢
    have hle := fragLen_le P off d hoff
    have hlt := fragLen_lt P off d
    by_cases hfl : fragLen P off d = d.length
    · -- the last (or only) fragment
      have hb : (fragLen P off d == d.length) = true := by simpa using hfl
      simp only [hb, if_true] at h ⊢
      rw [hfl] at hle hlt
      rw [List.append_assoc] at h
      rcases read_pad_prefix P rf s t _ acc off idx hoff h with hnil | ⟨s1, rf1, hs1, heq⟩
      · exact Or.inl hnil
      · rw [heq]
        have hk : 7 + d.length ≤ P.B - normOff P off := by omega
        rcases read_frag_prefix P rf1 (fragTy begin true) d acc Z s1 t _ idx hk hlt (fragTy_cases _ _)
            ((fragTy_begin _ _).trans hbi) hs1 with hnil | ⟨s2, rf', hs2, heq2⟩
        · exact Or.inl hnil
        · right
          have hend : fragTy begin true = tyLast ∨ fragTy begin true = tyFull := (fragTy_end _ _).mpr rfl
          rw [if_pos hend] at heq2
          refine ⟨s2, rf', hs2, ?_⟩
          rw [heq2]
          have : P.B - normOff P off - (7 + d.length) = P.B - (normOff P off + 7 + d.length) := by omega
          rw [this]
    · have hb : (fragLen P off d == d.length) = false := by simpa using hfl
      simp only [hb, Bool.false_eq_true, if_false] at h ⊢
      have hll := fragLen_le_len P off d
      have htl : (d.take (fragLen P off d)).length = fragLen P off d := by
        simp [List.length_take]; omega
      rw [List.append_assoc, List.append_assoc] at h
      rcases read_pad_prefix P rf s t _ acc off idx hoff h with hnil | ⟨s1, rf1, hs1, heq⟩
      · exact Or.inl hnil
      · rw [heq]
        have hk : 7 + (d.take (fragLen P off d)).length ≤ P.B - normOff P off := by rw [htl]; omega
        rcases read_frag_prefix P rf1 (fragTy begin false) (d.take (fragLen P off d)) acc _ s1 t _ idx hk
            (by rw [htl]; exact hlt) (fragTy_cases _ _) ((fragTy_begin _ _).trans hbi) hs1 with hnil | ⟨s2, rf', hs2, heq2⟩
        · exact Or.inl hnil
        · have hnot : ¬ (fragTy begin false = tyLast ∨ fragTy begin false = tyFull) := by
            intro hh; have := (fragTy_end _ _).mp hh; simp at this
          rw [if_neg hnot, htl] at heq2
          rw [heq2]
          have hB := P.hB
          have hfull : fragLen P off d = P.B - normOff P off - 7 := by
            unfold fragLen at hfl ⊢; omega
          have hoff' : normOff P off + 7 + fragLen P off d = P.B := by
            have := normOff_le P off hoff; omega
          have hn0 : normOff P (normOff P off + 7 + fragLen P off d) = 0 := by
            rw [hoff']; simp [normOff]
          have hdl : (d.drop (fragLen P off d)).length +
              (if P.B - normOff P (normOff P off + 7 + fragLen P off d) - 7 = 0 then 1 else 0) < f := by
            rw [hn0]
            have h0 : ¬ (P.B - 0 - 7 = 0) := by omega
            simp only [h0, if_false, List.length_drop]
            by_cases hz : P.B - normOff P off - 7 = 0
            · simp only [hz, if_true] at hd; omega
            · simp only [hz, if_false] at hd; omega
          have hkk : P.B - normOff P off - (7 + fragLen P off d) = P.B - (normOff P off + 7 + fragLen P off d) := by omega
          rw [hkk]
          rcases ih (normOff P off + 7 + fragLen P off d) false (d.drop (fragLen P off d))
              (acc ++ d.take (fragLen P off d)) Z s2 t (idx + 1) rf' hle hdl (by simp) hs2 with hnil | ⟨s', rf'', hs', heq3⟩
          · exact Or.inl hnil
          · right
            refine ⟨s', rf'', hs', ?_⟩
            rw [heq3]
            simp [List.append_assoc, List.take_append_drop]

/-- **any prefix of the stream the writer produced reads as a prefix of the records written** -/
theorem read_stream_prefix (P : Params) (rs : List Bytes) : ∀ (off : Nat) (s t : Bytes) (rf : Nat),
    off ≤ P.B → s ++ t = (writeAll P off rs).1 → (readGo P rf s (P.B - off) 0 [] false).1 <+: rs := by
  induction rs with
  | nil =>
    intro off s t rf _ h
    have hs : s = [] := by
      simp only [writeAll] at h
      exact (List.append_eq_nil_iff.mp h).1
    subst hs
    rw [read_short P rf [] [] _ 0 (by simp) (by simp)]
    exact List.nil_prefix
  | cons r rs ih =>
    intro off s t rf hoff h
    rw [writeAll] at h
    unfold addRecord at h
    rcases read_record_prefix P (r.length + 2) off true r [] _ s t 0 rf hoff (by split <;> omega) (by simp) h
      with hnil | ⟨s', rf', hs', heq⟩
    · rw [hnil]; exact List.nil_prefix
    · rw [heq]
      simp only [List.nil_append]
      have := ih (addGo P (r.length + 2) off true r).2 s' t rf' (addGo_off_le P _ _ _ _ hoff) hs'
      exact List.cons_prefix_cons.mpr ⟨rfl, this⟩

theorem wal_truncation_prefix (P : Params) (rs : List Bytes) (n : Nat) :
    (readAll P ((writeAll P 0 rs).1.take n)).1 <+: rs := by
  unfold readAll
  have := read_stream_prefix P rs 0 ((writeAll P 0 rs).1.take n) ((writeAll P 0 rs).1.drop n)
    (((writeAll P 0 rs).1.take n).length + 2) (Nat.zero_le _) (List.take_append_drop n _)
  simpa using this

/-- whatever follows a run of complete records in the file — a damaged record, arbitrary bytes, nothing —
the complete records are read back first, in order -/
theorem wal_records_before_damage (P : Params) (rs : List Bytes) (junk : Bytes) :
    rs <+: (readAll P ((writeAll P 0 rs).1 ++ junk)).1 := by
  unfold readAll
  have hc := costAll_le P rs 0
  have hfuel : ((writeAll P 0 rs).1 ++ junk).length + 2 =
      costAll P 0 rs + (((writeAll P 0 rs).1 ++ junk).length + 2 - costAll P 0 rs) := by
    simp only [List.length_append]; omega
  rw [hfuel]
  have h := read_writeAll P rs 0 junk (((writeAll P 0 rs).1 ++ junk).length + 2 - costAll P 0 rs) (Nat.zero_le _)
  simp only [Nat.sub_zero] at h
  rw [h]
  exact List.prefix_append _ _
