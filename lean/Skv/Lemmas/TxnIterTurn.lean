import Skv.Lemmas.TxnIterBwd

/-! direction changes of the transaction range cursor (`turnFwd` / `turnBwd`, the prologues of
`next` / `prev` added by the `fix:` commit), and `seek_last` -/

theorem BSplit_next_F {key : α → Nat} {xs : List α} {Y : Nat} {l : List α} {x : α} {r : List α}
    (hs : SortedBy key xs) (h : BSplit key xs Y (some (l, x, r))) :
    FSplit key xs Y (Cur.next ⟨xs, some (l, x, r)⟩).pos := by
  obtain ⟨hxs, hr, hx⟩ := h
  obtain ⟨h1, h2, _, _⟩ := sorted_split hs hxs
  cases r with
  | nil =>
    simp only [Cur.next, FSplit]
    intro a ha
    rw [hxs] at ha
    simp at ha
    rcases ha with ha | ha
    · have := h1 a ha; omega
    · subst ha; exact hx
  | cons y r' =>
    simp only [Cur.next, FSplit]
    refine ⟨by rw [hxs]; simp, ?_, hr y (by simp)⟩
    intro a ha
    simp at ha
    rcases ha with ha | ha
    · subst ha; exact hx
    · have := h1 a ha; omega

theorem FSplit_prev_B {key : α → Nat} {xs : List α} {X : Nat} {l : List α} {x : α} {r : List α}
    (hs : SortedBy key xs) (h : FSplit key xs X (some (l, x, r))) :
    BSplit key xs X (Cur.prev ⟨xs, some (l, x, r)⟩).pos := by
  obtain ⟨hxs, hl, hx⟩ := h
  obtain ⟨h1, h2, _, _⟩ := sorted_split hs hxs
  cases l with
  | nil =>
    simp only [Cur.prev, BSplit]
    intro a ha
    rw [hxs] at ha
    simp at ha
    rcases ha with ha | ha
    · subst ha; exact hx
    · have := h2 a ha; omega
  | cons y l' =>
    simp only [Cur.prev, BSplit]
    refine ⟨by rw [hxs]; simp, ?_, hl y (by simp)⟩
    intro a ha
    simp at ha
    rcases ha with ha | ha
    · subst ha; exact hx
    · have := h2 a ha; omega

theorem BSplit_none_first {key : α → Nat} {xs : List α} {Y : Nat} (p0 : Option (List α × α × List α))
    (h : BSplit key xs Y none) : FSplit key xs Y (Cur.first ⟨xs, p0⟩).pos := by
  cases xs with
  | nil => intro a ha; cases ha
  | cons x r =>
    refine ⟨rfl, ?_, h x (by simp)⟩
    intro a ha; cases ha

theorem lastGo_spec {α : Type} : ∀ (r l : List α) (x : α),
    ∃ l' z, Cur.lastGo l x r = (l', z, []) ∧ l'.reverse ++ [z] = l.reverse ++ x :: r := by
  intro r
  induction r with
  | nil => intro l x; exact ⟨l, x, rfl, rfl⟩
  | cons y r ih =>
    intro l x
    obtain ⟨l', z, h1, h2⟩ := ih (x :: l) y
    exact ⟨l', z, by simp only [Cur.lastGo]; exact h1, by rw [h2]; simp⟩

theorem FSplit_none_last {key : α → Nat} {xs : List α} {X : Nat} (p0 : Option (List α × α × List α))
    (h : FSplit key xs X none) : BSplit key xs X (Cur.last ⟨xs, p0⟩).pos := by
  cases xs with
  | nil => intro a ha; cases ha
  | cons x r =>
    obtain ⟨l', z, h1, h2⟩ := lastGo_spec r [] x
    simp only [Cur.last, h1]
    refine ⟨by simpa using h2.symm, ?_, ?_⟩
    · intro a ha; cases ha
    · apply h z
      have : z ∈ l'.reverse ++ [z] := by simp
      rw [h2] at this
      simpa using this

theorem Cur.first_xs (c : Cur α) : c.first.xs = c.xs := rfl
theorem Cur.last_xs (c : Cur α) : c.last.xs = c.xs := rfl

theorem FSplit_cur_ge {key : α → Nat} {xs : List α} {X : Nat} {c : Cur α} {b : α}
    (h : FSplit key xs X c.pos) (hb : c.cur? = some b) : X ≤ key b := by
  cases hp : c.pos with
  | none => simp [Cur.cur?, hp] at hb
  | some z =>
    obtain ⟨l, x, r⟩ := z
    rw [hp] at h
    simp [Cur.cur?, hp] at hb
    subst hb; exact h.2.2

theorem BSplit_cur_lt {key : α → Nat} {xs : List α} {Y : Nat} {c : Cur α} {b : α}
    (h : BSplit key xs Y c.pos) (hb : c.cur? = some b) : key b < Y := by
  cases hp : c.pos with
  | none => simp [Cur.cur?, hp] at hb
  | some z =>
    obtain ⟨l, x, r⟩ := z
    rw [hp] at h
    simp [Cur.cur?, hp] at hb
    subst hb; exact h.2.2

theorem eqCheck_noop (t : TI) (h : ∀ a b, t.snap.cur? = some a → t.ws.cur? = some b → a ≠ b.1) :
    t.eqCheck = t := by
  obtain ⟨⟨sxs, spos⟩, ⟨wxs, wpos⟩, eq, cur, dir⟩ := t
  cases spos with
  | none => simp [TI.eqCheck, Cur.valid]
  | some sz =>
    cases wpos with
    | none => simp [TI.eqCheck, Cur.valid]
    | some wz =>
      obtain ⟨sl, x, sr⟩ := sz
      obtain ⟨wl, e, wr⟩ := wz
      have := h x e (by simp [Cur.cur?]) (by simp [Cur.cur?])
      simp [TI.eqCheck, Cur.valid, TI.snapKey, TI.wsKey, Cur.cur?, this]

/-- **turning forward**: after a backward move onto `K`, the prologue of `next` leaves the cursor ready
for the forward step from `K` -/
theorem turnFwd_spec (S : List Nat) (W : List (Nat × Bool)) (hS : SortedBy id S) (hW : SortedBy Prod.fst W)
    (t : TI) (K : Nat) (h : BwdState S W t K) : MidFwd S W t.turnFwd K := by
  obtain ⟨⟨sxs, spos⟩, ⟨wxs, wpos⟩, eq, cur, dir⟩ := t
  obtain ⟨hsx, hwx, hdir, hss, hws, hkey, hcs, hcw, hwa, hcn⟩ := h
  simp only at hsx hwx hdir hss hws hcs hcw hwa hcn
  subst hsx hwx hdir
  cases cur with
  | none => exact absurd rfl hcn
  | snap =>
    obtain ⟨h1, h2⟩ := hcs rfl
    subst h2
    cases spos with
    | none => simp [Cur.cur?] at h1
    | some sz =>
      obtain ⟨sl, x, sr⟩ := sz
      simp [Cur.cur?] at h1
      subst h1
      have hat : At id sxs x (some (sl, x, sr)) := At_of_BSplit (key := id) hss
      cases wpos with
      | none =>
        have hwf : FSplit Prod.fst wxs (x + 1) (Cur.first ⟨wxs, none⟩).pos := BSplit_none_first none hws
        have hst : TI.turnFwd ⟨⟨sxs, some (sl, x, sr)⟩, ⟨wxs, none⟩, false, .snap, .bwd⟩ =
            TI.eqCheck ⟨⟨sxs, some (sl, x, sr)⟩, Cur.first ⟨wxs, none⟩, false, .snap, .fwd⟩ := by
          simp [TI.turnFwd, Cur.valid]
        rw [hst, eqCheck_noop]
        · exact ⟨rfl, rfl, rfl, by simp, fun _ => ⟨rfl, hat, hwf⟩, fun hc => by cases hc⟩
        · intro a b ha hb
          simp [Cur.cur?] at ha
          have := FSplit_cur_ge hwf hb
          omega
      | some wz =>
        obtain ⟨wl, e, wr⟩ := wz
        have hwf : FSplit Prod.fst wxs (x + 1) (Cur.next ⟨wxs, some (wl, e, wr)⟩).pos := BSplit_next_F hW hws
        have hst : TI.turnFwd ⟨⟨sxs, some (sl, x, sr)⟩, ⟨wxs, some (wl, e, wr)⟩, false, .snap, .bwd⟩ =
            TI.eqCheck ⟨⟨sxs, some (sl, x, sr)⟩, Cur.next ⟨wxs, some (wl, e, wr)⟩, false, .snap, .fwd⟩ := by
          simp [TI.turnFwd, Cur.valid]
        rw [hst, eqCheck_noop]
        · exact ⟨rfl, Cur.next_xs _, rfl, by simp, fun _ => ⟨rfl, hat, hwf⟩, fun hc => by cases hc⟩
        · intro a b ha hb
          simp [Cur.cur?] at ha
          have := FSplit_cur_ge hwf hb
          omega
  | ws =>
    obtain ⟨⟨v, h1⟩, _⟩ := hcw rfl
    cases wpos with
    | none => simp [Cur.cur?] at h1
    | some wz =>
      obtain ⟨wl, e, wr⟩ := wz
      simp [Cur.cur?] at h1
      subst h1
      have hat : At Prod.fst wxs K (some (wl, (K, v), wr)) := At_of_BSplit (key := Prod.fst) hws
      cases spos with
      | none =>
        have hsf : FSplit id sxs (K + 1) (Cur.first ⟨sxs, none⟩).pos := BSplit_none_first none hss
        have hst : TI.turnFwd ⟨⟨sxs, none⟩, ⟨wxs, some (wl, (K, v), wr)⟩, eq, .ws, .bwd⟩ =
            TI.eqCheck ⟨Cur.first ⟨sxs, none⟩, ⟨wxs, some (wl, (K, v), wr)⟩, false, .ws, .fwd⟩ := by
          simp [TI.turnFwd, Cur.valid]
        rw [hst, eqCheck_noop]
        · exact ⟨rfl, rfl, rfl, by simp, fun hc => (nomatch hc),
            fun _ => ⟨hat, fun he => (nomatch he), fun _ => hsf⟩⟩
        · intro a b ha hb
          simp [Cur.cur?] at hb
          have := FSplit_cur_ge hsf ha
          subst hb
          simp only [id] at this ⊢; omega
      | some sz =>
        obtain ⟨sl, x, sr⟩ := sz
        have hsf : FSplit id sxs (K + 1) (Cur.next ⟨sxs, some (sl, x, sr)⟩).pos := BSplit_next_F hS hss
        have hst : TI.turnFwd ⟨⟨sxs, some (sl, x, sr)⟩, ⟨wxs, some (wl, (K, v), wr)⟩, eq, .ws, .bwd⟩ =
            TI.eqCheck ⟨Cur.next ⟨sxs, some (sl, x, sr)⟩, ⟨wxs, some (wl, (K, v), wr)⟩, false, .ws, .fwd⟩ := by
          simp [TI.turnFwd, Cur.valid]
        rw [hst, eqCheck_noop]
        · exact ⟨Cur.next_xs _, rfl, rfl, by simp, fun hc => (nomatch hc),
            fun _ => ⟨hat, fun he => (nomatch he), fun _ => hsf⟩⟩
        · intro a b ha hb
          simp [Cur.cur?] at hb
          have := FSplit_cur_ge hsf ha
          subst hb
          simp only [id] at this ⊢; omega

/-- **turning backward**: the mirror image, for the prologue of `prev` -/
theorem turnBwd_spec (S : List Nat) (W : List (Nat × Bool)) (hS : SortedBy id S) (hW : SortedBy Prod.fst W)
    (t : TI) (K : Nat) (h : FwdState S W t K) : MidBwd S W t.turnBwd K := by
  obtain ⟨⟨sxs, spos⟩, ⟨wxs, wpos⟩, eq, cur, dir⟩ := t
  obtain ⟨hsx, hwx, hdir, hss, hws, hkey, hcs, hcw, hwa, hcn⟩ := h
  simp only at hsx hwx hdir hss hws hcs hcw hwa hcn
  subst hsx hwx hdir
  cases cur with
  | none => exact absurd rfl hcn
  | snap =>
    obtain ⟨h1, h2⟩ := hcs rfl
    subst h2
    cases spos with
    | none => simp [Cur.cur?] at h1
    | some sz =>
      obtain ⟨sl, x, sr⟩ := sz
      simp [Cur.cur?] at h1
      subst h1
      have hat : At id sxs x (some (sl, x, sr)) := At_of_FSplit (key := id) hss
      cases wpos with
      | none =>
        have hwf : BSplit Prod.fst wxs x (Cur.last ⟨wxs, none⟩).pos := FSplit_none_last none hws
        have hst : TI.turnBwd ⟨⟨sxs, some (sl, x, sr)⟩, ⟨wxs, none⟩, false, .snap, .fwd⟩ =
            TI.eqCheck ⟨⟨sxs, some (sl, x, sr)⟩, Cur.last ⟨wxs, none⟩, false, .snap, .bwd⟩ := by
          simp [TI.turnBwd, Cur.valid]
        rw [hst, eqCheck_noop]
        · exact ⟨rfl, rfl, rfl, by simp, fun _ => ⟨rfl, hat, hwf⟩, fun hc => by cases hc⟩
        · intro a b ha hb
          simp [Cur.cur?] at ha
          have := BSplit_cur_lt hwf hb
          omega
      | some wz =>
        obtain ⟨wl, e, wr⟩ := wz
        have hwf : BSplit Prod.fst wxs x (Cur.prev ⟨wxs, some (wl, e, wr)⟩).pos := FSplit_prev_B hW hws
        have hst : TI.turnBwd ⟨⟨sxs, some (sl, x, sr)⟩, ⟨wxs, some (wl, e, wr)⟩, false, .snap, .fwd⟩ =
            TI.eqCheck ⟨⟨sxs, some (sl, x, sr)⟩, Cur.prev ⟨wxs, some (wl, e, wr)⟩, false, .snap, .bwd⟩ := by
          simp [TI.turnBwd, Cur.valid]
        rw [hst, eqCheck_noop]
        · exact ⟨rfl, Cur.prev_xs _, rfl, by simp, fun _ => ⟨rfl, hat, hwf⟩, fun hc => by cases hc⟩
        · intro a b ha hb
          simp [Cur.cur?] at ha
          have := BSplit_cur_lt hwf hb
          omega
  | ws =>
    obtain ⟨⟨v, h1⟩, _⟩ := hcw rfl
    cases wpos with
    | none => simp [Cur.cur?] at h1
    | some wz =>
      obtain ⟨wl, e, wr⟩ := wz
      simp [Cur.cur?] at h1
      subst h1
      have hat : At Prod.fst wxs K (some (wl, (K, v), wr)) := At_of_FSplit (key := Prod.fst) hws
      cases spos with
      | none =>
        have hsf : BSplit id sxs K (Cur.last ⟨sxs, none⟩).pos := FSplit_none_last none hss
        have hst : TI.turnBwd ⟨⟨sxs, none⟩, ⟨wxs, some (wl, (K, v), wr)⟩, eq, .ws, .fwd⟩ =
            TI.eqCheck ⟨Cur.last ⟨sxs, none⟩, ⟨wxs, some (wl, (K, v), wr)⟩, false, .ws, .bwd⟩ := by
          simp [TI.turnBwd, Cur.valid]
        rw [hst, eqCheck_noop]
        · exact ⟨rfl, rfl, rfl, by simp, fun hc => (nomatch hc),
            fun _ => ⟨hat, fun he => (nomatch he), fun _ => hsf⟩⟩
        · intro a b ha hb
          simp [Cur.cur?] at hb
          have := BSplit_cur_lt hsf ha
          subst hb
          simp only [id] at this ⊢; omega
      | some sz =>
        obtain ⟨sl, x, sr⟩ := sz
        have hsf : BSplit id sxs K (Cur.prev ⟨sxs, some (sl, x, sr)⟩).pos := FSplit_prev_B hS hss
        have hst : TI.turnBwd ⟨⟨sxs, some (sl, x, sr)⟩, ⟨wxs, some (wl, (K, v), wr)⟩, eq, .ws, .fwd⟩ =
            TI.eqCheck ⟨Cur.prev ⟨sxs, some (sl, x, sr)⟩, ⟨wxs, some (wl, (K, v), wr)⟩, false, .ws, .bwd⟩ := by
          simp [TI.turnBwd, Cur.valid]
        rw [hst, eqCheck_noop]
        · exact ⟨Cur.prev_xs _, rfl, rfl, by simp, fun hc => (nomatch hc),
            fun _ => ⟨hat, fun he => (nomatch he), fun _ => hsf⟩⟩
        · intro a b ha hb
          simp [Cur.cur?] at hb
          have := BSplit_cur_lt hsf ha
          subst hb
          simp only [id] at this ⊢; omega
