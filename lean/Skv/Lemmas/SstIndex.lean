import Skv.Lemmas.SstSeek
/-! the partitioned index: seeking through the top level and then inside a partition equals
seeking in the flat list of separators -/

def sortedKeys : List IKey → Bool
  | [] => true
  | [_] => true
  | a :: b :: rest => ikLt a b && sortedKeys (b :: rest)

theorem sortedKeys_cons {a : IKey} {l : List IKey} (h : sortedKeys (a :: l) = true) : sortedKeys l = true := by
  cases l with
  | nil => rfl
  | cons b rest => simp [sortedKeys] at h; exact h.2

theorem sortedKeys_head_lt {a : IKey} {l : List IKey} (h : sortedKeys (a :: l) = true) :
    ∀ k ∈ l, ikLt a k = true := by
  induction l generalizing a with
  | nil => intro k hk; cases hk
  | cons b rest ih =>
    simp only [sortedKeys, Bool.and_eq_true] at h
    intro k hk
    rcases List.mem_cons.mp hk with hk | hk
    · subst hk; exact h.1
    · exact ikLt_trans h.1 (ih h.2 k hk)

theorem sortedKeys_append_right {a b : List IKey} (h : sortedKeys (a ++ b) = true) : sortedKeys b = true := by
  induction a with
  | nil => exact h
  | cons x xs ih => exact ih (sortedKeys_cons h)

theorem sortedKeys_le_last (ks : List IKey) (hs : sortedKeys ks = true) (l : IKey) (hl : ks.getLast? = some l) :
    ∀ k ∈ ks, ikLe k l = true := by
  induction ks with
  | nil => intro k hk; cases hk
  | cons x xs ih =>
    intro k hk
    cases xs with
    | nil =>
      have : x = l := by simpa using hl
      subst this
      have : k = x := by simpa using hk
      subst this; exact ikLe_refl _
    | cons y ys =>
      have hl' : (y :: ys).getLast? = some l := by simpa [List.getLast?_cons_cons] using hl
      rcases List.mem_cons.mp hk with hk | hk
      · subst hk
        exact ikLe_of_lt (sortedKeys_head_lt hs l (List.mem_of_getLast? hl'))
      · exact ih (sortedKeys_cons hs) hl' k hk

/-- prefix of a sorted key list is sorted -/
theorem sortedKeys_append_left {a b : List IKey} (h : sortedKeys (a ++ b) = true) : sortedKeys a = true := by
  induction a with
  | nil => rfl
  | cons x xs ih =>
    have hx := sortedKeys_cons h
    have h1 := ih hx
    cases xs with
    | nil => rfl
    | cons y ys =>
      simp only [List.cons_append, sortedKeys, Bool.and_eq_true] at h ⊢
      exact ⟨h.1, h1⟩

/-- separators of a well-formed block list are strictly increasing -/
theorem seps_sorted (bs : List PBlock) (h : blocksWF bs = true) : sortedKeys (bs.map (·.sep)) = true := by
  induction bs with
  | nil => rfl
  | cons b rest ih =>
    have hw := blocksWF_cons b rest h
    cases rest with
    | nil => rfl
    | cons b' rest' =>
      obtain ⟨f, l, hf, _, hlt, _⟩ := hw.next b' rest' rfl
      have hw' := blocksWF_cons b' rest' hw.tail
      have hfmem : f ∈ b'.ents := List.mem_of_head? hf
      have : ikLt b.sep b'.sep = true := ikLt_of_lt_of_le hlt (hw'.allLe f hfmem)
      simp only [List.map_cons, sortedKeys, Bool.and_eq_true]
      exact ⟨this, ih hw.tail⟩

theorem firstGEk_lt_of_last_ge (ks : List IKey) (t l : IKey) (hl : ks.getLast? = some l)
    (hge : ikLt l t = false) : firstGEk ks t < ks.length := by
  induction ks with
  | nil => cases hl
  | cons x xs ih =>
    rw [firstGEk_cons]
    split
    · cases xs with
      | nil =>
        have : x = l := by simpa using hl
        subst this; simp_all
      | cons y ys =>
        have hl' : (y :: ys).getLast? = some l := by simpa [List.getLast?_cons_cons] using hl
        have := ih hl'
        simp only [List.length_cons] at this ⊢; omega
    · simp

theorem blocksOf_cons (p : Part) (L : Layout) : blocksOf (p :: L) = p ++ blocksOf L := by
  simp [blocksOf]

theorem findPart_cons (p : Part) (L : Layout) (t : IKey) :
    findPart (p :: L) t = if partBelow t p then findPart L t + 1 else 0 := by
  unfold findPart
  rw [List.takeWhile_cons]
  cases partBelow t p <;> simp

theorem idxSeek_cons_below (p : Part) (L : Layout) (t : IKey) (h : partBelow t p = true) :
    idxSeek (p :: L) t = p.length + idxSeek L t := by
  unfold idxSeek
  rw [findPart_cons, if_pos h]
  simp only [List.getElem?_cons_succ, List.take_succ_cons, blocksOf_cons, List.length_append]
  cases L[findPart L t]? with
  | none => rfl
  | some q => simp only []; omega

theorem idxSeek_cons_stop (p : Part) (L : Layout) (t : IKey) (h : partBelow t p = false) :
    idxSeek (p :: L) t = firstGEk (p.map (·.sep)) t := by
  unfold idxSeek
  rw [findPart_cons, h]
  simp [blocksOf]

/-- **partitioned index seek = flat separator seek** -/
theorem idxSeek_eq (L : Layout) (hs : sortedKeys ((blocksOf L).map (·.sep)) = true) (t : IKey) :
    idxSeek L t = firstGEk ((blocksOf L).map (·.sep)) t := by
  induction L with
  | nil => simp [idxSeek, findPart, blocksOf, firstGEk]
  | cons p L ih =>
    rw [blocksOf_cons, List.map_append] at hs ⊢
    have hsR := sortedKeys_append_right hs
    have hsP := sortedKeys_append_left hs
    cases htop : partTop p with
    | none =>
      -- empty partition: skipped
      have hp : p = [] := by
        cases p with
        | nil => rfl
        | cons x xs => simp [partTop] at htop
      subst hp
      rw [idxSeek_cons_below _ _ _ (by simp [partBelow, htop]), ih hsR]
      simp
    | some top =>
      have hlast : (p.map (·.sep)).getLast? = some top := by
        simp only [partTop, Option.map_eq_some_iff] at htop
        obtain ⟨b, hb, rfl⟩ := htop
        simp [List.getLast?_map, hb]
      by_cases hlt : ikLt top t = true
      · have hall : ∀ k ∈ p.map (·.sep), ikLt k t = true :=
          fun k hk => ikLt_of_le_of_lt (sortedKeys_le_last _ hsP top hlast k hk) hlt
        rw [idxSeek_cons_below _ _ _ (by simp [partBelow, htop, hlt]), ih hsR,
          firstGEk_append_all_lt _ _ _ hall]
        simp
      · have hge : ikLt top t = false := by simpa using hlt
        rw [idxSeek_cons_stop _ _ _ (by simp [partBelow, htop, hge]),
          firstGEk_append_stop _ _ _ (firstGEk_lt_of_last_ge _ t top hlast hge)]

/-! ### the flat entry list of a well-formed layout is sorted -/

theorem sortedEnts_append_of (a b : List Ent) (ha : sortedEnts a = true) (hb : sortedEnts b = true)
    (h : ∀ l f, a.getLast? = some l → b.head? = some f → ikLt l.k f.k = true) :
    sortedEnts (a ++ b) = true := by
  induction a with
  | nil => exact hb
  | cons x xs ih =>
    cases xs with
    | nil =>
      cases b with
      | nil => rfl
      | cons f fs =>
        simp only [List.cons_append, List.nil_append, sortedEnts, Bool.and_eq_true]
        exact ⟨h x f rfl rfl, hb⟩
    | cons y ys =>
      simp only [sortedEnts, Bool.and_eq_true] at ha
      simp only [List.cons_append, sortedEnts, Bool.and_eq_true]
      refine ⟨ha.1, ?_⟩
      apply ih ha.2
      intro l f hl hf
      exact h l f (by simpa [List.getLast?_cons_cons] using hl) hf

theorem flat_sorted (bs : List PBlock) (h : blocksWF bs = true) : sortedEnts (flatOf bs) = true := by
  induction bs with
  | nil => rfl
  | cons b rest ih =>
    have hw := blocksWF_cons b rest h
    rw [flatOf_cons]
    apply sortedEnts_append_of _ _ hw.sorted (ih hw.tail)
    intro l f hl hf
    cases rest with
    | nil => simp [flatOf] at hf
    | cons b' rest' =>
      obtain ⟨f', l', hf', hl', hlt, _⟩ := hw.next b' rest' rfl
      have : f = f' := by
        have := flatOf_head b' rest' f' hf'
        rw [this] at hf; cases hf; rfl
      subst this
      exact ikLt_of_le_of_lt (hw.allLe l (List.mem_of_getLast? hl)) hlt

/-! ### the table-level statements -/

theorem layoutWF_blocks (L : Layout) (h : layoutWF L = true) : blocksWF (blocksOf L) = true := by
  simp only [layoutWF, Bool.and_eq_true] at h; exact h.1.2

theorem layoutWF_blockSeek (L : Layout) (h : layoutWF L = true) (b : PBlock) (hb : b ∈ blocksOf L) (t : IKey) :
    blockSeek b t = firstGE b.ents t := by
  simp only [layoutWF, Bool.and_eq_true] at h
  have hr := List.all_eq_true.mp h.2 b hb
  simp only [restartsWF, Bool.and_eq_true, beq_iff_eq] at hr
  -- sortedness of the block comes from blocksWF
  have hsorted : ∀ (bs : List PBlock), blocksWF bs = true → ∀ b ∈ bs, sortedEnts b.ents = true := by
    intro bs
    induction bs with
    | nil => intro _ b hb; cases hb
    | cons x xs ih =>
      intro hw b hb
      have hh := blocksWF_cons x xs hw
      rcases List.mem_cons.mp hb with hb | hb
      · subst hb; exact hh.sorted
      · exact ih hh.tail b hb
  exact blockSeek_eq b (hsorted _ h.1.2 b hb) hr.1.1 t

/-- **seek** -/
theorem tblSeek_eq (L : Layout) (h : layoutWF L = true) (t : IKey) :
    tblSeek L t = firstGE (flatOf (blocksOf L)) t := by
  have hb := layoutWF_blocks L h
  rw [← flatSeek_eq _ hb]
  unfold tblSeek flatSeek
  simp only
  rw [idxSeek_eq L (seps_sorted _ hb)]
  cases hj : (blocksOf L)[firstGEk ((blocksOf L).map (·.sep)) t]? with
  | none => rfl
  | some b =>
    simp only [layoutWF_blockSeek L h b (List.mem_of_getElem? hj)]

/-- **point lookup** -/
theorem tblGet_eq (L : Layout) (h : layoutWF L = true) (k : List Nat) (s : Nat) :
    tblGet L k s = specGet (flatOf (blocksOf L)) k s := by
  have hb := layoutWF_blocks L h
  have hsorted : sortedEnts (flatOf (blocksOf L)) = true := flat_sorted _ hb
  rw [specGet_eq_posGet _ hsorted, ← flatGet_eq _ hb]
  unfold tblGet flatGet
  simp only
  rw [idxSeek_eq L (seps_sorted _ hb)]
  cases hj : (blocksOf L)[firstGEk ((blocksOf L).map (·.sep)) ⟨k, s⟩]? with
  | none => rfl
  | some b =>
    simp only [layoutWF_blockSeek L h b (List.mem_of_getElem? hj)]
    first | rfl | (split <;> rfl) | (congr 1; funext e; split <;> simp)
