import Skv.Lemmas.PipelinePermits
/-!
# Progress of the commit pipeline (C17)

`LS` is the projection of a pipeline state onto what decides whether threads can move: the queue as
(first, applied) pairs, the *class* of every thread's program counter, the set of completed batches,
and the permit bookkeeping.  `proj` maps a `PState` to it; `sim` shows that every step of the
pipeline model is one of a handful of operations on the projection.  The liveness invariant `LInv`
is proved over those operations, and `quiet_impossible` derives from it that a state in which every
thread is idle, waiting for a permit, or waiting for its batch's completion cannot have a thread that
waits in vain.
-/
open PState

inductive Cls
  | idle | begun | permit
  | work (f : Nat)
  | pend (f : Nat) (k : FK)
  | hold (f : Nat) (k : FK) (b : Nat)
  | post (f : Nat)
  | postF (f : Nat)
deriving DecidableEq, Repr

def cls : Pc → Cls
  | .ready => .idle
  | .begun _ => .begun
  | .havePermit _ => .permit
  | .applying f _ _ => .work f
  | .afterApply f _ _ => .work f
  | .afterMark f k => .pend f k
  | .walFailed f => .pend f .wal
  | .pubDequeued b f k => .hold f k b.first
  | .pubVisible b f k => .hold f k b.first
  | .afterPublish f k => if k = .none then .post f else .postF f
  | .waiting f => .post f

structure LS where
  q : List (Nat × Bool)
  th : List Cls
  done : List Nat
  owners : List Own
  permits : Nat
  returned : List Nat
  dropped : List Nat
  next : Nat

def proj (s : PState) : LS :=
  { q := s.queue.map (fun b => (b.first, b.applied)), th := s.threads.map (fun t => cls t.pc),
    done := s.completed.map (·.1), owners := s.owners, permits := s.permits,
    returned := s.returned, dropped := s.dropped, next := s.logSeq }

namespace LS

def release (a : LS) (o : Own) : LS :=
  if a.owners.contains o then { a with permits := a.permits + 1, owners := a.owners.erase o } else a

def addDone (a : LS) (f : Nat) : LS := if a.done.contains f then a else { a with done := f :: a.done }

def setC (a : LS) (i : Nat) (c : Cls) : LS := { a with th := a.th.set i c }

def finishNone (a : LS) (i : Nat) : LS := (a.setC i .idle).release (.thr i)

def finishSome (a : LS) (i : Nat) (f : Nat) : LS :=
  let a := a.setC i .idle
  if a.dropped.contains f then a.release (.bat f) else { a with returned := f :: a.returned }

def dropBatch (a : LS) (f : Nat) : LS :=
  if a.returned.contains f then a.release (.bat f) else { a with dropped := f :: a.dropped }

def markQ (a : LS) (f : Nat) : LS := { a with q := a.q.map (fun p => if p.1 == f then (p.1, true) else p) }

def pubTop (a : LS) (i : Nat) (f : Nat) (k : FK) : LS :=
  match a.q with
  | (b, true) :: rest => { a with q := rest, th := a.th.set i (.hold f k b) }
  | _ => if k == .wal then a.finishSome i f else a.setC i (if k = .none then .post f else .postF f)

def acquire (a : LS) (i : Nat) : LS :=
  { a with permits := a.permits - 1, owners := .thr i :: a.owners, th := a.th.set i .permit }

/-- enqueue batch `a.next` of `c ≥ 1` sequence numbers; `wal`: the WAL write failed at once -/
def enqueue (a : LS) (i : Nat) (c : Nat) (wal : Bool) : LS :=
  let f := a.next
  let a1 : LS := { a with next := a.next + c, q := a.q ++ [(f, false)], owners := .bat f :: a.owners.erase (.thr i) }
  if wal then ((a1.addDone f).markQ f).setC i (.pend f .wal) else a1.setC i (.work f)

/-- `mark_applied` by the owner of `f`; `failed`: the apply failed (its error is sent first) -/
def mark (a : LS) (i : Nat) (f : Nat) (failed : Bool) : LS :=
  let a := if failed then a.addDone f else a
  (a.markQ f).setC i (.pend f (if failed then .apply else .none))

end LS

/-- the operations a step of the pipeline model can be on the projection -/
inductive LOpn
  | stay
  | toIdle (i : Nat)
  | acquire (i : Nat)
  | finishNone (i : Nat)
  | enqueue (i c : Nat) (wal : Bool)
  | mark (i f : Nat) (failed : Bool)
  | pubTop (i f : Nat) (k : FK)
  | publish (i f : Nat) (k : FK) (b : Nat)
  | finishSome (i f : Nat)

def LS.opn (a : LS) : LOpn → LS
  | .stay => a
  | .toIdle i => a.setC i .idle
  | .acquire i => a.acquire i
  | .finishNone i => a.finishNone i
  | .enqueue i c wal => a.enqueue i c wal
  | .mark i f failed => a.mark i f failed
  | .pubTop i f k => a.pubTop i f k
  | .publish i f k b => ((a.addDone b).dropBatch b).pubTop i f k
  | .finishSome i f => a.finishSome i f

/-- when an operation is what thread `i` may do in projection `a` -/
def LS.allowed (a : LS) : LOpn → Prop
  | .stay => True
  | .toIdle i => a.th[i]? = some .begun
  | .acquire i => a.th[i]? = some .begun ∧ 0 < a.permits
  | .finishNone i => a.th[i]? = some .permit
  | .enqueue i c _ => a.th[i]? = some .permit ∧ 1 ≤ c
  | .mark i f _ => a.th[i]? = some (.work f)
  | .pubTop i f k => a.th[i]? = some (.pend f k)
  | .publish i f k b => a.th[i]? = some (.hold f k b)
  | .finishSome i f => a.th[i]? = some (.postF f) ∨ (a.th[i]? = some (.post f) ∧ f ∈ a.done)

/-! ## the projection commutes with the helpers of the pipeline model -/

theorem LS.ext' {a b : LS} (h1 : a.q = b.q) (h2 : a.th = b.th) (h3 : a.done = b.done) (h4 : a.owners = b.owners)
    (h5 : a.permits = b.permits) (h6 : a.returned = b.returned) (h7 : a.dropped = b.dropped) (h8 : a.next = b.next) :
    a = b := by
  cases a; cases b; simp_all

theorem proj_th (s : PState) (i : Nat) (t : Thread) (h : s.threads[i]? = some t) :
    (proj s).th[i]? = some (cls t.pc) := by
  simp [proj, List.getElem?_map, h]

theorem proj_setThread (s : PState) (i : Nat) (t : Thread) :
    proj (s.setThread i t) = (proj s).setC i (cls t.pc) := by
  simp [proj, LS.setC, PState.setThread, List.map_set]

theorem proj_release (s : PState) (o : Own) : proj (s.release o) = (proj s).release o := by
  unfold PState.release LS.release
  show proj (if s.owners.contains o = true then _ else s) = (if s.owners.contains o = true then _ else proj s)
  split <;> rfl

theorem any_fst_eq_contains (l : List (Nat × CRes)) (f : Nat) :
    l.any (fun p => p.1 == f) = (l.map (·.1)).contains f := by
  induction l with
  | nil => rfl
  | cons x xs ih =>
    simp only [List.any_cons, List.map_cons, List.contains_cons, ih]
    by_cases hx : x.1 = f
    · simp [hx]
    · have h1 : (f == x.1) = false := by simpa using fun h => hx h.symm
      have h2 : (x.1 == f) = false := by simpa using hx
      rw [h1, h2]

theorem proj_complete (s : PState) (f : Nat) (r : CRes) : proj (s.complete f r) = (proj s).addDone f := by
  unfold PState.complete LS.addDone
  have : (proj s).done.contains f = s.completed.any (fun p => p.1 == f) := by
    simp [proj, any_fst_eq_contains]
  rw [this]
  split
  · rfl
  · simp [proj]

theorem proj_markApplied (s : PState) (f : Nat) : proj (s.markApplied f) = (proj s).markQ f := by
  apply LS.ext' <;> try rfl
  simp only [proj, LS.markQ, markApplied_queue, List.map_map]
  apply List.map_congr_left
  intro b _
  simp only [Function.comp]
  split <;> simp_all

theorem proj_markFailed (s : PState) (f : Nat) : proj (s.markFailed f) = proj s := rfl

theorem proj_finish_none (s : PState) (i : Nat) (t : Thread) (r : CRes) :
    proj (s.finish i t r none) = (proj s).finishNone i := by
  unfold PState.finish LS.finishNone
  simp only
  rw [proj_release, proj_setThread]
  rfl

theorem proj_finish_some (s : PState) (i : Nat) (t : Thread) (r : CRes) (f : Nat) :
    proj (s.finish i t r (some f)) = (proj s).finishSome i f := by
  unfold PState.finish LS.finishSome
  simp only
  have hd : ((proj s).setC i Cls.idle).dropped = s.dropped := rfl
  rw [hd]
  have hd2 : (s.setThread i { t with pc := .ready, results := r :: t.results }).dropped = s.dropped := rfl
  rw [hd2]
  split
  · rw [proj_release, proj_setThread]; rfl
  · apply LS.ext' <;> try rfl
    simp [proj, LS.setC, PState.setThread, List.map_set, cls]

theorem proj_dropBatch (s : PState) (f : Nat) : proj (s.dropBatch f) = (proj s).dropBatch f := by
  unfold PState.dropBatch LS.dropBatch
  have : (proj s).returned = s.returned := rfl
  rw [this]
  split
  · exact proj_release s _
  · rfl

theorem proj_publishTop (s : PState) (i : Nat) (t : Thread) (f : Nat) (k : FK) :
    proj (s.publishTop i t f k) = (proj s).pubTop i f k := by
  unfold PState.publishTop LS.pubTop
  have hleave : proj (if (k == FK.wal) = true then s.finish i t CRes.errWal (some f)
      else s.setThread i { t with pc := .afterPublish f k }) =
      (if (k == FK.wal) = true then (proj s).finishSome i f
        else (proj s).setC i (if k = .none then .post f else .postF f)) := by
    split
    · exact proj_finish_some s i t _ f
    · rw [proj_setThread]; rfl
  cases hq : s.queue with
  | nil =>
    have : (proj s).q = [] := by simp [proj, hq]
    simp only [this]
    exact hleave
  | cons b rest =>
    have hpq : (proj s).q = (b.first, b.applied) :: rest.map (fun b => (b.first, b.applied)) := by
      simp [proj, hq]
    simp only [hpq]
    cases hb : b.applied with
    | true =>
      simp only [if_true]
      apply LS.ext' <;> try rfl
      simp [proj, PState.setThread, List.map_set]
      rfl
    | false =>
      simp only [Bool.false_eq_true, if_false]
      exact hleave

theorem list_set_same {α : Type} : ∀ (l : List α) (i : Nat) (x : α), l[i]? = some x → l.set i x = l := by
  intro l
  induction l with
  | nil => intro i x h; rfl
  | cons y ys ih =>
    intro i x h
    cases i with
    | zero => simp at h; simp [h]
    | succ n => simp at h; simp [ih n x h]

theorem LS.setC_same (a : LS) (i : Nat) (c : Cls) (h : a.th[i]? = some c) : a.setC i c = a := by
  unfold LS.setC
  rw [list_set_same _ _ _ h]

/-! ## every step of the pipeline model is one of the operations -/

theorem sim (s : PState) (i : Nat) (hr : ReqInv s) :
    ∃ op, (proj s).allowed op ∧ proj (s.stepThread i) = (proj s).opn op := by
  by_cases hp : s.panicked = true
  · exact ⟨.stay, trivial, by rw [stepThread_panicked s i hp]; rfl⟩
  have hp' : s.panicked = false := by simpa using hp
  cases ht : s.threads[i]? with
  | none => exact ⟨.stay, trivial, by rw [stepThread_none s i ht]; rfl⟩
  | some t =>
    have hth := proj_th s i t ht
    rw [stepThread_eq s i t hp' ht]
    obtain ⟨pc, req, results⟩ := t
    cases pc with
    | ready => exact ⟨.stay, trivial, rfl⟩
    | begun st =>
      simp only
      split
      · exact ⟨.toIdle i, hth, by rw [proj_setThread]; rfl⟩
      · split
        · rename_i hperm
          refine ⟨.acquire i, ⟨hth, hperm⟩, ?_⟩
          apply LS.ext' <;> try rfl
          simp [proj, PState.setThread, List.map_set, LS.opn, LS.acquire]
          rfl
        · exact ⟨.stay, trivial, rfl⟩
    | havePermit st =>
      simp only
      have hc : 1 ≤ req.keys.length := hr i _ ht st rfl
      split
      · exact ⟨.finishNone i, hth, proj_finish_none s i _ _⟩
      · exact ⟨.finishNone i, hth, proj_finish_none s i _ _⟩
      · split
        · exact ⟨.stay, trivial, rfl⟩
        · split
          · refine ⟨.enqueue i req.keys.length true, ⟨hth, hc⟩, ?_⟩
            rw [proj_setThread, proj_markFailed, proj_markApplied, proj_complete]
            simp only [LS.opn, LS.enqueue, if_true]
            congr 3
            apply LS.ext' <;> try rfl
            simp [proj]
          · refine ⟨.enqueue i req.keys.length false, ⟨hth, hc⟩, ?_⟩
            rw [proj_setThread]
            simp only [LS.opn, LS.enqueue, Bool.false_eq_true, if_false]
            congr 1
            apply LS.ext' <;> try rfl
            simp [proj]
    | applying f c j =>
      simp only
      have hsame : (proj s).setC i (.work f) = proj s := LS.setC_same _ _ _ hth
      split
      · exact ⟨.stay, trivial, by rw [proj_setThread, proj_markFailed]; exact hsame⟩
      · split
        · exact ⟨.stay, trivial, by rw [proj_setThread]; exact hsame⟩
        · exact ⟨.stay, trivial, by rw [proj_setThread]; exact hsame⟩
    | afterApply f c failed =>
      simp only
      refine ⟨.mark i f failed, hth, ?_⟩
      rw [proj_setThread, proj_markApplied]
      cases failed with
      | true => simp only [if_true, LS.opn, LS.mark]; rw [proj_complete]; rfl
      | false => simp only [Bool.false_eq_true, if_false, LS.opn, LS.mark]; rfl
    | afterMark f k => exact ⟨.pubTop i f k, hth, proj_publishTop s i _ f k⟩
    | walFailed f => exact ⟨.pubTop i f .wal, hth, proj_publishTop s i _ f .wal⟩
    | pubDequeued b f k =>
      simp only
      have hsame : (proj s).setC i (.hold f k b.first) = proj s := LS.setC_same _ _ _ hth
      refine ⟨.stay, trivial, ?_⟩
      have : proj ({ (s.setThread i { pc := Pc.pubVisible b f k, req := req, results := results }) with
          visible := max s.visible b.last }) =
          proj (s.setThread i { pc := Pc.pubVisible b f k, req := req, results := results }) := rfl
      rw [this, proj_setThread]
      exact hsame
    | pubVisible b f k =>
      simp only
      refine ⟨.publish i f k b.first, hth, ?_⟩
      rw [proj_publishTop, proj_dropBatch, proj_complete]
      rfl
    | afterPublish f k =>
      simp only
      split
      · rename_i hk
        have hk' : k ≠ .none := by simpa using hk
        have hcls : cls (Pc.afterPublish f k) = .postF f := by simp [cls, hk']
        exact ⟨.finishSome i f, Or.inl (by rw [← hcls]; exact hth), proj_finish_some s i _ _ f⟩
      · rename_i hk
        have hk' : k = .none := by simpa using hk
        subst hk'
        have hcls : cls (Pc.afterPublish f .none) = .post f := by simp [cls]
        split
        · rename_i r hres
          refine ⟨.finishSome i f, Or.inr ⟨by rw [← hcls]; exact hth, ?_⟩, proj_finish_some s i _ _ f⟩
          simp only [PState.completedRes] at hres
          cases hfind : s.completed.find? (fun p => p.1 == f) with
          | none => simp [hfind] at hres
          | some p =>
            have hm := List.mem_of_find?_eq_some hfind
            have hp1 : p.1 = f := by simpa using List.find?_some hfind
            exact List.mem_map.mpr ⟨p, hm, hp1⟩
        · have hsame : (proj s).setC i (.post f) = proj s := LS.setC_same _ _ _ (by rw [← hcls]; exact hth)
          exact ⟨.stay, trivial, by rw [proj_setThread]; exact hsame⟩
    | waiting f =>
      simp only
      split
      · rename_i r hres
        refine ⟨.finishSome i f, Or.inr ⟨hth, ?_⟩, proj_finish_some s i _ _ f⟩
        simp only [PState.completedRes] at hres
        cases hfind : s.completed.find? (fun p => p.1 == f) with
        | none => simp [hfind] at hres
        | some p =>
          have hm := List.mem_of_find?_eq_some hfind
          have hp1 : p.1 = f := by simpa using List.find?_some hfind
          exact List.mem_map.mpr ⟨p, hm, hp1⟩
      · exact ⟨.stay, trivial, rfl⟩

/-! ## the liveness invariant -/

def Cls.own : Cls → Option Nat
  | .work f | .pend f _ | .hold f _ _ | .post f | .postF f => some f
  | _ => none

def Cls.pending : Cls → Bool
  | .pend .. | .hold .. => true
  | _ => false

def Cls.holdsB : Cls → Nat → Bool
  | .hold _ _ b, f => b == f
  | _, _ => false

/-- some thread's class satisfies `p` -/
def wit (th : List Cls) (p : Cls → Bool) : Prop := ∃ (k : Nat) (c : Cls), th[k]? = some c ∧ p c = true

theorem wit_set_mono {th : List Cls} {i : Nat} {cold cnew : Cls} {p : Cls → Bool}
    (hi : th[i]? = some cold) (hm : p cold = true → p cnew = true) (h : wit th p) : wit (th.set i cnew) p := by
  obtain ⟨k, c, hk, hp⟩ := h
  by_cases hki : k = i
  · subst hki
    rw [hi] at hk; cases hk
    refine ⟨k, cnew, ?_, hm hp⟩
    have hlt : k < th.length := by
      rcases Nat.lt_or_ge k th.length with h | h
      · exact h
      · rw [List.getElem?_eq_none h] at hi; cases hi
    simp [List.getElem?_set_self hlt]
  · exact ⟨k, c, by rw [List.getElem?_set_ne (Ne.symm hki)]; exact hk, hp⟩

theorem wit_set_new {th : List Cls} {i : Nat} {cold cnew : Cls} {p : Cls → Bool}
    (hi : th[i]? = some cold) (hn : p cnew = true) : wit (th.set i cnew) p := by
  have hlt : i < th.length := by
    rcases Nat.lt_or_ge i th.length with h | h
    · exact h
    · rw [List.getElem?_eq_none h] at hi; cases hi
  exact ⟨i, cnew, by simp [List.getElem?_set_self hlt], hn⟩

theorem get_set_self {th : List Cls} {i : Nat} {cold cnew : Cls} (hi : th[i]? = some cold) :
    (th.set i cnew)[i]? = some cnew := by
  have hlt : i < th.length := by
    rcases Nat.lt_or_ge i th.length with h | h
    · exact h
    · rw [List.getElem?_eq_none h] at hi; cases hi
  simp [List.getElem?_set_self hlt]

theorem get_set_other {th : List Cls} {i k : Nat} {cnew : Cls} (h : k ≠ i) : (th.set i cnew)[k]? = th[k]? :=
  List.getElem?_set_ne (Ne.symm h)

def inQ (q : List (Nat × Bool)) (f : Nat) : Prop := ∃ ap, (f, ap) ∈ q

/-- batch `f` is somewhere a publisher will find it: in the queue, or in the hands of one -/
def reach (a : LS) (f : Nat) : Prop := inQ a.q f ∨ wit a.th (fun c => c.holdsB f)

structure LInv (P : Nat) (a : LS) : Prop where
  nd : a.owners.Nodup
  sum : a.permits + a.owners.length = P
  thrP : ∀ k, Own.thr k ∈ a.owners ↔ a.th[k]? = some .permit
  batLt : ∀ f, Own.bat f ∈ a.owners → f < a.next
  batRD : ∀ f, Own.bat f ∈ a.owners → ¬(f ∈ a.returned ∧ f ∈ a.dropped)
  batRet : ∀ f, Own.bat f ∈ a.owners → f ∉ a.returned → wit a.th (fun c => c.own == some f)
  batDrop : ∀ f, Own.bat f ∈ a.owners → f ∉ a.dropped → reach a f
  unapplied : ∀ f, (f, false) ∈ a.q → wit a.th (fun c => c == .work f)
  headApplied : ∀ b rest, a.q = (b, true) :: rest → wit a.th Cls.pending
  waitOk : ∀ (k : Nat) (c : Cls) (f : Nat), a.th[k]? = some c → c.own = some f → f ∉ a.done → reach a f
  qLt : ∀ p ∈ a.q, p.1 < a.next
  holdLt : ∀ (k g : Nat) (kk : FK) (b : Nat), a.th[k]? = some (.hold g kk b) → b < a.next
  dropLt : ∀ f ∈ a.dropped, f < a.next

/-- nobody can move except by getting a permit or by being completed -/
def quiet (a : LS) : Prop :=
  ∀ (k : Nat) (c : Cls), a.th[k]? = some c → c = .idle ∨ c = .begun ∨ ∃ f, c = .post f ∧ f ∉ a.done

/-- **no deadlock**: in a quiet state nobody waits for a completion, and all permits are free -/
theorem quiet_impossible (P : Nat) (a : LS) (h : LInv P a) (hq : quiet a) :
    (∀ (k : Nat) (c : Cls), a.th[k]? = some c → c = .idle ∨ c = .begun) ∧ a.permits = P := by
  -- no thread is working, pending or holding
  have nowit : ∀ p : Cls → Bool, p .idle = false → p .begun = false → (∀ f, p (.post f) = false) → ¬ wit a.th p := by
    intro p h1 h2 h3 ⟨k, c, hk, hp⟩
    rcases hq k c hk with rfl | rfl | ⟨f, rfl, _⟩
    · rw [h1] at hp; cases hp
    · rw [h2] at hp; cases hp
    · rw [h3] at hp; cases hp
  have noHold : ∀ f, ¬ wit a.th (fun c => c.holdsB f) := fun f => nowit _ rfl rfl (fun _ => rfl)
  have qempty : a.q = [] := by
    cases hqq : a.q with
    | nil => rfl
    | cons x rest =>
      obtain ⟨b, ap⟩ := x
      cases ap with
      | false =>
        exact absurd (h.unapplied b (by rw [hqq]; exact List.mem_cons_self))
          (nowit _ (by simp) (by simp) (by intro f; simp))
      | true => exact absurd (h.headApplied b rest hqq) (nowit _ rfl rfl (fun _ => rfl))
  have noReach : ∀ f, ¬ reach a f := by
    intro f hr
    rcases hr with ⟨ap, hm⟩ | hw
    · rw [qempty] at hm; cases hm
    · exact noHold f hw
  have noPost : ∀ (k : Nat) (c : Cls), a.th[k]? = some c → c = .idle ∨ c = .begun := by
    intro k c hk
    rcases hq k c hk with rfl | rfl | ⟨f, rfl, hf⟩
    · exact Or.inl rfl
    · exact Or.inr rfl
    · exact absurd (h.waitOk k _ f hk rfl hf) (noReach f)
  refine ⟨noPost, ?_⟩
  have noOwn : ∀ f, ¬ wit a.th (fun c => c.own == some f) := by
    intro f ⟨k, c, hk, hp⟩
    rcases noPost k c hk with rfl | rfl <;> simp [Cls.own] at hp
  have hown : a.owners = [] := by
    cases ho : a.owners with
    | nil => rfl
    | cons o rest =>
      have hmem : o ∈ a.owners := by rw [ho]; exact List.mem_cons_self
      cases o with
      | thr k =>
        have := (h.thrP k).mp hmem
        rcases noPost k _ this with h1 | h1 <;> cases h1
      | bat f =>
        by_cases hr : f ∈ a.returned
        · by_cases hd : f ∈ a.dropped
          · exact absurd ⟨hr, hd⟩ (h.batRD f hmem)
          · exact absurd (h.batDrop f hmem hd) (noReach f)
        · exact absurd (h.batRet f hmem hr) (noOwn f)
  have := h.sum
  rw [hown] at this
  simpa using this

/-! ## preservation -/

theorem reach_setC {a : LS} {i : Nat} {cold cnew : Cls} {f : Nat} (hi : a.th[i]? = some cold)
    (hh : cold.holdsB f = true → cnew.holdsB f = true) (h : reach a f) : reach (a.setC i cnew) f := by
  rcases h with h | h
  · exact Or.inl h
  · exact Or.inr (wit_set_mono hi hh h)

/-- changing the class of a thread that holds no permit, holds no batch, owns no batch, works on
nothing unapplied and is not the pending publisher of an applied head -/
theorem linv_setC_plain (P : Nat) (a : LS) (h : LInv P a) (i : Nat) (cold cnew : Cls)
    (hi : a.th[i]? = some cold) (hp1 : cold ≠ .permit) (hp2 : cnew ≠ .permit)
    (hh : ∀ f, cold.holdsB f = false) (ho : cold.own = none) (ho2 : cnew.own = none)
    (hpend : cold.pending = false) : LInv P (a.setC i cnew) := by
  have hw : ∀ p : Cls → Bool, p cold = false → wit a.th p → wit (a.th.set i cnew) p :=
    fun p hp hwt => wit_set_mono hi (fun h' => by rw [hp] at h'; cases h') hwt
  refine ⟨h.nd, h.sum, ?_, h.batLt, h.batRD, ?_, ?_, ?_, ?_, ?_, h.qLt, ?_, h.dropLt⟩
  rotate_right
  · intro k g kk b hk
    by_cases hki : k = i
    · subst hki
      simp only [LS.setC] at hk
      rw [get_set_self hi] at hk
      cases hk; cases ho2
    · simp only [LS.setC] at hk
      rw [get_set_other hki] at hk
      exact h.holdLt k g kk b hk
  · intro k
    by_cases hk : k = i
    · subst hk
      constructor
      · intro hm; have := (h.thrP k).mp hm; rw [hi] at this; cases this; exact absurd rfl hp1
      · intro hm
        simp only [LS.setC] at hm
        rw [get_set_self hi] at hm
        cases hm; exact absurd rfl hp2
    · simp only [LS.setC]; rw [get_set_other hk]; exact h.thrP k
  · intro f hf hr
    exact hw _ (by simp [ho]) (h.batRet f hf hr)
  · intro f hf hd
    exact reach_setC hi (fun h' => by rw [hh f] at h'; cases h') (h.batDrop f hf hd)
  · intro f hf
    refine hw _ ?_ (h.unapplied f hf)
    cases cold <;> simp_all [Cls.own]
  · intro b rest hq
    exact hw _ hpend (h.headApplied b rest hq)
  · intro k c f hk hc hf
    by_cases hki : k = i
    · subst hki
      simp only [LS.setC] at hk
      rw [get_set_self hi] at hk
      cases hk; rw [ho2] at hc; cases hc
    · simp only [LS.setC] at hk
      rw [get_set_other hki] at hk
      exact reach_setC hi (fun h' => by rw [hh f] at h'; cases h') (h.waitOk k c f hk hc hf)

theorem linv_begin (P : Nat) (a : LS) (h : LInv P a) (i : Nat) (hi : a.th[i]? = some .idle) :
    LInv P (a.setC i .begun) :=
  linv_setC_plain P a h i .idle .begun hi (by simp) (by simp) (fun _ => rfl) rfl rfl rfl

theorem linv_toIdle (P : Nat) (a : LS) (h : LInv P a) (i : Nat) (hi : a.th[i]? = some .begun) :
    LInv P (a.setC i .idle) :=
  linv_setC_plain P a h i .begun .idle hi (by simp) (by simp) (fun _ => rfl) rfl rfl rfl

theorem linv_acquire (P : Nat) (a : LS) (h : LInv P a) (i : Nat) (hi : a.th[i]? = some .begun)
    (hperm : 0 < a.permits) : LInv P (a.acquire i) := by
  have hw : ∀ p : Cls → Bool, p .begun = false → wit a.th p → wit (a.th.set i .permit) p :=
    fun p hp hwt => wit_set_mono hi (fun h' => by rw [hp] at h'; cases h') hwt
  have hnot : Own.thr i ∉ a.owners := by
    intro hm; have := (h.thrP i).mp hm; rw [hi] at this; cases this
  have hbat : ∀ f, Own.bat f ∈ (a.acquire i).owners → Own.bat f ∈ a.owners := by
    intro f hf
    simp only [LS.acquire] at hf
    rcases List.mem_cons.mp hf with h1 | h1
    · cases h1
    · exact h1
  refine ⟨?_, ?_, ?_, ?_, ?_, ?_, ?_, ?_, ?_, ?_, h.qLt, ?_, h.dropLt⟩
  rotate_right
  · intro k g kk b hk
    simp only [LS.acquire] at hk
    by_cases hki : k = i
    · subst hki; rw [get_set_self hi] at hk; cases hk
    · rw [get_set_other hki] at hk; exact h.holdLt k g kk b hk
  · simp only [LS.acquire]; exact List.nodup_cons.mpr ⟨hnot, h.nd⟩
  · have := h.sum; simp only [LS.acquire, List.length_cons]; omega
  · intro k
    simp only [LS.acquire]
    by_cases hk : k = i
    · subst hk
      rw [get_set_self hi]
      exact ⟨fun _ => rfl, fun _ => List.mem_cons_self⟩
    · rw [get_set_other hk]
      constructor
      · intro hm
        rcases List.mem_cons.mp hm with h1 | h1
        · cases h1; exact absurd rfl hk
        · exact (h.thrP k).mp h1
      · intro hm; exact List.mem_cons_of_mem _ ((h.thrP k).mpr hm)
  · intro f hf; exact h.batLt f (hbat f hf)
  · intro f hf; exact h.batRD f (hbat f hf)
  · intro f hf hr; exact hw _ (by simp [Cls.own]) (h.batRet f (hbat f hf) hr)
  · intro f hf hd
    have := reach_setC (cnew := .permit) hi (fun h' => by simp [Cls.holdsB] at h') (h.batDrop f (hbat f hf) hd)
    exact this
  · intro f hf; exact hw _ (by simp) (h.unapplied f hf)
  · intro b rest hq; exact hw _ rfl (h.headApplied b rest hq)
  · intro k c f hk hc hf
    simp only [LS.acquire] at hk
    by_cases hki : k = i
    · subst hki; rw [get_set_self hi] at hk; cases hk; cases hc
    · rw [get_set_other hki] at hk
      have := reach_setC (cnew := .permit) hi (fun h' => by simp [Cls.holdsB] at h') (h.waitOk k c f hk hc hf)
      exact this

theorem linv_release_bat (P : Nat) (a : LS) (h : LInv P a) (f : Nat) : LInv P (a.release (.bat f)) := by
  unfold LS.release
  split
  · rename_i hc
    have hm : Own.bat f ∈ a.owners := List.contains_iff_mem.mp hc
    have hsub : ∀ g, Own.bat g ∈ a.owners.erase (.bat f) → Own.bat g ∈ a.owners := fun g hg => List.mem_of_mem_erase hg
    refine ⟨h.nd.erase _, ?_, ?_, fun g hg => h.batLt g (hsub g hg), fun g hg => h.batRD g (hsub g hg),
      fun g hg => h.batRet g (hsub g hg), fun g hg => h.batDrop g (hsub g hg), h.unapplied, h.headApplied,
      h.waitOk, h.qLt, h.holdLt, h.dropLt⟩
    · have h1 := h.sum
      have h2 := List.length_erase_of_mem hm
      have h3 : 0 < a.owners.length := List.length_pos_of_mem hm
      simp only
      omega
    · intro k
      simp only
      rw [List.mem_erase_of_ne (by simp)]
      exact h.thrP k
  · exact h

theorem linv_addDone (P : Nat) (a : LS) (h : LInv P a) (f : Nat) : LInv P (a.addDone f) := by
  unfold LS.addDone
  split
  · exact h
  · refine ⟨h.nd, h.sum, h.thrP, h.batLt, h.batRD, h.batRet, h.batDrop, h.unapplied, h.headApplied, ?_,
      h.qLt, h.holdLt, h.dropLt⟩
    intro k c g hk hc hg
    exact h.waitOk k c g hk hc (fun hm => hg (List.mem_cons_of_mem _ hm))

theorem mem_addDone (a : LS) (f : Nat) : f ∈ (a.addDone f).done := by
  unfold LS.addDone
  split
  · rename_i hc; exact List.contains_iff_mem.mp hc
  · exact List.mem_cons_self

theorem linv_returned (P : Nat) (a : LS) (h : LInv P a) (f : Nat) (hf : Own.bat f ∈ a.owners → f ∉ a.dropped) :
    LInv P { a with returned := f :: a.returned } := by
  refine ⟨h.nd, h.sum, h.thrP, h.batLt, ?_, ?_, h.batDrop, h.unapplied, h.headApplied, h.waitOk,
    h.qLt, h.holdLt, h.dropLt⟩
  · intro g hg ⟨hr, hd⟩
    rcases List.mem_cons.mp hr with h1 | h1
    · subst h1; exact hf hg hd
    · exact h.batRD g hg ⟨h1, hd⟩
  · intro g hg hr
    exact h.batRet g hg (fun hm => hr (List.mem_cons_of_mem _ hm))

theorem linv_dropped (P : Nat) (a : LS) (h : LInv P a) (f : Nat) (hf : Own.bat f ∈ a.owners → f ∉ a.returned)
    (hlt : f < a.next) : LInv P { a with dropped := f :: a.dropped } := by
  refine ⟨h.nd, h.sum, h.thrP, h.batLt, ?_, h.batRet, ?_, h.unapplied, h.headApplied, h.waitOk,
    h.qLt, h.holdLt, ?_⟩
  · intro g hg ⟨hr, hd⟩
    rcases List.mem_cons.mp hd with h1 | h1
    · subst h1; exact hf hg hr
    · exact h.batRD g hg ⟨hr, h1⟩
  · intro g hg hd
    exact h.batDrop g hg (fun hm => hd (List.mem_cons_of_mem _ hm))
  · intro g hg
    rcases List.mem_cons.mp hg with h1 | h1
    · subst h1; exact hlt
    · exact h.dropLt g h1

theorem linv_dropBatch (P : Nat) (a : LS) (h : LInv P a) (f : Nat) (hlt : f < a.next) : LInv P (a.dropBatch f) := by
  unfold LS.dropBatch
  split
  · exact linv_release_bat P a h f
  · rename_i hc
    exact linv_dropped P a h f (fun _ hm => hc (List.contains_iff_mem.mpr hm)) hlt

/-- after `dropBatch f` the batch is out of the picture: dropped, or no longer a permit owner -/
theorem dropBatch_settled (P : Nat) (a : LS) (h : LInv P a) (f : Nat) :
    Own.bat f ∈ (a.dropBatch f).owners → f ∈ (a.dropBatch f).dropped := by
  unfold LS.dropBatch
  split
  · unfold LS.release
    split
    · intro hm
      simp only at hm
      exact absurd ((h.nd.mem_erase_iff).mp hm).1 (by simp)
    · rename_i hc
      intro hm; exact absurd (List.contains_iff_mem.mpr hm) hc
  · intro _; exact List.mem_cons_self

/-- the general re-classification of a thread that is not getting or giving up a permit and is not
becoming a holder: its own batch stays the same or is given up after `returned` was recorded; what it
held before is already completed and settled; it may stop being the pending publisher only when the
head of the queue is not applied -/
theorem linv_setC_gen (P : Nat) (a : LS) (h : LInv P a) (i : Nat) (cold cnew : Cls)
    (hi : a.th[i]? = some cold) (hp1 : cold ≠ .permit) (hp2 : cnew ≠ .permit)
    (hh : ∀ g, cold.holdsB g = true → g ∈ a.done ∧ (Own.bat g ∈ a.owners → g ∈ a.dropped))
    (hh2 : ∀ g, cnew.holdsB g = false)
    (hnw : ∀ g, cold ≠ .work g)
    (hpend : cold.pending = true → cnew.pending = true ∨ ∀ b rest, a.q ≠ (b, true) :: rest)
    (hown : cnew.own = cold.own ∨
      (cnew.own = none ∧ ∀ f, cold.own = some f → Own.bat f ∈ a.owners → f ∈ a.returned)) :
    LInv P (a.setC i cnew) := by
  refine ⟨h.nd, h.sum, ?_, h.batLt, h.batRD, ?_, ?_, ?_, ?_, ?_, h.qLt, ?_, h.dropLt⟩
  · intro k
    by_cases hk : k = i
    · subst hk
      constructor
      · intro hm; have := (h.thrP k).mp hm; rw [hi] at this; cases this; exact absurd rfl hp1
      · intro hm
        simp only [LS.setC] at hm
        rw [get_set_self hi] at hm
        cases hm; exact absurd rfl hp2
    · simp only [LS.setC]; rw [get_set_other hk]; exact h.thrP k
  · intro f hf hr
    refine wit_set_mono hi ?_ (h.batRet f hf hr)
    intro hc
    have hc' : cold.own = some f := by simpa using hc
    rcases hown with h1 | ⟨_, h2⟩
    · simp [h1, hc']
    · exact absurd (h2 f hc' hf) hr
  · intro f hf hd
    rcases h.batDrop f hf hd with h1 | h1
    · exact Or.inl h1
    · refine Or.inr (wit_set_mono hi ?_ h1)
      intro hc; exact absurd ((hh f hc).2 hf) hd
  · intro f hf
    refine wit_set_mono hi ?_ (h.unapplied f hf)
    intro hc
    have : cold = .work f := by simpa using hc
    exact absurd this (hnw f)
  · intro b rest hq
    refine wit_set_mono hi ?_ (h.headApplied b rest hq)
    intro hc
    rcases hpend hc with h1 | h1
    · exact h1
    · exact absurd hq (h1 b rest)
  · intro k c f hk hc hf
    have keep : reach a f → reach (a.setC i cnew) f := by
      intro hr
      rcases hr with h1 | h1
      · exact Or.inl h1
      · refine Or.inr (wit_set_mono hi ?_ h1)
        intro hcc; exact absurd (hh f hcc).1 hf
    by_cases hki : k = i
    · subst hki
      simp only [LS.setC] at hk
      rw [get_set_self hi] at hk
      cases hk
      rcases hown with h1 | ⟨h1, _⟩
      · exact keep (h.waitOk k cold f hi (by rw [← h1]; exact hc) hf)
      · rw [h1] at hc; cases hc
    · simp only [LS.setC] at hk
      rw [get_set_other hki] at hk
      exact keep (h.waitOk k c f hk hc hf)
  · intro k g kk b hk
    by_cases hki : k = i
    · subst hki
      simp only [LS.setC] at hk
      rw [get_set_self hi] at hk
      cases hk
      have := hh2 b
      simp [Cls.holdsB] at this
    · simp only [LS.setC] at hk
      rw [get_set_other hki] at hk
      exact h.holdLt k g kk b hk

theorem linv_finishNone (P : Nat) (a : LS) (h : LInv P a) (i : Nat) (hi : a.th[i]? = some .permit) :
    LInv P (a.finishNone i) := by
  have hm : Own.thr i ∈ a.owners := (h.thrP i).mpr hi
  have hw : ∀ p : Cls → Bool, p .permit = false → wit a.th p → wit (a.th.set i .idle) p :=
    fun p hp hwt => wit_set_mono hi (fun h' => by rw [hp] at h'; cases h') hwt
  have hsub : ∀ g, Own.bat g ∈ a.owners.erase (.thr i) → Own.bat g ∈ a.owners := fun g hg => List.mem_of_mem_erase hg
  have hreach : ∀ f, reach a f → reach (a.setC i .idle) f :=
    fun f hr => reach_setC hi (fun h' => by simp [Cls.holdsB] at h') hr
  unfold LS.finishNone LS.release
  have hc : (a.setC i .idle).owners.contains (.thr i) = true := List.contains_iff_mem.mpr hm
  rw [if_pos hc]
  refine ⟨h.nd.erase _, ?_, ?_, fun g hg => h.batLt g (hsub g hg), fun g hg => h.batRD g (hsub g hg),
    ?_, ?_, ?_, ?_, ?_, h.qLt, ?_, h.dropLt⟩
  · have h1 := h.sum
    have h2 := List.length_erase_of_mem hm
    have h3 : 0 < a.owners.length := List.length_pos_of_mem hm
    simp only [LS.setC]
    omega
  · intro k
    simp only [LS.setC]
    by_cases hk : k = i
    · subst hk
      rw [get_set_self hi]
      constructor
      · intro hm'; exact absurd ((h.nd.mem_erase_iff).mp hm').1 (by simp)
      · intro hm'; cases hm'
    · rw [get_set_other hk, List.mem_erase_of_ne (by simpa using hk)]
      exact h.thrP k
  · intro f hf hr; exact hw _ (by simp [Cls.own]) (h.batRet f (hsub f hf) hr)
  · intro f hf hd; exact hreach f (h.batDrop f (hsub f hf) hd)
  · intro f hf; exact hw _ (by simp) (h.unapplied f hf)
  · intro b rest hq; exact hw _ rfl (h.headApplied b rest hq)
  · intro k c f hk hc' hf
    simp only [LS.setC] at hk
    by_cases hki : k = i
    · subst hki; rw [get_set_self hi] at hk; cases hk; cases hc'
    · rw [get_set_other hki] at hk
      exact hreach f (h.waitOk k c f hk hc' hf)
  · intro k g kk b hk
    simp only [LS.setC] at hk
    by_cases hki : k = i
    · subst hki; rw [get_set_self hi] at hk; cases hk
    · rw [get_set_other hki] at hk; exact h.holdLt k g kk b hk

theorem finishSome_eq (a : LS) (i f : Nat) :
    a.finishSome i f =
      (if a.dropped.contains f then a.release (.bat f) else { a with returned := f :: a.returned }).setC i .idle := by
  unfold LS.finishSome
  simp only
  show (if a.dropped.contains f = true then _ else _) = _
  split
  · unfold LS.release
    show (if a.owners.contains (.bat f) = true then _ else _) = LS.setC (if a.owners.contains (.bat f) = true then _ else _) i .idle
    split <;> rfl
  · rfl

/-- a thread that owns `f` and is done with it (not working, holding only what is settled) returns -/
theorem linv_finishSome (P : Nat) (a : LS) (h : LInv P a) (i f : Nat) (cold : Cls)
    (hi : a.th[i]? = some cold) (hown : cold.own = some f) (hp1 : cold ≠ .permit)
    (hh : ∀ g, cold.holdsB g = true → g ∈ a.done ∧ (Own.bat g ∈ a.owners → g ∈ a.dropped))
    (hnw : ∀ g, cold ≠ .work g)
    (hpend : cold.pending = true → ∀ b rest, a.q ≠ (b, true) :: rest) :
    LInv P (a.finishSome i f) := by
  rw [finishSome_eq]
  split
  · rename_i hc
    have h1 := linv_release_bat P a h f
    refine linv_setC_gen P _ h1 i cold .idle ?_ hp1 (by simp) ?_ (fun _ => rfl) hnw ?_ ?_
    · unfold LS.release; split <;> exact hi
    · intro g hg
      have := hh g hg
      refine ⟨by unfold LS.release; split <;> exact this.1, ?_⟩
      intro hm
      have hm' : Own.bat g ∈ a.owners := by
        unfold LS.release at hm; split at hm
        · exact List.mem_of_mem_erase hm
        · exact hm
      unfold LS.release; split <;> exact this.2 hm'
    · intro hc'
      right
      have := hpend hc'
      unfold LS.release; split <;> exact this
    · right
      refine ⟨rfl, ?_⟩
      intro g hg hm
      rw [hown] at hg; cases hg
      -- the owner entry is gone
      unfold LS.release at hm
      split at hm
      · exact absurd ((h.nd.mem_erase_iff).mp hm).1 (by simp)
      · rename_i hno; exact absurd (List.contains_iff_mem.mpr hm) hno
  · rename_i hc
    have h1 := linv_returned P a h f (fun _ hm => hc (List.contains_iff_mem.mpr hm))
    refine linv_setC_gen P _ h1 i cold .idle hi hp1 (by simp) hh (fun _ => rfl) hnw ?_ ?_
    · intro hc'; exact Or.inr (hpend hc')
    · right
      refine ⟨rfl, ?_⟩
      intro g hg _
      rw [hown] at hg; cases hg
      exact List.mem_cons_self

theorem inQ_markQ (q : List (Nat × Bool)) (f g : Nat) (h : inQ q g) :
    inQ (q.map (fun p => if p.1 == f then (p.1, true) else p)) g := by
  obtain ⟨ap, hm⟩ := h
  by_cases hgf : g = f
  · subst hgf
    exact ⟨true, List.mem_map.mpr ⟨(g, ap), hm, by simp⟩⟩
  · exact ⟨ap, List.mem_map.mpr ⟨(g, ap), hm, by simp [hgf]⟩⟩

theorem unapplied_markQ (q : List (Nat × Bool)) (f g : Nat)
    (h : (g, false) ∈ q.map (fun p => if p.1 == f then (p.1, true) else p)) : g ≠ f ∧ (g, false) ∈ q := by
  obtain ⟨p, hp, he⟩ := List.mem_map.mp h
  by_cases hpf : p.1 = f
  · simp [hpf] at he
  · simp [hpf] at he
    subst he
    exact ⟨hpf, hp⟩

theorem qLt_markQ (q : List (Nat × Bool)) (f n : Nat) (h : ∀ p ∈ q, p.1 < n) :
    ∀ p ∈ q.map (fun p => if p.1 == f then (p.1, true) else p), p.1 < n := by
  intro p hp
  obtain ⟨p0, hp0, he⟩ := List.mem_map.mp hp
  have := h p0 hp0
  by_cases hpf : p0.1 = f
  · simp [hpf] at he; subst he; simpa [hpf] using this
  · simp [hpf] at he; subst he; exact this

/-- the facts about the owner list after an enqueue by thread `i` -/
theorem enq_owners (P : Nat) (a : LS) (h : LInv P a) (i : Nat) (hi : a.th[i]? = some .permit) :
    (Own.bat a.next :: a.owners.erase (.thr i)).Nodup ∧
    a.permits + (Own.bat a.next :: a.owners.erase (.thr i)).length = P ∧
    (∀ k, Own.thr k ∈ (Own.bat a.next :: a.owners.erase (.thr i)) ↔ (k ≠ i ∧ Own.thr k ∈ a.owners)) ∧
    (∀ g, Own.bat g ∈ (Own.bat a.next :: a.owners.erase (.thr i)) ↔ (g = a.next ∨ Own.bat g ∈ a.owners)) := by
  have hm : Own.thr i ∈ a.owners := (h.thrP i).mpr hi
  have hfresh : Own.bat a.next ∉ a.owners := fun hb => by have := h.batLt _ hb; omega
  refine ⟨?_, ?_, ?_, ?_⟩
  · exact List.nodup_cons.mpr ⟨fun hb => hfresh (List.mem_of_mem_erase hb), h.nd.erase _⟩
  · have h1 := h.sum
    have h2 := List.length_erase_of_mem hm
    have h3 : 0 < a.owners.length := List.length_pos_of_mem hm
    simp only [List.length_cons]
    omega
  · intro k
    constructor
    · intro hk
      rcases List.mem_cons.mp hk with h1 | h1
      · cases h1
      · have := (h.nd.mem_erase_iff).mp h1
        exact ⟨by simpa using this.1, this.2⟩
    · intro ⟨h1, h2⟩
      exact List.mem_cons_of_mem _ ((h.nd.mem_erase_iff).mpr ⟨by simpa using h1, h2⟩)
  · intro g
    constructor
    · intro hg
      rcases List.mem_cons.mp hg with h1 | h1
      · cases h1; exact Or.inl rfl
      · exact Or.inr (List.mem_of_mem_erase h1)
    · intro hg
      rcases hg with h1 | h1
      · subst h1; exact List.mem_cons_self
      · exact List.mem_cons_of_mem _ ((List.mem_erase_of_ne (by simp)).mpr h1)

theorem linv_enqueue (P : Nat) (a : LS) (h : LInv P a) (i c : Nat) (wal : Bool)
    (hi : a.th[i]? = some .permit) (hc : 1 ≤ c) : LInv P (a.enqueue i c wal) := by
  obtain ⟨hnd, hsum, hthr, hbat⟩ := enq_owners P a h i hi
  have hw : ∀ (cnew : Cls) (p : Cls → Bool), p .permit = false → wit a.th p → wit (a.th.set i cnew) p :=
    fun cnew p hp hwt => wit_set_mono hi (fun h' => by rw [hp] at h'; cases h') hwt
  have hnr : a.next ∉ a.returned ∨ a.next ∉ a.dropped := Or.inr (fun hd => by have := h.dropLt _ hd; omega)
  cases wal with
  | false =>
    simp only [LS.enqueue, Bool.false_eq_true, if_false, LS.setC]
    have hreach : ∀ f, reach a f → reach
        { a with next := a.next + c, q := a.q ++ [(a.next, false)],
                 owners := .bat a.next :: a.owners.erase (.thr i), th := a.th.set i (.work a.next) } f := by
      intro f hr
      rcases hr with ⟨ap, hm⟩ | hwt
      · exact Or.inl ⟨ap, List.mem_append_left _ hm⟩
      · exact Or.inr (hw _ _ rfl hwt)
    have hnew : reach
        { a with next := a.next + c, q := a.q ++ [(a.next, false)],
                 owners := .bat a.next :: a.owners.erase (.thr i), th := a.th.set i (.work a.next) } a.next :=
      Or.inl ⟨false, List.mem_append_right _ List.mem_cons_self⟩
    refine ⟨hnd, hsum, ?_, ?_, ?_, ?_, ?_, ?_, ?_, ?_, ?_, ?_, ?_⟩
    · intro k
      rw [hthr k]
      by_cases hk : k = i
      · subst hk; rw [get_set_self hi]; simp
      · rw [get_set_other hk]; simp [hk]; exact h.thrP k
    · intro g hg
      rcases (hbat g).mp hg with h1 | h1
      · subst h1; simp only; omega
      · have := h.batLt g h1; simp only; omega
    · intro g hg ⟨hr, hd⟩
      rcases (hbat g).mp hg with h1 | h1
      · subst h1; rcases hnr with h2 | h2
        · exact h2 hr
        · exact h2 hd
      · exact h.batRD g h1 ⟨hr, hd⟩
    · intro g hg hr
      rcases (hbat g).mp hg with h1 | h1
      · subst h1; exact wit_set_new hi (by simp [Cls.own])
      · exact hw _ _ (by simp [Cls.own]) (h.batRet g h1 hr)
    · intro g hg hd
      rcases (hbat g).mp hg with h1 | h1
      · subst h1; exact hnew
      · exact hreach g (h.batDrop g h1 hd)
    · intro g hg
      rcases List.mem_append.mp hg with h1 | h1
      · exact hw _ _ (by simp) (h.unapplied g h1)
      · simp at h1; subst h1; exact wit_set_new hi (by simp)
    · intro b rest hq
      cases hqa : a.q with
      | nil => simp [hqa] at hq
      | cons x xs =>
        simp only [hqa, List.cons_append] at hq
        have hx : x = (b, true) := (List.cons.inj hq).1
        exact hw _ _ rfl (h.headApplied b xs (by rw [hqa, hx]))
    · intro k cc g hk hcc hg
      by_cases hki : k = i
      · subst hki
        rw [get_set_self hi] at hk
        cases hk
        simp only [Cls.own] at hcc
        cases hcc
        exact hnew
      · rw [get_set_other hki] at hk
        exact hreach g (h.waitOk k cc g hk hcc hg)
    · intro p hp
      rcases List.mem_append.mp hp with h1 | h1
      · have := h.qLt p h1; simp only; omega
      · simp at h1; subst h1; simp only; omega
    · intro k g kk b hk
      by_cases hki : k = i
      · subst hki; rw [get_set_self hi] at hk; cases hk
      · rw [get_set_other hki] at hk
        have := h.holdLt k g kk b hk; simp only; omega
    · intro g hg; have := h.dropLt g hg; simp only; omega
  | true =>
    -- the WAL write failed at once: completed with the error, marked applied, the thread turns publisher
    simp only [LS.enqueue, if_true, LS.setC, LS.markQ]
    suffices key : ∀ A : LS, A.q = a.q ++ [(a.next, false)] → A.th = a.th →
        A.owners = .bat a.next :: a.owners.erase (.thr i) → A.permits = a.permits → A.returned = a.returned →
        A.dropped = a.dropped → A.next = a.next + c → (∀ g, g ∉ A.done → g ∉ a.done ∧ g ≠ a.next) →
        LInv P { A with q := A.q.map (fun p => if p.1 == a.next then (p.1, true) else p),
                        th := A.th.set i (.pend a.next .wal) } by
      refine key (LS.addDone _ a.next) ?_ ?_ ?_ ?_ ?_ ?_ ?_ ?_
      · unfold LS.addDone; split <;> rfl
      · unfold LS.addDone; split <;> rfl
      · unfold LS.addDone; split <;> rfl
      · unfold LS.addDone; split <;> rfl
      · unfold LS.addDone; split <;> rfl
      · unfold LS.addDone; split <;> rfl
      · unfold LS.addDone; split <;> rfl
      · intro g hg
        unfold LS.addDone at hg
        split at hg
        · rename_i hc'
          exact ⟨hg, fun he => by subst he; exact hg (List.contains_iff_mem.mp hc')⟩
        · simp only [List.mem_cons, not_or] at hg
          exact ⟨hg.2, hg.1⟩
    intro A hAq hAth hAo hAp hAr hAd hAn hAdone
    simp only [hAq, hAth, hAo, hAp, hAr, hAd, hAn]
    have hreach : ∀ f, reach a f → reach
        { A with q := (a.q ++ [(a.next, false)]).map (fun p => if p.1 == a.next then (p.1, true) else p),
                 th := a.th.set i (.pend a.next .wal) } f := by
      intro f hr
      rcases hr with ⟨ap, hm⟩ | hwt
      · exact Or.inl (inQ_markQ _ _ _ ⟨ap, List.mem_append_left _ hm⟩)
      · exact Or.inr (hw _ _ rfl hwt)
    refine ⟨by simpa using hnd, by simpa using hsum, ?_, ?_, ?_, ?_, ?_, ?_, ?_, ?_, ?_, ?_, ?_⟩
    · intro k
      simp only
      rw [hthr k]
      by_cases hk : k = i
      · subst hk; rw [get_set_self hi]; simp
      · rw [get_set_other hk]; simp [hk]; exact h.thrP k
    · intro g hg
      rcases (hbat g).mp hg with h1 | h1
      · subst h1; simp only; omega
      · have := h.batLt g h1; simp only; omega
    · intro g hg ⟨hr, hd⟩
      rcases (hbat g).mp hg with h1 | h1
      · subst h1; rcases hnr with h2 | h2
        · exact h2 hr
        · exact h2 hd
      · exact h.batRD g h1 ⟨hr, hd⟩
    · intro g hg hr
      rcases (hbat g).mp hg with h1 | h1
      · subst h1; exact wit_set_new hi (by simp [Cls.own])
      · exact hw _ _ (by simp [Cls.own]) (h.batRet g h1 hr)
    · intro g hg hd
      rcases (hbat g).mp hg with h1 | h1
      · subst h1
        exact Or.inl (inQ_markQ _ _ _ ⟨false, List.mem_append_right _ List.mem_cons_self⟩)
      · exact hreach g (h.batDrop g h1 hd)
    · intro g hg
      obtain ⟨hne, hm⟩ := unapplied_markQ _ _ _ hg
      rcases List.mem_append.mp hm with h1 | h1
      · exact hw _ _ (by simp) (h.unapplied g h1)
      · simp at h1; exact absurd h1 hne
    · intro b rest _
      exact wit_set_new hi rfl
    · intro k cc g hk hcc hg
      obtain ⟨hg1, hg2⟩ := hAdone g hg
      by_cases hki : k = i
      · subst hki
        simp only at hk
        rw [get_set_self hi] at hk
        cases hk
        simp only [Cls.own] at hcc
        cases hcc
        exact absurd rfl hg2
      · simp only at hk
        rw [get_set_other hki] at hk
        exact hreach g (h.waitOk k cc g hk hcc hg1)
    · show ∀ p ∈ (a.q ++ [(a.next, false)]).map (fun p => if p.1 == a.next then (p.1, true) else p), p.1 < a.next + c
      apply qLt_markQ
      intro p hp
      rcases List.mem_append.mp hp with h1 | h1
      · have := h.qLt p h1; omega
      · simp at h1; subst h1; simp only; omega
    · intro k g kk b hk
      simp only at hk
      show b < a.next + c
      by_cases hki : k = i
      · subst hki; rw [get_set_self hi] at hk; cases hk
      · rw [get_set_other hki] at hk
        have := h.holdLt k g kk b hk; omega
    · intro g hg; have := h.dropLt g hg; show g < a.next + c; omega

/-- marking queue entries applied and re-classifying the marking thread, on a state `A` that agrees
with an invariant state `a` on everything but `done ⊇` -/
theorem linv_mark (P : Nat) (a : LS) (h : LInv P a) (i f : Nat) (failed : Bool)
    (hi : a.th[i]? = some (.work f)) : LInv P (a.mark i f failed) := by
  have hA : LInv P (if failed then a.addDone f else a) := by
    split
    · exact linv_addDone P a h f
    · exact h
  have hAth : (if failed then a.addDone f else a).th = a.th := by
    split
    · unfold LS.addDone; split <;> rfl
    · rfl
  revert hA hAth
  simp only [LS.mark]
  generalize (if failed then a.addDone f else a) = A
  intro hA hAth
  have hiA : A.th[i]? = some (.work f) := by rw [hAth]; exact hi
  generalize hk : (if failed = true then FK.apply else FK.none) = kk
  simp only [LS.markQ, LS.setC]
  have hw : ∀ p : Cls → Bool, (p (.work f) = true → p (.pend f kk) = true) → wit A.th p →
      wit (A.th.set i (.pend f kk)) p := fun p hp hwt => wit_set_mono hiA hp hwt
  have hreach : ∀ g, reach A g → reach
      { A with q := A.q.map (fun p => if p.1 == f then (p.1, true) else p), th := A.th.set i (.pend f kk) } g := by
    intro g hr
    rcases hr with h1 | h1
    · exact Or.inl (inQ_markQ _ _ _ h1)
    · exact Or.inr (hw _ (fun h' => by simp [Cls.holdsB] at h') h1)
  refine ⟨hA.nd, hA.sum, ?_, hA.batLt, hA.batRD, ?_, ?_, ?_, ?_, ?_, ?_, ?_, hA.dropLt⟩
  · intro k
    simp only
    by_cases hk' : k = i
    · subst hk'
      rw [get_set_self hiA]
      constructor
      · intro hm; have := (hA.thrP k).mp hm; rw [hiA] at this; cases this
      · intro hm; cases hm
    · rw [get_set_other hk']; exact hA.thrP k
  · intro g hg hr
    exact hw _ (fun h' => by simpa [Cls.own] using h') (hA.batRet g hg hr)
  · intro g hg hd; exact hreach g (hA.batDrop g hg hd)
  · intro g hg
    obtain ⟨hne, hm⟩ := unapplied_markQ _ _ _ hg
    refine hw _ ?_ (hA.unapplied g hm)
    intro h'
    have : f = g := by simpa using h'
    exact absurd this.symm hne
  · intro b rest _; exact wit_set_new hiA rfl
  · intro k c g hk' hc hg
    simp only at hk'
    by_cases hki : k = i
    · subst hki
      rw [get_set_self hiA] at hk'
      cases hk'
      simp only [Cls.own] at hc
      cases hc
      exact hreach f (hA.waitOk k (.work f) f hiA rfl hg)
    · rw [get_set_other hki] at hk'
      exact hreach g (hA.waitOk k c g hk' hc hg)
  · exact qLt_markQ _ _ _ hA.qLt
  · intro k g kk' b hk'
    simp only at hk'
    by_cases hki : k = i
    · subst hki; rw [get_set_self hiA] at hk'; cases hk'
    · rw [get_set_other hki] at hk'; exact hA.holdLt k g kk' b hk'

/-- the top of the publish loop, for a thread that is the pending publisher (it just marked its batch,
or it just published one: what it held is completed and settled) -/
theorem linv_pubTop (P : Nat) (a : LS) (h : LInv P a) (i f : Nat) (k : FK) (cold : Cls)
    (hi : a.th[i]? = some cold) (hown : cold.own = some f) (hpc : cold.pending = true)
    (hh : ∀ g, cold.holdsB g = true → g ∈ a.done ∧ (Own.bat g ∈ a.owners → g ∈ a.dropped)) :
    LInv P (a.pubTop i f k) := by
  have hp1 : cold ≠ .permit := by intro hc; subst hc; cases hpc
  have hnw : ∀ g, cold ≠ .work g := by intro g hc; subst hc; cases hpc
  have leave : (∀ b rest, a.q ≠ (b, true) :: rest) →
      LInv P (if k == .wal then a.finishSome i f else a.setC i (if k = .none then .post f else .postF f)) := by
    intro hq
    split
    · exact linv_finishSome P a h i f cold hi hown hp1 hh hnw (fun _ => hq)
    · refine linv_setC_gen P a h i cold _ hi hp1 ?_ hh ?_ hnw (fun _ => Or.inr hq) ?_
      · split <;> simp
      · intro g; split <;> rfl
      · left; rw [hown]; split <;> rfl
  cases hq : a.q with
  | nil =>
    simp only [LS.pubTop, hq]
    exact leave (by rw [hq]; intro b rest hc; cases hc)
  | cons x rest =>
    obtain ⟨b, ap⟩ := x
    cases ap with
    | false =>
      simp only [LS.pubTop, hq]
      exact leave (by rw [hq]; intro b' rest' hc; cases hc)
    | true =>
      simp only [LS.pubTop, hq]
      have hblt : b < a.next := h.qLt (b, true) (by rw [hq]; exact List.mem_cons_self)
      have hsubq : ∀ p ∈ rest, p ∈ a.q := fun p hp => by rw [hq]; exact List.mem_cons_of_mem _ hp
      have hw : ∀ p : Cls → Bool, (p cold = true → p (.hold f k b) = true) → wit a.th p →
          wit (a.th.set i (.hold f k b)) p := fun p hp hwt => wit_set_mono hi hp hwt
      -- reachability survives for every batch that is not already completed and settled
      have hreach : ∀ g, (cold.holdsB g = true → False) → reach a g →
          reach { a with q := rest, th := a.th.set i (.hold f k b) } g := by
        intro g hng hr
        rcases hr with ⟨ap, hm⟩ | h1
        · rw [hq] at hm
          rcases List.mem_cons.mp hm with h2 | h2
          · cases h2
            exact Or.inr (wit_set_new hi (by simp [Cls.holdsB]))
          · exact Or.inl ⟨ap, h2⟩
        · exact Or.inr (hw _ (fun h' => absurd h' (by simpa using hng)) h1)
      refine ⟨h.nd, h.sum, ?_, h.batLt, h.batRD, ?_, ?_, ?_, ?_, ?_, ?_, ?_, h.dropLt⟩
      · intro k'
        simp only
        by_cases hk' : k' = i
        · subst hk'
          rw [get_set_self hi]
          constructor
          · intro hm; have := (h.thrP k').mp hm; rw [hi] at this; cases this; exact absurd rfl hp1
          · intro hm; cases hm
        · rw [get_set_other hk']; exact h.thrP k'
      · intro g hg hr
        refine hw _ ?_ (h.batRet g hg hr)
        intro h'
        have : cold.own = some g := by simpa using h'
        rw [hown] at this
        simpa [Cls.own] using this
      · intro g hg hd
        exact hreach g (fun hc => hd ((hh g hc).2 hg)) (h.batDrop g hg hd)
      · intro g hg
        refine hw _ ?_ (h.unapplied g (hsubq _ hg))
        intro h'
        have : cold = .work g := by simpa using h'
        exact absurd this (hnw g)
      · intro b' rest' _; exact wit_set_new hi rfl
      · intro k' c g hk' hc hg
        simp only at hk'
        by_cases hki : k' = i
        · subst hki
          rw [get_set_self hi] at hk'
          cases hk'
          simp only [Cls.own] at hc
          cases hc
          exact hreach f (fun hcc => hg (hh f hcc).1) (h.waitOk k' cold f hi hown hg)
        · rw [get_set_other hki] at hk'
          exact hreach g (fun hcc => hg (hh g hcc).1) (h.waitOk k' c g hk' hc hg)
      · intro p hp; exact h.qLt p (hsubq p hp)
      · intro k' g kk' b' hk'
        simp only at hk'
        by_cases hki : k' = i
        · subst hki
          rw [get_set_self hi] at hk'
          cases hk'
          exact hblt
        · rw [get_set_other hki] at hk'; exact h.holdLt k' g kk' b' hk'

theorem linv_publish (P : Nat) (a : LS) (h : LInv P a) (i f : Nat) (k : FK) (b : Nat)
    (hi : a.th[i]? = some (.hold f k b)) : LInv P (((a.addDone b).dropBatch b).pubTop i f k) := by
  have hblt : b < a.next := h.holdLt i f k b hi
  have h1 := linv_addDone P a h b
  have hn1 : (a.addDone b).next = a.next := by unfold LS.addDone; split <;> rfl
  have h2 := linv_dropBatch P _ h1 b (by rw [hn1]; exact hblt)
  have hth : ((a.addDone b).dropBatch b).th = a.th := by
    unfold LS.dropBatch LS.release LS.addDone
    split <;> split <;> (try split) <;> rfl
  have hdone : b ∈ ((a.addDone b).dropBatch b).done := by
    have := mem_addDone a b
    unfold LS.dropBatch LS.release
    split <;> (try split) <;> exact this
  refine linv_pubTop P _ h2 i f k (.hold f k b) (by rw [hth]; exact hi) rfl rfl ?_
  intro g hg
  have : b = g := by simpa [Cls.holdsB] using hg
  subst this
  exact ⟨hdone, dropBatch_settled P _ h1 b⟩

/-- **every operation a step can be keeps the invariant** -/
theorem linv_opn (P : Nat) (a : LS) (h : LInv P a) (op : LOpn) (hal : a.allowed op) : LInv P (a.opn op) := by
  cases op with
  | stay => exact h
  | toIdle i => exact linv_toIdle P a h i hal
  | acquire i => exact linv_acquire P a h i hal.1 hal.2
  | finishNone i => exact linv_finishNone P a h i hal
  | enqueue i c wal => exact linv_enqueue P a h i c wal hal.1 hal.2
  | mark i f failed => exact linv_mark P a h i f failed hal
  | pubTop i f k =>
    exact linv_pubTop P a h i f k (.pend f k) hal rfl rfl (fun g hg => by simp [Cls.holdsB] at hg)
  | publish i f k b => exact linv_publish P a h i f k b hal
  | finishSome i f =>
    rcases hal with h1 | ⟨h1, _⟩
    · exact linv_finishSome P a h i f (.postF f) h1 rfl (by simp) (fun g hg => by simp [Cls.holdsB] at hg)
        (fun g => by simp) (fun hc => by cases hc)
    · exact linv_finishSome P a h i f (.post f) h1 rfl (by simp) (fun g hg => by simp [Cls.holdsB] at hg)
        (fun g => by simp) (fun hc => by cases hc)

/-! ## from the projection back to the pipeline model -/

theorem linv_init_like (P : Nat) (s : PState) (hq : s.queue = []) (ho : s.owners = []) (hp : s.permits = P)
    (hd : s.dropped = []) (hth : ∀ (k : Nat) (t : Thread), s.threads[k]? = some t → t.pc = .ready) : LInv P (proj s) := by
  have hcls : ∀ (k : Nat) (c : Cls), (proj s).th[k]? = some c → c = .idle := by
    intro k c hk
    simp only [proj, List.getElem?_map] at hk
    cases ht : s.threads[k]? with
    | none => simp [ht] at hk
    | some t =>
      simp [ht] at hk
      rw [hth k t ht] at hk
      exact hk.symm
  have nowit : ∀ p : Cls → Bool, p .idle = false → ¬ wit (proj s).th p := by
    intro p hp' ⟨k, c, hk, hc⟩
    rw [hcls k c hk, hp'] at hc; cases hc
  refine ⟨by simp [proj, ho], by simp [proj, ho, hp], ?_, ?_, ?_, ?_, ?_, ?_, ?_, ?_, ?_, ?_, ?_⟩
  · intro k
    constructor
    · intro hm; simp [proj, ho] at hm
    · intro hk; have := hcls k _ hk; cases this
  · intro f hf; simp [proj, ho] at hf
  · intro f hf; simp [proj, ho] at hf
  · intro f hf; simp [proj, ho] at hf
  · intro f hf; simp [proj, ho] at hf
  · intro f hf; simp [proj, hq] at hf
  · intro b rest hqq; simp [proj, hq] at hqq
  · intro k c f hk hc; rw [hcls k c hk] at hc; cases hc
  · intro p hp'; simp [proj, hq] at hp'
  · intro k g kk b hk; have := hcls k _ hk; cases this
  · intro f hf; simp [proj, hd] at hf

theorem proj_begin (s : PState) (i : Nat) (req : CommitReq) :
    proj (s.begin i req) = proj s ∨
      ((proj s).th[i]? = some .idle ∧ proj (s.begin i req) = (proj s).setC i .begun) := by
  unfold PState.begin
  cases ht : s.threads[i]? with
  | none => exact Or.inl rfl
  | some t =>
    simp only
    split
    · rename_i hr
      right
      have hpc : t.pc = .ready := by simpa using hr
      refine ⟨by have := proj_th s i t ht; rw [hpc] at this; exact this, ?_⟩
      rw [proj_setThread]; rfl
    · exact Or.inl rfl

theorem linv_begin_step (P : Nat) (s : PState) (h : LInv P (proj s)) (i : Nat) (req : CommitReq) :
    LInv P (proj (s.begin i req)) := by
  rcases proj_begin s i req with h1 | ⟨h1, h2⟩
  · rw [h1]; exact h
  · rw [h2]; exact linv_begin P _ h i h1

theorem linv_step (P : Nat) (s : PState) (h : LInv P (proj s)) (hr : ReqInv s) (i : Nat) :
    LInv P (proj (s.stepThread i)) := by
  obtain ⟨op, hal, he⟩ := sim s i hr
  rw [he]; exact linv_opn P _ h op hal

/-- the program counter of thread `i` -/
def pcOf (s : PState) (i : Nat) : Option Pc := (s.threads[i]?).map (·.pc)

theorem pcOf_setThread (s : PState) (i : Nat) (t t' : Thread) (ht : s.threads[i]? = some t) :
    pcOf (s.setThread i t') i = some t'.pc := by
  have hlt : i < s.threads.length := by
    rcases Nat.lt_or_ge i s.threads.length with h | h
    · exact h
    · rw [List.getElem?_eq_none h] at ht; cases ht
  simp [pcOf, PState.setThread, List.getElem?_set_self hlt]

theorem pcOf_finish (s : PState) (i : Nat) (t t0 : Thread) (r : CRes) (fo : Option Nat)
    (ht : s.threads[i]? = some t0) : pcOf (s.finish i t r fo) i = some .ready := by
  have hlt : i < s.threads.length := by
    rcases Nat.lt_or_ge i s.threads.length with h | h
    · exact h
    · rw [List.getElem?_eq_none h] at ht; cases ht
  simp [pcOf, List.getElem?_set_self hlt]

theorem pcOf_publishTop (s : PState) (i : Nat) (t t0 : Thread) (f : Nat) (k : FK)
    (ht : s.threads[i]? = some t0) :
    (∃ b, pcOf (s.publishTop i t f k) i = some (.pubDequeued b f k)) ∨
    pcOf (s.publishTop i t f k) i = some .ready ∨
    pcOf (s.publishTop i t f k) i = some (.afterPublish f k) := by
  have hleave : pcOf (if (k == FK.wal) = true then s.finish i t CRes.errWal (some f)
      else s.setThread i { t with pc := .afterPublish f k }) i = some .ready ∨
      pcOf (if (k == FK.wal) = true then s.finish i t CRes.errWal (some f)
      else s.setThread i { t with pc := .afterPublish f k }) i = some (.afterPublish f k) := by
    split
    · exact Or.inl (pcOf_finish s i t t0 _ _ ht)
    · exact Or.inr (pcOf_setThread s i t0 _ ht)
  unfold PState.publishTop
  cases hq : s.queue with
  | nil => exact Or.inr hleave
  | cons b rest =>
    simp only
    split
    · left
      refine ⟨b, ?_⟩
      have := pcOf_setThread s i t0 { t with pc := .pubDequeued b f k } ht
      simpa [pcOf] using this
    · exact Or.inr hleave

/-- a step that changes nothing: the thread is between calls, waits for a permit that is not there,
or waits for a completion that has not been sent -/
theorem stuck_cases (s : PState) (i : Nat) (t : Thread) (hp : s.panicked = false)
    (ht : s.threads[i]? = some t) (hs : s.stepThread i = s) :
    t.pc = .ready ∨ (∃ st, t.pc = .begun st ∧ s.permits = 0) ∨ (∃ f, t.pc = .waiting f ∧ s.completedRes f = none) := by
  have hpc : pcOf (s.stepThread i) i = some t.pc := by rw [hs]; simp [pcOf, ht]
  have hpan : (s.stepThread i).panicked = false := by rw [hs]; exact hp
  rw [stepThread_eq s i t hp ht] at hpc hpan
  obtain ⟨pc, req, results⟩ := t
  cases pc with
  | ready => exact Or.inl rfl
  | begun st =>
    right; left
    refine ⟨st, rfl, ?_⟩
    simp only at hpc
    split at hpc
    · rw [pcOf_setThread s i _ _ ht] at hpc; cases hpc
    · split at hpc
      · have : pcOf ({ (s.setThread i { pc := Pc.havePermit st, req := req, results := results }) with
            permits := s.permits - 1, owners := .thr i :: s.owners }) i = some (.havePermit st) :=
          pcOf_setThread s i _ _ ht
        rw [this] at hpc; cases hpc
      · rename_i hperm; omega
  | havePermit st =>
    exfalso
    simp only at hpc hpan
    split at hpc
    · rw [pcOf_finish s i _ _ _ _ ht] at hpc; cases hpc
    · rw [pcOf_finish s i _ _ _ _ ht] at hpc; cases hpc
    · split at hpc
      · rename_i hcheck hcap
        rw [hcheck] at hpan
        simp only [hcap, if_true] at hpan
        cases hpan
      · split at hpc
        · rw [pcOf_setThread _ i { pc := .havePermit st, req := req, results := results } _ (by simpa using ht)] at hpc
          cases hpc
        · rw [pcOf_setThread _ i { pc := .havePermit st, req := req, results := results } _ (by simpa using ht)] at hpc
          cases hpc
  | applying f c j =>
    exfalso
    simp only at hpc
    split at hpc
    · rw [pcOf_setThread _ i { pc := .applying f c j, req := req, results := results } _ (by simpa using ht)] at hpc
      cases hpc
    · split at hpc
      · rw [pcOf_setThread _ i { pc := .applying f c j, req := req, results := results } _ (by simpa using ht)] at hpc
        have := Option.some.inj hpc
        injection this with _ _ h3
        omega
      · rw [pcOf_setThread _ i { pc := .applying f c j, req := req, results := results } _ (by simpa using ht)] at hpc
        cases hpc
  | afterApply f c failed =>
    exfalso
    simp only at hpc
    rw [pcOf_setThread _ i { pc := .afterApply f c failed, req := req, results := results } _
      (by cases failed <;> simpa using ht)] at hpc
    cases hpc
  | afterMark f k =>
    exfalso
    simp only at hpc
    rcases pcOf_publishTop s i { pc := .afterMark f k, req := req, results := results } _ f k ht with ⟨b, h1⟩ | h1 | h1 <;>
      (rw [h1] at hpc; cases hpc)
  | walFailed f =>
    exfalso
    simp only at hpc
    rcases pcOf_publishTop s i { pc := .walFailed f, req := req, results := results } _ f .wal ht with ⟨b, h1⟩ | h1 | h1 <;>
      (rw [h1] at hpc; cases hpc)
  | pubDequeued b f k =>
    exfalso
    simp only at hpc
    have : pcOf ({ (s.setThread i { pc := Pc.pubVisible b f k, req := req, results := results }) with
        visible := max s.visible b.last }) i = some (.pubVisible b f k) := pcOf_setThread s i _ _ ht
    rw [this] at hpc; cases hpc
  | pubVisible b f k =>
    exfalso
    simp only at hpc
    rcases pcOf_publishTop ((s.complete b.first .ok).dropBatch b.first) i
        { pc := .pubVisible b f k, req := req, results := results } _ f k (by simpa using ht) with ⟨b', h1⟩ | h1 | h1 <;>
      (rw [h1] at hpc; cases hpc)
  | afterPublish f k =>
    exfalso
    simp only at hpc
    split at hpc
    · rw [pcOf_finish s i _ _ _ _ ht] at hpc; cases hpc
    · split at hpc
      · rw [pcOf_finish s i _ _ _ _ ht] at hpc; cases hpc
      · rw [pcOf_setThread s i _ _ ht] at hpc; cases hpc
  | waiting f =>
    right; right
    refine ⟨f, rfl, ?_⟩
    simp only at hpc
    split at hpc
    · rw [pcOf_finish s i _ _ _ _ ht] at hpc; cases hpc
    · rename_i hnone; exact hnone
