import Skv.Model.Guard

theorem slice_set_outside (f : List Nat) (off len i v : Nat) (h : i < off ∨ off + len ≤ i) :
    slice (f.set i v) off len = slice f off len := by
  unfold slice
  apply List.ext_getElem?
  intro j
  simp only [List.getElem?_take, List.getElem?_drop]
  split
  · rw [List.getElem?_set]
    split
    · rename_i hj heq; omega
    · rfl
  · rfl

theorem slice_length_set (f : List Nat) (off len i v : Nat) :
    (slice (f.set i v) off len).length = (slice f off len).length := by
  simp [slice]

/-- **frame**: damage outside a block's span does not change what reading that block returns -/
theorem readBlock_frame (crc : List Nat → List Nat) (f : List Nat) (h : Handle) (i v : Nat)
    (hout : i < h.off ∨ h.off + h.span ≤ i) : readBlock crc (f.set i v) h = readBlock crc f h := by
  unfold readBlock Handle.span at *
  simp only
  rw [slice_set_outside f h.off (h.size + 1) i v (by omega),
    slice_set_outside f (h.off + h.size + 1) 4 i v (by omega)]

theorem slice_set_inside_ne (f : List Nat) (off len i v : Nat) (hi : off ≤ i ∧ i < off + len)
    (hlen : (slice f off len).length = len) (hv : f[i]? ≠ some v) :
    slice (f.set i v) off len ≠ slice f off len := by
  intro heq
  have hlt : i < f.length := by
    unfold slice at hlen
    simp only [List.length_take, List.length_drop] at hlen
    omega
  have h1 : (slice (f.set i v) off len)[i - off]? = some v := by
    unfold slice
    rw [List.getElem?_take]
    simp only [show i - off < len by omega, if_true, List.getElem?_drop]
    rw [show off + (i - off) = i by omega, List.getElem?_set]
    simp [hlt]
  have h2 : (slice f off len)[i - off]? = f[i]? := by
    unfold slice
    rw [List.getElem?_take]
    simp only [show i - off < len by omega, if_true, List.getElem?_drop]
    rw [show off + (i - off) = i by omega]
  rw [heq, h2] at h1
  exact hv h1

/-- **guard**: if a block reads back, any change of a byte inside its span makes the read fail —
outright when the change hits the stored checksum, and under `crc body' ≠ crc body` when it hits
the payload or the type byte. -/
theorem readBlock_guard (crc : List Nat → List Nat) (f : List Nat) (h : Handle) (p : List Nat)
    (hok : readBlock crc f h = some p) (i v : Nat) (hin : h.off ≤ i ∧ i < h.off + h.span)
    (hv : f[i]? ≠ some v)
    (hdet : crc (slice (f.set i v) h.off (h.size + 1)) ≠ crc (slice f h.off (h.size + 1)) ∨
            slice (f.set i v) h.off (h.size + 1) = slice f h.off (h.size + 1)) :
    readBlock crc (f.set i v) h = none := by
  unfold readBlock at hok ⊢
  simp only at hok ⊢
  split at hok
  · rename_i hc
    obtain ⟨hl1, hl2, hcrc⟩ := hc
    rw [if_neg]
    intro hc'
    obtain ⟨_, _, hcrc'⟩ := hc'
    unfold Handle.span at hin
    rcases Nat.lt_or_ge i (h.off + h.size + 1) with hbody | hcks
    · -- the change is in payload / type byte: the stored checksum is unchanged
      have hst : slice (f.set i v) (h.off + h.size + 1) 4 = slice f (h.off + h.size + 1) 4 :=
        slice_set_outside _ _ _ _ _ (by omega)
      rcases hdet with hd | hd
      · rw [hst, ← hcrc] at hcrc'; exact hd hcrc'
      · exact slice_set_inside_ne f h.off (h.size + 1) i v (by omega) hl1 hv hd
    · -- the change is in the stored checksum: the body is unchanged
      have hb : slice (f.set i v) h.off (h.size + 1) = slice f h.off (h.size + 1) :=
        slice_set_outside _ _ _ _ _ (by omega)
      rw [hb, hcrc] at hcrc'
      exact slice_set_inside_ne f (h.off + h.size + 1) 4 i v (by omega) hl2 hv hcrc'.symm
  · cases hok

/-- a tiling of `[start, n)` assigns every offset to a region -/
theorem regionsCover_total (rs : List Region) (start n : Nat) (h : regionsCover rs start n = true)
    (off : Nat) (h1 : start ≤ off) (h2 : off < n) :
    ∃ r, regionOf rs off = some r ∧ r.off ≤ off ∧ off < r.off + r.len := by
  induction rs generalizing start with
  | nil => simp [regionsCover] at h; omega
  | cons r rs ih =>
    simp only [regionsCover, Bool.and_eq_true, beq_iff_eq, decide_eq_true_eq] at h
    obtain ⟨⟨h3, h4⟩, h5⟩ := h
    by_cases hin : off < r.off + r.len
    · refine ⟨r, ?_, by omega, hin⟩
      simp [regionOf, List.find?_cons, show r.off ≤ off by omega, hin]
    · obtain ⟨r', hr', hb⟩ := ih (start + r.len) h5 (by omega)
      refine ⟨r', ?_, hb⟩
      simp only [regionOf, List.find?_cons]
      have : (decide (r.off ≤ off) && decide (off < r.off + r.len)) = false := by simp [hin]
      rw [this]; exact hr'
