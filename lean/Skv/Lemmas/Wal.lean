import Skv.Model.Wal

/-! Lemmas for C12: the reader inverts the writer (`wal_roundtrip`), for every block size, checksum function and record list. -/

theorem de16_be16 (n : Nat) (h : n < 65536) : de16 (be16 n) = n := by
  unfold de16 be16
  simp only [List.getD_cons_zero, List.getD_cons_succ]
  have h1 : n / 256 < 256 := by omega
  have h2 : n % 256 < 256 := by omega
  simp [UInt8.toNat_ofNat', Nat.mod_eq_of_lt h1, Nat.mod_eq_of_lt h2]
  omega

theorem phys_length (P : Params) (ty : UInt8) (d : Bytes) : (phys P ty d).length = 7 + d.length := by
  simp [phys, P.crc_len, be16]; omega


theorem list_len4 (c : Bytes) (h : c.length = 4) : ∃ a b x y, c = [a, b, x, y] := by
  match c, h with
  | [a, b, x, y], _ => exact ⟨a, b, x, y, rfl⟩

/-- reading one well-formed physical fragment -/
theorem read_frag (P : Params) (fuel : Nat) (ty : UInt8) (d tail acc : Bytes) (k idx : Nat)
    (hk : 7 + d.length ≤ k) (hd : d.length < 65536)
    (hty : ty = tyFull ∨ ty = tyFirst ∨ ty = tyMiddle ∨ ty = tyLast)
    (hidx : (ty = tyFull ∨ ty = tyFirst) ↔ idx = 0) :
    readGo P (fuel + 1) (phys P ty d ++ tail) k idx acc false =
      if ty = tyLast ∨ ty = tyFull then
        (let r := readGo P fuel tail (k - (7 + d.length)) 0 [] false; ((acc ++ d) :: r.1, r.2))
      else readGo P fuel tail (k - (7 + d.length)) (idx + 1) (acc ++ d) false := by
  obtain ⟨c0, c1, c2, c3, hc⟩ := list_len4 (P.crc ty d) (P.crc_len ty d)
  have hs : phys P ty d ++ tail = c0 :: c1 :: c2 :: c3 :: (be16 d.length ++ ty :: (d ++ tail)) := by
    simp [phys, hc]
  have hlen : (phys P ty d ++ tail).length = 7 + d.length + tail.length := by
    simp [phys_length]
  have hrem : ¬ (min k (phys P ty d ++ tail).length < 7) := by rw [hlen]; omega
  have hremle : d.length ≤ min k (phys P ty d ++ tail).length - 7 := by rw [hlen]; omega
  have hty0 : (ty == 0) = false := by
    rcases hty with h | h | h | h <;> subst h <;> decide
  have hbe : be16 d.length = [UInt8.ofNat (d.length / 256), UInt8.ofNat (d.length % 256)] := rfl
  rw [readGo]
  simp only [hrem, if_false]
  have htake4 : (phys P ty d ++ tail).take 4 = P.crc ty d := by rw [hs, hc]; rfl
  have hdrop4 : de16 ((phys P ty d ++ tail).drop 4) = d.length := by
    rw [hs]; simp only [List.drop_succ_cons, List.drop_zero]
    have := de16_be16 d.length hd
    rw [hbe] at this ⊢
    simpa [de16] using this
  have hget6 : (phys P ty d ++ tail).getD 6 0 = ty := by rw [hs, hbe]; rfl
  have hdrop7 : (phys P ty d ++ tail).drop 7 = d ++ tail := by rw [hs, hbe]; rfl
  rw [htake4, hdrop4, hget6, hdrop7]
  have hty9 : (ty == tySetCompression) = false := by
    rcases hty with h | h | h | h <;> subst h <;> decide
  simp only [hty0, hty9, Bool.false_eq_true, if_false]
  have hvalid : (ty != tyFull && ty != tyFirst && ty != tyMiddle && ty != tyLast) = false := by
    rcases hty with h | h | h | h <;> subst h <;> decide
  simp only [hvalid, Bool.false_eq_true, if_false]
  have hseq : (if (ty == tyFull || ty == tyFirst) = true then idx != 0 else idx == 0) = false := by
    by_cases h0 : idx = 0
    · have := hidx.mpr h0
      rcases this with h | h <;> subst h <;> simp [h0] <;> decide
    · have hn : ¬ (ty = tyFull ∨ ty = tyFirst) := fun h => h0 (hidx.mp h)
      have h1 : (ty == tyFull) = false := by simpa using fun h => hn (Or.inl h)
      have h2 : (ty == tyFirst) = false := by simpa using fun h => hn (Or.inr h)
      simp [h1, h2, h0]
  simp only [hseq, Bool.false_eq_true, if_false]
  have hlen2 : ¬ (d.length > min k (phys P ty d ++ tail).length - 7) := by omega
  simp only [hlen2, if_false]
  have htk : (d ++ tail).take d.length = d := by simp
  have hdr : (phys P ty d ++ tail).drop (7 + d.length) = tail := by
    rw [← List.drop_drop, hdrop7]; simp
  rw [htk, hdr]
  simp only [bne_self_eq_false, Bool.false_eq_true, if_false]
  by_cases hl : ty = tyLast ∨ ty = tyFull
  · have : (ty == tyLast || ty == tyFull) = true := by
      rcases hl with h | h <;> subst h <;> decide
    simp [this, hl]
  · have h1 : (ty == tyLast) = false := by simpa using fun h => hl (Or.inl h)
    have h2 : (ty == tyFull) = false := by simpa using fun h => hl (Or.inr h)
    simp [h1, h2, hl]

theorem read_pad (P : Params) (fuel m : Nat) (t acc : Bytes) (idx : Nat) (hm : m < 7) (ht : t ≠ []) :
    readGo P (fuel + 1) (List.replicate m (0 : UInt8) ++ t) m idx acc false = readGo P fuel t P.B idx acc false := by
  rw [readGo]
  have hl : (List.replicate m (0 : UInt8) ++ t).length = m + t.length := by simp
  have htl : 0 < t.length := List.length_pos_iff.mpr ht
  have h1 : min m (List.replicate m (0 : UInt8) ++ t).length < 7 := by rw [hl]; omega
  have h2 : ¬ ((List.replicate m (0 : UInt8) ++ t).length ≤ m) := by rw [hl]; omega
  simp only [h1, if_true, h2, if_false]
  congr 1
  simp [List.drop_append]

theorem normOff_le (P : Params) (off : Nat) (h : off ≤ P.B) : normOff P off + 7 ≤ P.B := by
  have := P.hB
  unfold normOff; split <;> omega

theorem fragLen_le (P : Params) (off : Nat) (d : Bytes) (h : off ≤ P.B) :
    normOff P off + 7 + fragLen P off d ≤ P.B := by
  have := normOff_le P off h
  unfold fragLen; omega

theorem fragLen_lt (P : Params) (off : Nat) (d : Bytes) : fragLen P off d < 65536 := by
  have := P.hB16
  unfold fragLen; omega

theorem fragLen_le_len (P : Params) (off : Nat) (d : Bytes) : fragLen P off d ≤ d.length := by
  unfold fragLen; omega

/-- reader iterations needed for the fragments `addGo` emits -/
def costGo (P : Params) : Nat → Nat → Bytes → Nat
  | 0, _, _ => 0
  | fuel+1, off, d =>
    let c0 := if P.B - off < 7 then 1 else 0
    if fragLen P off d == d.length then c0 + 1
    else c0 + 1 + costGo P fuel (normOff P off + 7 + fragLen P off d) (d.drop (fragLen P off d))

theorem addGo_off_le (P : Params) (fuel : Nat) : ∀ (off : Nat) (begin : Bool) (d : Bytes), off ≤ P.B →
    (addGo P fuel off begin d).2 ≤ P.B := by
  induction fuel with
  | zero => intro off begin d h; simpa [addGo] using h
  | succ f ih =>
    intro off begin d h
    rw [addGo]
    split
    · rename_i heq
      have h1 : fragLen P off d = d.length := by simpa using heq
      have := fragLen_le P off d h
      simp only; omega
    · exact ih _ _ _ (fragLen_le P off d h)

/-- one step of the reader across (possible) padding and one fragment -/
theorem read_pad_frag (P : Params) (off : Nat) (ty : UInt8) (d tail acc : Bytes) (idx rf : Nat)
    (hoff : off ≤ P.B) (hd : normOff P off + 7 + d.length ≤ P.B) (hd16 : d.length < 65536)
    (hty : ty = tyFull ∨ ty = tyFirst ∨ ty = tyMiddle ∨ ty = tyLast)
    (hidx : (ty = tyFull ∨ ty = tyFirst) ↔ idx = 0) :
    readGo P ((if P.B - off < 7 then 1 else 0) + 1 + rf)
        (List.replicate (padLen P off) (0 : UInt8) ++ phys P ty d ++ tail) (P.B - off) idx acc false =
      if ty = tyLast ∨ ty = tyFull then
        (let r := readGo P rf tail (P.B - (normOff P off + 7 + d.length)) 0 [] false; ((acc ++ d) :: r.1, r.2))
      else readGo P rf tail (P.B - (normOff P off + 7 + d.length)) (idx + 1) (acc ++ d) false := by
  have hB := P.hB
  by_cases hp : P.B - off < 7
  · have h1 : padLen P off = P.B - off := by simp [padLen, hp]
    have h2 : normOff P off = 0 := by simp [normOff, hp]
    simp only [hp, if_true, h1, h2] at hd ⊢
    have hne : phys P ty d ++ tail ≠ [] := by
      intro h; have := congrArg List.length h; simp [phys_length] at this
    rw [show 1 + 1 + rf = (1 + rf) + 1 by omega, List.append_assoc, read_pad P _ _ _ _ _ hp hne]
    rw [show 1 + rf = rf + 1 by omega, read_frag P rf ty d tail acc P.B idx (by omega) hd16 hty hidx]
  · have h1 : padLen P off = 0 := by simp [padLen, hp]
    have h2 : normOff P off = off := by simp [normOff, hp]
    simp only [hp, if_false, h1, h2, List.replicate_zero, List.nil_append, Nat.zero_add] at hd ⊢
    rw [show 1 + rf = rf + 1 by omega, read_frag P rf ty d tail acc (P.B - off) idx (by omega) hd16 hty hidx]
    have : P.B - off - (7 + d.length) = P.B - (off + 7 + d.length) := by omega
    simp [this]

theorem fragTy_cases (begin isEnd : Bool) :
    fragTy begin isEnd = tyFull ∨ fragTy begin isEnd = tyFirst ∨ fragTy begin isEnd = tyMiddle ∨
      fragTy begin isEnd = tyLast := by
  cases begin <;> cases isEnd <;> simp [fragTy]

theorem fragTy_begin (begin isEnd : Bool) :
    (fragTy begin isEnd = tyFull ∨ fragTy begin isEnd = tyFirst) ↔ begin = true := by
  cases begin <;> cases isEnd <;> simp [fragTy] <;> decide

theorem fragTy_end (begin isEnd : Bool) :
    (fragTy begin isEnd = tyLast ∨ fragTy begin isEnd = tyFull) ↔ isEnd = true := by
  cases begin <;> cases isEnd <;> simp [fragTy] <;> decide

/-- reading back what `addGo` wrote -/
theorem read_addGo (P : Params) (fuel : Nat) : ∀ (off : Nat) (begin : Bool) (d tail acc : Bytes) (idx rf : Nat),
    off ≤ P.B → d.length + (if P.B - normOff P off - 7 = 0 then 1 else 0) < fuel → (begin = true ↔ idx = 0) →
    readGo P (costGo P fuel off d + rf) ((addGo P fuel off begin d).1 ++ tail) (P.B - off) idx acc false =
      (let r := readGo P rf tail (P.B - (addGo P fuel off begin d).2) 0 [] false
       ((acc ++ d) :: r.1, r.2)) := by
  induction fuel with
  | zero => intro off begin d tail acc idx rf _ hd; omega
  | succ f ih =>
    intro off begin d tail acc idx rf hoff hd hbi
    rw [addGo, costGo]
    by_cases hfl : fragLen P off d = d.length
    · -- last (or only) fragment
      have hb : (fragLen P off d == d.length) = true := by simpa using hfl
      simp only [hb, if_true]
      have hle := fragLen_le P off d hoff
      have hlt := fragLen_lt P off d
      rw [hfl] at hle hlt
      have := read_pad_frag P off (fragTy begin true) d tail acc idx rf hoff hle hlt
        (fragTy_cases _ _) ((fragTy_begin _ _).trans hbi)
      rw [this]
      have : fragTy begin true = tyLast ∨ fragTy begin true = tyFull := (fragTy_end _ _).mpr rfl
      simp [this]
    · have hb : (fragLen P off d == d.length) = false := by simpa using hfl
      simp only [hb, Bool.false_eq_true, if_false]
      have hle := fragLen_le P off d hoff
      have hlt := fragLen_lt P off d
      have hll := fragLen_le_len P off d
      have htl : (d.take (fragLen P off d)).length = fragLen P off d := by
        simp [List.length_take]; omega
      have hstep := read_pad_frag P off (fragTy begin false) (d.take (fragLen P off d))
        ((addGo P f (normOff P off + 7 + fragLen P off d) false (d.drop (fragLen P off d))).1 ++ tail)
        acc idx
        (costGo P f (normOff P off + 7 + fragLen P off d) (d.drop (fragLen P off d)) + rf)
        hoff (by rw [htl]; exact hle) (by rw [htl]; exact hlt)
        (fragTy_cases _ _) ((fragTy_begin _ _).trans hbi)
      have hnot : ¬ (fragTy begin false = tyLast ∨ fragTy begin false = tyFull) := by
        intro h; have := (fragTy_end _ _).mp h; simp at this
      rw [htl] at hstep
      simp only [hnot, if_false] at hstep
      -- reassociate fuel and appends
      have hf : (if P.B - off < 7 then 1 else 0) + 1 +
            costGo P f (normOff P off + 7 + fragLen P off d) (d.drop (fragLen P off d)) + rf =
          (if P.B - off < 7 then 1 else 0) + 1 +
            (costGo P f (normOff P off + 7 + fragLen P off d) (d.drop (fragLen P off d)) + rf) := by omega
      rw [hf]
      simp only [List.append_assoc] at hstep ⊢
      rw [hstep]
      have hB := P.hB
      have hfull : fragLen P off d = P.B - normOff P off - 7 := by
        unfold fragLen at hfl ⊢; omega
      have hoff' : normOff P off + 7 + fragLen P off d = P.B := by
        have := normOff_le P off hoff; omega
      have hn0 : normOff P (normOff P off + 7 + fragLen P off d) = 0 := by
        rw [hoff']; simp [normOff]
      have hdl : (d.drop (fragLen P off d)).length +
          (if P.B - normOff P (normOff P off + 7 + fragLen P off d) - 7 = 0 then 1 else 0) < f := by
        rw [hn0]
        have h0 : ¬ (P.B - 0 - 7 = 0) := by omega
        simp only [h0, if_false, List.length_drop]
        by_cases hz : P.B - normOff P off - 7 = 0
        · simp only [hz, if_true] at hd; omega
        · simp only [hz, if_false] at hd; omega
      have hih := ih (normOff P off + 7 + fragLen P off d) false (d.drop (fragLen P off d)) tail
        (acc ++ d.take (fragLen P off d)) (idx + 1) rf hle hdl (by simp)
      rw [hih]
      simp [List.append_assoc, List.take_append_drop]

def costAll (P : Params) (off : Nat) : List Bytes → Nat
  | [] => 0
  | r :: rs => costGo P (r.length + 2) off r + costAll P (addRecord P off r).2 rs

theorem writeAll_off_le (P : Params) (rs : List Bytes) : ∀ off, off ≤ P.B → (writeAll P off rs).2 ≤ P.B := by
  induction rs with
  | nil => intro off h; simpa [writeAll] using h
  | cons r rs ih =>
    intro off h
    rw [writeAll]
    exact ih _ (addGo_off_le P _ _ _ _ h)

theorem read_writeAll (P : Params) (rs : List Bytes) : ∀ (off : Nat) (tail : Bytes) (rf : Nat), off ≤ P.B →
    readGo P (costAll P off rs + rf) ((writeAll P off rs).1 ++ tail) (P.B - off) 0 [] false =
      (let r := readGo P rf tail (P.B - (writeAll P off rs).2) 0 [] false
       (rs ++ r.1, r.2)) := by
  induction rs with
  | nil => intro off tail rf _; simp [writeAll, costAll]
  | cons r rs ih =>
    intro off tail rf hoff
    rw [writeAll, costAll]
    have h1 := read_addGo P (r.length + 2) off true r ((writeAll P (addRecord P off r).2 rs).1 ++ tail) [] 0
      (costAll P (addRecord P off r).2 rs + rf) hoff (by split <;> omega) (by simp)
    simp only [List.append_assoc, Nat.add_assoc] at h1 ⊢
    unfold addRecord at h1 ⊢
    rw [h1]
    have h2 := ih (addGo P (r.length + 2) off true r).2 tail rf (addGo_off_le P _ _ _ _ hoff)
    unfold addRecord at h2
    simp only [List.nil_append]
    rw [h2]
    simp

theorem costGo_le (P : Params) (fuel : Nat) : ∀ (off : Nat) (begin : Bool) (d : Bytes),
    costGo P fuel off d ≤ (addGo P fuel off begin d).1.length := by
  induction fuel with
  | zero => intro off begin d; simp [costGo]
  | succ f ih =>
    intro off begin d
    rw [costGo, addGo]
    split
    · simp [phys_length]; split <;> omega
    · have := ih (normOff P off + 7 + fragLen P off d) false (d.drop (fragLen P off d))
      simp [phys_length]; split <;> omega

theorem costAll_le (P : Params) (rs : List Bytes) : ∀ off, costAll P off rs ≤ (writeAll P off rs).1.length := by
  induction rs with
  | nil => intro off; simp [costAll]
  | cons r rs ih =>
    intro off
    rw [costAll, writeAll]
    have h1 := costGo_le P (r.length + 2) off true r
    have h2 := ih (addRecord P off r).2
    unfold addRecord at h2 ⊢
    simp only [List.length_append]
    omega

/-- C12.1: every list of records written from the start of a segment reads back exactly, then clean EOF -/
theorem wal_roundtrip (P : Params) (rs : List Bytes) :
    readAll P (writeAll P 0 rs).1 = (rs, .eof) := by
  unfold readAll
  have hc := costAll_le P rs 0
  obtain ⟨rf, hrf⟩ : ∃ rf, (writeAll P 0 rs).1.length + 2 = costAll P 0 rs + (rf + 1) :=
    ⟨(writeAll P 0 rs).1.length + 1 - costAll P 0 rs, by omega⟩
  rw [hrf]
  have := read_writeAll P rs 0 [] (rf + 1) (Nat.zero_le _)
  simp only [List.append_nil, Nat.sub_zero] at this
  rw [this]
  simp [readGo]


/-! ### resuming a segment (`Wal::open` on an existing file: `block_offset = len mod B`) -/

theorem mod_congr_add {a b B : Nat} (h : a % B = b % B) (c : Nat) : (a + c) % B = (b + c) % B := by
  rw [Nat.add_mod, h, ← Nat.add_mod]

theorem pad_norm_mod (P : Params) (off : Nat) (h : off ≤ P.B) :
    (off + padLen P off) % P.B = normOff P off % P.B := by
  unfold padLen normOff
  split
  · have : off + (P.B - off) = P.B := by omega
    rw [this]; simp
  · rfl

theorem addGo_len_mod (P : Params) (fuel : Nat) : ∀ (off : Nat) (begin : Bool) (d : Bytes), off ≤ P.B →
    (off + (addGo P fuel off begin d).1.length) % P.B = (addGo P fuel off begin d).2 % P.B := by
  induction fuel with
  | zero => intro off begin d _; simp [addGo]
  | succ f ih =>
    intro off begin d h
    rw [addGo]
    split
    · simp only [List.length_append, List.length_replicate, phys_length]
      have := mod_congr_add (pad_norm_mod P off h) (7 + d.length)
      rw [show off + (padLen P off + (7 + d.length)) = off + padLen P off + (7 + d.length) by omega,
          this]
      congr 1; omega
    · simp only [List.length_append, List.length_replicate, phys_length, List.length_take]
      have hfl := fragLen_le_len P off d
      have hmin : min (fragLen P off d) d.length = fragLen P off d := by omega
      rw [hmin]
      have h1 := mod_congr_add (pad_norm_mod P off h) (7 + fragLen P off d)
      have h2 := ih (normOff P off + 7 + fragLen P off d) false (d.drop (fragLen P off d)) (fragLen_le P off d h)
      rw [← h2]
      have h3 := mod_congr_add h1 (addGo P f (normOff P off + 7 + fragLen P off d) false (d.drop (fragLen P off d))).1.length
      rw [show off + (padLen P off + (7 + fragLen P off d) +
              (addGo P f (normOff P off + 7 + fragLen P off d) false (List.drop (fragLen P off d) d)).1.length)
            = off + padLen P off + (7 + fragLen P off d) +
              (addGo P f (normOff P off + 7 + fragLen P off d) false (List.drop (fragLen P off d) d)).1.length by omega,
          h3]
      congr 1; omega

theorem writeAll_len_mod (P : Params) (rs : List Bytes) : ∀ off, off ≤ P.B →
    (off + (writeAll P off rs).1.length) % P.B = (writeAll P off rs).2 % P.B := by
  induction rs with
  | nil => intro off _; simp [writeAll]
  | cons r rs ih =>
    intro off h
    rw [writeAll]
    simp only [List.length_append]
    have h1 := addGo_len_mod P (r.length + 2) off true r h
    have hle := addGo_off_le P (r.length + 2) off true r h
    have h2 := ih (addRecord P off r).2 hle
    unfold addRecord at h2 ⊢
    rw [← h2]
    have := mod_congr_add h1 (writeAll P (addGo P (r.length + 2) off true r).2 rs).1.length
    rw [← this]; congr 1; omega

/-- a writer positioned at the block end behaves like one at the block start -/
theorem addGo_off_B (P : Params) (f : Nat) (begin : Bool) (d : Bytes) :
    addGo P (f + 1) P.B begin d = addGo P (f + 1) 0 begin d := by
  have hB := P.hB
  rw [addGo, addGo]
  have h1 : padLen P P.B = 0 := by simp [padLen]
  have h2 : padLen P 0 = 0 := by unfold padLen; split <;> omega
  have h3 : normOff P P.B = 0 := by simp [normOff]
  have h4 : normOff P 0 = 0 := by unfold normOff; split <;> rfl
  have h5 : fragLen P P.B d = fragLen P 0 d := by simp [fragLen, h3, h4]
  simp only [h1, h2, h3, h4, h5]

theorem writeAll_off_B (P : Params) (r : Bytes) (rs : List Bytes) :
    writeAll P P.B (r :: rs) = writeAll P 0 (r :: rs) := by
  simp only [writeAll, addRecord, addGo_off_B]

theorem writeAll_append (P : Params) (rs1 rs2 : List Bytes) : ∀ off,
    (writeAll P off (rs1 ++ rs2)).1 = (writeAll P off rs1).1 ++ (writeAll P (writeAll P off rs1).2 rs2).1 ∧
    (writeAll P off (rs1 ++ rs2)).2 = (writeAll P (writeAll P off rs1).2 rs2).2 := by
  induction rs1 with
  | nil => intro off; simp [writeAll]
  | cons r rs ih =>
    intro off
    have := ih (addRecord P off r).2
    simp only [List.cons_append, writeAll, this.1, this.2, List.append_assoc, and_self]

/-- the writer's block offset after a session is the file length modulo the block size
(or exactly `B`, which behaves like 0) -/
theorem resume_offset (P : Params) (rs : List Bytes) :
    (writeAll P 0 rs).2 = (writeAll P 0 rs).1.length % P.B ∨
    ((writeAll P 0 rs).2 = P.B ∧ (writeAll P 0 rs).1.length % P.B = 0) := by
  have h := writeAll_len_mod P rs 0 (Nat.zero_le _)
  have hle := writeAll_off_le P rs 0 (Nat.zero_le _)
  simp only [Nat.zero_add] at h
  have hB := P.hB
  by_cases heq : (writeAll P 0 rs).2 = P.B
  · right; refine ⟨heq, ?_⟩; rw [h, heq]; simp
  · left; rw [h]; exact (Nat.mod_eq_of_lt (by omega)).symm

/-- C12 (session split): closing a segment after `rs₁` and reopening it — the writer resumes at
`len mod B` — then appending `rs₂` reads back as `rs₁ ++ rs₂` followed by a clean end-of-log. -/
theorem wal_resume (P : Params) (rs1 rs2 : List Bytes) :
    readAll P (appendSession P (writeAll P 0 rs1).1 rs2) = (rs1 ++ rs2, .eof) := by
  unfold appendSession
  have hkey : (writeAll P ((writeAll P 0 rs1).1.length % P.B) rs2).1
      = (writeAll P (writeAll P 0 rs1).2 rs2).1 := by
    rcases resume_offset P rs1 with h | ⟨h1, h2⟩
    · rw [← h]
    · rw [h1, h2]
      cases rs2 with
      | nil => simp [writeAll]
      | cons r rs => rw [writeAll_off_B]
  rw [hkey, ← (writeAll_append P rs1 rs2 0).1]
  exact wal_roundtrip P (rs1 ++ rs2)
