import Skv.Lemmas.History
/-!
# `get_at` without an order on the timestamps

`Snapshot::get_at` keeps, over the whole listing, the entry with the greatest timestamp not above `t`
(a later entry wins a tie); the specification keeps the first such entry.  When the timestamps of a key's
versions are pairwise different the two agree whatever the order of the listing — in particular with
back-filled timestamps under the version index.
-/

def TsDistinct (l : List HVer) : Prop := l.Pairwise (fun a b => a.ts ≠ b.ts)

theorem getAtGo_eq_fold (t : Nat) : ∀ (l : List HVer) (best : Option HVer),
    (∀ b, best = some b → b.ts ≤ t ∧ ∀ v ∈ l, v.ts ≠ b.ts) → TsDistinct l →
    getAtGo t best l = (l.filter (fun v => decide (v.ts ≤ t))).foldl specPick best := by
  intro l
  induction l with
  | nil => intro best _ _; rfl
  | cons v rest ih =>
    intro best hb hd
    have hp := List.pairwise_cons.mp hd
    by_cases hv : v.ts ≤ t
    · simp only [List.filter_cons, hv, decide_true, if_true, List.foldl_cons]
      cases best with
      | none =>
        have : getAtGo t none (v :: rest) = getAtGo t (some v) rest := by
          simp [getAtGo, hv]
        rw [this]
        exact ih (some v) (by
          intro b hbv
          cases hbv
          exact ⟨hv, fun w hw => (hp.1 w hw).symm⟩) hp.2
      | some b =>
        obtain ⟨hbt, hbne⟩ := hb b rfl
        have hne : v.ts ≠ b.ts := hbne v List.mem_cons_self
        by_cases hgt : v.ts > b.ts
        · have h1 : getAtGo t (some b) (v :: rest) = getAtGo t (some v) rest := by
            have : v.ts ≥ b.ts := Nat.le_of_lt hgt
            simp [getAtGo, hv, this]
          have h2 : specPick (some b) v = some v := by simp [specPick, hgt]
          rw [h1, h2]
          exact ih (some v) (by
            intro b' hb'
            cases hb'
            exact ⟨hv, fun w hw => (hp.1 w hw).symm⟩) hp.2
        · have hlt : ¬ v.ts ≥ b.ts := by omega
          have h1 : getAtGo t (some b) (v :: rest) = getAtGo t (some b) rest := by
            simp [getAtGo, hlt]
          have h2 : specPick (some b) v = some b := by simp [specPick, hgt]
          rw [h1, h2]
          exact ih (some b) (by
            intro b' hb'
            cases hb'
            exact ⟨hbt, fun w hw => hbne w (List.mem_cons_of_mem _ hw)⟩) hp.2
    · have h1 : getAtGo t best (v :: rest) = getAtGo t best rest := by
        cases best <;> simp [getAtGo, hv]
      simp only [List.filter_cons, hv, decide_false, Bool.false_eq_true, if_false]
      rw [h1]
      exact ih best (by
        intro b hbv
        obtain ⟨h1, h2⟩ := hb b hbv
        exact ⟨h1, fun w hw => h2 w (List.mem_cons_of_mem _ hw)⟩) hp.2

theorem tsDistinct_sublist {l l' : List HVer} (h : l'.Sublist l) (hd : TsDistinct l) : TsDistinct l' :=
  List.Pairwise.sublist h hd

theorem specKey_sublist (o : HOpts) (snap : Nat) (vs : List HVer) : (specKey o snap vs).Sublist vs := by
  unfold specKey
  exact (List.filter_sublist.trans (hRetained_sublist _)).trans List.filter_sublist

/-- **get_at for pairwise different timestamps, in any order** -/
theorem getAt_eq_spec_distinct (snap t : Nat) (vs : List HVer) (h : TsDistinct vs) :
    getAt snap t vs = specGetAt snap t vs := by
  unfold getAt specGetAt
  have hk := histKeyFwd_eq_spec { tombs := true } rfl snap vs
  simp only at hk
  rw [hk]
  have hd : TsDistinct (specKey { tombs := true } snap vs) := tsDistinct_sublist (specKey_sublist _ snap vs) h
  rw [getAtGo_eq_fold t _ none (by intro b hb; cases hb) hd]

/-! ### sets with back-filled timestamps: the answer does not depend on the order of the listing -/

def AllSets (l : List HVer) : Prop := ∀ v ∈ l, v.kind = .set

theorem insTs_perm (v : HVer) : ∀ (l : List HVer), (insTs v l).Perm (v :: l) := by
  intro l
  induction l with
  | nil => exact List.Perm.refl _
  | cons x xs ih =>
    simp only [insTs]
    split
    · exact List.Perm.refl _
    · exact (List.Perm.cons x ih).trans (List.Perm.swap v x xs)

theorem sortTs_perm : ∀ (l : List HVer), (sortTs l).Perm l := by
  intro l
  induction l with
  | nil => exact List.Perm.refl _
  | cons x xs ih =>
    show (insTs x (sortTs xs)).Perm (x :: xs)
    exact (insTs_perm x _).trans (List.Perm.cons x ih)

theorem hRetainedGo_sets : ∀ (l : List HVer), AllSets l → hRetainedGo l = l := by
  intro l
  induction l with
  | nil => intro _; rfl
  | cons x xs ih =>
    intro h
    have hx : x.kind = .set := h x List.mem_cons_self
    simp only [hRetainedGo, hx, VKind.isHard]
    simp only [Bool.false_eq_true, if_false]
    have : (VKind.set == VKind.replace) = false := by decide
    simp only [this, Bool.false_eq_true, if_false]
    rw [ih (fun v hv => h v (List.mem_cons_of_mem _ hv))]

theorem specKey_sets (snap : Nat) (l : List HVer) (h : AllSets l) :
    specKey { tombs := true } snap l = l.filter (fun v => decide (v.seq ≤ snap)) := by
  unfold specKey
  have hvis : AllSets (l.filter (fun v => decide (v.seq ≤ snap))) := fun v hv => h v (List.mem_filter.mp hv).1
  generalize l.filter (fun v => decide (v.seq ≤ snap)) = vis at hvis
  have hr : hRetained vis = vis := by
    cases vis with
    | nil => rfl
    | cons v rest =>
      have hv : v.kind = .set := hvis v List.mem_cons_self
      simp only [hRetained, hv, VKind.isHard, Bool.false_eq_true, if_false]
      exact hRetainedGo_sets _ hvis
  rw [hr]
  apply List.filter_eq_self.mpr
  intro v _
  simp [inRangeTs]

theorem ts_inj_of_distinct : ∀ (l : List HVer), TsDistinct l → ∀ x ∈ l, ∀ y ∈ l, x.ts = y.ts → x = y := by
  intro l
  induction l with
  | nil => intro _ x hx; cases hx
  | cons a rest ih =>
    intro hd x hx y hy hxy
    have hp := List.pairwise_cons.mp hd
    rcases List.mem_cons.mp hx with rfl | hx'
    · rcases List.mem_cons.mp hy with rfl | hy'
      · rfl
      · exact absurd hxy (hp.1 y hy')
    · rcases List.mem_cons.mp hy with rfl | hy'
      · exact absurd hxy.symm (hp.1 x hx')
      · exact ih hp.2 x hx' y hy' hxy

theorem specPick_comm (z : Option HVer) (x y : HVer) (h : x.ts ≠ y.ts ∨ x = y) :
    specPick (specPick z x) y = specPick (specPick z y) x := by
  rcases h with h | h
  · cases z with
    | none =>
      simp only [specPick]
      by_cases hxy : y.ts > x.ts
      · have : ¬ x.ts > y.ts := by omega
        simp [hxy, this]
      · have : x.ts > y.ts := by omega
        simp [hxy, this]
    | some b =>
      simp only [specPick]
      by_cases h1 : x.ts > b.ts <;> by_cases h2 : y.ts > b.ts <;> by_cases h3 : y.ts > x.ts <;>
        simp [h1, h2, h3] <;> (try omega)
      all_goals (first | (intro; omega) | (have : x.ts > y.ts := by omega; simp [this]) | skip)
  · subst h; rfl

/-- **sets with back-filled timestamps.** For a key that holds sets only, with pairwise different
timestamps, `get_at` over the listing in commit order (what the code scans while the versions are unflushed)
returns what the specification returns on the versions ordered by timestamp (the version index): the
version with the greatest timestamp not above `t`, whatever the order. -/
theorem getAt_sets_any_order (snap t : Nat) (vs : List HVer) (hs : AllSets vs) (hd : TsDistinct vs) :
    getAt snap t vs = specGetAt snap t (sortTs vs) := by
  rw [getAt_eq_spec_distinct snap t vs hd]
  unfold specGetAt
  have hs' : AllSets (sortTs vs) := fun v hv => hs v ((sortTs_perm vs).subset hv)
  rw [specKey_sets snap vs hs, specKey_sets snap (sortTs vs) hs']
  have hperm : ((vs.filter (fun v => decide (v.seq ≤ snap))).filter (fun v => decide (v.ts ≤ t))).Perm
      (((sortTs vs).filter (fun v => decide (v.seq ≤ snap))).filter (fun v => decide (v.ts ≤ t))) :=
    ((sortTs_perm vs).symm.filter _).filter _
  have hsub : ((vs.filter (fun v => decide (v.seq ≤ snap))).filter (fun v => decide (v.ts ≤ t))).Sublist vs :=
    List.filter_sublist.trans List.filter_sublist
  have hdc := tsDistinct_sublist hsub hd
  have hfold := List.Perm.foldl_eq' (f := specPick) hperm (by
    intro x hx y hy z
    apply specPick_comm
    by_cases hxy : x.ts = y.ts
    · exact Or.inr (ts_inj_of_distinct _ hdc x hx y hy hxy)
    · exact Or.inl hxy) none
  simp only [hfold]
