import Skv.Model.BtScan

mutual
theorem BT.leaves_flatten : ∀ t : BT, t.leaves.flatten = t.toList
  | .leaf es => by simp [BT.leaves, BT.toList]
  | .node c rest => by
    simp only [BT.leaves, BT.toList, List.flatten_append]
    rw [BT.leaves_flatten c, Kids.leaves_flatten rest]
theorem Kids.leaves_flatten : ∀ r : Kids, r.leaves.flatten = r.toList
  | .nil => by simp [Kids.leaves, Kids.toList]
  | .cons _ c rest => by
    simp only [Kids.leaves, Kids.toList, List.flatten_append]
    rw [BT.leaves_flatten c, Kids.leaves_flatten rest]
end

theorem walk_skip (st : Bool) (ls : List (List (Nat × Nat))) : walk true st ls = ls.flatten := by
  induction ls generalizing st with
  | nil => rfl
  | cons l rest ih =>
    simp only [walk]
    split
    · rename_i he
      have : l = [] := by simpa using he
      subst this
      simp [ih]
    · simp [ih]

theorem walkFwd_skip (ls : List (List (Nat × Nat))) : walkFwd true ls = ls.flatten := walk_skip false ls
