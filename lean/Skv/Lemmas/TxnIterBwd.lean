import Skv.Lemmas.TxnIterStep

/-! backward half of the transaction range cursor: `position_to_max`, `seek_last`, `prev` — the mirror
image of Lemmas/TxnIter.lean, with an exclusive upper bound `Y` in place of the lower bound `X` -/

theorem BSplit_prev {key : α → Nat} {xs : List α} {Y : Nat} {l : List α} {x : α} {r : List α}
    (hs : SortedBy key xs) (h : BSplit key xs Y (some (l, x, r))) :
    BSplit key xs (key x) ((Cur.prev ⟨xs, some (l, x, r)⟩).pos) := by
  obtain ⟨hxs, hr, hx⟩ := h
  obtain ⟨h1, h2, _, _⟩ := sorted_split hs hxs
  cases l with
  | nil =>
    simp only [Cur.prev, BSplit]
    intro a ha
    rw [hxs] at ha
    simp at ha
    rcases ha with ha | ha
    · subst ha; omega
    · have := h2 a ha; omega
  | cons y l' =>
    simp only [Cur.prev, BSplit]
    refine ⟨by rw [hxs]; simp, ?_, ?_⟩
    · intro a ha
      simp at ha
      rcases ha with ha | ha
      · subst ha; omega
      · have := h2 a ha; omega
    · exact h1 y (by simp)

theorem BSplit_mono {key : α → Nat} {xs : List α} {Y Y' : Nat} {l : List α} {x : α} {r : List α}
    (h : BSplit key xs Y (some (l, x, r))) (h1 : Y' ≤ Y) (h2 : key x < Y') :
    BSplit key xs Y' (some (l, x, r)) := by
  obtain ⟨hxs, hr, hx⟩ := h
  exact ⟨hxs, fun a ha => Nat.le_trans h1 (hr a ha), h2⟩

theorem BSplit_none_mono {key : α → Nat} {xs : List α} {Y Y' : Nat}
    (h : BSplit key xs Y none) (h1 : Y' ≤ Y) : BSplit key xs Y' none :=
  fun a ha => Nat.le_trans h1 (h a ha)

/-- the greatest live key below the exclusive bound `Y` -/
def GreatestLT (S : List Nat) (W : List (Nat × Bool)) (Y : Nat) : Option Nat → Prop
  | none => ∀ k, Live S W k → Y ≤ k
  | some K => Live S W K ∧ K < Y ∧ ∀ k, Live S W k → k < Y → k ≤ K

/-- write-set entries at or before the cursor -/
def wsBefore (c : Cur (Nat × Bool)) : Nat :=
  match c.pos with
  | none => 0
  | some (l, _, _) => l.length + 1

structure BwdState (S : List Nat) (W : List (Nat × Bool)) (t : TI) (K : Nat) : Prop where
  sxs : t.snap.xs = S
  wxs : t.ws.xs = W
  dir : t.dir = .bwd
  ssplit : BSplit id S (K + 1) t.snap.pos
  wsplit : BSplit Prod.fst W (K + 1) t.ws.pos
  key : t.key = some K
  curSnap : t.cur = .snap → t.snap.cur? = some K ∧ t.eq = false
  curWs : t.cur = .ws → (∃ v, t.ws.cur? = some (K, v)) ∧ (t.eq = true ↔ t.snap.cur? = some K)
  wsBehind : t.cur = .snap → ∀ e, t.ws.cur? = some e → e.1 < K
  curSome : t.cur ≠ .none

theorem GreatestLT_shift {S W} {Y Y' : Nat} {r : Option Nat} (hle : Y' ≤ Y)
    (hgap : ∀ k, Live S W k → k < Y → k < Y') (h : GreatestLT S W Y' r) : GreatestLT S W Y r := by
  cases r with
  | none =>
    intro k hk
    have := h k hk
    by_cases hx : k < Y
    · have := hgap k hk hx; omega
    · omega
  | some K =>
    obtain ⟨h1, h2, h3⟩ := h
    exact ⟨h1, by omega, fun k hk hx => h3 k hk (hgap k hk hx)⟩

theorem mem_split_lt {key : α → Nat} {xs : List α} {Y : Nat} {l : List α} {x : α} {r : List α}
    (h : BSplit key xs Y (some (l, x, r))) {a : α} (ha : a ∈ xs) (hx : key a < Y) : a = x ∨ a ∈ l := by
  obtain ⟨hxs, hr, _⟩ := h
  rw [hxs] at ha
  simp at ha
  rcases ha with ha | ha | ha
  · exact Or.inr ha
  · exact Or.inl ha
  · have := hr a ha; omega

theorem posMax_spec (S : List Nat) (W : List (Nat × Bool)) (hS : SortedBy id S) (hW : SortedBy Prod.fst W)
    (fuel : Nat) : ∀ (t : TI) (Y : Nat),
    t.snap.xs = S → t.ws.xs = W → t.dir = .bwd →
    BSplit id S Y t.snap.pos → BSplit Prod.fst W Y t.ws.pos →
    wsBefore t.ws < fuel →
    (∃ K, BwdState S W (TI.posMax fuel t) K ∧ GreatestLT S W Y (some K)) ∨
    ((TI.posMax fuel t).cur = .none ∧ GreatestLT S W Y none) := by
  induction fuel with
  | zero => intro t Y _ _ _ _ _ h; omega
  | succ f ih =>
    intro t Y hsx hwx hdir hss hws hfuel
    obtain ⟨snap, ws, eq, cur, dir⟩ := t
    obtain ⟨sxs, spos⟩ := snap
    obtain ⟨wxs, wpos⟩ := ws
    simp only at hsx hwx hdir hss hws hfuel
    subst hsx hwx hdir
    cases spos with
    | none =>
      cases wpos with
      | none =>
        right
        refine ⟨by simp [TI.posMax, Cur.valid], ?_⟩
        intro k hk
        rcases hk with ⟨hk, _⟩ | hk
        · exact hss k hk
        · exact hws (k, false) hk
      | some wz =>
        obtain ⟨wl, ⟨wk, tb⟩, wr⟩ := wz
        obtain ⟨hwxs, hwr, hwx⟩ := hws
        obtain ⟨hw1, hw2, _, _⟩ := sorted_split hW hwxs
        simp only at hwx hw1 hw2
        cases tb with
        | true =>
          have hstep : TI.posMax (f + 1) ⟨⟨sxs, none⟩, ⟨wxs, some (wl, (wk, true), wr)⟩, eq, cur, .bwd⟩ =
              TI.posMax f ⟨⟨sxs, none⟩, Cur.prev ⟨wxs, some (wl, (wk, true), wr)⟩, eq, cur, .bwd⟩ := by
            simp [TI.posMax, Cur.valid, TI.wsTomb, Cur.cur?]
          rw [hstep]
          have hprev := BSplit_prev hW (show BSplit Prod.fst wxs Y (some (wl, (wk, true), wr)) from ⟨hwxs, hwr, hwx⟩)
          have hrem : wsBefore (Cur.prev ⟨wxs, some (wl, (wk, true), wr)⟩) < f := by
            simp only [wsBefore] at hfuel
            cases wl with
            | nil => simp [Cur.prev, wsBefore]; omega
            | cons y l' => simp [Cur.prev, wsBefore] at hfuel ⊢; omega
          have hres := ih ⟨⟨sxs, none⟩, Cur.prev ⟨wxs, some (wl, (wk, true), wr)⟩, eq, cur, .bwd⟩ wk
            rfl (by cases wl <;> rfl) rfl (BSplit_none_mono hss (by omega)) hprev hrem
          have hgap : ∀ k, Live sxs wxs k → k < Y → k < wk := by
            intro k hk hx
            rcases hk with ⟨hk, _⟩ | hk
            · have : Y ≤ k := hss k hk
              omega
            · rcases mem_split_lt (key := Prod.fst) ⟨hwxs, hwr, hwx⟩ hk hx with h | h
              · cases h
              · exact hw1 (k, false) h
          rcases hres with ⟨K, hK, hL⟩ | ⟨hc, hL⟩
          · exact Or.inl ⟨K, hK, GreatestLT_shift (by omega) hgap hL⟩
          · exact Or.inr ⟨hc, GreatestLT_shift (by omega) hgap hL⟩
        | false =>
          left
          refine ⟨wk, ?_, ?_⟩
          · have hst : TI.posMax (f + 1) ⟨⟨sxs, none⟩, ⟨wxs, some (wl, (wk, false), wr)⟩, eq, cur, .bwd⟩ =
                ⟨⟨sxs, none⟩, ⟨wxs, some (wl, (wk, false), wr)⟩, false, .ws, .bwd⟩ := by
              simp [TI.posMax, Cur.valid, TI.wsTomb, Cur.cur?]
            rw [hst]
            exact {
              sxs := rfl, wxs := rfl, dir := rfl
              ssplit := BSplit_none_mono hss (by omega)
              wsplit := ⟨hwxs, fun a ha => by have := hw2 a ha; omega, Nat.lt_succ_self _⟩
              key := by simp [TI.key, Cur.cur?]
              curSnap := by intro h; cases h
              curWs := by
                intro _
                exact ⟨⟨false, by simp [Cur.cur?]⟩, by simp [Cur.cur?]⟩
              wsBehind := by intro h; cases h
              curSome := by simp }
          · refine ⟨Or.inr (mem_of_split hwxs), hwx, ?_⟩
            intro k hk hx
            rcases hk with ⟨hk, _⟩ | hk
            · have : Y ≤ k := hss k hk
              omega
            · rcases mem_split_lt (key := Prod.fst) ⟨hwxs, hwr, hwx⟩ hk hx with h | h
              · cases h; exact Nat.le_refl _
              · have : k < wk := hw1 (k, false) h
                omega
    | some sz =>
      obtain ⟨sl, sk, sr⟩ := sz
      obtain ⟨hsxs, hsr, hsx⟩ := hss
      obtain ⟨hs1, hs2, _, _⟩ := sorted_split hS hsxs
      simp only [id] at hsx hs1 hs2 hsr
      have hsmem : sk ∈ sxs := mem_of_split hsxs
      have hSle : ∀ k, k ∈ sxs → k < Y → k ≤ sk := by
        intro k hk hx
        rcases mem_split_lt (key := id) ⟨hsxs, hsr, hsx⟩ hk hx with h | h
        · omega
        · have := hs1 k h; omega
      cases wpos with
      | none =>
        left
        refine ⟨sk, ?_, ?_⟩
        · have hst : TI.posMax (f + 1) ⟨⟨sxs, some (sl, sk, sr)⟩, ⟨wxs, none⟩, eq, cur, .bwd⟩ =
              ⟨⟨sxs, some (sl, sk, sr)⟩, ⟨wxs, none⟩, false, .snap, .bwd⟩ := by
            simp [TI.posMax, Cur.valid]
          rw [hst]
          exact {
            sxs := rfl, wxs := rfl, dir := rfl
            ssplit := ⟨hsxs, fun a ha => by have := hs2 a ha; simp only [id]; omega, Nat.lt_succ_self _⟩
            wsplit := BSplit_none_mono hws (by omega)
            key := by simp [TI.key, Cur.cur?]
            curSnap := by intro _; simp [Cur.cur?]
            curWs := by intro h; cases h
            wsBehind := by intro _ e he; simp [Cur.cur?] at he
            curSome := by simp }
        · refine ⟨Or.inl ⟨hsmem, ?_⟩, hsx, ?_⟩
          · intro e he heq
            have : Y ≤ e.1 := hws e he
            omega
          · intro k hk hx
            rcases hk with ⟨hk, _⟩ | hk
            · exact hSle k hk hx
            · have : Y ≤ k := hws (k, false) hk
              omega
      | some wz =>
        obtain ⟨wl, ⟨wk, tb⟩, wr⟩ := wz
        obtain ⟨hwxs, hwr, hwx⟩ := hws
        obtain ⟨hw1, hw2, _, _⟩ := sorted_split hW hwxs
        simp only at hwx hw1 hw2
        have hwmem : (wk, tb) ∈ wxs := mem_of_split hwxs
        have hWle : ∀ e, e ∈ wxs → e.1 < Y → e = (wk, tb) ∨ e.1 < wk := by
          intro e he hx
          rcases mem_split_lt (key := Prod.fst) ⟨hwxs, hwr, hwx⟩ he hx with h | h
          · exact Or.inl h
          · exact Or.inr (hw1 e h)
        by_cases hgt : wk < sk
        · -- snapshot key is the greater one
          left
          refine ⟨sk, ?_, ?_⟩
          · have hst : TI.posMax (f + 1) ⟨⟨sxs, some (sl, sk, sr)⟩, ⟨wxs, some (wl, (wk, tb), wr)⟩, eq, cur, .bwd⟩ =
                ⟨⟨sxs, some (sl, sk, sr)⟩, ⟨wxs, some (wl, (wk, tb), wr)⟩, false, .snap, .bwd⟩ := by
              simp [TI.posMax, Cur.valid, TI.snapKey, TI.wsKey, Cur.cur?, hgt]
            rw [hst]
            exact {
              sxs := rfl, wxs := rfl, dir := rfl
              ssplit := ⟨hsxs, fun a ha => by have := hs2 a ha; simp only [id]; omega, Nat.lt_succ_self _⟩
              wsplit := ⟨hwxs, fun a ha => by have := hwr a ha; omega, by simp; omega⟩
              key := by simp [TI.key, Cur.cur?]
              curSnap := by intro _; simp [Cur.cur?]
              curWs := by intro h; cases h
              wsBehind := by intro _ e he; simp [Cur.cur?] at he; subst he; simp only; omega
              curSome := by simp }
          · refine ⟨Or.inl ⟨hsmem, ?_⟩, hsx, ?_⟩
            · intro e he heq
              by_cases hx : e.1 < Y
              · rcases hWle e he hx with h | h
                · subst h; simp at heq; omega
                · omega
              · omega
            · intro k hk hx
              rcases hk with ⟨hk, _⟩ | hk
              · exact hSle k hk hx
              · rcases hWle (k, false) hk hx with h | h
                · cases h; omega
                · simp at h; omega
        · by_cases hlt : sk < wk
          · cases tb with
            | true =>
              have hstep : TI.posMax (f + 1) ⟨⟨sxs, some (sl, sk, sr)⟩, ⟨wxs, some (wl, (wk, true), wr)⟩, eq, cur, .bwd⟩ =
                  TI.posMax f ⟨⟨sxs, some (sl, sk, sr)⟩, Cur.prev ⟨wxs, some (wl, (wk, true), wr)⟩, eq, cur, .bwd⟩ := by
                simp [TI.posMax, Cur.valid, TI.snapKey, TI.wsKey, TI.wsTomb, Cur.cur?, hlt, hgt]
              rw [hstep]
              have hprev := BSplit_prev hW (show BSplit Prod.fst wxs Y (some (wl, (wk, true), wr)) from ⟨hwxs, hwr, hwx⟩)
              have hrem : wsBefore (Cur.prev ⟨wxs, some (wl, (wk, true), wr)⟩) < f := by
                simp only [wsBefore] at hfuel
                cases wl with
                | nil => simp [Cur.prev, wsBefore]; omega
                | cons y l' => simp [Cur.prev, wsBefore] at hfuel ⊢; omega
              have hres := ih ⟨⟨sxs, some (sl, sk, sr)⟩, Cur.prev ⟨wxs, some (wl, (wk, true), wr)⟩, eq, cur, .bwd⟩ wk
                rfl (by cases wl <;> rfl) rfl ⟨hsxs, fun a ha => by have := hsr a ha; simp only [id]; omega, by simp only [id]; omega⟩ hprev hrem
              have hgap : ∀ k, Live sxs wxs k → k < Y → k < wk := by
                intro k hk hx
                rcases hk with ⟨hk, _⟩ | hk
                · have := hSle k hk hx; omega
                · rcases hWle (k, false) hk hx with h | h
                  · cases h
                  · simpa using h
              rcases hres with ⟨K, hK, hL⟩ | ⟨hc, hL⟩
              · exact Or.inl ⟨K, hK, GreatestLT_shift (by omega) hgap hL⟩
              · exact Or.inr ⟨hc, GreatestLT_shift (by omega) hgap hL⟩
            | false =>
              left
              refine ⟨wk, ?_, ?_⟩
              · have hst : TI.posMax (f + 1) ⟨⟨sxs, some (sl, sk, sr)⟩, ⟨wxs, some (wl, (wk, false), wr)⟩, eq, cur, .bwd⟩ =
                    ⟨⟨sxs, some (sl, sk, sr)⟩, ⟨wxs, some (wl, (wk, false), wr)⟩, false, .ws, .bwd⟩ := by
                  simp [TI.posMax, Cur.valid, TI.snapKey, TI.wsKey, TI.wsTomb, Cur.cur?, hlt, hgt]
                rw [hst]
                exact {
                  sxs := rfl, wxs := rfl, dir := rfl
                  ssplit := ⟨hsxs, fun a ha => by have := hsr a ha; simp only [id]; omega, by simp only [id]; omega⟩
                  wsplit := ⟨hwxs, fun a ha => by have := hw2 a ha; omega, Nat.lt_succ_self _⟩
                  key := by simp [TI.key, Cur.cur?]
                  curSnap := by intro h; cases h
                  curWs := by
                    intro _
                    refine ⟨⟨false, by simp [Cur.cur?]⟩, ?_⟩
                    simp [Cur.cur?]; omega
                  wsBehind := by intro h; cases h
                  curSome := by simp }
              · refine ⟨Or.inr hwmem, hwx, ?_⟩
                intro k hk hx
                rcases hk with ⟨hk, _⟩ | hk
                · have := hSle k hk hx; omega
                · rcases hWle (k, false) hk hx with h | h
                  · cases h; exact Nat.le_refl _
                  · simp at h; omega
          · -- equal keys
            have heq : sk = wk := by omega
            subst heq
            cases tb with
            | true =>
              have hstep : TI.posMax (f + 1) ⟨⟨sxs, some (sl, sk, sr)⟩, ⟨wxs, some (wl, (sk, true), wr)⟩, eq, cur, .bwd⟩ =
                  TI.posMax f ⟨Cur.prev ⟨sxs, some (sl, sk, sr)⟩, Cur.prev ⟨wxs, some (wl, (sk, true), wr)⟩, eq, cur, .bwd⟩ := by
                simp [TI.posMax, Cur.valid, TI.snapKey, TI.wsKey, TI.wsTomb, Cur.cur?]
              rw [hstep]
              have hprevW := BSplit_prev hW (show BSplit Prod.fst wxs Y (some (wl, (sk, true), wr)) from ⟨hwxs, hwr, hwx⟩)
              have hprevS := BSplit_prev hS (show BSplit id sxs Y (some (sl, sk, sr)) from ⟨hsxs, hsr, hsx⟩)
              have hrem : wsBefore (Cur.prev ⟨wxs, some (wl, (sk, true), wr)⟩) < f := by
                simp only [wsBefore] at hfuel
                cases wl with
                | nil => simp [Cur.prev, wsBefore]; omega
                | cons y l' => simp [Cur.prev, wsBefore] at hfuel ⊢; omega
              have hres := ih ⟨Cur.prev ⟨sxs, some (sl, sk, sr)⟩, Cur.prev ⟨wxs, some (wl, (sk, true), wr)⟩, eq, cur, .bwd⟩ sk
                (by cases sl <;> rfl) (by cases wl <;> rfl) rfl hprevS hprevW hrem
              have hgap : ∀ k, Live sxs wxs k → k < Y → k < sk := by
                intro k hk hx
                rcases hk with ⟨hk, hnw⟩ | hk
                · have h1 := hSle k hk hx
                  have h2 : k ≠ sk := fun h => hnw (sk, true) hwmem (by simp [h])
                  omega
                · rcases hWle (k, false) hk hx with h | h
                  · cases h
                  · simpa using h
              rcases hres with ⟨K, hK, hL⟩ | ⟨hc, hL⟩
              · exact Or.inl ⟨K, hK, GreatestLT_shift (by omega) hgap hL⟩
              · exact Or.inr ⟨hc, GreatestLT_shift (by omega) hgap hL⟩
            | false =>
              left
              refine ⟨sk, ?_, ?_⟩
              · have hst : TI.posMax (f + 1) ⟨⟨sxs, some (sl, sk, sr)⟩, ⟨wxs, some (wl, (sk, false), wr)⟩, eq, cur, .bwd⟩ =
                    ⟨⟨sxs, some (sl, sk, sr)⟩, ⟨wxs, some (wl, (sk, false), wr)⟩, true, .ws, .bwd⟩ := by
                  simp [TI.posMax, Cur.valid, TI.snapKey, TI.wsKey, TI.wsTomb, Cur.cur?]
                rw [hst]
                exact {
                  sxs := rfl, wxs := rfl, dir := rfl
                  ssplit := ⟨hsxs, fun a ha => by have := hs2 a ha; simp only [id]; omega, Nat.lt_succ_self _⟩
                  wsplit := ⟨hwxs, fun a ha => by have := hw2 a ha; omega, Nat.lt_succ_self _⟩
                  key := by simp [TI.key, Cur.cur?]
                  curSnap := by intro h; cases h
                  curWs := by
                    intro _
                    exact ⟨⟨false, by simp [Cur.cur?]⟩, by simp [Cur.cur?]⟩
                  wsBehind := by intro h; cases h
                  curSome := by simp }
              · refine ⟨Or.inr hwmem, hwx, ?_⟩
                intro k hk hx
                rcases hk with ⟨hk, _⟩ | hk
                · exact hSle k hk hx
                · rcases hWle (k, false) hk hx with h | h
                  · cases h; exact Nat.le_refl _
                  · simp at h; omega

/-! ## backward step -/

theorem At_BSplit {key : α → Nat} {xs : List α} {k : Nat} {pos : Option (List α × α × List α)}
    (hs : SortedBy key xs) (h : At key xs k pos) : BSplit key xs (k + 1) pos := by
  obtain ⟨l, x, r, rfl, hk, hxs⟩ := h
  obtain ⟨_, h2, _, _⟩ := sorted_split hs hxs
  exact ⟨hxs, fun a ha => by have := h2 a ha; omega, by omega⟩

theorem At_prev {key : α → Nat} {xs : List α} {k : Nat} {pos : Option (List α × α × List α)}
    (hs : SortedBy key xs) (h : At key xs k pos) : BSplit key xs k (Cur.prev ⟨xs, pos⟩).pos := by
  have hf := At_BSplit hs h
  obtain ⟨l, x, r, rfl, hk, hxs⟩ := h
  subst hk
  exact BSplit_prev hs hf

theorem At_of_BSplit {key : α → Nat} {xs : List α} {Y : Nat} {l : List α} {x : α} {r : List α}
    (h : BSplit key xs Y (some (l, x, r))) : At key xs (key x) (some (l, x, r)) :=
  ⟨l, x, r, rfl, rfl, h.1⟩

theorem wsBefore_le {W : List (Nat × Bool)} {Y : Nat} (c : Cur (Nat × Bool))
    (h : BSplit Prod.fst W Y c.pos) : wsBefore c ≤ W.length := by
  unfold wsBefore
  cases hp : c.pos with
  | none => simp
  | some z =>
    obtain ⟨l, x, r⟩ := z
    rw [hp] at h
    have := congrArg List.length h.1
    simp at this ⊢; omega

structure MidBwd (S : List Nat) (W : List (Nat × Bool)) (t : TI) (K : Nat) : Prop where
  sxs : t.snap.xs = S
  wxs : t.ws.xs = W
  dir : t.dir = .bwd
  curSome : t.cur ≠ .none
  curSnap : t.cur = .snap → t.eq = false ∧ At id S K t.snap.pos ∧ BSplit Prod.fst W K t.ws.pos
  curWs : t.cur = .ws → At Prod.fst W K t.ws.pos ∧
    (t.eq = true → At id S K t.snap.pos) ∧ (t.eq = false → BSplit id S K t.snap.pos)

theorem BwdState.mid {S : List Nat} {W : List (Nat × Bool)} {t : TI} {K : Nat} (h : BwdState S W t K) :
    MidBwd S W t K := by
  obtain ⟨⟨sxs, spos⟩, ⟨wxs, wpos⟩, eq, cur, dir⟩ := t
  obtain ⟨hsx, hwx, hdir, hss, hws, hkey, hcs, hcw, hwa, hcn⟩ := h
  simp only at hsx hwx hdir hss hws hcs hcw hwa hcn
  refine ⟨hsx, hwx, hdir, hcn, ?_, ?_⟩
  · intro hc
    obtain ⟨h1, h2⟩ := hcs hc
    have hwa' := hwa hc
    refine ⟨h2, ?_, ?_⟩
    · cases spos with
      | none => simp [Cur.cur?] at h1
      | some z =>
        obtain ⟨l, x, r⟩ := z
        simp [Cur.cur?] at h1
        subst h1
        exact At_of_BSplit (key := id) hss
    · cases wpos with
      | none => exact BSplit_none_mono hws (by omega)
      | some z =>
        obtain ⟨l, e, r⟩ := z
        have := hwa' e (by simp [Cur.cur?])
        exact BSplit_mono hws (by omega) (by omega)
  · intro hc
    obtain ⟨⟨v, h1⟩, h2⟩ := hcw hc
    refine ⟨?_, ?_, ?_⟩
    · cases wpos with
      | none => simp [Cur.cur?] at h1
      | some z =>
        obtain ⟨l, e, r⟩ := z
        simp [Cur.cur?] at h1
        subst h1
        exact At_of_BSplit (key := Prod.fst) hws
    · intro he
      have h3 := h2.mp he
      cases spos with
      | none => simp [Cur.cur?] at h3
      | some z =>
        obtain ⟨l, x, r⟩ := z
        simp [Cur.cur?] at h3
        subst h3
        exact At_of_BSplit (key := id) hss
    · intro he
      have h3 : ¬ (Cur.cur? ⟨sxs, spos⟩ = some K) := fun hh => by
        have h4 := h2.mpr hh
        simp only at he
        rw [he] at h4; cases h4
      cases spos with
      | none => exact BSplit_none_mono hss (by omega)
      | some z =>
        obtain ⟨l, x, r⟩ := z
        have hx : x ≠ K := fun hh => h3 (by simp [Cur.cur?, hh])
        have hle : x < K + 1 := hss.2.2
        exact BSplit_mono hss (by omega) (by simp only [id]; omega)

/-- **backward step**: from a state whose current key is `K`, `stepBwd` lands on the greatest live key below `K` -/
theorem stepBwd_spec (S : List Nat) (W : List (Nat × Bool)) (hS : SortedBy id S) (hW : SortedBy Prod.fst W)
    (t : TI) (K : Nat) (h : MidBwd S W t K) :
    (∃ K', BwdState S W t.stepBwd K' ∧ GreatestLT S W K (some K')) ∨
    (t.stepBwd.cur = .none ∧ GreatestLT S W K none) := by
  obtain ⟨⟨sxs, spos⟩, ⟨wxs, wpos⟩, eq, cur, dir⟩ := t
  obtain ⟨hsx, hwx, hdir, hcn, hcs, hcw⟩ := h
  simp only at hsx hwx hdir hcn hcs hcw
  subst hsx hwx hdir
  cases cur with
  | none => exact absurd rfl hcn
  | snap =>
    obtain ⟨he, hat, hwf⟩ := hcs rfl
    subst he
    have hst : TI.stepBwd ⟨⟨sxs, spos⟩, ⟨wxs, wpos⟩, false, .snap, .bwd⟩ =
        TI.posMax (wxs.length + 1) ⟨Cur.prev ⟨sxs, spos⟩, ⟨wxs, wpos⟩, false, .snap, .bwd⟩ := by
      simp [TI.stepBwd, TI.fuel]
    rw [hst]
    apply posMax_spec sxs wxs hS hW
    · exact Cur.prev_xs _
    · rfl
    · rfl
    · exact At_prev hS hat
    · exact hwf
    · exact Nat.lt_succ_of_le (wsBefore_le _ hwf)
  | ws =>
    obtain ⟨hat, he1, he2⟩ := hcw rfl
    cases eq with
    | true =>
      have hst : TI.stepBwd ⟨⟨sxs, spos⟩, ⟨wxs, wpos⟩, true, .ws, .bwd⟩ =
          TI.posMax (wxs.length + 1) ⟨Cur.prev ⟨sxs, spos⟩, Cur.prev ⟨wxs, wpos⟩, false, .ws, .bwd⟩ := by
        simp [TI.stepBwd, TI.fuel]
      rw [hst]
      have hwn := At_prev hW hat
      apply posMax_spec sxs wxs hS hW
      · exact Cur.prev_xs _
      · exact Cur.prev_xs _
      · rfl
      · exact At_prev hS (he1 rfl)
      · exact hwn
      · exact Nat.lt_succ_of_le (wsBefore_le _ hwn)
    | false =>
      have hst : TI.stepBwd ⟨⟨sxs, spos⟩, ⟨wxs, wpos⟩, false, .ws, .bwd⟩ =
          TI.posMax (wxs.length + 1) ⟨⟨sxs, spos⟩, Cur.prev ⟨wxs, wpos⟩, false, .ws, .bwd⟩ := by
        simp [TI.stepBwd, TI.fuel]
      rw [hst]
      have hwn := At_prev hW hat
      apply posMax_spec sxs wxs hS hW
      · rfl
      · exact Cur.prev_xs _
      · rfl
      · exact he2 rfl
      · exact hwn
      · exact Nat.lt_succ_of_le (wsBefore_le _ hwn)
